/-
C18 — light-node licences: escrow, creation, activation, vesting, attested sales.
Model: `Model/LightNode.lean`.  The property quantifies over histories: the main statements are about
`run State.init ops` for ALL `ops` (all amounts, denominations, vesting months, signers, funder balance
situations, accepted and rejected operations), proved by invariants (`Inv`), by `run_origin` ("the step of
the history that established a fact, and the fact held ever since": `Along`) and by induction over `ops`.
Ghost/abstract data is tied to the history: `gifts` = Σ accepted gift ops (`giftLog`), a stored licence =
the `Issued` purchase in the history, a fee grant = the grant message / sale that wrote it, the end of the
vesting period = `addMonths now l.months` computed from the stored licence (Go's `AddDate`).
-/
import PalomaModel.Model.LightNode

set_option linter.unusedSimpArgs false

namespace Paloma.LightNode

/-! ## helper lemmas -/
section Lemmas

/-! ### vesting arithmetic (half-even rounding at 18 decimals) -/
theorem roundHE_bounds (n p : Nat) (hp : 0 < p) :
    2 * (roundHE n p * p) ≤ 2 * n + p ∧ 2 * n ≤ 2 * (roundHE n p * p) + p := by
  have hdm := Nat.div_add_mod n p
  have hlt := Nat.mod_lt n hp
  have hc : n / p * p = p * (n / p) := Nat.mul_comm _ _
  unfold roundHE
  split
  · rw [hc]; omega
  · split
    · rw [Nat.add_mul, hc]; omega
    · split
      · rw [hc]; omega
      · rw [Nat.add_mul, hc]; omega

theorem roundHE_mul (k p : Nat) (hp : 0 < p) : roundHE (k * p) p = k := by
  unfold roundHE
  simp [Nat.mul_mod_left, Nat.mul_div_cancel _ hp, hp]

theorem roundHE_le_succ (n p : Nat) : roundHE n p ≤ n / p + 1 := by
  unfold roundHE; repeat' split
  all_goals omega

theorem roundHE_ge (n p : Nat) : n / p ≤ roundHE n p := by
  unfold roundHE; repeat' split
  all_goals omega

theorem roundHE_mono (n m p : Nat) (_hp : 0 < p) (h : n ≤ m) : roundHE n p ≤ roundHE m p := by
  have hd : n / p ≤ m / p := Nat.div_le_div_right h
  rcases Nat.lt_or_eq_of_le hd with hlt | heq
  · calc roundHE n p ≤ n / p + 1 := roundHE_le_succ n p
      _ ≤ m / p := hlt
      _ ≤ roundHE m p := roundHE_ge m p
  · have h1 := Nat.div_add_mod n p
    have h2 := Nat.div_add_mod m p
    have hr : n % p ≤ m % p := by
      rw [heq] at h1
      omega
    unfold roundHE
    rw [heq]
    repeat' split
    all_goals omega


theorem prec_pos : 0 < prec := by decide

theorem scalar_le (x y : Nat) (hxy : x ≤ y) (_hy : 0 < y) :
    roundHE (x * (prec * prec) / y) prec ≤ prec := by
  have h1 : x * (prec * prec) / y ≤ prec * prec := by
    apply Nat.div_le_of_le_mul
    exact Nat.mul_le_mul_right _ hxy
  calc roundHE (x * (prec * prec) / y) prec ≤ roundHE (prec * prec) prec := roundHE_mono _ _ _ prec_pos h1
    _ = prec := roundHE_mul prec prec prec_pos

theorem vestedAt_le (orig start stop t : Nat) : vestedAt orig start stop t ≤ orig := by
  unfold vestedAt
  split
  · omega
  · split
    · omega
    · rename_i h1 h2
      have hs := scalar_le (t - start) (stop - start) (by omega) (by omega)
      calc roundHE (orig * roundHE ((t - start) * (prec * prec) / (stop - start)) prec) prec
          ≤ roundHE (orig * prec) prec := roundHE_mono _ _ _ prec_pos (Nat.mul_le_mul_left _ hs)
        _ = orig := roundHE_mul orig prec prec_pos

theorem vestedAt_mono (orig start stop t1 t2 : Nat) (h : t1 ≤ t2) :
    vestedAt orig start stop t1 ≤ vestedAt orig start stop t2 := by
  by_cases h1 : t1 ≤ start
  · simp [vestedAt, h1]
  · by_cases h2 : stop ≤ t2
    · have : vestedAt orig start stop t2 = orig := by
        unfold vestedAt; rw [if_neg (by omega), if_pos h2]
      rw [this]; exact vestedAt_le _ _ _ _
    · unfold vestedAt
      rw [if_neg h1, if_neg (by omega), if_neg (by omega), if_neg h2]
      apply roundHE_mono _ _ _ prec_pos
      apply Nat.mul_le_mul_left
      apply roundHE_mono _ _ _ prec_pos
      apply Nat.div_le_div_right
      apply Nat.mul_le_mul_right
      omega

private theorem lin_up (v orig S A P x y r : Nat)
    (hb1 : 2 * (S * P) ≤ 2 * A + P)
    (hb2 : 2 * (v * P) ≤ 2 * (orig * S) + P)
    (hdm : y * A + r = x * (P * P)) :
    2 * (v * (P * P * y)) ≤ 2 * (orig * x * (P * P)) + (P * P * y + orig * P * y) := by
  have k1 := Nat.mul_le_mul_right (P * y) hb2
  have k2 := Nat.mul_le_mul_right (orig * y) hb1
  have k3 : orig * (y * A) ≤ orig * (x * (P * P)) := Nat.mul_le_mul_left _ (by omega)
  grind

private theorem lin_lo (v orig S A P x y r : Nat)
    (hb1 : 2 * A ≤ 2 * (S * P) + P)
    (hb2 : 2 * (orig * S) ≤ 2 * (v * P) + P)
    (hdm : y * A + r = x * (P * P)) (hml : r < y) :
    2 * (orig * x * (P * P)) ≤ 2 * (v * (P * P * y)) + (P * P * y + orig * P * y + 2 * orig * y) := by
  have k1 := Nat.mul_le_mul_right (P * y) hb2
  have k2 := Nat.mul_le_mul_right (orig * y) hb1
  have k3 : orig * (x * (P * P)) ≤ orig * (y * A + y) := Nat.mul_le_mul_left _ (by omega)
  grind

/-- the vested amount is within `1/2 + orig/(2·10^18) + orig/10^36` of the straight line `orig·x/y` -/
theorem vestedAt_linear (orig start stop t : Nat) (h1 : start < t) (h2 : t < stop) :
    let x := t - start
    let y := stop - start
    let v := vestedAt orig start stop t
    2 * (v * (prec * prec * y)) ≤ 2 * (orig * x * (prec * prec)) + (prec * prec * y + orig * prec * y) ∧
    2 * (orig * x * (prec * prec)) ≤ 2 * (v * (prec * prec * y)) + (prec * prec * y + orig * prec * y + 2 * orig * y) := by
  intro x y v
  have hy : 0 < y := by omega
  have hv : v = roundHE (orig * roundHE (x * (prec * prec) / y) prec) prec := by
    show vestedAt orig start stop t = _
    unfold vestedAt; rw [if_neg (by omega), if_neg (by omega)]
  generalize hA : x * (prec * prec) / y = A at hv
  generalize hS : roundHE A prec = S at hv
  have hb1 := roundHE_bounds A prec prec_pos
  rw [hS] at hb1
  have hb2 := roundHE_bounds (orig * S) prec prec_pos
  rw [← hv] at hb2
  -- A·y ≤ x·P² < A·y + y
  have hdm := Nat.div_add_mod (x * (prec * prec)) y
  have hml := Nat.mod_lt (x * (prec * prec)) hy
  rw [hA] at hdm
  exact ⟨lin_up v orig S A prec x y _ hb1.1 hb2.1 hdm, lin_lo v orig S A prec x y _ hb1.2 hb2.2 hdm hml⟩

/-! ### calendar arithmetic: `addMonths` (Go's `AddDate(0, months, 0)`) -/

theorem isLeap_iff (y : Nat) : isLeap y = true ↔ (y % 4 = 0 ∧ (y % 100 ≠ 0 ∨ y % 400 = 0)) := by
  simp [isLeap]

private theorem c4 (y : Nat) : (y + 1 + 3) / 4 = (y + 3) / 4 + (if y % 4 = 0 then 1 else 0) := by split <;> omega
private theorem c100 (y : Nat) : (y + 1 + 99) / 100 = (y + 99) / 100 + (if y % 100 = 0 then 1 else 0) := by split <;> omega
private theorem c400 (y : Nat) : (y + 1 + 399) / 400 = (y + 399) / 400 + (if y % 400 = 0 then 1 else 0) := by split <;> omega
private theorem m100_4 (y : Nat) (h : y % 100 = 0) : y % 4 = 0 := by omega
private theorem m400_100 (y : Nat) (h : y % 400 = 0) : y % 100 = 0 := by omega
private theorem c100_le (y : Nat) : (y + 99) / 100 ≤ (y + 3) / 4 := by omega

/-- a year has 365 days, a leap year 366 -/
theorem daysBeforeYear_succ (y : Nat) :
    daysBeforeYear (y + 1) = daysBeforeYear y + 365 + (if isLeap y = true then 1 else 0) := by
  unfold daysBeforeYear
  rw [c4, c100, c400]
  simp only [isLeap_iff]
  have := c100_le y
  generalize (y + 3) / 4 = a at *
  generalize (y + 99) / 100 = b at *
  generalize (y + 399) / 400 = c at *
  by_cases h400 : y % 400 = 0
  · have h100 := m400_100 y h400
    have h4 := m100_4 y h100
    simp only [h400, h100, h4, if_true, true_and, or_true]
    omega
  · by_cases h100 : y % 100 = 0
    · have h4 := m100_4 y h100
      simp only [h400, h100, h4, if_true, if_false, true_and, or_false, not_true, ne_eq]
      omega
    · by_cases h4 : y % 4 = 0
      · simp only [h400, h100, h4, if_true, if_false, true_and, or_false, not_false_eq_true, ne_eq]
        omega
      · simp only [h400, h100, h4, if_false, false_and]
        omega

private theorem dBY_lo (z y : Nat) (h : 146097 * (y + 1) ≤ 400 * z) : daysBeforeYear y ≤ z := by
  unfold daysBeforeYear; omega

private theorem dBY_hi (z y : Nat) (h : 400 * z < 146097 * y) : z < daysBeforeYear (y + 1) := by
  unfold daysBeforeYear; omega

/-- `yearOf z` IS the civil year of day `z`: the year whose first day is at or before `z` and whose successor's
first day is after `z` -/
theorem yearOf_spec (z : Nat) : daysBeforeYear (yearOf z) ≤ z ∧ z < daysBeforeYear (yearOf z + 1) := by
  unfold yearOf
  generalize hy : z * 400 / 146097 = y
  have h1 : 146097 * y ≤ 400 * z := by omega
  have h2 : 400 * z < 146097 * (y + 1) := by omega
  split
  · rename_i h
    cases y with
    | zero => simp [daysBeforeYear] at h
    | succ y' =>
      simp only [Nat.add_sub_cancel]
      exact ⟨dBY_lo z y' h1, h⟩
  · split
    · rename_i h
      exact ⟨h, dBY_hi z (y + 1) h2⟩
    · constructor <;> omega

def leapDay (y : Nat) : Nat := if isLeap y = true then 1 else 0

theorem leapDay_le (y : Nat) : leapDay y ≤ 1 := by unfold leapDay; split <;> omega

/-- the month table: 31 28/29 31 30 31 30 31 31 30 31 30 31 -/
theorem daysBeforeMonth_vals (y : Nat) :
    daysBeforeMonth y 1 = 0 ∧ daysBeforeMonth y 2 = 31 ∧ daysBeforeMonth y 3 = 59 + leapDay y ∧
    daysBeforeMonth y 4 = 90 + leapDay y ∧ daysBeforeMonth y 5 = 120 + leapDay y ∧ daysBeforeMonth y 6 = 151 + leapDay y ∧
    daysBeforeMonth y 7 = 181 + leapDay y ∧ daysBeforeMonth y 8 = 212 + leapDay y ∧ daysBeforeMonth y 9 = 243 + leapDay y ∧
    daysBeforeMonth y 10 = 273 + leapDay y ∧ daysBeforeMonth y 11 = 304 + leapDay y ∧ daysBeforeMonth y 12 = 334 + leapDay y ∧
    daysBeforeMonth y 13 = 365 + leapDay y := by
  unfold daysBeforeMonth leapDay
  cases isLeap y <;> decide

private theorem dBM_step (y i : Nat) (hi : i < 11) :
    daysBeforeMonth y (i + 1) + 28 ≤ daysBeforeMonth y (i + 2) ∧ daysBeforeMonth y (i + 2) ≤ daysBeforeMonth y (i + 1) + 31 := by
  obtain ⟨h1, h2, h3, h4, h5, h6, h7, h8, h9, h10, h11, h12, h13⟩ := daysBeforeMonth_vals y
  have hl := leapDay_le y
  have : i = 0 ∨ i = 1 ∨ i = 2 ∨ i = 3 ∨ i = 4 ∨ i = 5 ∨ i = 6 ∨ i = 7 ∨ i = 8 ∨ i = 9 ∨ i = 10 := by omega
  rcases this with h | h | h | h | h | h | h | h | h | h | h <;> subst h <;>
    simp only [Nat.zero_add, Nat.reduceAdd, h1, h2, h3, h4, h5, h6, h7, h8, h9, h10, h11, h12] <;> omega

/-- every calendar month has between 28 and 31 days -/
theorem monthStart_step (n : Nat) : monthStart n + 28 ≤ monthStart (n + 1) ∧ monthStart (n + 1) ≤ monthStart n + 31 := by
  unfold monthStart
  by_cases h11 : n % 12 = 11
  · have e1 : (n + 1) / 12 = n / 12 + 1 := by omega
    have e2 : (n + 1) % 12 = 0 := by omega
    rw [e1, e2, h11, daysBeforeYear_succ]
    have hl := daysBeforeMonth_vals (n / 12)
    have hl' := daysBeforeMonth_vals (n / 12 + 1)
    simp only [Nat.zero_add, Nat.reduceAdd, hl.2.2.2.2.2.2.2.2.2.2.2.1, hl'.1]
    unfold leapDay
    omega
  · have e1 : (n + 1) / 12 = n / 12 := by omega
    have e2 : (n + 1) % 12 = n % 12 + 1 := by omega
    rw [e1, e2]
    have := dBM_step (n / 12) (n % 12) (by omega)
    simp only [Nat.add_assoc, Nat.reduceAdd] at this ⊢
    omega

theorem monthStart_add (n k : Nat) :
    monthStart n + 28 * k ≤ monthStart (n + k) ∧ monthStart (n + k) ≤ monthStart n + 31 * k := by
  induction k with
  | zero => simp
  | succ k ih =>
    have := monthStart_step (n + k)
    rw [show n + (k + 1) = n + k + 1 from rfl]
    omega

/-- `monthOf y doy` IS the civil month of the `doy`-th day of year `y` -/
theorem monthOf_spec (y doy : Nat) :
    1 ≤ monthOf y doy ∧ monthOf y doy ≤ 12 ∧ daysBeforeMonth y (monthOf y doy) ≤ doy ∧
    (doy < daysBeforeYear (y + 1) - daysBeforeYear y → doy < daysBeforeMonth y (monthOf y doy + 1)) := by
  obtain ⟨h1, h2, h3, h4, h5, h6, h7, h8, h9, h10, h11, h12, h13⟩ := daysBeforeMonth_vals y
  have hs := daysBeforeYear_succ y
  rw [show (if isLeap y = true then 1 else 0) = leapDay y from rfl] at hs
  rw [hs]
  clear hs
  have hL := leapDay_le y
  generalize hm : monthOf y doy = m
  unfold monthOf at hm
  rw [h2, h3, h4, h5, h6, h7, h8, h9, h10, h11, h12] at hm
  by_cases c1 : doy < 31
  · rw [if_pos c1] at hm; subst hm; simp only [Nat.reduceAdd, h1, h2]; clear h1 h2 h3 h4 h5 h6 h7 h8 h9 h10 h11 h12 h13; omega
  rw [if_neg c1] at hm
  by_cases c2 : doy < 59 + leapDay y
  · rw [if_pos c2] at hm; subst hm; simp only [Nat.reduceAdd, h2, h3]; clear h1 h2 h3 h4 h5 h6 h7 h8 h9 h10 h11 h12 h13; omega
  rw [if_neg c2] at hm
  by_cases c3 : doy < 90 + leapDay y
  · rw [if_pos c3] at hm; subst hm; simp only [Nat.reduceAdd, h3, h4]; clear h1 h2 h3 h4 h5 h6 h7 h8 h9 h10 h11 h12 h13; omega
  rw [if_neg c3] at hm
  by_cases c4 : doy < 120 + leapDay y
  · rw [if_pos c4] at hm; subst hm; simp only [Nat.reduceAdd, h4, h5]; clear h1 h2 h3 h4 h5 h6 h7 h8 h9 h10 h11 h12 h13; omega
  rw [if_neg c4] at hm
  by_cases c5 : doy < 151 + leapDay y
  · rw [if_pos c5] at hm; subst hm; simp only [Nat.reduceAdd, h5, h6]; clear h1 h2 h3 h4 h5 h6 h7 h8 h9 h10 h11 h12 h13; omega
  rw [if_neg c5] at hm
  by_cases c6 : doy < 181 + leapDay y
  · rw [if_pos c6] at hm; subst hm; simp only [Nat.reduceAdd, h6, h7]; clear h1 h2 h3 h4 h5 h6 h7 h8 h9 h10 h11 h12 h13; omega
  rw [if_neg c6] at hm
  by_cases c7 : doy < 212 + leapDay y
  · rw [if_pos c7] at hm; subst hm; simp only [Nat.reduceAdd, h7, h8]; clear h1 h2 h3 h4 h5 h6 h7 h8 h9 h10 h11 h12 h13; omega
  rw [if_neg c7] at hm
  by_cases c8 : doy < 243 + leapDay y
  · rw [if_pos c8] at hm; subst hm; simp only [Nat.reduceAdd, h8, h9]; clear h1 h2 h3 h4 h5 h6 h7 h8 h9 h10 h11 h12 h13; omega
  rw [if_neg c8] at hm
  by_cases c9 : doy < 273 + leapDay y
  · rw [if_pos c9] at hm; subst hm; simp only [Nat.reduceAdd, h9, h10]; clear h1 h2 h3 h4 h5 h6 h7 h8 h9 h10 h11 h12 h13; omega
  rw [if_neg c9] at hm
  by_cases c10 : doy < 304 + leapDay y
  · rw [if_pos c10] at hm; subst hm; simp only [Nat.reduceAdd, h10, h11]; clear h1 h2 h3 h4 h5 h6 h7 h8 h9 h10 h11 h12 h13; omega
  rw [if_neg c10] at hm
  by_cases c11 : doy < 334 + leapDay y
  · rw [if_pos c11] at hm; subst hm; simp only [Nat.reduceAdd, h11, h12]; clear h1 h2 h3 h4 h5 h6 h7 h8 h9 h10 h11 h12 h13; omega
  rw [if_neg c11] at hm
  subst hm; simp only [Nat.reduceAdd, h12, h13]; clear h1 h2 h3 h4 h5 h6 h7 h8 h9 h10 h11 h12 h13; omega

theorem monthStart_monthIdxAt (t : Nat) :
    monthStart (monthIdxAt t) = daysBeforeYear (yearAt t) + daysBeforeMonth (yearAt t) (monthAt t) := by
  have hm := monthOf_spec (yearAt t) (dayNo t - daysBeforeYear (yearAt t))
  have hm1 : 1 ≤ monthAt t := hm.1
  have hm2 : monthAt t ≤ 12 := hm.2.1
  unfold monthStart monthIdxAt
  have e1 : (12 * yearAt t + (monthAt t - 1)) / 12 = yearAt t := by omega
  have e2 : (12 * yearAt t + (monthAt t - 1)) % 12 + 1 = monthAt t := by omega
  rw [e1, e2]

/-- year, month and day of the month computed for a time give back its day number -/
theorem civil_roundtrip (t : Nat) : monthStart (monthIdxAt t) + domAt t = dayNo t := by
  rw [monthStart_monthIdxAt]
  have hy : daysBeforeYear (yearAt t) ≤ dayNo t := (yearOf_spec (dayNo t)).1
  have hm : daysBeforeMonth (yearAt t) (monthAt t) ≤ dayNo t - daysBeforeYear (yearAt t) :=
    (monthOf_spec (yearAt t) (dayNo t - daysBeforeYear (yearAt t))).2.2.1
  unfold domAt
  omega

/-- adding `k` months moves a time forward by the length of the `k` calendar months that start with its own -/
theorem addMonths_eq_shift (t k : Nat) :
    addMonths t k = t + (monthStart (monthIdxAt t + k) - monthStart (monthIdxAt t)) * daySecs := by
  have rt := civil_roundtrip t
  have ms := monthStart_add (monthIdxAt t) k
  have hd : dayNo t = t / 86400 + 719528 := rfl
  have hdm := Nat.div_add_mod t 86400
  unfold addMonths
  simp only [daySecs, epochDays]
  generalize monthStart (monthIdxAt t + k) = A at *
  generalize monthStart (monthIdxAt t) = B at *
  generalize domAt t = D at *
  have e : A + D - 719528 = t / 86400 + (A - B) := by omega
  rw [e, Nat.add_mul]
  omega

theorem addMonths_zero (t : Nat) : addMonths t 0 = t := by
  rw [addMonths_eq_shift, Nat.add_zero, Nat.sub_self, Nat.zero_mul, Nat.add_zero]

/-- `k` months are at least `28·k` and at most `31·k` days -/
theorem addMonths_bounds (t k : Nat) :
    t + 28 * 86400 * k ≤ addMonths t k ∧ addMonths t k ≤ t + 31 * 86400 * k := by
  have ms := monthStart_add (monthIdxAt t) k
  rw [addMonths_eq_shift]
  simp only [daySecs]
  generalize monthStart (monthIdxAt t + k) = A at *
  generalize monthStart (monthIdxAt t) = B at *
  omega

/-! ### the licence table -/
theorem sumLic_append (d : Denom) (l : List (AddrStr × Lic)) (x : AddrStr × Lic) :
    sumLic d (l ++ [x]) = sumLic d l + (if x.2.denom = d then x.2.amount else 0) := by
  induction l with
  | nil => simp [sumLic]
  | cons h t ih => obtain ⟨k, v⟩ := h; simp [sumLic, ih]; omega

theorem lookupLic_append (l : List (AddrStr × Lic)) (c : AddrStr) (v : Lic) (a : AddrStr) :
    lookupLic (l ++ [(c, v)]) a =
      match lookupLic l a with
      | some x => some x
      | none => if c = a then some v else none := by
  induction l with
  | nil => simp [lookupLic]
  | cons h t ih =>
    obtain ⟨k, w⟩ := h
    simp only [List.cons_append, lookupLic]
    split
    · rfl
    · exact ih

theorem sumLic_erase (d : Denom) (l : List (AddrStr × Lic)) (a : AddrStr) (v : Lic)
    (h : lookupLic l a = some v) :
    sumLic d (eraseLic l a) + (if v.denom = d then v.amount else 0) = sumLic d l := by
  induction l with
  | nil => simp [lookupLic] at h
  | cons hd t ih =>
    obtain ⟨k, w⟩ := hd
    simp only [lookupLic] at h
    simp only [eraseLic]
    split at h
    · rename_i hk
      simp only [Option.some.injEq] at h
      subst h
      simp [hk, sumLic]; omega
    · rename_i hk
      simp [hk, sumLic]
      have := ih h
      omega

theorem lookupLic_erase_ne (l : List (AddrStr × Lic)) (a b : AddrStr) (h : a ≠ b) :
    lookupLic (eraseLic l a) b = lookupLic l b := by
  induction l with
  | nil => rfl
  | cons hd t ih =>
    obtain ⟨k, w⟩ := hd
    simp only [eraseLic]
    split
    · rename_i hk
      subst hk
      simp [lookupLic, h]
    · simp [lookupLic, ih]

theorem lookupLic_erase_none (l : List (AddrStr × Lic)) (a b : AddrStr) (h : lookupLic l b = none) :
    lookupLic (eraseLic l a) b = none := by
  induction l with
  | nil => rfl
  | cons hd t ih =>
    obtain ⟨k, w⟩ := hd
    simp only [lookupLic] at h
    split at h
    · simp at h
    · rename_i hk
      simp only [eraseLic]
      split
      · exact h
      · simp [lookupLic, hk, ih h]

/-- no two entries of the licence table share a key -/
def keysNodup : List (AddrStr × Lic) → Prop
  | [] => True
  | (k, _) :: rest => lookupLic rest k = none ∧ keysNodup rest

theorem lookupLic_erase_self (l : List (AddrStr × Lic)) (a : AddrStr) (h : keysNodup l) :
    lookupLic (eraseLic l a) a = none := by
  induction l with
  | nil => rfl
  | cons hd t ih =>
    obtain ⟨k, w⟩ := hd
    simp only [keysNodup] at h
    simp only [eraseLic]
    split
    · rename_i hk; subst hk; exact h.1
    · rename_i hk; simp [lookupLic, hk, ih h.2]

theorem keysNodup_append (l : List (AddrStr × Lic)) (c : AddrStr) (v : Lic) (h : keysNodup l)
    (hc : lookupLic l c = none) : keysNodup (l ++ [(c, v)]) := by
  induction l with
  | nil => simp [keysNodup, lookupLic]
  | cons hd t ih =>
    obtain ⟨k, w⟩ := hd
    simp only [keysNodup] at h
    simp only [lookupLic] at hc
    split at hc
    · simp at hc
    · rename_i hk
      simp only [List.cons_append, keysNodup]
      refine ⟨?_, ih h.2 hc⟩
      rw [lookupLic_append, h.1]
      simp; intro h'; exact hk h'.symm

theorem keysNodup_erase (l : List (AddrStr × Lic)) (a : AddrStr) (h : keysNodup l) : keysNodup (eraseLic l a) := by
  induction l with
  | nil => trivial
  | cons hd t ih =>
    obtain ⟨k, w⟩ := hd
    simp only [keysNodup] at h
    simp only [eraseLic]
    split
    · exact h.2
    · exact ⟨lookupLic_erase_none _ _ _ h.1, ih h.2⟩

/-! ### shapes of the successful steps -/


/-- the state written by a successful `createLic` -/
def licState (s : State) (creator : Addr) (c : AddrStr) (n : Nat) (d : Denom) (months : Nat) : State :=
  { s with acct := updA s.acct c.addr .base, nacc := s.nacc + 1,
           bal := upd2 s.bal creator d (s.bal creator d - n),
           escrow := upd s.escrow d (s.escrow d + n),
           lics := s.lics ++ [(c, { amount := n, denom := d, months := months })] }

theorem createLic_some (s s' : State) (cr : Addr) (cl : Option AddrStr) (amt : Int) (d : Denom) (m now : Nat)
    (h : createLic s cr cl amt d m now = some s') :
    ∃ c, cl = some c ∧ 0 < amt ∧ denomValid d = true ∧ lookupLic s.lics c = none ∧ s.acct c.addr = .none ∧
      amt.toNat ≤ spendable s cr d now ∧ s' = licState s cr c amt.toNat d m := by
  unfold createLic at h
  split at h
  · simp at h
  · rename_i h1
    split at h
    · simp at h
    · rename_i c
      split at h
      · simp at h
      · rename_i h2
        split at h
        · simp at h
        · rename_i h3
          split at h
          · simp at h
          · rename_i h4
            split at h
            · simp at h
            · rename_i h5
              simp only [Option.some.injEq] at h
              have h1' : 0 ≤ amt ∧ denomValid d = true := by simpa using h1
              refine ⟨c, rfl, by omega, h1'.2, by simpa using h2, by simpa using h3, by omega, ?_⟩
              rw [← h]; rfl

theorem create_ok (s : State) (sg cr : Addr) (cl : Option AddrStr) (amt : Int) (d : Denom) (m now : Nat)
    (h : (create s sg cr cl amt d m now).2 = .ok) :
    authorised s sg cr = true ∧
    ∃ c, cl = some c ∧ 0 < amt ∧ denomValid d = true ∧ lookupLic s.lics c = none ∧ s.acct c.addr = .none ∧
      amt.toNat ≤ spendable s cr d now ∧ (create s sg cr cl amt d m now).1 = licState s cr c amt.toNat d m := by
  unfold create at h
  split at h
  · simp at h
  · rename_i ha
    split at h
    · simp at h
    · rename_i s' hs
      have ha' : authorised s sg cr = true := by simpa using ha
      refine ⟨ha', ?_⟩
      obtain ⟨c, h1, h2, h3, h4, h5, h6, h7⟩ := createLic_some _ _ _ _ _ _ _ _ hs
      refine ⟨c, h1, h2, h3, h4, h5, h6, ?_⟩
      simp [create, ha', hs, h7]

theorem create_rejected (s : State) (sg cr : Addr) (cl : Option AddrStr) (amt : Int) (d : Denom) (m now : Nat)
    (h : (create s sg cr cl amt d m now).2 = .rejected) : (create s sg cr cl amt d m now).1 = s := by
  unfold create at h ⊢
  split
  · rfl
  · split
    · rfl
    · rename_i h1 _ _ hs; simp [h1, hs] at h

theorem pickFunder_some (s : State) (amt : Int) (l : List Addr) (f : Addr) (h : pickFunder s amt l = some f) :
    f ∈ l ∧ amt ≤ (s.bal f bondDenom : Int) := by
  induction l with
  | nil => simp [pickFunder] at h
  | cons x t ih =>
    simp only [pickFunder] at h
    split at h
    · rename_i g hg
      simp only [Option.some.injEq] at h
      subst h
      exact ⟨List.mem_cons_of_mem _ (ih hg).1, (ih hg).2⟩
    · split at h
      · rename_i hb
        simp only [Option.some.injEq] at h
        subst h
        exact ⟨List.mem_cons_self, hb⟩
      · simp at h

theorem pickFunder_none (s : State) (amt : Int) (l : List Addr) (h : ∀ f ∈ l, (s.bal f bondDenom : Int) < amt) :
    pickFunder s amt l = none := by
  induction l with
  | nil => rfl
  | cons x t ih =>
    simp only [pickFunder]
    rw [ih (fun f hf => h f (List.mem_cons_of_mem _ hf))]
    have := h x List.mem_cons_self
    simp; omega

theorem sale_ok (s : State) (ch : Chain) (cl : Option AddrStr) (g : Int) (ct now : Nat) (h : (sale s ch cl g ct now).2 = .ok) :
    s.contracts ch = some ct ∧ 0 ≤ g ∧ g * (grain : Int) < (maxInt : Int) ∧
    ∃ fg fl f c, s.feegranter = some fg ∧ s.funders = some fl ∧ f ∈ fl ∧ g * (grain : Int) ≤ (s.bal f bondDenom : Int) ∧
      cl = some c ∧ 0 < g ∧ lookupLic s.lics c = none ∧ s.acct c.addr = .none ∧
      (g * (grain : Int)).toNat ≤ spendable s f bondDenom now ∧
      (fg, c.addr) ∉ s.grants ∧
      (sale s ch cl g ct now).1 =
        { licState s f c (g * (grain : Int)).toNat bondDenom saleMonths with grants := s.grants ++ [(fg, c.addr)] } := by
  unfold sale at h ⊢
  split at h
  · simp at h
  · rename_i h1
    split at h
    · simp at h
    · rename_i h2
      split at h
      · simp at h
      · rename_i h3
        split at h
        · simp at h
        · rename_i h4
          split at h
          · simp at h
          · rename_i fg hfg
            split at h
            · simp at h
            · rename_i h5
              split at h
              · simp at h
              · rename_i f hf
                split at h
                · simp at h
                · rename_i s1 hs1
                  split at h
                  · simp at h
                  · rename_i h6
                    obtain ⟨c, hc, hpos, _, hl, ha, hsp, hs1'⟩ := createLic_some _ _ _ _ _ _ _ _ hs1
                    subst hc
                    have hfl : ∃ fl, s.funders = some fl := by
                      cases hfu : s.funders with
                      | none => simp [hfu] at h5
                      | some fl => exact ⟨fl, rfl⟩
                    obtain ⟨fl, hfl⟩ := hfl
                    have hpf := pickFunder_some s _ _ f hf
                    simp only [hfl, Option.getD_some] at hpf
                    have hct : s.contracts ch = some ct := by
                      simpa using h2
                    subst hs1'
                    have hng : (fg, c.addr) ∉ s.grants := by simpa [licState] using h6
                    refine ⟨hct, by omega, by omega, fg, fl, f, c, hfg, hfl, hpf.1, hpf.2, rfl, ?_, hl, ha, hsp, ?_, ?_⟩
                    · have : (0:Int) < (grain : Int) := by decide
                      have : g ≠ 0 := by intro h0; subst h0; simp at hpos
                      omega
                    · exact hng
                    · simp [h1, h2, h3, h4, hfg, h5, hf, hs1, hng, licState]

/-! ### rejected steps and the remaining shapes -/


theorem sale_rejected (s : State) (ch : Chain) (cl : Option AddrStr) (g : Int) (ct now : Nat)
    (h : (sale s ch cl g ct now).2 = .rejected) : (sale s ch cl g ct now).1 = s := by
  have : (sale s ch cl g ct now).1 = s ∨ (sale s ch cl g ct now).2 = .ok := by
    unfold sale
    repeat' split
    all_goals first | (left; rfl) | (right; rfl)
  rcases this with h' | h'
  · exact h'
  · rw [h'] at h; cases h

theorem activate_ok (s : State) (sg : Addr) (cr : AddrStr) (now : Nat) (h : (activate s sg cr now).2 = .ok) :
    authorisedStr s sg cr = true ∧
    ∃ l, lookupLic s.lics cr = some l ∧ s.acct cr.addr = .base ∧ 0 < l.amount ∧ l.amount ≤ s.escrow l.denom ∧
      (activate s sg cr now).1 =
        { s with acct := updA s.acct cr.addr (.vesting l.amount l.denom now (addMonths now l.months)),
                 bal := upd2 s.bal cr.addr l.denom (s.bal cr.addr l.denom + l.amount),
                 escrow := upd s.escrow l.denom (s.escrow l.denom - l.amount),
                 lics := eraseLic s.lics cr,
                 clients := if s.clients.contains cr then s.clients else s.clients ++ [cr] } := by
  unfold activate at h
  split at h
  · simp at h
  · rename_i ha
    split at h
    · simp at h
    · rename_i l hl
      split at h
      · simp at h
      · rename_i h1
        split at h
        · simp at h
        · rename_i h2
          split at h
          · simp at h
          · rename_i h3
            have ha' : authorisedStr s sg cr = true := by simpa using ha
            have h1' : s.acct cr.addr = .base := by simpa using h1
            refine ⟨ha', l, hl, h1', by omega, by omega, ?_⟩
            simp [activate, ha', hl, h1', h2, h3]

theorem activate_rejected (s : State) (sg : Addr) (cr : AddrStr) (now : Nat)
    (h : (activate s sg cr now).2 = .rejected) : (activate s sg cr now).1 = s := by
  have : (activate s sg cr now).1 = s ∨ (activate s sg cr now).2 = .ok := by
    unfold activate
    repeat' split
    all_goals first | (left; rfl) | (right; rfl)
  rcases this with h' | h'
  · exact h'
  · rw [h'] at h; cases h

theorem send_rejected (s : State) (a : Addr) (b : Option Addr) (d : Denom) (amt : Int) (now : Nat)
    (h : (send s a b d amt now).2 = .rejected) : (send s a b d amt now).1 = s := by
  have : (send s a b d amt now).1 = s ∨ (send s a b d amt now).2 = .ok := by
    unfold send
    repeat' split
    all_goals first | (left; rfl) | (right; rfl)
  rcases this with h' | h'
  · exact h'
  · rw [h'] at h; cases h

theorem grant_rejected (s : State) (g e : Addr) (h : (grant s g e).2 = .rejected) : (grant s g e).1 = s := by
  have : (grant s g e).1 = s ∨ (grant s g e).2 = .ok := by
    unfold grant
    repeat' split
    all_goals first | (left; rfl) | (right; rfl)
  rcases this with h' | h'
  · exact h'
  · rw [h'] at h; cases h

theorem gift_rejected (s : State) (a : Addr) (d : Denom) (amt now : Nat)
    (h : (gift s a d amt now).2 = .rejected) : (gift s a d amt now).1 = s := by
  have : (gift s a d amt now).1 = s ∨ (gift s a d amt now).2 = .ok := by
    unfold gift
    repeat' split
    all_goals first | (left; rfl) | (right; rfl)
  rcases this with h' | h'
  · exact h'
  · rw [h'] at h; cases h

theorem auth_state (s : State) (sg : Addr) (cr : AddrStr) : (auth s sg cr).1 = s := by
  unfold auth; repeat' split
  all_goals rfl

theorem legacy_rejected (s : State) (sg cr : Addr) (h : (legacy s sg cr).2 = .rejected) : (legacy s sg cr).1 = s := by
  have : (legacy s sg cr).1 = s ∨ (legacy s sg cr).2 = .ok := by
    unfold legacy
    repeat' split
    all_goals first | (left; rfl) | (right; rfl)
  rcases this with h' | h'
  · exact h'
  · rw [h'] at h; cases h

/-! ### frames and the invariant -/


/-- what a step may do to the parts of the state the licence flow does not own -/
structure Frame (s s' : State) : Prop where
  lics : s'.lics = s.lics
  escrow : s'.escrow = s.escrow
  gifts : s'.gifts = s.gifts
  acct : ∀ a, s.acct a ≠ .none → s'.acct a = s.acct a

theorem Frame.refl (s : State) : Frame s s := ⟨rfl, rfl, rfl, fun _ _ => rfl⟩

theorem touchAcct_frame (s : State) (a : Addr) : Frame s (touchAcct s a) := by
  unfold touchAcct
  split
  · rename_i h
    refine ⟨rfl, rfl, rfl, ?_⟩
    intro b hb
    simp only [updA]
    split
    · rename_i hba; subst hba; exact absurd h hb
    · rfl
  · exact Frame.refl s

theorem Frame.trans {a b c : State} (h1 : Frame a b) (h2 : Frame b c) : Frame a c := by
  refine ⟨by rw [h2.lics, h1.lics], by rw [h2.escrow, h1.escrow], by rw [h2.gifts, h1.gifts], ?_⟩
  intro x hx
  have := h1.acct x hx
  rw [h2.acct x (by rw [this]; exact hx), this]

theorem touchAcct_frame' (s s0 : State) (a : Addr) (h : Frame s s0) : Frame s (touchAcct s0 a) :=
  h.trans (touchAcct_frame s0 a)

theorem send_frame (s : State) (a : Addr) (b : Option Addr) (d : Denom) (amt : Int) (now : Nat) :
    Frame s (send s a b d amt now).1 := by
  unfold send
  repeat' split
  all_goals first | exact Frame.refl s | skip
  exact touchAcct_frame' _ _ _ ⟨rfl, rfl, rfl, fun _ _ => rfl⟩

theorem grant_frame (s : State) (g e : Addr) : Frame s (grant s g e).1 := by
  unfold grant
  repeat' split
  all_goals first | exact Frame.refl s | skip
  exact touchAcct_frame' _ _ _ ⟨rfl, rfl, rfl, fun _ _ => rfl⟩

theorem fund_frame (s : State) (a : Addr) (d : Denom) (amt : Nat) : Frame s (fund s a d amt).1 := by
  unfold fund
  exact touchAcct_frame' _ _ _ ⟨rfl, rfl, rfl, fun _ _ => rfl⟩

theorem legacy_frame (s : State) (sg cr : Addr) : Frame s (legacy s sg cr).1 := by
  unfold legacy
  repeat' split
  all_goals first | exact Frame.refl s | exact ⟨rfl, rfl, rfl, fun _ _ => rfl⟩

/-- the invariant of the licence flow -/
structure Inv (s : State) : Prop where
  /-- escrow = outstanding licences + gifts, per denomination -/
  escrow : ∀ d, s.escrow d = sumLic d s.lics + s.gifts d
  nodup : keysNodup s.lics
  /-- a licensed address has a plain base account and a positive amount -/
  lic : ∀ k l, lookupLic s.lics k = some l → s.acct k.addr = .base ∧ 0 < l.amount
  /-- at most one licence per ADDRESS, whatever the spelling of the key -/
  one : ∀ k1 k2 l1 l2, lookupLic s.lics k1 = some l1 → lookupLic s.lics k2 = some l2 →
    k1.addr = k2.addr → k1 = k2

theorem Inv.of_frame {s s' : State} (h : Inv s) (f : Frame s s') : Inv s' := by
  refine ⟨?_, by rw [f.lics]; exact h.nodup, ?_, by rw [f.lics]; exact h.one⟩
  · intro d; rw [f.escrow, f.lics, f.gifts]; exact h.escrow d
  · intro a l hl
    rw [f.lics] at hl
    have := h.lic a l hl
    refine ⟨?_, this.2⟩
    rw [f.acct a.addr (by rw [this.1]; simp), this.1]

theorem Inv.init : Inv State.init :=
  ⟨fun _ => rfl, trivial, fun _ _ h => by simp [State.init, lookupLic] at h,
   fun _ _ _ _ h => by simp [State.init, lookupLic] at h⟩

theorem Inv.licState {s : State} (h : Inv s) (cr : Addr) (c : AddrStr) (n : Nat) (d : Denom) (m : Nat)
    (hn : 0 < n) (hl : lookupLic s.lics c = none) (hc : s.acct c.addr = .none) : Inv (licState s cr c n d m) := by
  -- a key already in the table belongs to an address with a base account, hence not to `c.addr`
  have hother : ∀ k x, lookupLic s.lics k = some x → k.addr ≠ c.addr := by
    intro k x hk hkc
    have := (h.lic k x hk).1
    rw [hkc, hc] at this; cases this
  refine ⟨?_, keysNodup_append _ _ _ h.nodup hl, ?_, ?_⟩
  · intro d'
    simp only [Paloma.LightNode.licState, sumLic_append, upd]
    have := h.escrow d'
    split
    · rename_i hd; subst hd; simp; omega
    · rename_i hd
      have : ¬ d = d' := fun h' => hd h'.symm
      simp [this]; omega
  · intro a l hla
    simp only [Paloma.LightNode.licState, lookupLic_append] at hla ⊢
    split at hla
    · rename_i x hx
      simp only [Option.some.injEq] at hla
      subst hla
      have := h.lic a x hx
      refine ⟨?_, this.2⟩
      simp only [updA]
      split
      · rfl
      · exact this.1
    · split at hla
      · rename_i hca
        simp only [Option.some.injEq] at hla
        subst hla; subst hca
        exact ⟨by simp [updA], hn⟩
      · simp at hla
  · intro k1 k2 l1 l2 h1 h2 hk
    simp only [Paloma.LightNode.licState, lookupLic_append] at h1 h2
    split at h1
    · rename_i x1 hx1
      split at h2
      · rename_i x2 hx2
        exact h.one k1 k2 x1 x2 hx1 hx2 hk
      · split at h2
        · rename_i hc2; subst hc2
          exact absurd hk (hother k1 x1 hx1)
        · cases h2
    · split at h1
      · rename_i hc1; subst hc1
        split at h2
        · rename_i x2 hx2
          exact absurd hk.symm (hother k2 x2 hx2)
        · split at h2
          · rename_i hc2; exact hc2
          · cases h2
      · cases h1

theorem lookupLic_erase_some (l : List (AddrStr × Lic)) (a b : AddrStr) (v : Lic)
    (h : lookupLic (eraseLic l a) b = some v) (hn : keysNodup l) : lookupLic l b = some v := by
  by_cases hab : a = b
  · subst hab; rw [lookupLic_erase_self _ _ hn] at h; cases h
  · rw [lookupLic_erase_ne _ _ _ hab] at h; exact h

/-! ### the invariant holds in every reachable state -/

theorem inv_step {s : State} (h : Inv s) (op : Op) : Inv (step s op).1 := by
  cases op with
  | create sg cr cl amt d m now =>
    simp only [step]
    cases hr : (create s sg cr cl amt d m now).2 with
    | rejected => rw [create_rejected _ _ _ _ _ _ _ _ hr]; exact h
    | ok =>
      obtain ⟨_, c, _, hpos, _, hl, hc, _, hs'⟩ := create_ok _ _ _ _ _ _ _ _ hr
      rw [hs']
      exact h.licState _ _ _ _ _ (by omega) hl hc
  | sale ch cl g ct now =>
    simp only [step]
    cases hr : (sale s ch cl g ct now).2 with
    | rejected => rw [sale_rejected _ _ _ _ _ _ hr]; exact h
    | ok =>
      obtain ⟨_, _, _, fg, fl, f, c, _, _, _, _, _, hpos, hl, hc, _, _, hs'⟩ := sale_ok _ _ _ _ _ _ hr
      rw [hs']
      have hg : (0:Int) < (grain : Int) := by decide
      have : 0 < (g * (grain : Int)).toNat := by
        have := Int.mul_pos hpos hg
        omega
      exact (h.licState f c _ bondDenom saleMonths this hl hc).of_frame ⟨rfl, rfl, rfl, fun _ _ => rfl⟩
  | activate sg cr now =>
    simp only [step]
    cases hr : (activate s sg cr now).2 with
    | rejected => rw [activate_rejected _ _ _ _ hr]; exact h
    | ok =>
      obtain ⟨_, l, hl, hb, hpos, hesc, hs'⟩ := activate_ok _ _ _ _ hr
      rw [hs']
      refine ⟨?_, keysNodup_erase _ _ h.nodup, ?_, ?_⟩
      · intro d
        have h1 := h.escrow d
        have h2 := sumLic_erase d _ _ _ hl
        simp only [upd]
        split
        · rename_i hd; subst hd; simp at h2; omega
        · rename_i hd
          have : ¬ l.denom = d := fun h' => hd h'.symm
          simp [this] at h2; omega
      · intro a l' hl'
        simp only at hl' ⊢
        by_cases hac : cr = a
        · subst hac
          rw [lookupLic_erase_self _ _ h.nodup] at hl'
          cases hl'
        · rw [lookupLic_erase_ne _ _ _ hac] at hl'
          have := h.lic a l' hl'
          refine ⟨?_, this.2⟩
          simp only [updA]
          split
          · rename_i h'
            -- another key of the same address would contradict `one`
            exact absurd (h.one cr a l l' hl hl' h'.symm) hac
          · exact this.1
      · intro k1 k2 l1 l2 h1 h2 hk
        exact h.one k1 k2 l1 l2 (lookupLic_erase_some _ _ _ _ h1 h.nodup) (lookupLic_erase_some _ _ _ _ h2 h.nodup) hk
  | auth sg cr => simp only [step, auth_state]; exact h
  | legacy sg cr => exact h.of_frame (legacy_frame _ _ _)
  | send a b d amt now => exact h.of_frame (send_frame _ _ _ _ _ _)
  | grant g e => exact h.of_frame (grant_frame _ _ _)
  | gift a d amt now =>
    simp only [step]
    cases hr : (gift s a d amt now).2 with
    | rejected => rw [gift_rejected _ _ _ _ _ hr]; exact h
    | ok =>
      unfold gift at hr ⊢
      split
      · rename_i h1; simp [h1] at hr
      · split
        · rename_i h1 h2; simp [h1, h2] at hr
        · refine ⟨?_, h.nodup, h.lic, h.one⟩
          intro d'
          have := h.escrow d'
          simp only [upd]
          split <;> simp_all <;> omega
  | fund a d amt => exact h.of_frame (fund_frame _ _ _ _)
  | setFeegranter a => exact h.of_frame ⟨rfl, rfl, rfl, fun _ _ => rfl⟩
  | setFunders l => exact h.of_frame ⟨rfl, rfl, rfl, fun _ _ => rfl⟩
  | setContracts c => exact h.of_frame ⟨rfl, rfl, rfl, fun _ _ => rfl⟩

theorem inv_run {s : State} (h : Inv s) (ops : List Op) : Inv (run s ops) := by
  induction ops generalizing s with
  | nil => exact h
  | cons op ops ih => exact ih (inv_step h op)

theorem reachable_inv {s : State} (h : Reachable s) : Inv s := by
  obtain ⟨ops, rfl⟩ := h
  exact inv_run Inv.init ops

theorem reachable_step {s : State} (h : Reachable s) (op : Op) : Reachable (step s op).1 := by
  obtain ⟨ops, rfl⟩ := h
  refine ⟨ops ++ [op], ?_⟩
  have : ∀ (s0 : State) (l : List Op), run s0 (l ++ [op]) = (Paloma.LightNode.step (run s0 l) op).1 := by
    intro s0 l
    induction l generalizing s0 with
    | nil => rfl
    | cons x t ih => exact ih _
  exact (this _ _).symm

/-! ### accounts only move forward; licences only appear for fresh addresses -/


theorem gift_frame_acct (s : State) (a : Addr) (d : Denom) (amt now : Nat) :
    (gift s a d amt now).1.acct = s.acct ∧ (gift s a d amt now).1.lics = s.lics := by
  unfold gift
  repeat' split
  all_goals exact ⟨rfl, rfl⟩

/-- an existing account is never removed or downgraded; only `activate` turns a base account into a
vesting one, and a vesting account never changes again -/
theorem vesting_persists (s : State) (op : Op) (a : Addr) (o : Nat) (d : Denom) (st en : Nat)
    (h : s.acct a = .vesting o d st en) : (step s op).1.acct a = .vesting o d st en := by
  have hne : s.acct a ≠ .none := by rw [h]; simp
  cases op with
  | create sg cr cl amt d' m now =>
    simp only [step]
    cases hr : (create s sg cr cl amt d' m now).2 with
    | rejected => rw [create_rejected _ _ _ _ _ _ _ _ hr]; exact h
    | ok =>
      obtain ⟨_, c, _, _, _, _, hc, _, hs'⟩ := create_ok _ _ _ _ _ _ _ _ hr
      rw [hs']
      simp only [licState, updA]
      split
      · rename_i hac; subst hac; exact absurd hc hne
      · exact h
  | sale ch cl g ct now =>
    simp only [step]
    cases hr : (sale s ch cl g ct now).2 with
    | rejected => rw [sale_rejected _ _ _ _ _ _ hr]; exact h
    | ok =>
      obtain ⟨_, _, _, fg, fl, f, c, _, _, _, _, _, _, _, hc, _, _, hs'⟩ := sale_ok _ _ _ _ _ _ hr
      rw [hs']
      simp only [licState, updA]
      split
      · rename_i hac; subst hac; exact absurd hc hne
      · exact h
  | activate sg cr now =>
    simp only [step]
    cases hr : (activate s sg cr now).2 with
    | rejected => rw [activate_rejected _ _ _ _ hr]; exact h
    | ok =>
      obtain ⟨_, l, _, hb, _, _, hs'⟩ := activate_ok _ _ _ _ hr
      rw [hs']
      simp only [updA]
      split
      · rename_i hac; subst hac; rw [h] at hb; cases hb
      · exact h
  | auth sg cr => simp only [step, auth_state]; exact h
  | legacy sg cr => simp only [step]; rw [(legacy_frame s sg cr).acct a hne]; exact h
  | send x y d' amt now => simp only [step]; rw [(send_frame s x y d' amt now).acct a hne]; exact h
  | grant g e => simp only [step]; rw [(grant_frame s g e).acct a hne]; exact h
  | gift x d' amt now => simp only [step, (gift_frame_acct s x d' amt now).1]; exact h
  | fund x d' amt => simp only [step]; rw [(fund_frame s x d' amt).acct a hne]; exact h
  | setFeegranter x => exact h
  | setFunders l => exact h
  | setContracts c => exact h

theorem vesting_persists_run (s : State) (ops : List Op) (a : Addr) (o : Nat) (d : Denom) (st en : Nat)
    (h : s.acct a = .vesting o d st en) : (run s ops).acct a = .vesting o d st en := by
  induction ops generalizing s with
  | nil => exact h
  | cons op ops ih => exact ih _ (vesting_persists s op a o d st en h)

/-- a licence that was not there before the step belongs to an address without an account, and the step is
an accepted `create` or `sale` for exactly that address -/
theorem new_licence (s : State) (op : Op) (a : AddrStr) (l : Lic)
    (h0 : lookupLic s.lics a = none) (h1 : lookupLic (step s op).1.lics a = some l) :
    s.acct a.addr = .none ∧ (step s op).2 = .ok ∧
      ((∃ sg cr amt d m now, op = .create sg cr (some a) amt d m now ∧ l = ⟨amt.toNat, d, m⟩) ∨
       (∃ ch g ct now, op = .sale ch (some a) g ct now ∧ l = ⟨(g * (grain : Int)).toNat, bondDenom, saleMonths⟩)) := by
  cases op with
  | create sg cr cl amt d m now =>
    simp only [step] at h1 ⊢
    cases hr : (create s sg cr cl amt d m now).2 with
    | rejected => rw [create_rejected _ _ _ _ _ _ _ _ hr, h0] at h1; cases h1
    | ok =>
      obtain ⟨_, c, hcl, _, _, _, hc, _, hs'⟩ := create_ok _ _ _ _ _ _ _ _ hr
      rw [hs'] at h1
      simp only [licState, lookupLic_append, h0] at h1
      split at h1
      · rename_i hca
        subst hca; subst hcl
        simp only [Option.some.injEq] at h1
        exact ⟨hc, rfl, Or.inl ⟨sg, cr, amt, d, m, now, rfl, h1.symm⟩⟩
      · cases h1
  | sale ch cl g ct now =>
    simp only [step] at h1 ⊢
    cases hr : (sale s ch cl g ct now).2 with
    | rejected => rw [sale_rejected _ _ _ _ _ _ hr, h0] at h1; cases h1
    | ok =>
      obtain ⟨_, _, _, fg, fl, f, c, _, _, _, _, hcl, _, _, hc, _, _, hs'⟩ := sale_ok _ _ _ _ _ _ hr
      rw [hs'] at h1
      simp only [licState, lookupLic_append, h0] at h1
      split at h1
      · rename_i hca
        subst hca; subst hcl
        simp only [Option.some.injEq] at h1
        exact ⟨hc, rfl, Or.inr ⟨ch, g, ct, now, rfl, h1.symm⟩⟩
      · cases h1
  | activate sg cr now =>
    simp only [step] at h1
    cases hr : (activate s sg cr now).2 with
    | rejected => rw [activate_rejected _ _ _ _ hr, h0] at h1; cases h1
    | ok =>
      obtain ⟨_, l', _, _, _, _, hs'⟩ := activate_ok _ _ _ _ hr
      rw [hs'] at h1
      simp only [lookupLic_erase_none _ _ _ h0] at h1
      cases h1
  | auth sg cr => simp only [step, auth_state, h0] at h1; cases h1
  | legacy sg cr => simp only [step] at h1; rw [(legacy_frame s sg cr).lics, h0] at h1; cases h1
  | send x y d' amt now => simp only [step] at h1; rw [(send_frame s x y d' amt now).lics, h0] at h1; cases h1
  | grant g e => simp only [step] at h1; rw [(grant_frame s g e).lics, h0] at h1; cases h1
  | gift x d' amt now => simp only [step, (gift_frame_acct s x d' amt now).2, h0] at h1; cases h1
  | fund x d' amt => simp only [step] at h1; rw [(fund_frame s x d' amt).lics, h0] at h1; cases h1
  | setFeegranter x => simp only [step, h0] at h1; cases h1
  | setFunders l => simp only [step, h0] at h1; cases h1
  | setContracts c => simp only [step, h0] at h1; cases h1

/-! ### gifts only come from `gift` -/


def Op.isGift : Op → Bool
  | .gift .. => true
  | _ => false

theorem step_gifts (s : State) (op : Op) (h : op.isGift = false) : (step s op).1.gifts = s.gifts := by
  cases op with
  | create sg cr cl amt d m now =>
    simp only [step]
    cases hr : (create s sg cr cl amt d m now).2 with
    | rejected => rw [create_rejected _ _ _ _ _ _ _ _ hr]
    | ok =>
      obtain ⟨_, c, _, _, _, _, _, _, hs'⟩ := create_ok _ _ _ _ _ _ _ _ hr
      rw [hs']; rfl
  | sale ch cl g ct now =>
    simp only [step]
    cases hr : (sale s ch cl g ct now).2 with
    | rejected => rw [sale_rejected _ _ _ _ _ _ hr]
    | ok =>
      obtain ⟨_, _, _, fg, fl, f, c, _, _, _, _, _, _, _, _, _, _, hs'⟩ := sale_ok _ _ _ _ _ _ hr
      rw [hs']; rfl
  | activate sg cr now =>
    simp only [step]
    cases hr : (activate s sg cr now).2 with
    | rejected => rw [activate_rejected _ _ _ _ hr]
    | ok =>
      obtain ⟨_, l, _, _, _, _, hs'⟩ := activate_ok _ _ _ _ hr
      rw [hs']
  | auth sg cr => simp only [step, auth_state]
  | legacy sg cr => exact (legacy_frame s sg cr).gifts
  | send x y d' amt now => exact (send_frame s x y d' amt now).gifts
  | grant g e => exact (grant_frame s g e).gifts
  | gift x d' amt now => simp [Op.isGift] at h
  | fund x d' amt => exact (fund_frame s x d' amt).gifts
  | setFeegranter x => rfl
  | setFunders l => rfl
  | setContracts c => rfl

theorem run_gifts (s : State) (ops : List Op) (h : ∀ op ∈ ops, op.isGift = false) :
    (run s ops).gifts = s.gifts := by
  induction ops generalizing s with
  | nil => rfl
  | cons op ops ih =>
    simp only [run]
    rw [ih _ (fun o ho => h o (List.mem_cons_of_mem _ ho)), step_gifts s op (h op List.mem_cons_self)]

/-! ### the sale-contract table only changes through governance -/

theorem contractTable_mem (l : List (Chain × CStr)) (ch : Chain) (c : CStr) (h : contractTable l ch = some c) :
    (ch, c) ∈ l := by
  induction l with
  | nil => simp [contractTable] at h
  | cons hd t ih =>
    obtain ⟨k, v⟩ := hd
    simp only [contractTable] at h
    split at h
    · exact List.mem_cons_of_mem _ (ih h)
    · split at h
      · rename_i hk
        simp only [Option.some.injEq] at h
        subst hk; subst h
        exact List.mem_cons_self
      · cases h

theorem contractTable_none (l : List (Chain × CStr)) (ch : Chain) (h : ∀ p ∈ l, p.1 ≠ ch) :
    contractTable l ch = none := by
  cases hc : contractTable l ch with
  | none => rfl
  | some c => exact absurd rfl (h _ (contractTable_mem l ch c hc))

def Op.isSetContracts : Op → Bool
  | .setContracts _ => true
  | _ => false

theorem touchAcct_contracts (s : State) (a : Addr) : (touchAcct s a).contracts = s.contracts := by
  unfold touchAcct; split <;> rfl

theorem step_contracts (s : State) (op : Op) (h : op.isSetContracts = false) :
    (step s op).1.contracts = s.contracts := by
  cases op with
  | create sg cr cl amt d m now =>
    simp only [step]
    cases hr : (create s sg cr cl amt d m now).2 with
    | rejected => rw [create_rejected _ _ _ _ _ _ _ _ hr]
    | ok =>
      obtain ⟨_, c, _, _, _, _, _, _, hs'⟩ := create_ok _ _ _ _ _ _ _ _ hr
      rw [hs']; rfl
  | sale ch cl g ct now =>
    simp only [step]
    cases hr : (sale s ch cl g ct now).2 with
    | rejected => rw [sale_rejected _ _ _ _ _ _ hr]
    | ok =>
      obtain ⟨_, _, _, fg, fl, f, c, _, _, _, _, _, _, _, _, _, _, hs'⟩ := sale_ok _ _ _ _ _ _ hr
      rw [hs']; rfl
  | activate sg cr now =>
    simp only [step]
    cases hr : (activate s sg cr now).2 with
    | rejected => rw [activate_rejected _ _ _ _ hr]
    | ok =>
      obtain ⟨_, l, _, _, _, _, hs'⟩ := activate_ok _ _ _ _ hr
      rw [hs']
  | auth sg cr => simp only [step, auth_state]
  | legacy sg cr =>
    simp only [step]; unfold legacy
    repeat' split
    all_goals rfl
  | send x y d' amt now =>
    simp only [step]; unfold send
    repeat' split
    all_goals first | rfl | exact touchAcct_contracts _ _
  | grant g e =>
    simp only [step]; unfold grant
    repeat' split
    all_goals first | rfl | exact touchAcct_contracts _ _
  | gift x d' amt now =>
    simp only [step]; unfold gift
    repeat' split
    all_goals rfl
  | fund x d' amt => simp only [step]; unfold fund; exact touchAcct_contracts _ _
  | setFeegranter x => rfl
  | setFunders l => rfl
  | setContracts c => simp [Op.isSetContracts] at h

/-- a sale-contract record present after a history was either there before or written by a
`SetLightNodeSaleContractsProposal` of the history that lists it for that very chain -/
theorem run_contracts (s : State) (ops : List Op) (ch : Chain) (ct : CStr)
    (h : (run s ops).contracts ch = some ct) :
    s.contracts ch = some ct ∨ ∃ l, Op.setContracts l ∈ ops ∧ (ch, ct) ∈ l := by
  induction ops generalizing s with
  | nil => exact Or.inl h
  | cons op ops ih =>
    rcases ih _ h with h' | ⟨l, hl, hm⟩
    · cases hop : op.isSetContracts with
      | false => rw [step_contracts s op hop] at h'; exact Or.inl h'
      | true =>
        cases op with
        | setContracts l => exact Or.inr ⟨l, List.mem_cons_self, contractTable_mem l ch ct h'⟩
        | _ => simp [Op.isSetContracts] at hop
    · exact Or.inr ⟨l, List.mem_cons_of_mem _ hl, hm⟩

/-! ### histories: prefixes, states passed through, and the step that established a fact -/

theorem run_append (s : State) (l1 l2 : List Op) : run s (l1 ++ l2) = run (run s l1) l2 := by
  induction l1 generalizing s with
  | nil => rfl
  | cons x t ih => exact ih _

theorem inv_reach (pre : List Op) : Inv (run State.init pre) := inv_run Inv.init pre

/-- `P` holds in EVERY state the history `ops` passes through when started in `s` — `s` itself and the final
state included -/
def Along (P : State → Prop) (s : State) : List Op → Prop
  | [] => P s
  | op :: ops => P s ∧ Along P (step s op).1 ops

theorem Along.head {P : State → Prop} {s : State} {ops : List Op} (h : Along P s ops) : P s := by
  cases ops with
  | nil => exact h
  | cons _ _ => exact h.1

theorem Along.last {P : State → Prop} {s : State} {ops : List Op} (h : Along P s ops) : P (run s ops) := by
  induction ops generalizing s with
  | nil => exact h
  | cons op ops ih => exact ih h.2

/-- … and in particular after every prefix of the history -/
theorem Along.prefix {P : State → Prop} {s : State} {ops : List Op} (h : Along P s ops) (l1 l2 : List Op)
    (he : ops = l1 ++ l2) : P (run s l1) := by
  induction l1 generalizing s ops with
  | nil => exact h.head
  | cons x t ih =>
    subst he
    exact ih h.2 rfl

/-- if `P` holds after a history, then either it held all along, or some step of the history established it
(it did not hold before that step) and it held in every state from then on -/
theorem run_origin (P : State → Prop) (s : State) (ops : List Op) (h : P (run s ops)) :
    Along P s ops ∨
      ∃ pre op post, ops = pre ++ op :: post ∧ ¬ P (run s pre) ∧ Along P (step (run s pre) op).1 post := by
  induction ops generalizing s with
  | nil => exact Or.inl h
  | cons x t ih =>
    rcases ih (step s x).1 h with h' | ⟨pre, op, post, he, hn, ha⟩
    · by_cases hp : P s
      · exact Or.inl ⟨hp, h'⟩
      · exact Or.inr ⟨[], x, t, rfl, hp, h'⟩
    · exact Or.inr ⟨x :: pre, op, post, by rw [he]; rfl, hn, ha⟩

/-! ### what a single step does to a stored licence -/

theorem sumLic_ge (d : Denom) (l : List (AddrStr × Lic)) (a : AddrStr) (v : Lic)
    (h : lookupLic l a = some v) (hd : v.denom = d) : v.amount ≤ sumLic d l := by
  have := sumLic_erase d l a v h
  simp [hd] at this; omega

/-- a stored licence is left exactly as it is by every operation, except that an ACCEPTED activation naming
its own key removes it -/
theorem licence_step (s : State) (hi : Inv s) (op : Op) (a : AddrStr) (l : Lic)
    (h0 : lookupLic s.lics a = some l) :
    lookupLic (step s op).1.lics a = some l ∨
      (lookupLic (step s op).1.lics a = none ∧ ∃ sg now, op = .activate sg a now ∧ (step s op).2 = .ok) := by
  cases op with
  | create sg cr cl amt d m now =>
    simp only [step]
    cases hr : (create s sg cr cl amt d m now).2 with
    | rejected => rw [create_rejected _ _ _ _ _ _ _ _ hr]; exact Or.inl h0
    | ok =>
      obtain ⟨_, c, _, _, _, _, _, _, hs'⟩ := create_ok _ _ _ _ _ _ _ _ hr
      rw [hs']; left; simp [licState, lookupLic_append, h0]
  | sale ch cl g ct now =>
    simp only [step]
    cases hr : (sale s ch cl g ct now).2 with
    | rejected => rw [sale_rejected _ _ _ _ _ _ hr]; exact Or.inl h0
    | ok =>
      obtain ⟨_, _, _, fg, fl, f, c, _, _, _, _, _, _, _, _, _, _, hs'⟩ := sale_ok _ _ _ _ _ _ hr
      rw [hs']; left; simp [licState, lookupLic_append, h0]
  | activate sg cr now =>
    simp only [step]
    cases hr : (activate s sg cr now).2 with
    | rejected => rw [activate_rejected _ _ _ _ hr]; exact Or.inl h0
    | ok =>
      obtain ⟨_, l', _, _, _, _, hs'⟩ := activate_ok _ _ _ _ hr
      by_cases hk : cr = a
      · subst hk; right
        refine ⟨?_, sg, now, rfl, rfl⟩
        rw [hs']; exact lookupLic_erase_self _ _ hi.nodup
      · rw [hs']; left; simp [lookupLic_erase_ne _ _ _ hk, h0]
  | auth sg cr => simp only [step, auth_state]; exact Or.inl h0
  | legacy sg cr => left; simp only [step]; rw [(legacy_frame s sg cr).lics]; exact h0
  | send x y d' amt now => left; simp only [step]; rw [(send_frame s x y d' amt now).lics]; exact h0
  | grant g e => left; simp only [step]; rw [(grant_frame s g e).lics]; exact h0
  | gift x d' amt now => left; simp only [step, (gift_frame_acct s x d' amt now).2]; exact h0
  | fund x d' amt => left; simp only [step]; rw [(fund_frame s x d' amt).lics]; exact h0
  | setFeegranter x => exact Or.inl h0
  | setFunders l => exact Or.inl h0
  | setContracts c => exact Or.inl h0

/-- `op`, executed in state `s`, ISSUES licence `l` under key `k`: it is an accepted licence purchase (message
or attested sale) naming `k`, for an address that has neither an account nor a licence under any spelling; the
licence records exactly the amount, denomination and vesting months of the purchase and IS STORED under `k` in the
state after the operation (where the address has a plain base account), the payer (the message's creator / a
configured funder) is debited and the escrow credited by exactly that amount -/
def Issued (s : State) (op : Op) (k : AddrStr) (l : Lic) : Prop :=
  (step s op).2 = .ok ∧ s.acct k.addr = .none ∧ (∀ k' : AddrStr, k'.addr = k.addr → lookupLic s.lics k' = none) ∧
  0 < l.amount ∧ lookupLic (step s op).1.lics k = some l ∧ (step s op).1.acct k.addr = .base ∧
  (step s op).1.escrow l.denom = s.escrow l.denom + l.amount ∧
  ((∃ sg cr amt d m now, op = .create sg cr (some k) amt d m now ∧ l = ⟨amt.toNat, d, m⟩ ∧
      (step s op).1.bal cr d + amt.toNat = s.bal cr d) ∨
   (∃ ch g ct now f, op = .sale ch (some k) g ct now ∧ l = ⟨(g * (grain : Int)).toNat, bondDenom, saleMonths⟩ ∧
      (∃ fl, s.funders = some fl ∧ f ∈ fl) ∧
      (step s op).1.bal f bondDenom + (g * (grain : Int)).toNat = s.bal f bondDenom))

theorem inv_no_licence_of_no_account {s : State} (hi : Inv s) (a : Addr) (h : s.acct a = .none) :
    ∀ k : AddrStr, k.addr = a → lookupLic s.lics k = none := by
  intro k hk
  cases hl : lookupLic s.lics k with
  | none => rfl
  | some l =>
    have := (hi.lic k l hl).1
    rw [hk, h] at this; cases this

theorem issued_of_new (s : State) (hi : Inv s) (op : Op) (k : AddrStr) (l : Lic)
    (h0 : lookupLic s.lics k = none) (h1 : lookupLic (step s op).1.lics k = some l) : Issued s op k l := by
  obtain ⟨hacc, hok, hshape⟩ := new_licence s op k l h0 h1
  have hnone := inv_no_licence_of_no_account hi k.addr hacc
  have hpos := ((inv_step hi op).lic k l h1).2
  have hbase := ((inv_step hi op).lic k l h1).1
  rcases hshape with ⟨sg, cr, amt, d, m, now, hop, hl⟩ | ⟨ch, g, ct, now, hop, hl⟩
  · subst hop
    simp only [step] at hok h1 ⊢
    obtain ⟨_, c, hc, hamt, _, _, _, hsp, hs'⟩ := create_ok _ _ _ _ _ _ _ _ hok
    cases hc
    have hle : amt.toNat ≤ s.bal cr d := by unfold spendable at hsp; omega
    refine ⟨hok, hacc, hnone, hpos, h1, hbase, ?_, Or.inl ⟨sg, cr, amt, d, m, now, rfl, hl, ?_⟩⟩
    · simp only [step]; rw [hs', hl]; simp [licState, upd]
    · simp only [step]; rw [hs']; simp [licState, upd2]; omega
  · subst hop
    simp only [step] at hok h1 ⊢
    obtain ⟨_, _, _, fg, fl, f, c, _, hfl, hf, _, hc, _, _, _, hsp, _, hs'⟩ := sale_ok _ _ _ _ _ _ hok
    cases hc
    have hle : (g * (grain : Int)).toNat ≤ s.bal f bondDenom := by unfold spendable at hsp; omega
    refine ⟨hok, hacc, hnone, hpos, h1, hbase, ?_, Or.inr ⟨ch, g, ct, now, f, rfl, hl, ⟨fl, hfl, hf⟩, ?_⟩⟩
    · simp only [step]; rw [hs', hl]; simp [licState, upd]
    · simp only [step]; rw [hs']; simp [licState, upd2]; omega

/-! ### fee grants and the fee granter only change in two ways each -/

theorem touchAcct_grants (s : State) (a : Addr) : (touchAcct s a).grants = s.grants := by
  unfold touchAcct; split <;> rfl

theorem touchAcct_feegranter (s : State) (a : Addr) : (touchAcct s a).feegranter = s.feegranter := by
  unfold touchAcct; split <;> rfl

theorem touchAcct_bal (s : State) (a : Addr) : (touchAcct s a).bal = s.bal := by
  unfold touchAcct; split <;> rfl

/-- a fee grant that was not there before a step was issued BY THE GRANTER ITSELF (an accepted
`MsgGrantAllowance`, which the granter signs), or written by an accepted sale for the grantee on behalf of the
address governance configured as light-node fee granter -/
theorem step_grants (s : State) (op : Op) (g e : Addr) (h0 : (g, e) ∉ s.grants)
    (h1 : (g, e) ∈ (step s op).1.grants) :
    (op = .grant g e ∧ (step s op).2 = .ok) ∨
      (∃ ch c gr ct now, op = .sale ch (some c) gr ct now ∧ c.addr = e ∧ s.feegranter = some g ∧
        (step s op).2 = .ok) := by
  cases op with
  | create sg cr cl amt d m now =>
    simp only [step] at h1
    cases hr : (create s sg cr cl amt d m now).2 with
    | rejected => rw [create_rejected _ _ _ _ _ _ _ _ hr] at h1; exact absurd h1 h0
    | ok =>
      obtain ⟨_, c, _, _, _, _, _, _, hs'⟩ := create_ok _ _ _ _ _ _ _ _ hr
      rw [hs'] at h1; exact absurd h1 h0
  | sale ch cl gr ct now =>
    simp only [step] at h1 ⊢
    cases hr : (sale s ch cl gr ct now).2 with
    | rejected => rw [sale_rejected _ _ _ _ _ _ hr] at h1; exact absurd h1 h0
    | ok =>
      obtain ⟨_, _, _, fg, fl, f, c, hfg, _, _, _, hc, _, _, _, _, _, hs'⟩ := sale_ok _ _ _ _ _ _ hr
      rw [hs'] at h1
      simp only [List.mem_append, List.mem_singleton, Prod.mk.injEq] at h1
      rcases h1 with h1 | ⟨hg, he⟩
      · exact absurd h1 h0
      · right; subst hc; subst hg
        exact ⟨ch, c, gr, ct, now, rfl, he.symm, hfg, rfl⟩
  | activate sg cr now =>
    simp only [step] at h1
    cases hr : (activate s sg cr now).2 with
    | rejected => rw [activate_rejected _ _ _ _ hr] at h1; exact absurd h1 h0
    | ok =>
      obtain ⟨_, l, _, _, _, _, hs'⟩ := activate_ok _ _ _ _ hr
      rw [hs'] at h1; exact absurd h1 h0
  | auth sg cr => simp only [step, auth_state] at h1; exact absurd h1 h0
  | legacy sg cr =>
    have : (step s (.legacy sg cr)).1.grants = s.grants := by
      simp only [step]; unfold legacy
      repeat' split
      all_goals rfl
    rw [this] at h1; exact absurd h1 h0
  | send x y d' amt now =>
    have : (step s (.send x y d' amt now)).1.grants = s.grants := by
      simp only [step]; unfold send
      repeat' split
      all_goals first | rfl | exact touchAcct_grants _ _
    rw [this] at h1; exact absurd h1 h0
  | grant g' e' =>
    simp only [step] at h1 ⊢
    cases hr : (grant s g' e').2 with
    | rejected => rw [grant_rejected _ _ _ hr] at h1; exact absurd h1 h0
    | ok =>
      left
      have : (grant s g' e').1.grants = s.grants ++ [(g', e')] ∨ (grant s g' e').1.grants = s.grants := by
        unfold grant
        repeat' split
        all_goals first | (right; rfl) | (left; exact touchAcct_grants _ _)
      rcases this with h | h
      · rw [h] at h1
        simp only [List.mem_append, List.mem_singleton, Prod.mk.injEq] at h1
        rcases h1 with h1 | ⟨hg, he⟩
        · exact absurd h1 h0
        · subst hg; subst he; exact ⟨rfl, rfl⟩
      · rw [h] at h1; exact absurd h1 h0
  | gift x d' amt now =>
    have : (step s (.gift x d' amt now)).1.grants = s.grants := by
      simp only [step]; unfold gift
      repeat' split
      all_goals rfl
    rw [this] at h1; exact absurd h1 h0
  | fund x d' amt =>
    have : (step s (.fund x d' amt)).1.grants = s.grants := by
      simp only [step]; unfold fund; exact touchAcct_grants _ _
    rw [this] at h1; exact absurd h1 h0
  | setFeegranter x => exact absurd h1 h0
  | setFunders l => exact absurd h1 h0
  | setContracts c => exact absurd h1 h0

/-- the configured fee granter changes only through the governance proposal -/
theorem step_feegranter (s : State) (op : Op) (g : Addr) (h1 : (step s op).1.feegranter = some g) :
    s.feegranter = some g ∨ op = .setFeegranter g := by
  cases op with
  | create sg cr cl amt d m now =>
    simp only [step] at h1
    cases hr : (create s sg cr cl amt d m now).2 with
    | rejected => rw [create_rejected _ _ _ _ _ _ _ _ hr] at h1; exact Or.inl h1
    | ok =>
      obtain ⟨_, c, _, _, _, _, _, _, hs'⟩ := create_ok _ _ _ _ _ _ _ _ hr
      rw [hs'] at h1; exact Or.inl h1
  | sale ch cl gr ct now =>
    simp only [step] at h1
    cases hr : (sale s ch cl gr ct now).2 with
    | rejected => rw [sale_rejected _ _ _ _ _ _ hr] at h1; exact Or.inl h1
    | ok =>
      obtain ⟨_, _, _, fg, fl, f, c, _, _, _, _, _, _, _, _, _, _, hs'⟩ := sale_ok _ _ _ _ _ _ hr
      rw [hs'] at h1; exact Or.inl h1
  | activate sg cr now =>
    simp only [step] at h1
    cases hr : (activate s sg cr now).2 with
    | rejected => rw [activate_rejected _ _ _ _ hr] at h1; exact Or.inl h1
    | ok =>
      obtain ⟨_, l, _, _, _, _, hs'⟩ := activate_ok _ _ _ _ hr
      rw [hs'] at h1; exact Or.inl h1
  | auth sg cr => simp only [step, auth_state] at h1; exact Or.inl h1
  | legacy sg cr =>
    have : (step s (.legacy sg cr)).1.feegranter = s.feegranter := by
      simp only [step]; unfold legacy
      repeat' split
      all_goals rfl
    rw [this] at h1; exact Or.inl h1
  | send x y d' amt now =>
    have : (step s (.send x y d' amt now)).1.feegranter = s.feegranter := by
      simp only [step]; unfold send
      repeat' split
      all_goals first | rfl | exact touchAcct_feegranter _ _
    rw [this] at h1; exact Or.inl h1
  | grant g' e' =>
    have : (step s (.grant g' e')).1.feegranter = s.feegranter := by
      simp only [step]; unfold grant
      repeat' split
      all_goals first | rfl | exact touchAcct_feegranter _ _
    rw [this] at h1; exact Or.inl h1
  | gift x d' amt now =>
    have : (step s (.gift x d' amt now)).1.feegranter = s.feegranter := by
      simp only [step]; unfold gift
      repeat' split
      all_goals rfl
    rw [this] at h1; exact Or.inl h1
  | fund x d' amt =>
    have : (step s (.fund x d' amt)).1.feegranter = s.feegranter := by
      simp only [step]; unfold fund; exact touchAcct_feegranter _ _
    rw [this] at h1; exact Or.inl h1
  | setFeegranter x =>
    simp only [step, Option.some.injEq] at h1
    right; rw [h1]
  | setFunders l => exact Or.inl h1
  | setContracts c => exact Or.inl h1

theorem run_feegranter (s : State) (ops : List Op) (g : Addr) (h : (run s ops).feegranter = some g) :
    s.feegranter = some g ∨ Op.setFeegranter g ∈ ops := by
  induction ops generalizing s with
  | nil => exact Or.inl h
  | cons op ops ih =>
    rcases ih _ h with h' | h'
    · rcases step_feegranter s op g h' with h'' | h''
      · exact Or.inl h''
      · exact Or.inr (by rw [h'']; exact List.mem_cons_self)
    · exact Or.inr (List.mem_cons_of_mem _ h')

theorem touchAcct_funders (s : State) (a : Addr) : (touchAcct s a).funders = s.funders := by
  unfold touchAcct; split <;> rfl

def Op.isSetFunders : Op → Bool
  | .setFunders _ => true
  | _ => false

theorem step_funders (s : State) (op : Op) (h : op.isSetFunders = false) :
    (step s op).1.funders = s.funders := by
  cases op with
  | create sg cr cl amt d m now =>
    simp only [step]
    cases hr : (create s sg cr cl amt d m now).2 with
    | rejected => rw [create_rejected _ _ _ _ _ _ _ _ hr]
    | ok =>
      obtain ⟨_, c, _, _, _, _, _, _, hs'⟩ := create_ok _ _ _ _ _ _ _ _ hr
      rw [hs']; rfl
  | sale ch cl g ct now =>
    simp only [step]
    cases hr : (sale s ch cl g ct now).2 with
    | rejected => rw [sale_rejected _ _ _ _ _ _ hr]
    | ok =>
      obtain ⟨_, _, _, fg, fl, f, c, _, _, _, _, _, _, _, _, _, _, hs'⟩ := sale_ok _ _ _ _ _ _ hr
      rw [hs']; rfl
  | activate sg cr now =>
    simp only [step]
    cases hr : (activate s sg cr now).2 with
    | rejected => rw [activate_rejected _ _ _ _ hr]
    | ok =>
      obtain ⟨_, l, _, _, _, _, hs'⟩ := activate_ok _ _ _ _ hr
      rw [hs']
  | auth sg cr => simp only [step, auth_state]
  | legacy sg cr =>
    simp only [step]; unfold legacy
    repeat' split
    all_goals rfl
  | send x y d' amt now =>
    simp only [step]; unfold send
    repeat' split
    all_goals first | rfl | exact touchAcct_funders _ _
  | grant g e =>
    simp only [step]; unfold grant
    repeat' split
    all_goals first | rfl | exact touchAcct_funders _ _
  | gift x d' amt now =>
    simp only [step]; unfold gift
    repeat' split
    all_goals rfl
  | fund x d' amt => simp only [step]; unfold fund; exact touchAcct_funders _ _
  | setFeegranter x => rfl
  | setFunders l => simp [Op.isSetFunders] at h
  | setContracts c => rfl

/-- a funder list in force after a history was either there before or written by a
`SetLightNodeClientFundersProposal` of the history carrying exactly that list -/
theorem run_funders (s : State) (ops : List Op) (fl : List Addr) (h : (run s ops).funders = some fl) :
    s.funders = some fl ∨ Op.setFunders fl ∈ ops := by
  induction ops generalizing s with
  | nil => exact Or.inl h
  | cons op ops ih =>
    rcases ih _ h with h' | h'
    · cases hop : op.isSetFunders with
      | false => rw [step_funders s op hop] at h'; exact Or.inl h'
      | true =>
        cases op with
        | setFunders l =>
          simp only [step, Option.some.injEq] at h'
          exact Or.inr (by rw [h']; exact List.mem_cons_self)
        | _ => simp [Op.isSetFunders] at hop
    · exact Or.inr (List.mem_cons_of_mem _ h')

/-! ### who can be debited, and by how much -/

theorem upd2_self (f : Nat → Nat → Nat) (a k v : Nat) : upd2 f a k v a k = v := by simp [upd2]

theorem upd2_other (f : Nat → Nat → Nat) (a k v x y : Nat) (h : ¬ (x = a ∧ y = k)) : upd2 f a k v x y = f x y := by
  simp [upd2, h]

/-- every step that lowers the balance of an account does so at a block time, and leaves at least what is
locked (still vesting) at that time: x/bank's `subUnlockedCoins` check, in `create` (creator), `sale` (funder),
`send` (sender) and `gift` (sender) alike; no other operation debits anybody -/
theorem step_debit (s : State) (op : Op) (x : Addr) (dn : Denom)
    (h : (step s op).1.bal x dn < s.bal x dn) :
    ∃ now, op.time = some now ∧ locked s x dn now ≤ (step s op).1.bal x dn := by
  cases op with
  | create sg cr cl amt d m now =>
    refine ⟨now, rfl, ?_⟩
    simp only [step] at h ⊢
    cases hr : (create s sg cr cl amt d m now).2 with
    | rejected => rw [create_rejected _ _ _ _ _ _ _ _ hr] at h; omega
    | ok =>
      obtain ⟨_, c, _, _, _, _, _, hsp, hs'⟩ := create_ok _ _ _ _ _ _ _ _ hr
      rw [hs'] at h ⊢
      simp only [licState] at h ⊢
      by_cases hx : x = cr ∧ dn = d
      · obtain ⟨hx1, hx2⟩ := hx; subst hx1; subst hx2
        rw [upd2_self] at h ⊢
        unfold spendable at hsp; omega
      · rw [upd2_other _ _ _ _ _ _ hx] at h; omega
  | sale ch cl g ct now =>
    refine ⟨now, rfl, ?_⟩
    simp only [step] at h ⊢
    cases hr : (sale s ch cl g ct now).2 with
    | rejected => rw [sale_rejected _ _ _ _ _ _ hr] at h; omega
    | ok =>
      obtain ⟨_, _, _, fg, fl, f, c, _, _, _, _, _, _, _, _, hsp, _, hs'⟩ := sale_ok _ _ _ _ _ _ hr
      rw [hs'] at h ⊢
      simp only [licState] at h ⊢
      by_cases hx : x = f ∧ dn = bondDenom
      · obtain ⟨hx1, hx2⟩ := hx; subst hx1; subst hx2
        rw [upd2_self] at h ⊢
        unfold spendable at hsp; omega
      · rw [upd2_other _ _ _ _ _ _ hx] at h; omega
  | activate sg cr now =>
    exfalso
    simp only [step] at h
    cases hr : (activate s sg cr now).2 with
    | rejected => rw [activate_rejected _ _ _ _ hr] at h; omega
    | ok =>
      obtain ⟨_, l, _, _, _, _, hs'⟩ := activate_ok _ _ _ _ hr
      rw [hs'] at h
      simp only at h
      by_cases hx : x = cr.addr ∧ dn = l.denom
      · obtain ⟨hx1, hx2⟩ := hx; subst hx1; subst hx2
        rw [upd2_self] at h; omega
      · rw [upd2_other _ _ _ _ _ _ hx] at h; omega
  | auth sg cr => exfalso; simp only [step, auth_state] at h; omega
  | legacy sg cr =>
    exfalso
    have : (step s (.legacy sg cr)).1.bal = s.bal := by
      simp only [step]; unfold legacy
      repeat' split
      all_goals rfl
    rw [this] at h; omega
  | send a b d amt now =>
    refine ⟨now, rfl, ?_⟩
    simp only [step] at h ⊢
    unfold send at h ⊢
    split
    · rename_i h1; rw [if_pos h1] at h; dsimp only at h; omega
    · rename_i h1; rw [if_neg h1] at h
      split
      · rename_i h2; rw [if_pos h2] at h; dsimp only at h; omega
      · rename_i h2; rw [if_neg h2] at h
        cases b with
        | none => simp only at h; omega
        | some t =>
          simp only at h ⊢
          split
          · rename_i h3; rw [if_pos h3] at h; dsimp only at h; omega
          · rename_i h3; rw [if_neg h3] at h
            rw [touchAcct_bal] at h ⊢
            simp only at h ⊢
            unfold spendable at h3
            by_cases hxt : x = t ∧ dn = d
            · obtain ⟨hx1, hx2⟩ := hxt; subst hx1; subst hx2
              rw [upd2_self] at h ⊢
              by_cases hxa : x = a
              · subst hxa; rw [upd2_self] at h ⊢; omega
              · rw [upd2_other _ _ _ _ _ _ (fun hh => hxa hh.1)] at h; omega
            · rw [upd2_other _ _ _ _ _ _ hxt] at h ⊢
              by_cases hxa : x = a ∧ dn = d
              · obtain ⟨hx1, hx2⟩ := hxa; subst hx1; subst hx2
                rw [upd2_self] at h ⊢; omega
              · rw [upd2_other _ _ _ _ _ _ hxa] at h; omega
  | grant g e =>
    exfalso
    have : (step s (.grant g e)).1.bal = s.bal := by
      simp only [step]; unfold grant
      repeat' split
      all_goals first | rfl | exact touchAcct_bal _ _
    rw [this] at h; omega
  | gift a d amt now =>
    refine ⟨now, rfl, ?_⟩
    simp only [step] at h ⊢
    unfold gift at h ⊢
    split
    · rename_i h1; rw [if_pos h1] at h; dsimp only at h; omega
    · rename_i h1; rw [if_neg h1] at h
      split
      · rename_i h2; rw [if_pos h2] at h; dsimp only at h; omega
      · rename_i h2; rw [if_neg h2] at h
        simp only at h ⊢
        unfold spendable at h2
        by_cases hxa : x = a ∧ dn = d
        · obtain ⟨hx1, hx2⟩ := hxa; subst hx1; subst hx2
          rw [upd2_self] at h ⊢; omega
        · rw [upd2_other _ _ _ _ _ _ hxa] at h; omega
  | fund a d amt =>
    exfalso
    simp only [step] at h
    unfold fund at h
    rw [touchAcct_bal] at h
    simp only at h
    by_cases hxa : x = a ∧ dn = d
    · obtain ⟨hx1, hx2⟩ := hxa; subst hx1; subst hx2
      rw [upd2_self] at h; omega
    · rw [upd2_other _ _ _ _ _ _ hxa] at h; omega
  | setFeegranter a => exfalso; simp only [step] at h; omega
  | setFunders l => exfalso; simp only [step] at h; omega
  | setContracts c => exfalso; simp only [step] at h; omega

theorem lockedAt_anti (orig start stop t1 t2 : Nat) (h : t1 ≤ t2) :
    lockedAt orig start stop t2 ≤ lockedAt orig start stop t1 := by
  have := vestedAt_mono orig start stop t1 t2 h
  unfold lockedAt; omega

/-- the coins of a vesting account that are still locked at time `T` stay in the account through every history
whose operations run at block times up to `T` -/
theorem locked_kept_run (s : State) (a : Addr) (o : Nat) (d : Denom) (st en T : Nat)
    (hv : s.acct a = .vesting o d st en) (h0 : lockedAt o st en T ≤ s.bal a d) (ops : List Op)
    (ht : ∀ op ∈ ops, ∀ t, op.time = some t → t ≤ T) :
    lockedAt o st en T ≤ (run s ops).bal a d := by
  induction ops generalizing s with
  | nil => exact h0
  | cons op ops ih =>
    apply ih (step s op).1 (vesting_persists s op a o d st en hv)
    · by_cases hlt : (step s op).1.bal a d < s.bal a d
      · obtain ⟨now, hnow, hl⟩ := step_debit s op a d hlt
        have hle := ht op List.mem_cons_self now hnow
        have : locked s a d now = lockedAt o st en now := by simp [locked, lockedOf, hv]
        rw [this] at hl
        have := lockedAt_anti o st en now T hle
        omega
      · omega
    · intro op' hop' t; exact ht op' (List.mem_cons_of_mem _ hop') t

/-! ### the ghost `gifts` is a function of the history -/

/-- what an operation gifts to the escrow account in denomination `d` when executed in `s`: the amount of an
ACCEPTED `gift` of that denomination, nothing otherwise -/
def giftOf (s : State) (op : Op) (d : Denom) : Nat :=
  match op with
  | .gift a d' amt now => if (gift s a d' amt now).2 = .ok ∧ d' = d then amt else 0
  | _ => 0

/-- total of the accepted gifts of a history started in `s` -/
def giftLog (s : State) (d : Denom) : List Op → Nat
  | [] => 0
  | op :: ops => giftOf s op d + giftLog (step s op).1 d ops

theorem step_gifts_log (s : State) (op : Op) (d : Denom) : (step s op).1.gifts d = s.gifts d + giftOf s op d := by
  cases hg : op.isGift with
  | false =>
    rw [step_gifts s op hg]
    cases op <;> simp [giftOf] <;> simp [Op.isGift] at hg
  | true =>
    cases op with
    | gift a d' amt now =>
      simp only [step, giftOf]
      cases hr : (gift s a d' amt now).2 with
      | rejected => rw [gift_rejected _ _ _ _ _ hr]; simp
      | ok =>
        unfold gift at hr ⊢
        split
        · rename_i h1; simp [h1] at hr
        · split
          · rename_i h1 h2; simp [h1, h2] at hr
          · simp only [upd, true_and]
            split
            · rename_i hd; subst hd; simp
            · rename_i hd; have : ¬ d' = d := fun h => hd h.symm
              simp [this]
    | _ => simp [Op.isGift] at hg

theorem run_gifts_log (s : State) (ops : List Op) (d : Denom) :
    (run s ops).gifts d = s.gifts d + giftLog s d ops := by
  induction ops generalizing s with
  | nil => simp [run, giftLog]
  | cons op ops ih =>
    simp only [run, giftLog]
    rw [ih, step_gifts_log]; omega

/-! ### counting accepted activations -/

def Op.activates (a : Addr) : Op → Bool
  | .activate _ k _ => k.addr == a
  | _ => false

/-- number of ACCEPTED activations of address `a` (under any spelling, by any signer) in a history from `s` -/
def activations (a : Addr) (s : State) : List Op → Nat
  | [] => 0
  | op :: ops => (if op.activates a = true ∧ (step s op).2 = .ok then 1 else 0) + activations a (step s op).1 ops

theorem activations_vesting (a : Addr) (s : State) (ops : List Op) (o : Nat) (d : Denom) (st en : Nat)
    (hv : s.acct a = .vesting o d st en) : activations a s ops = 0 := by
  induction ops generalizing s with
  | nil => rfl
  | cons op ops ih =>
    simp only [activations]
    rw [ih _ (vesting_persists s op a o d st en hv)]
    have : ¬ (op.activates a = true ∧ (step s op).2 = .ok) := by
      intro ⟨h1, h2⟩
      cases op with
      | activate sg k now =>
        simp only [Op.activates, beq_iff_eq] at h1
        simp only [step] at h2
        obtain ⟨_, _, _, hb, _⟩ := activate_ok _ _ _ _ h2
        rw [h1, hv] at hb; cases hb
      | _ => simp [Op.activates] at h1
    simp [this]

theorem activations_le_one (a : Addr) (s : State) (ops : List Op) : activations a s ops ≤ 1 := by
  induction ops generalizing s with
  | nil => simp [activations]
  | cons op ops ih =>
    simp only [activations]
    split
    · rename_i h
      cases op with
      | activate sg k now =>
        obtain ⟨h1, h2⟩ := h
        simp only [Op.activates, beq_iff_eq] at h1
        simp only [step] at h2 ⊢
        obtain ⟨_, l, _, _, _, _, hs'⟩ := activate_ok _ _ _ _ h2
        have hv : (activate s sg k now).1.acct a = .vesting l.amount l.denom now (addMonths now l.months) := by
          rw [hs', ← h1]; simp [updA]
        rw [activations_vesting a _ ops _ _ _ _ hv]; omega
      | _ => simp [Op.activates] at h
    · have := ih (step s op).1; omega

/-! ### transactions with several messages -/

/-- `activate` IS the ante check followed by the handler -/
theorem activate_eq_ante_then_handler (s : State) (sg : Addr) (cr : AddrStr) (now : Nat) :
    activate s sg cr now = if authorisedStr s sg cr = false then (s, .rejected) else registerH s cr now := rfl

/-- an account, once it exists, exists after every step -/
theorem acct_persists (s : State) (op : Op) (a : Addr) (h : s.acct a ≠ .none) : (step s op).1.acct a ≠ .none := by
  cases op with
  | create sg cr cl amt d' m now =>
    simp only [step]
    cases hr : (create s sg cr cl amt d' m now).2 with
    | rejected => rw [create_rejected _ _ _ _ _ _ _ _ hr]; exact h
    | ok =>
      obtain ⟨_, c, _, _, _, _, hc, _, hs'⟩ := create_ok _ _ _ _ _ _ _ _ hr
      rw [hs']
      simp only [licState, updA]
      split
      · simp
      · exact h
  | sale ch cl g ct now =>
    simp only [step]
    cases hr : (sale s ch cl g ct now).2 with
    | rejected => rw [sale_rejected _ _ _ _ _ _ hr]; exact h
    | ok =>
      obtain ⟨_, _, _, fg, fl, f, c, _, _, _, _, _, _, _, hc, _, _, hs'⟩ := sale_ok _ _ _ _ _ _ hr
      rw [hs']
      simp only [licState, updA]
      split
      · simp
      · exact h
  | activate sg cr now =>
    simp only [step]
    cases hr : (activate s sg cr now).2 with
    | rejected => rw [activate_rejected _ _ _ _ hr]; exact h
    | ok =>
      obtain ⟨_, l, _, hb, _, _, hs'⟩ := activate_ok _ _ _ _ hr
      rw [hs']
      simp only [updA]
      split
      · simp
      · exact h
  | auth sg cr => simp only [step, auth_state]; exact h
  | legacy sg cr => simp only [step]; rw [(legacy_frame s sg cr).acct a h]; exact h
  | send x y d' amt now => simp only [step]; rw [(send_frame s x y d' amt now).acct a h]; exact h
  | grant g e => simp only [step]; rw [(grant_frame s g e).acct a h]; exact h
  | gift x d' amt now => simp only [step, (gift_frame_acct s x d' amt now).1]; exact h
  | fund x d' amt => simp only [step]; rw [(fund_frame s x d' amt).acct a h]; exact h
  | setFeegranter x => exact h
  | setFunders l => exact h
  | setContracts c => exact h

/-- the op alphabet has no revocation: a fee grant, once written, is there after every step -/
theorem grants_persist (s : State) (op : Op) (g e : Addr) (h : (g, e) ∈ s.grants) : (g, e) ∈ (step s op).1.grants := by
  cases op with
  | create sg cr cl amt d m now =>
    simp only [step]
    cases hr : (create s sg cr cl amt d m now).2 with
    | rejected => rw [create_rejected _ _ _ _ _ _ _ _ hr]; exact h
    | ok =>
      obtain ⟨_, c, _, _, _, _, _, _, hs'⟩ := create_ok _ _ _ _ _ _ _ _ hr
      rw [hs']; exact h
  | sale ch cl gr ct now =>
    simp only [step]
    cases hr : (sale s ch cl gr ct now).2 with
    | rejected => rw [sale_rejected _ _ _ _ _ _ hr]; exact h
    | ok =>
      obtain ⟨_, _, _, fg, fl, f, c, hfg, _, _, _, hc, _, _, _, _, _, hs'⟩ := sale_ok _ _ _ _ _ _ hr
      rw [hs']
      exact List.mem_append_left _ h
  | activate sg cr now =>
    simp only [step]
    cases hr : (activate s sg cr now).2 with
    | rejected => rw [activate_rejected _ _ _ _ hr]; exact h
    | ok =>
      obtain ⟨_, l, _, _, _, _, hs'⟩ := activate_ok _ _ _ _ hr
      rw [hs']; exact h
  | auth sg cr => simp only [step, auth_state]; exact h
  | legacy sg cr =>
    have : (step s (.legacy sg cr)).1.grants = s.grants := by
      simp only [step]; unfold legacy
      repeat' split
      all_goals rfl
    rw [this]; exact h
  | send x y d' amt now =>
    have : (step s (.send x y d' amt now)).1.grants = s.grants := by
      simp only [step]; unfold send
      repeat' split
      all_goals first | rfl | exact touchAcct_grants _ _
    rw [this]; exact h
  | grant g' e' =>
    have : (grant s g' e').1.grants = s.grants ++ [(g', e')] ∨ (grant s g' e').1.grants = s.grants := by
      unfold grant
      repeat' split
      all_goals first | (right; rfl) | (left; exact touchAcct_grants _ _)
    simp only [step]
    rcases this with h' | h'
    · rw [h']; exact List.mem_append_left _ h
    · rw [h']; exact h
  | gift x d' amt now =>
    have : (step s (.gift x d' amt now)).1.grants = s.grants := by
      simp only [step]; unfold gift
      repeat' split
      all_goals rfl
    rw [this]; exact h
  | fund x d' amt =>
    have : (step s (.fund x d' amt)).1.grants = s.grants := by
      simp only [step]; unfold fund; exact touchAcct_grants _ _
    rw [this]; exact h
  | setFeegranter x => exact h
  | setFunders l => exact h
  | setContracts c => exact h

theorem authorised_iff (s : State) (sg cr : Addr) :
    authorised s sg cr = true ↔ s.acct sg ≠ .none ∧ (sg = cr ∨ (cr, sg) ∈ s.grants) := by
  simp only [authorised, Bool.and_eq_true, bne_iff_ne, ne_eq, Bool.or_eq_true, beq_iff_eq,
    List.contains_iff_mem]

theorem authorisedStr_iff (s : State) (sg : Addr) (cr : AddrStr) :
    authorisedStr s sg cr = true ↔
      s.acct sg ≠ .none ∧ ((cr.upper = false ∧ sg = cr.addr) ∨ (cr.addr, sg) ∈ s.grants) := by
  simp only [authorisedStr, Bool.and_eq_true, bne_iff_ne, ne_eq, Bool.or_eq_true, beq_iff_eq,
    List.contains_iff_mem]

/-- a message the ante chain accepts on a state is accepted on every later state (accounts and fee grants only
grow in the op alphabet) -/
theorem anteOk_step (s : State) (op m : Op) (h : anteOk s m = true) : anteOk (step s op).1 m = true := by
  cases m with
  | create sg cr cl amt d mo now =>
    simp only [anteOk, authorised_iff] at h ⊢
    exact ⟨acct_persists s op sg h.1, h.2.imp id (grants_persist s op cr sg)⟩
  | activate sg cr now =>
    simp only [anteOk, authorisedStr_iff] at h ⊢
    exact ⟨acct_persists s op sg h.1, h.2.imp id (grants_persist s op cr.addr sg)⟩
  | auth sg cr =>
    simp only [anteOk, authorisedStr_iff] at h ⊢
    exact ⟨acct_persists s op sg h.1, h.2.imp id (grants_persist s op cr.addr sg)⟩
  | legacy sg cr =>
    simp only [anteOk, authorised_iff] at h ⊢
    exact ⟨acct_persists s op sg h.1, h.2.imp id (grants_persist s op cr sg)⟩
  | send a b d amt now =>
    simp only [anteOk, bne_iff_ne, ne_eq] at h ⊢
    exact acct_persists s op a h
  | grant g e =>
    simp only [anteOk, bne_iff_ne, ne_eq] at h ⊢
    exact acct_persists s op g h
  | sale _ _ _ _ _ => simp [anteOk] at h
  | gift _ _ _ _ => simp [anteOk] at h
  | fund _ _ _ => simp [anteOk] at h
  | setFeegranter _ => simp [anteOk] at h
  | setFunders _ => simp [anteOk] at h
  | setContracts _ => simp [anteOk] at h

/-- once the ante chain accepted a message, its handler IS the single-message step -/
theorem handle_eq_step (s : State) (m : Op) (h : anteOk s m = true) : handle s m = step s m := by
  cases m with
  | create sg cr cl amt d mo now =>
    simp only [anteOk] at h
    simp only [handle, step, create, h]
    rfl
  | activate sg cr now =>
    simp only [anteOk] at h
    simp only [handle, step, activate_eq_ante_then_handler, h]
    rfl
  | auth sg cr =>
    simp only [anteOk] at h
    simp only [handle, step, auth, h]
    rfl
  | legacy sg cr =>
    simp only [anteOk] at h
    simp only [handle, step, legacy, h]
    rfl
  | send a b d amt now => rfl
  | grant g e => rfl
  | sale _ _ _ _ _ => simp [anteOk] at h
  | gift _ _ _ _ => simp [anteOk] at h
  | fund _ _ _ => simp [anteOk] at h
  | setFeegranter _ => simp [anteOk] at h
  | setFunders _ => simp [anteOk] at h
  | setContracts _ => simp [anteOk] at h

theorem run_snoc (s : State) (l : List Op) (op : Op) : run s (l ++ [op]) = (step (run s l) op).1 := by
  induction l generalizing s with
  | nil => rfl
  | cons x t ih => exact ih _

/-- the handlers of an ante-accepted message list, run in order, are the single-message steps run in order -/
theorem execAll_run (s s' : State) (msgs : List Op) (ha : ∀ m ∈ msgs, anteOk s m = true)
    (h : execAll s msgs = some s') : s' = run s msgs := by
  induction msgs generalizing s with
  | nil => simp only [execAll, Option.some.injEq] at h; exact h.symm
  | cons m rest ih =>
    have hm := ha m (List.mem_cons_self ..)
    simp only [execAll] at h
    split at h
    · rw [handle_eq_step s m hm] at h
      simp only [run]
      exact ih _ (fun x hx => anteOk_step s m x (ha x (List.mem_cons_of_mem _ hx))) h
    · cases h

/-- … and every one of them was accepted -/
theorem execAll_split (s s' : State) (pre : List Op) (m : Op) (post : List Op)
    (ha : ∀ x ∈ pre ++ m :: post, anteOk s x = true) (h : execAll s (pre ++ m :: post) = some s') :
    (step (run s pre) m).2 = .ok := by
  induction pre generalizing s with
  | nil =>
    have hm := ha m (by simp)
    simp only [List.nil_append, execAll] at h
    split at h
    · rename_i hok; rw [handle_eq_step s m hm] at hok; exact hok
    · cases h
  | cons x t ih =>
    have hx := ha x (by simp)
    simp only [List.cons_append, execAll] at h
    split at h
    · rw [handle_eq_step s x hx] at h
      simp only [run]
      exact ih _ (fun y hy => anteOk_step s x y (ha y (by simp at hy ⊢; exact Or.inr hy))) h
    · cases h

theorem tx_ok (s : State) (msgs : List Op) (h : (tx s msgs).2 = .ok) :
    msgs ≠ [] ∧ (∀ m ∈ msgs, anteOk s m = true) ∧ execAll s msgs = some (tx s msgs).1 := by
  unfold tx at h ⊢
  split at h
  · cases h
  · rename_i h0
    split at h
    · cases h
    · rename_i h1
      split at h
      · cases h
      · rename_i s' hs
        refine ⟨by simpa using h0, ?_, ?_⟩
        · have : msgs.all (anteOk s) = true := by simpa using h1
          exact List.all_eq_true.mp this
        · simp [h0, h1, hs]

theorem tx_rejected (s : State) (msgs : List Op) (h : (tx s msgs).2 = .rejected) : (tx s msgs).1 = s := by
  have : (tx s msgs).1 = s ∨ (tx s msgs).2 = .ok := by
    unfold tx
    repeat' split
    all_goals first | (left; rfl) | (right; rfl)
  rcases this with h' | h'
  · exact h'
  · rw [h'] at h; cases h

theorem tx_reachable {s : State} (hs : Reachable s) (msgs : List Op) : Reachable (tx s msgs).1 := by
  cases hr : (tx s msgs).2 with
  | rejected => rw [tx_rejected s msgs hr]; exact hs
  | ok =>
    obtain ⟨_, ha, he⟩ := tx_ok s msgs hr
    rw [execAll_run s _ msgs ha he]
    obtain ⟨ops, rfl⟩ := hs
    exact ⟨ops ++ msgs, (run_append _ _ _).symm⟩

theorem runEv_eq_run_flatten (s : State) (evs : List Ev) : runEv s evs = run s (flatten s evs) := by
  induction evs generalizing s with
  | nil => rfl
  | cons e es ih =>
    cases e with
    | op o => simp only [runEv, stepEv, flatten, run]; exact ih _
    | tx msgs =>
      simp only [runEv, stepEv, flatten]
      cases hr : (tx s msgs).2 with
      | rejected =>
        rw [tx_rejected s msgs hr]
        simp only [reduceCtorEq, if_false]
        exact ih _
      | ok =>
        obtain ⟨_, ha, he⟩ := tx_ok s msgs hr
        simp only [if_true]
        rw [run_append, ← execAll_run s _ msgs ha he]
        exact ih _

theorem step_of_not_anteOk (s : State) (m : Op) (hm : m.isMsg = true) (h : anteOk s m = false) :
    step s m = (s, .rejected) := by
  cases m with
  | create sg cr cl amt d mo now => simp only [anteOk] at h; simp [step, create, h]
  | activate sg cr now => simp only [anteOk] at h; simp [step, activate, h]
  | auth sg cr => simp only [anteOk] at h; simp [step, auth, h]
  | legacy sg cr => simp only [anteOk] at h; simp [step, legacy, h]
  | send a b d amt now =>
    have : s.acct a = .none := by simpa [anteOk] using h
    simp [step, send, this]
  | grant g e =>
    have : s.acct g = .none := by simpa [anteOk] using h
    simp [step, grant, this]
  | sale _ _ _ _ _ => simp [Op.isMsg] at hm
  | gift _ _ _ _ => simp [Op.isMsg] at hm
  | fund _ _ _ => simp [Op.isMsg] at hm
  | setFeegranter _ => simp [Op.isMsg] at hm
  | setFunders _ => simp [Op.isMsg] at hm
  | setContracts _ => simp [Op.isMsg] at hm

/-! ### the wasm route (messages a contract dispatches) -/

theorem wasm_ok (s : State) (c : Addr) (depth : Nat) (g : Addr) (msgs : List Op)
    (h : (wasm s c depth g msgs).2 = .ok) :
    s.acct c ≠ .none ∧ msgs ≠ [] ∧ depth ≤ maxExecDepth ∧ (∀ m ∈ msgs, creatorIs c m = true) ∧
      (∀ m ∈ msgs, signerIs c m = true) ∧ execAll s msgs = some (wasm s c depth g msgs).1 := by
  unfold wasm at h ⊢
  split at h
  · cases h
  · rename_i h0
    split at h
    · cases h
    · rename_i h1
      split at h
      · cases h
      · rename_i h2
        split at h
        · cases h
        · rename_i h3
          split at h
          · cases h
          · rename_i h4
            split at h
            · cases h
            · rename_i h5
              split at h
              · cases h
              · rename_i h6
                split at h
                · cases h
                · rename_i s' hs
                  have a4 : msgs.all (creatorIs c) = true := by simpa using h4
                  have a6 : msgs.all (signerIs c) = true := by simpa using h6
                  refine ⟨h0, by simpa using h1, by omega, List.all_eq_true.mp a4, List.all_eq_true.mp a6, ?_⟩
                  simp [h0, h1, h2, h3, h4, h5, h6, hs]

theorem wasm_rejected (s : State) (c : Addr) (depth : Nat) (g : Addr) (msgs : List Op)
    (h : (wasm s c depth g msgs).2 = .rejected) : (wasm s c depth g msgs).1 = s := by
  have : (wasm s c depth g msgs).1 = s ∨ (wasm s c depth g msgs).2 = .ok := by
    unfold wasm
    repeat' split
    all_goals first | (left; rfl) | (right; rfl)
  rcases this with h' | h'
  · exact h'
  · rw [h'] at h; cases h

/-- a message that names `c` as creator and as its declared signer passes the ante check of a transaction signed
by `c` (which has an account) -/
theorem anteOk_of_own (s : State) (c : Addr) (m : Op) (hc : s.acct c ≠ .none) (h1 : creatorIs c m = true)
    (h2 : signerIs c m = true) : anteOk s m = true := by
  cases m with
  | create sg cr cl amt d mo now =>
    simp only [creatorIs, signerIs, beq_iff_eq] at h1 h2
    subst h1; subst h2
    simp [anteOk, authorised, hc]
  | activate sg cr now =>
    simp only [creatorIs, signerIs, beq_iff_eq, Bool.and_eq_true] at h1 h2
    subst h2
    simp [anteOk, authorisedStr, hc, h1.1, h1.2]
  | auth sg cr =>
    simp only [creatorIs, signerIs, beq_iff_eq, Bool.and_eq_true] at h1 h2
    subst h2
    simp [anteOk, authorisedStr, hc, h1.1, h1.2]
  | legacy sg cr =>
    simp only [creatorIs, signerIs, beq_iff_eq] at h1 h2
    subst h1; subst h2
    simp [anteOk, authorised, hc]
  | send a b d amt now =>
    simp only [signerIs, beq_iff_eq] at h2
    subst h2
    simp [anteOk, hc]
  | grant g e =>
    simp only [signerIs, beq_iff_eq] at h2
    subst h2
    simp [anteOk, hc]
  | sale _ _ _ _ _ => simp [signerIs] at h2
  | gift _ _ _ _ => simp [signerIs] at h2
  | fund _ _ _ => simp [signerIs] at h2
  | setFeegranter _ => simp [signerIs] at h2
  | setFunders _ => simp [signerIs] at h2
  | setContracts _ => simp [signerIs] at h2

end Lemmas


/-- in a reachable state an address without an account has no licence under any spelling -/
theorem no_licence_of_no_account (s : State) (hs : Reachable s) (a : Addr) (h : s.acct a = .none) :
    ∀ k : AddrStr, k.addr = a → lookupLic s.lics k = none := by
  intro k hk
  cases hl : lookupLic s.lics k with
  | none => rfl
  | some l =>
    have := ((reachable_inv hs).lic k l hl).1
    rw [hk, h] at this; cases this

/-! ## Property theorems -/

/-- **escrow_eq_sum_licences** (clause "the escrow balance always covers, and absent outside gifts equals,
the sum of all not-yet-activated licences").  After ANY history of operations — licence creation by
message or attested sale, activation, authentication, transfers, fee grants, configuration changes, gifts,
accepted or rejected, at any times — the balance of the escrow account in every denomination is exactly
the sum of the outstanding licences in that denomination plus the coins gifted to it. -/
theorem escrow_eq_sum_licences (ops : List Op) (d : Denom) :
    (run State.init ops).escrow d =
      sumLic d (run State.init ops).lics + (run State.init ops).gifts d :=
  (inv_run Inv.init ops).escrow d

/-- … hence the escrow always covers the outstanding licences … -/
theorem escrow_covers (ops : List Op) (d : Denom) :
    sumLic d (run State.init ops).lics ≤ (run State.init ops).escrow d := by
  rw [escrow_eq_sum_licences]; omega

/-- … and equals them when no outside gift was ever made. -/
theorem escrow_eq_without_gifts (ops : List Op) (h : ∀ op ∈ ops, op.isGift = false) (d : Denom) :
    (run State.init ops).escrow d = sumLic d (run State.init ops).lics := by
  rw [escrow_eq_sum_licences, run_gifts _ _ h]; rfl

/-- the ghost `gifts` is not free: after any history it is exactly the sum of the amounts of the ACCEPTED
`gift` operations (keeper-level transfers into the module account from outside the licence flow) of that
history, so "absent outside gifts" means "the history contains no accepted gift". -/
theorem gifts_are_accepted_gift_ops (ops : List Op) (d : Denom) :
    (run State.init ops).gifts d = giftLog State.init d ops := by
  rw [run_gifts_log]; simp [State.init]

/-- … hence: escrow balance = outstanding licences + accepted gifts of the history, with no ghost left. -/
theorem escrow_eq_licences_plus_gift_log (ops : List Op) (d : Denom) :
    (run State.init ops).escrow d = sumLic d (run State.init ops).lics + giftLog State.init d ops := by
  rw [escrow_eq_sum_licences, gifts_are_accepted_gift_ops]

/-- what "covers" buys, part 1: every single outstanding licence can be paid out of the escrow balance of its
denomination, after any history. -/
theorem escrow_pays_every_licence (ops : List Op) (k : AddrStr) (l : Lic)
    (h : lookupLic (run State.init ops).lics k = some l) : l.amount ≤ (run State.init ops).escrow l.denom := by
  have := escrow_covers ops l.denom
  have := sumLic_ge l.denom _ k l h rfl
  omega

/-- what "covers" buys, part 2: after any history an activation is accepted EXACTLY when the ante rule lets
the signer act for the creator string and a licence is stored under that string.  The three other error
branches of `CreateLightNodeClientAccount` — no base account (`ErrNoAccount`), an empty licence, a module
account that cannot pay — are unreachable. -/
theorem activate_ok_iff (ops : List Op) (sg : Addr) (k : AddrStr) (now : Nat) :
    (activate (run State.init ops) sg k now).2 = .ok ↔
      authorisedStr (run State.init ops) sg k = true ∧ (lookupLic (run State.init ops).lics k).isSome = true := by
  constructor
  · intro hok
    obtain ⟨ha, l, hl, _⟩ := activate_ok _ _ _ _ hok
    exact ⟨ha, by rw [hl]; rfl⟩
  · intro ⟨ha, hl⟩
    cases hl' : lookupLic (run State.init ops).lics k with
    | none => rw [hl'] at hl; cases hl
    | some l =>
      have hi := inv_reach ops
      obtain ⟨hb, hp⟩ := hi.lic k l hl'
      have hesc := escrow_pays_every_licence ops k l hl'
      unfold activate
      have h1 : ¬ l.amount = 0 := by omega
      have h2 : ¬ (run State.init ops).escrow l.denom < l.amount := by omega
      simp [ha, hl', hb, h1, h2]

/-- … in particular the licensee itself (canonical spelling of its address as creator) can ALWAYS activate a
licence stored under that spelling: the funds are there and the account is in the right state. -/
theorem activate_succeeds (ops : List Op) (k : AddrStr) (l : Lic) (now : Nat)
    (hl : lookupLic (run State.init ops).lics k = some l) (hu : k.upper = false) :
    (activate (run State.init ops) k.addr k now).2 = .ok := by
  rw [activate_ok_iff]
  have hb := ((inv_reach ops).lic k l hl).1
  refine ⟨?_, by rw [hl]; rfl⟩
  simp [authorisedStr, hb, hu]

/-- **create_requires_fresh** (clause "a licence can be created only for an address that has neither an
account nor a licence"), message path: an accepted `MsgAddLightNodeClientLicense` names a parseable client
address with no account and no licence, a positive amount the creator can spend, and the signer is the
creator or holds a fee grant from the creator; afterwards the client has a base account and exactly the
requested licence. -/
theorem create_requires_fresh (s : State) (sg cr : Addr) (cl : Option AddrStr) (amt : Int) (d : Denom)
    (m now : Nat) (hs : Reachable s) (hok : (create s sg cr cl amt d m now).2 = .ok) :
    ∃ c, cl = some c ∧ s.acct c.addr = .none ∧ (∀ k, k.addr = c.addr → lookupLic s.lics k = none) ∧ 0 < amt ∧
      amt.toNat ≤ s.bal cr d - locked s cr d now ∧
      (s.acct sg ≠ .none ∧ (sg = cr ∨ (cr, sg) ∈ s.grants)) ∧
      lookupLic (create s sg cr cl amt d m now).1.lics c = some ⟨amt.toNat, d, m⟩ ∧
      (create s sg cr cl amt d m now).1.acct c.addr = .base := by
  obtain ⟨ha, c, hcl, hpos, _, hl, hc, hsp, hs'⟩ := create_ok _ _ _ _ _ _ _ _ hok
  refine ⟨c, hcl, hc, no_licence_of_no_account s hs c.addr hc, hpos, hsp, ?_, ?_, ?_⟩
  · simp only [authorised, Bool.and_eq_true, bne_iff_ne, ne_eq, Bool.or_eq_true, beq_iff_eq,
      List.contains_iff_mem] at ha
    exact ha
  · rw [hs']; simp [licState, lookupLic_append, hl]
  · rw [hs']; simp [licState, updA]

/-- **create_requires_fresh**, sale path: an attested sale that creates a licence does so for an address
with no account and no licence; the licence is `grains·10^6 ugrain` over 24 months. -/
theorem sale_requires_fresh (s : State) (ch : Chain) (cl : Option AddrStr) (g : Int) (ct now : Nat)
    (hs : Reachable s) (hok : (sale s ch cl g ct now).2 = .ok) :
    ∃ c, cl = some c ∧ s.acct c.addr = .none ∧ (∀ k, k.addr = c.addr → lookupLic s.lics k = none) ∧
      lookupLic (sale s ch cl g ct now).1.lics c = some ⟨(g * (grain : Int)).toNat, bondDenom, saleMonths⟩ ∧
      (sale s ch cl g ct now).1.acct c.addr = .base := by
  obtain ⟨_, _, _, fg, fl, f, c, _, _, _, _, hcl, _, hl, hc, _, _, hs'⟩ := sale_ok _ _ _ _ _ _ hok
  refine ⟨c, hcl, hc, no_licence_of_no_account s hs c.addr hc, ?_, ?_⟩
  · rw [hs']; simp [licState, lookupLic_append, hl]
  · rw [hs']; simp [licState, updA]

/-- **create_requires_fresh**, the "only": whatever the operation, a licence that appears for an address
appears for an address WITHOUT an account, and the operation is an accepted `create` or `sale` naming it. -/
theorem licence_only_for_fresh (s : State) (op : Op) (a : AddrStr) (l : Lic)
    (h0 : lookupLic s.lics a = none) (h1 : lookupLic (step s op).1.lics a = some l) :
    s.acct a.addr = .none ∧ (step s op).2 = .ok ∧
      ((∃ sg cr amt d m now, op = .create sg cr (some a) amt d m now ∧ l = ⟨amt.toNat, d, m⟩) ∨
       (∃ ch g ct now, op = .sale ch (some a) g ct now ∧ l = ⟨(g * (grain : Int)).toNat, bondDenom, saleMonths⟩)) :=
  new_licence s op a l h0 h1

/-- **licence_immutable**: in a reachable state no operation — by anybody — changes a stored licence (amount,
denomination, vesting months); the only way it disappears is an ACCEPTED activation naming its own key. -/
theorem licence_immutable (s : State) (hs : Reachable s) (op : Op) (k : AddrStr) (l : Lic)
    (h0 : lookupLic s.lics k = some l) :
    lookupLic (step s op).1.lics k = some l ∨
      (lookupLic (step s op).1.lics k = none ∧ ∃ sg now, op = .activate sg k now ∧ (step s op).2 = .ok) :=
  licence_step s (reachable_inv hs) op k l h0

/-- **licence_origin** (history level: "created only for an address that has neither an account nor a
licence", and the stored licence IS what was paid).  Every licence found after a history was issued by one
operation of that history — an accepted `MsgAddLightNodeClientLicense` or attested sale naming exactly that
key, executed when the address had no account and no licence under any spelling, which debited its payer and
credited the escrow by exactly the licence amount (`Issued`) — and it has been stored unchanged in every state
since. -/
theorem licence_origin (ops : List Op) (k : AddrStr) (l : Lic)
    (h : lookupLic (run State.init ops).lics k = some l) :
    ∃ pre op post, ops = pre ++ op :: post ∧ Issued (run State.init pre) op k l ∧
      Along (fun s => lookupLic s.lics k = some l) (step (run State.init pre) op).1 post := by
  rcases run_origin (fun s => lookupLic s.lics k = some l) State.init ops h with ha | ⟨pre, op, post, he, hn, ha⟩
  · have := ha.head; simp [State.init, lookupLic] at this
  · refine ⟨pre, op, post, he, ?_, ha⟩
    have h1 := ha.head
    have hi := inv_reach pre
    cases h0 : lookupLic (run State.init pre).lics k with
    | none => exact issued_of_new _ hi op k l h0 h1
    | some l0 =>
      exfalso
      rcases licence_step _ hi op k l0 h0 with h2 | ⟨h2, _⟩
      · rw [h2] at h1; simp only [Option.some.injEq] at h1; subst h1; exact hn h0
      · rw [h2] at h1; cases h1

/-- **licence_leaves_only_by_activation** (history level): if a licence is stored after `pre` and is no
longer stored (as it was) after `pre ++ post`, then `post` contains an ACCEPTED activation naming its key, and
the licence was still there, unchanged, when that activation ran. -/
theorem licence_leaves_only_by_activation (pre post : List Op) (k : AddrStr) (l : Lic)
    (h0 : lookupLic (run State.init pre).lics k = some l)
    (h1 : lookupLic (run State.init (pre ++ post)).lics k ≠ some l) :
    ∃ p1 sg now p2, post = p1 ++ .activate sg k now :: p2 ∧
      lookupLic (run State.init (pre ++ p1)).lics k = some l ∧
      (step (run State.init (pre ++ p1)) (.activate sg k now)).2 = .ok := by
  rw [run_append] at h1
  rcases run_origin (fun s => lookupLic s.lics k ≠ some l) (run State.init pre) post h1 with ha | ⟨p1, op, p2, he, hn, ha⟩
  · exact absurd h0 ha.head
  · have hl : lookupLic (run (run State.init pre) p1).lics k = some l := Decidable.not_not.mp hn
    have hi : Inv (run (run State.init pre) p1) := by rw [← run_append]; exact inv_reach _
    rcases licence_step _ hi op k l hl with h2 | ⟨_, sg, now, hop, hok⟩
    · exact absurd h2 ha.head
    · subst hop
      refine ⟨p1, sg, now, p2, he, ?_, ?_⟩
      · rw [run_append]; exact hl
      · rw [run_append]; exact hok

/-- **activate_once**, who and when: an accepted `MsgRegisterLightNodeClient` whose creator string `k`
decodes to address `a` finds a licence stored under exactly that string, and its signer is `a` itself
(possible only for the canonical spelling) or an address `a` issued a fee grant to (paloma's rule for acting
on behalf of a creator: `VerifyAuthorisedSignatureDecorator`). -/
theorem activate_requires (s : State) (sg : Addr) (k : AddrStr) (now : Nat)
    (hok : (activate s sg k now).2 = .ok) :
    (∃ l, lookupLic s.lics k = some l) ∧ s.acct sg ≠ .none ∧
      ((k.upper = false ∧ sg = k.addr) ∨ (k.addr, sg) ∈ s.grants) := by
  obtain ⟨ha, l, hl, _⟩ := activate_ok _ _ _ _ hok
  simp only [authorisedStr, Bool.and_eq_true, bne_iff_ne, ne_eq, Bool.or_eq_true, beq_iff_eq,
    List.contains_iff_mem] at ha
  exact ⟨⟨l, hl⟩, ha⟩

/-- **grant_origin**: a fee grant `g → e` present after a history was written by one accepted operation of
that history: a `MsgGrantAllowance` from `g` to `e` — which only `g` itself can sign (ASSUMPTION, SDK: x/auth
signature verification of the granter; this is why `Op.grant g e` carries no separate signer: the granter IS
the signer) — or a sale for client `e` executed while `g` was the address governance had configured as
light-node fee granter.
SCOPE: the op alphabet has no `MsgRevokeAllowance` and no allowance expiry, so in the model the grant table only
grows and "was issued earlier in the history" is the same as "is in force".  On the chain a granter can revoke;
this direction of the statement (every grant IN FORCE was issued by its granter or by a sale under the
governance-configured fee granter) is not affected by revocations, but the converse reading ("issued, hence still
usable") is a property of the model only. -/
theorem grant_origin (ops : List Op) (g e : Addr) (h : (g, e) ∈ (run State.init ops).grants) :
    ∃ pre op post, ops = pre ++ op :: post ∧ (step (run State.init pre) op).2 = .ok ∧
      (op = .grant g e ∨
        (∃ ch c gr ct now, op = .sale ch (some c) gr ct now ∧ c.addr = e ∧
          (run State.init pre).feegranter = some g ∧ Op.setFeegranter g ∈ pre)) := by
  rcases run_origin (fun s => (g, e) ∈ s.grants) State.init ops h with ha | ⟨pre, op, post, he, hn, ha⟩
  · have := ha.head; simp [State.init] at this
  · refine ⟨pre, op, post, he, ?_⟩
    rcases step_grants _ op g e hn ha.head with ⟨hop, hok⟩ | ⟨ch, c, gr, ct, now, hop, hc, hfg, hok⟩
    · exact ⟨hok, Or.inl hop⟩
    · refine ⟨hok, Or.inr ⟨ch, c, gr, ct, now, hop, hc, hfg, ?_⟩⟩
      rcases run_feegranter State.init pre g hfg with h' | h'
      · simp [State.init] at h'
      · exact h'

/- **"activated … only by the licensed address itself"** — the FULL-STRENGTH clause

     ∀ ops sg k now, (activate (run State.init ops) sg k now).2 = .ok → sg = k.addr

   is FALSE, in the model and in the implementation (reproduced by the harness on the real app, stats
   `activate.by_delegate`, `activate.by_sale_client_of_feegranter_licensee`): paloma's ante rule
   (`VerifyAuthorisedSignatureDecorator`) lets any holder of a fee grant issued by the creator sign for the
   creator.  Witnesses: `activation_by_delegate_reachable`, `activation_by_sale_client_reachable` below.
   What IS true, at history level, is the following. -/

/-- **activate_only_by_licensee_or_delegate** (history level).  After ANY history, an accepted activation of
the licence stored under `k` is signed
 (1) by the licensed address itself (canonical spelling), or
 (2) by an address to which the licensed address ITSELF issued a fee grant earlier in the history (an accepted
     `MsgGrantAllowance` from `k.addr`, which only `k.addr` can sign), or
 (3) by the client of an earlier accepted sale that ran while the licensed address was the fee granter
     configured by governance (`SetLightNodeClientFeegranter k.addr` is in the history before that sale).
Nobody else can activate a licence.  In every case the coins go to the licensed address (`activation_exact`).
The clause AS WORDED ("only by the licensed address itself") is false: `activate_only_by_licensee_false`.
SCOPE: no revocation in the op alphabet, see `grant_origin` ("earlier in the history" = "in force"). -/
theorem activate_only_by_licensee_or_delegate (ops : List Op) (sg : Addr) (k : AddrStr) (now : Nat)
    (hok : (activate (run State.init ops) sg k now).2 = .ok) :
    (k.upper = false ∧ sg = k.addr) ∨
    (∃ pre post, ops = pre ++ .grant k.addr sg :: post ∧
      (step (run State.init pre) (.grant k.addr sg)).2 = .ok) ∨
    (∃ pre ch c gr ct t post, ops = pre ++ .sale ch (some c) gr ct t :: post ∧ c.addr = sg ∧
      (step (run State.init pre) (.sale ch (some c) gr ct t)).2 = .ok ∧
      (run State.init pre).feegranter = some k.addr ∧ Op.setFeegranter k.addr ∈ pre) := by
  obtain ⟨_, _, hsig⟩ := activate_requires _ sg k now hok
  rcases hsig with h | h
  · exact Or.inl h
  · obtain ⟨pre, op, post, he, hk, hop | ⟨ch, c, gr, ct, t, hop, hc, hfg, hset⟩⟩ := grant_origin ops k.addr sg h
    · subst hop; exact Or.inr (Or.inl ⟨pre, post, he, hk⟩)
    · subst hop; exact Or.inr (Or.inr ⟨pre, ch, c, gr, ct, t, post, he, hc, hk, hfg, hset⟩)

/-- … and under the governance ASSUMPTION that the light-node fee granter is never set to the licensed address
(`SetLightNodeClientFeegranter k.addr` does not occur in the history), only (1) and (2) remain: the licensee
itself, or a delegate the licensee itself authorised.  Without the assumption (3) does occur:
`activation_by_sale_client_reachable`. -/
theorem activate_only_by_licensee_or_own_delegate (ops : List Op) (sg : Addr) (k : AddrStr) (now : Nat)
    (hgov : Op.setFeegranter k.addr ∉ ops)
    (hok : (activate (run State.init ops) sg k now).2 = .ok) :
    (k.upper = false ∧ sg = k.addr) ∨
    (∃ pre post, ops = pre ++ .grant k.addr sg :: post ∧
      (step (run State.init pre) (.grant k.addr sg)).2 = .ok) := by
  rcases activate_only_by_licensee_or_delegate ops sg k now hok with h | h | ⟨pre, ch, c, gr, ct, t, post, he, _, _, _, hset⟩
  · exact Or.inl h
  · exact Or.inr h
  · exfalso; apply hgov; rw [he]; exact List.mem_append_left _ hset

/-- **activate_once**, at most once: after an accepted activation of address `k.addr`, every later
activation attempt for that address — under either spelling, by anyone, after any further history — is
rejected. -/
theorem activate_once (s : State) (sg : Addr) (k : AddrStr) (now : Nat)
    (hok : (activate s sg k now).2 = .ok) (ops : List Op) (sg' : Addr) (k' : AddrStr)
    (hk : k'.addr = k.addr) (now' : Nat) :
    (activate (run (activate s sg k now).1 ops) sg' k' now').2 = .rejected := by
  obtain ⟨_, l, _, _, _, _, hs'⟩ := activate_ok _ _ _ _ hok
  have hv : (activate s sg k now).1.acct k.addr = .vesting l.amount l.denom now (addMonths now l.months) := by
    rw [hs']; simp [updA]
  have hv' := vesting_persists_run _ ops k.addr _ _ _ _ hv
  cases hr : (activate (run (activate s sg k now).1 ops) sg' k' now').2 with
  | rejected => rfl
  | ok =>
    obtain ⟨_, _, _, hb, _⟩ := activate_ok _ _ _ _ hr
    rw [hk, hv'] at hb; cases hb

/-- **activated_at_most_once** (history level, counting form): in ANY history the number of accepted
activations of an address — under either spelling of the creator string, by any signer — is at most one. -/
theorem activated_at_most_once (ops : List Op) (a : Addr) : activations a State.init ops ≤ 1 :=
  activations_le_one a State.init ops

/-- … nor can a new licence ever be created for an activated address (so there is nothing to activate). -/
theorem no_licence_after_activation (s : State) (hs : Reachable s) (sg : Addr) (k : AddrStr) (now : Nat)
    (hok : (activate s sg k now).2 = .ok) (ops : List Op) (k' : AddrStr) (hk : k'.addr = k.addr) :
    lookupLic (run (activate s sg k now).1 ops).lics k' = none := by
  obtain ⟨_, l, _, _, _, _, hs'⟩ := activate_ok _ _ _ _ hok
  have hv : (activate s sg k now).1.acct k.addr = .vesting l.amount l.denom now (addMonths now l.months) := by
    rw [hs']; simp [updA]
  have hv' := vesting_persists_run _ ops k.addr _ _ _ _ hv
  have hinv : Inv (run (activate s sg k now).1 ops) :=
    inv_run (inv_step (reachable_inv hs) (.activate sg k now)) ops
  cases hl : lookupLic (run (activate s sg k now).1 ops).lics k' with
  | none => rfl
  | some l' => have := (hinv.lic k' l' hl).1; rw [hk, hv'] at this; cases this

/-- an address never holds two licences (one per spelling), so "the" licence of an address is well defined -/
theorem one_licence_per_address (s : State) (hs : Reachable s) (k1 k2 : AddrStr) (l1 l2 : Lic)
    (h1 : lookupLic s.lics k1 = some l1) (h2 : lookupLic s.lics k2 = some l2) (hk : k1.addr = k2.addr) :
    k1 = k2 :=
  (reachable_inv hs).one k1 k2 l1 l2 h1 h2 hk

/-- **activation_exact** (clause "activation moves exactly the licensed amount into that address as a
continuously vesting balance … starting at activation").  In a reachable state an accepted activation of
address `a = k.addr` with licence `l` at block time `now`: credits `a` with exactly `l.amount` of `l.denom`
and nothing else, debits the escrow by exactly that, touches no other balance, removes the licence (no
licence is left for `a` under any spelling), and turns `a`'s account into a continuous vesting account with
original vesting `l.amount`, start `now` and the end time computed by Go; the whole amount is locked at
`now`. -/
theorem activation_exact (s : State) (hs : Reachable s) (sg : Addr) (k : AddrStr) (now : Nat)
    (hok : (activate s sg k now).2 = .ok) :
    ∃ l, lookupLic s.lics k = some l ∧
      let a := k.addr
      let s' := (activate s sg k now).1
      s'.bal a l.denom = s.bal a l.denom + l.amount ∧
      (∀ b d, ¬ (b = a ∧ d = l.denom) → s'.bal b d = s.bal b d) ∧
      s'.escrow l.denom + l.amount = s.escrow l.denom ∧
      (∀ d, d ≠ l.denom → s'.escrow d = s.escrow d) ∧
      s'.acct a = .vesting l.amount l.denom now (addMonths now l.months) ∧
      (∀ b, b ≠ a → s'.acct b = s.acct b) ∧
      (∀ k', k'.addr = a → lookupLic s'.lics k' = none) ∧
      (∀ k', k'.addr ≠ a → lookupLic s'.lics k' = lookupLic s.lics k') ∧
      locked s' a l.denom now = l.amount := by
  obtain ⟨_, l, hl, _, _, hesc, hs'⟩ := activate_ok _ _ _ _ hok
  refine ⟨l, hl, ?_⟩
  intro a s'
  have hnone := no_licence_after_activation s hs sg k now hok []
  have e : s' = _ := hs'
  refine ⟨by rw [e]; simp [upd2, a], ?_, by rw [e]; simp [upd]; omega, ?_, by rw [e]; simp [updA, a], ?_, ?_, ?_, ?_⟩
  · intro b d hbd; rw [e]; simp [upd2, a] at hbd ⊢; exact fun h1 h2 => absurd h2 (hbd h1)
  · intro d hd; rw [e]; simp [upd, hd]
  · intro b hb; rw [e]; simp [updA, a] at hb ⊢; exact fun h => absurd h hb
  · intro k' hk'; exact hnone k' hk'
  · intro k' hk'
    rw [e]
    exact lookupLic_erase_ne _ _ _ (fun h => hk' (by rw [← h]))
  · rw [e]; simp [locked, lockedOf, updA, lockedAt, vestedAt, a]

/-- **activation_pays_what_was_paid** (history level: "moves exactly the licensed amount" — and the licensed
amount is the amount PAID for the licence).  Whenever an activation is accepted after a history, that history
contains the purchase (`Issued`: accepted message or attested sale, for a then account-less and licence-less
address) whose payer was debited, and the escrow credited, by an amount `l.amount` of `l.denom` with `l.months`
vesting months; the licence was stored unchanged ever since; and the activation credits the licensed address
with exactly `l.amount` of `l.denom`, debits the escrow by exactly that, and starts a vesting schedule over
exactly `l.months` calendar months from the activation time. -/
theorem activation_pays_what_was_paid (ops : List Op) (sg : Addr) (k : AddrStr) (now : Nat)
    (hok : (activate (run State.init ops) sg k now).2 = .ok) :
    ∃ pre op post l, ops = pre ++ op :: post ∧ Issued (run State.init pre) op k l ∧
      Along (fun s => lookupLic s.lics k = some l) (step (run State.init pre) op).1 post ∧
      let s := run State.init ops
      let s' := (activate s sg k now).1
      s'.bal k.addr l.denom = s.bal k.addr l.denom + l.amount ∧
      s'.escrow l.denom + l.amount = s.escrow l.denom ∧
      s'.acct k.addr = .vesting l.amount l.denom now (addMonths now l.months) := by
  obtain ⟨l, hl, hex⟩ := activation_exact _ ⟨ops, rfl⟩ sg k now hok
  obtain ⟨pre, op, post, he, hiss, hal⟩ := licence_origin ops k l hl
  exact ⟨pre, op, post, l, he, hiss, hal, hex.1, hex.2.2.1, hex.2.2.2.2.1⟩

/-- **vesting_period_is_licence_months** (clause "over the licence's vesting period starting at activation").
The schedule written by an accepted activation at block time `now` is NOT an input: it starts at `now` and ends
at `addMonths now l.months`, Go's `now.AddDate(0, l.months, 0)` for the `months` stored in the licence (which
`licence_origin` ties to the purchase).  That end lies between `28·months` and `31·months` days after `now`; the
whole amount is locked up to and including `now`, nothing is locked from the end on; for `months = 0` the period
is empty and everything is unlocked one second after activation (this is what the code does; the quantifier
"all vesting periods" includes 0). -/
theorem vesting_period_is_licence_months (s : State) (sg : Addr) (k : AddrStr) (now : Nat)
    (hok : (activate s sg k now).2 = .ok) :
    ∃ l, lookupLic s.lics k = some l ∧
      (activate s sg k now).1.acct k.addr = .vesting l.amount l.denom now (addMonths now l.months) ∧
      now + 28 * 86400 * l.months ≤ addMonths now l.months ∧ addMonths now l.months ≤ now + 31 * 86400 * l.months ∧
      (∀ t, t ≤ now → locked (activate s sg k now).1 k.addr l.denom t = l.amount) ∧
      (∀ t, addMonths now l.months ≤ t → now < t → locked (activate s sg k now).1 k.addr l.denom t = 0) ∧
      (l.months = 0 → locked (activate s sg k now).1 k.addr l.denom (now + 1) = 0) := by
  obtain ⟨_, l, hl, _, _, _, hs'⟩ := activate_ok _ _ _ _ hok
  have hv : (activate s sg k now).1.acct k.addr = .vesting l.amount l.denom now (addMonths now l.months) := by
    rw [hs']; simp [updA]
  have hb := addMonths_bounds now l.months
  have hlk : ∀ t, locked (activate s sg k now).1 k.addr l.denom t = lockedAt l.amount now (addMonths now l.months) t := by
    intro t; simp [locked, lockedOf, hv]
  refine ⟨l, hl, hv, hb.1, hb.2, ?_, ?_, ?_⟩
  · intro t ht; rw [hlk]; simp [lockedAt, vestedAt, ht]
  · intro t h1 h2
    have : ¬ t ≤ now := by omega
    rw [hlk]; simp [lockedAt, vestedAt, this, h1]
  · intro hm
    rw [hlk, hm, addMonths_zero]
    have : ¬ now + 1 ≤ now := by omega
    simp [lockedAt, vestedAt, this]

/-- the calendar behind `addMonths` is the civil (proleptic Gregorian, UTC) calendar: the year and month
computed for a day are the ones whose first day is at or before that day and whose successor's first day is
after it; the date read off a time gives back its day number; a month has 28 to 31 days; and adding `k` months
is the shift by the length of the `k` calendar months starting with the current one (so `addMonths t 0 = t`).
Agreement with Go's `AddDate` on concrete inputs is checked by the harness diff (stored `EndTime`). -/
theorem addMonths_calendar (t k : Nat) :
    (daysBeforeYear (yearAt t) ≤ dayNo t ∧ dayNo t < daysBeforeYear (yearAt t + 1)) ∧
    (1 ≤ monthAt t ∧ monthAt t ≤ 12) ∧
    monthStart (monthIdxAt t) + domAt t = dayNo t ∧
    (monthStart (monthIdxAt t + k) + 28 ≤ monthStart (monthIdxAt t + k + 1) ∧
      monthStart (monthIdxAt t + k + 1) ≤ monthStart (monthIdxAt t + k) + 31) ∧
    addMonths t k = t + (monthStart (monthIdxAt t + k) - monthStart (monthIdxAt t)) * 86400 ∧
    addMonths t 0 = t := by
  have hm := monthOf_spec (yearAt t) (dayNo t - daysBeforeYear (yearAt t))
  exact ⟨yearOf_spec (dayNo t), ⟨hm.1, hm.2.1⟩, civil_roundtrip t, monthStart_step _, addMonths_eq_shift t k,
    addMonths_zero t⟩

/-- **vesting_linear** (clause "unlocks linearly over the licence's vesting period starting at
activation").  For a continuous vesting account `(orig, start, stop)` as the SDK computes it
(`Dec(x).Quo(Dec(y))`, `Mul`, `RoundInt`: banker's rounding at 18 decimals, NOT truncation):
everything is locked up to and including `start`; nothing is locked from `stop` on (strictly after
`start`, for a zero-length period); the locked amount never increases with time and never exceeds
`orig`; and strictly inside the period the vested amount `v = orig − locked` is within
`1/2 + orig/(2·10^18) + orig/10^36` of the straight line `orig·(t−start)/(stop−start)`. -/
theorem vesting_linear (orig start stop : Nat) :
    (∀ t, t ≤ start → lockedAt orig start stop t = orig) ∧
    (∀ t, stop ≤ t → start < t → lockedAt orig start stop t = 0) ∧
    (∀ t1 t2, t1 ≤ t2 → lockedAt orig start stop t2 ≤ lockedAt orig start stop t1) ∧
    (∀ t, lockedAt orig start stop t ≤ orig ∧
          lockedAt orig start stop t + vestedAt orig start stop t = orig) ∧
    (∀ t, start < t → t < stop →
      2 * (vestedAt orig start stop t * (prec * prec * (stop - start))) ≤
        2 * (orig * (t - start) * (prec * prec)) + (prec * prec * (stop - start) + orig * prec * (stop - start)) ∧
      2 * (orig * (t - start) * (prec * prec)) ≤
        2 * (vestedAt orig start stop t * (prec * prec * (stop - start))) +
          (prec * prec * (stop - start) + orig * prec * (stop - start) + 2 * orig * (stop - start))) := by
  refine ⟨?_, ?_, ?_, ?_, ?_⟩
  · intro t h; simp [lockedAt, vestedAt, h]
  · intro t h1 h2
    have : ¬ t ≤ start := by omega
    simp [lockedAt, vestedAt, this, h1]
  · intro t1 t2 h
    have := vestedAt_mono orig start stop t1 t2 h
    unfold lockedAt; omega
  · intro t
    have := vestedAt_le orig start stop t
    unfold lockedAt; omega
  · intro t h1 h2
    exact vestedAt_linear orig start stop t h1 h2

/-- **locked_enforced** — for every operation OF THE MODEL'S ALPHABET (`Op`), not just the bank send: whenever a
step lowers the balance of an account (the creator paying for a licence, the funder of a sale, the sender of a
bank transfer or of a gift — nothing else in the alphabet debits anybody), what remains is at least what is still
locked (unvested) at the block time of that step.  So an activated address can move the licensed coins only as
they vest, through whichever of these paths.

EXCLUSION (not in the op alphabet, not driven by the harness): x/staking `MsgDelegate` / `MsgUndelegate` /
redelegation, transaction fees, x/distribution and x/gov deposits, IBC / skyway transfers out.  All but one of
them debit through the bank's `subUnlockedCoins` (spendable = balance − locked), the rule `send` models.  The
exception is DELEGATION: the SDK lets a vesting account delegate coins that are still locked
(`DelegateCoins` checks the total balance and `TrackDelegation` records them as `DelegatedVesting`), so after a
delegation the bank balance CAN be lower than `orig − vested`; the SDK's own `LockedCoins` then is
`max(orig − vested − DelegatedVesting, 0)`.  For an account that delegates, this theorem and
`vested_only_spendable` therefore have to be read as "balance + delegated-vesting ≥ unvested"; the model does not
state that (it has no delegation ledger), and the theorems below say nothing about histories containing
staking messages of the licensed address. -/
theorem locked_enforced (s : State) (op : Op) (x : Addr) (d : Denom)
    (h : (step s op).1.bal x d < s.bal x d) :
    ∃ now, op.time = some now ∧ locked s x d now ≤ (step s op).1.bal x d :=
  step_debit s op x d h

/-- … the same for the bank send alone, with the exact numbers: an accepted send of `amt` leaves
`amt + locked ≤ balance` (a send of more than balance − locked is refused). -/
theorem locked_enforced_send (s : State) (a : Addr) (b : Option Addr) (d : Denom) (amt : Int) (now : Nat)
    (hok : (send s a b d amt now).2 = .ok) : 0 < amt ∧ amt.toNat + locked s a d now ≤ s.bal a d := by
  unfold send at hok
  split at hok
  · simp at hok
  · split at hok
    · simp at hok
    · rename_i h2
      split at hok
      · simp at hok
      · split at hok
        · simp at hok
        · rename_i h4
          unfold spendable at h4
          have : 0 < amt.toNat := by omega
          omega

/-- **vested_only_spendable** (history level: "a continuously vesting balance that unlocks linearly").  After an
accepted activation at block time `now`, through EVERY later history OVER THE MODEL'S OP ALPHABET — any of its
operations by anybody, accepted or rejected — whose block times do not exceed `T`, the licensed address still
holds at least the part of the licence that is locked at `T` under the schedule
`(l.amount, now, addMonths now l.months)`: at most the vested part (`vesting_linear`) has ever left the account.

EXCLUSION: as for `locked_enforced` — staking (delegate / undelegate / redelegate) and the other debit paths of
the chain are not in the alphabet; a vesting account may delegate unvested coins, which lowers its bank balance
below the locked amount while the coins stay staked in its name.
TIMES: the block time of every operation is an INPUT of the operation (`Op.time`); the theorem holds for
arbitrary, even non-monotone, time stamps bounded by `T`, hence in particular for the non-decreasing block times
of a real chain (take `T` = the latest block time). -/
theorem vested_only_spendable (s : State) (sg : Addr) (k : AddrStr) (now : Nat)
    (hok : (activate s sg k now).2 = .ok) (ops : List Op) (T : Nat)
    (ht : ∀ op ∈ ops, ∀ t, op.time = some t → t ≤ T) :
    ∃ l, lookupLic s.lics k = some l ∧
      lockedAt l.amount now (addMonths now l.months) T ≤ (run (activate s sg k now).1 ops).bal k.addr l.denom := by
  obtain ⟨_, l, hl, _, _, _, hs'⟩ := activate_ok _ _ _ _ hok
  have hv : (activate s sg k now).1.acct k.addr = .vesting l.amount l.denom now (addMonths now l.months) := by
    rw [hs']; simp [updA]
  have hb : (activate s sg k now).1.bal k.addr l.denom = s.bal k.addr l.denom + l.amount := by
    rw [hs']; simp [upd2]
  have hle := (vesting_linear l.amount now (addMonths now l.months)).2.2.2.1 T
  refine ⟨l, hl, locked_kept_run _ k.addr l.amount l.denom now _ T hv (by omega) ops ht⟩

/-- the vesting schedule written at activation is the one in force after any later history over the model's op
alphabet (EXCLUSION as for `locked_enforced`: no staking messages — a delegation would change the SDK's
`LockedCoins` through `DelegatedVesting`, not the schedule itself) -/
theorem vesting_schedule_fixed (s : State) (sg : Addr) (k : AddrStr) (now : Nat)
    (hok : (activate s sg k now).2 = .ok) (ops : List Op) :
    ∃ l, lookupLic s.lics k = some l ∧
      ∀ t, locked (run (activate s sg k now).1 ops) k.addr l.denom t = lockedAt l.amount now (addMonths now l.months) t := by
  obtain ⟨_, l, hl, _, _, _, hs'⟩ := activate_ok _ _ _ _ hok
  have hv : (activate s sg k now).1.acct k.addr = .vesting l.amount l.denom now (addMonths now l.months) := by
    rw [hs']; simp [updA]
  have hv' := vesting_persists_run _ ops k.addr _ _ _ _ hv
  exact ⟨l, hl, fun t => by simp [locked, lockedOf, hv']⟩

/-- **sale_all_or_nothing**, "nothing": a sale that does not create a licence leaves the state exactly as it
was — no account for the client, no licence, no fee grant, no funder debited, escrow untouched.
TRUE BY CONSTRUCTION OF THE MODEL: `sale` returns the input state on every error branch, because
`processAttestation` runs `handleLightNodeSale` in a cache context that is written back only when the handler
returns nil (ASSUMPTION: that commit-on-nil wrapper, x/skyway/keeper/attestation.go; inside it the keeper has
already created the client's base account before the funding transfer can fail).  The theorem therefore only
records that every rejecting branch of the model is of that shape; that the IMPLEMENTATION is atomic here is
checked by the harness on the real code (monitors `failed_op_is_noop` — whole-store digest equal after a rejected
sale — and `sale_all_or_nothing`, incl. the directed rollback history that fails after the account creation). -/
theorem sale_all_or_nothing (s : State) (ch : Chain) (cl : Option AddrStr) (g : Int) (ct now : Nat)
    (h : (sale s ch cl g ct now).2 = .rejected) : (sale s ch cl g ct now).1 = s :=
  sale_rejected s ch cl g ct now h

/-- **sale_all_or_nothing**, "only if … are configured": an accepted sale found the claimed contract
authorised, a fee granter, a non-empty funder list containing an account whose balance covers
`grains·10^6 ugrain`; it debits that funder, credits the escrow, records a 24-month licence and the fee
grant feegranter → client. -/
theorem sale_requires_config (s : State) (ch : Chain) (cl : Option AddrStr) (g : Int) (ct now : Nat)
    (hok : (sale s ch cl g ct now).2 = .ok) :
    s.contracts ch = some ct ∧
    ∃ fg fl f c, s.feegranter = some fg ∧ s.funders = some fl ∧ f ∈ fl ∧ cl = some c ∧ 0 < g ∧
      g * (grain : Int) ≤ (s.bal f bondDenom : Int) ∧
      let n := (g * (grain : Int)).toNat
      let s' := (sale s ch cl g ct now).1
      s'.bal f bondDenom + n = s.bal f bondDenom ∧
      s'.escrow bondDenom = s.escrow bondDenom + n ∧
      lookupLic s'.lics c = some ⟨n, bondDenom, saleMonths⟩ ∧
      (fg, c.addr) ∈ s'.grants := by
  obtain ⟨hct, _, _, fg, fl, f, c, hfg, hfl, hf, hbal, hcl, hpos, hl, _, hsp, _, hs'⟩ := sale_ok _ _ _ _ _ _ hok
  refine ⟨hct, fg, fl, f, c, hfg, hfl, hf, hcl, hpos, hbal, ?_⟩
  intro n s'
  have e : s' = _ := hs'
  rw [e]
  have hle : n ≤ s.bal f bondDenom := by
    have : n ≤ spendable s f bondDenom now := hsp
    unfold spendable at this; omega
  refine ⟨?_, ?_, ?_, ?_⟩
  · simp [licState, upd2]; omega
  · simp [licState, upd]; rfl
  · simp [licState, lookupLic_append, hl]; rfl
  · simp

/-- **sale_all_or_nothing**, the listed causes: no authorised contract for the chain, a claim from another
contract, no fee granter, no funders (unset or empty), or no funder whose balance covers the price — each
makes the sale a no-op. -/
theorem sale_missing_config (s : State) (ch : Chain) (cl : Option AddrStr) (g : Int) (ct now : Nat)
    (h : s.contracts ch ≠ some ct ∨ s.feegranter = none ∨ s.funders = none ∨ s.funders = some [] ∨
         (∀ f ∈ s.funders.getD [], (s.bal f bondDenom : Int) < g * (grain : Int))) :
    sale s ch cl g ct now = (s, .rejected) := by
  have hres : (sale s ch cl g ct now).2 = .rejected := by
    cases hr : (sale s ch cl g ct now).2 with
    | rejected => rfl
    | ok =>
      obtain ⟨hct, _, _, fg, fl, f, c, hfg, hfl, hf, hbal, _⟩ := sale_ok _ _ _ _ _ _ hr
      rcases h with h | h | h | h | h
      · exact absurd hct h
      · rw [hfg] at h; cases h
      · rw [hfl] at h; cases h
      · rw [hfl] at h; simp only [Option.some.injEq] at h; subst h; cases hf
      · have := h f (by rw [hfl]; exact hf)
        omega
  have := sale_rejected s ch cl g ct now hres
  exact Prod.ext this hres

/-- **sale_all_or_nothing**, "an authorised sale contract is configured" — the chain of the claim: a claim
from a chain for which NO sale-contract record exists is a no-op whatever contract address string it carries
(in particular the EMPTY string `emptyStr`, which `ValidateBasic` lets through and which equals the
`ContractAddress` of the zero-value record a failed store lookup returns), whatever else is configured, for
every client, amount and time. -/
theorem sale_unconfigured_chain (s : State) (ch : Chain) (cl : Option AddrStr) (g : Int) (ct now : Nat)
    (h : s.contracts ch = none) : sale s ch cl g ct now = (s, .rejected) := by
  unfold sale; simp [h]

/-- … a contract authorised for OTHER chains only never authorises a sale reported from this chain: right
after a `SetLightNodeSaleContractsProposal` that lists no record for `ch`, every claim from `ch` is a no-op —
even one naming a contract that IS authorised elsewhere. -/
theorem sale_contract_is_per_chain (s : State) (l : List (Chain × CStr)) (ch : Chain) (cl : Option AddrStr)
    (g : Int) (ct now : Nat) (h : ∀ p ∈ l, p.1 ≠ ch) :
    sale (step s (.setContracts l)).1 ch cl g ct now = ((step s (.setContracts l)).1, .rejected) :=
  sale_unconfigured_chain _ ch cl g ct now (contractTable_none l ch h)

/-- … and over whole histories: if after ANY history from the empty chain state an attested sale from chain
`ch` naming contract string `ct` creates a licence, then governance authorised exactly that string for
exactly that chain — some `SetLightNodeSaleContractsProposal` of the history lists `(ch, ct)`.  Nothing else
(no message, sale, transfer, fee grant, other proposal) ever makes a contract authorised. -/
theorem sale_authorised_by_governance (ops : List Op) (ch : Chain) (cl : Option AddrStr) (g : Int)
    (ct now : Nat) (hok : (sale (run State.init ops) ch cl g ct now).2 = .ok) :
    ∃ l, Op.setContracts l ∈ ops ∧ (ch, ct) ∈ l := by
  obtain ⟨hct, _⟩ := sale_ok _ _ _ _ _ _ hok
  rcases run_contracts State.init ops ch ct hct with h | h
  · simp [State.init] at h
  · exact h

/-- **sale_configured_by_governance** (history level, "only if funders, fee granter and an authorised sale
contract are configured" — and WHO configured them).  If after ANY history from the empty chain state an
attested sale creates a licence, then the history contains a `SetLightNodeSaleContractsProposal` listing the
claimed contract string for the claim's chain, a `SetLightNodeClientFeegranterProposal` for exactly the fee
granter in force (the granter of the fee grant the sale writes), and a `SetLightNodeClientFundersProposal`
carrying exactly the funder list in force, of which the debited payer is a member.  No message, sale, transfer
or fee grant ever changes the three settings (`run_contracts`, `run_feegranter`, `run_funders`).
ASSUMPTION (x/gov): the three `set…` operations are the handlers of governance proposals; nobody but the gov
module can run them. -/
theorem sale_configured_by_governance (ops : List Op) (ch : Chain) (cl : Option AddrStr) (g : Int)
    (ct now : Nat) (hok : (sale (run State.init ops) ch cl g ct now).2 = .ok) :
    (∃ l, Op.setContracts l ∈ ops ∧ (ch, ct) ∈ l) ∧
    ∃ fg fl f c, cl = some c ∧
      (run State.init ops).feegranter = some fg ∧ Op.setFeegranter fg ∈ ops ∧
      (run State.init ops).funders = some fl ∧ Op.setFunders fl ∈ ops ∧ f ∈ fl ∧
      (sale (run State.init ops) ch cl g ct now).1.bal f bondDenom + (g * (grain : Int)).toNat =
        (run State.init ops).bal f bondDenom ∧
      (fg, c.addr) ∈ (sale (run State.init ops) ch cl g ct now).1.grants := by
  refine ⟨sale_authorised_by_governance ops ch cl g ct now hok, ?_⟩
  obtain ⟨_, fg, fl, f, c, hfg, hfl, hf, hcl, _, _, hrest⟩ := sale_requires_config _ ch cl g ct now hok
  refine ⟨fg, fl, f, c, hcl, hfg, ?_, hfl, ?_, hf, hrest.1, hrest.2.2.2⟩
  · rcases run_feegranter State.init ops fg hfg with h | h
    · simp [State.init] at h
    · exact h
  · rcases run_funders State.init ops fl hfl with h | h
    · simp [State.init] at h
    · exact h

/-- **failed_op_is_noop**: every rejected operation of the model (message, attested sale or gift) leaves
the state unchanged.  TRUE BY CONSTRUCTION of the model's step functions (each error branch returns the input
state); the corresponding fact about the implementation is an ASSUMPTION on baseapp's per-message cache and on
`processAttestation`'s cache context, observed by the harness monitor of the same name (store digests). -/
theorem failed_op_is_noop (s : State) (op : Op) (h : (step s op).2 = .rejected) : (step s op).1 = s := by
  cases op with
  | create sg cr cl amt d m now => exact create_rejected _ _ _ _ _ _ _ _ h
  | sale ch cl g ct now => exact sale_rejected _ _ _ _ _ _ h
  | activate sg cr now => exact activate_rejected _ _ _ _ h
  | auth sg cr => exact auth_state _ _ _
  | legacy sg cr => exact legacy_rejected _ _ _ h
  | send x y d amt now => exact send_rejected _ _ _ _ _ _ h
  | grant g e => exact grant_rejected _ _ _ h
  | gift x d amt now => exact gift_rejected _ _ _ _ _ h
  | fund x d amt => simp [step, fund] at h
  | setFeegranter x => simp [step] at h
  | setFunders l => simp [step] at h
  | setContracts c => simp [step] at h

/-! ### transactions with several messages

Every theorem above is stated for histories of single operations (`run`, `Reachable`).  A transaction with
several messages is (`tx`): the ante chain on the state BEFORE the transaction over ALL its messages, then the
handlers in order, all or nothing.  The theorems below show that such transactions add nothing: an accepted one is
its messages run one after the other as single operations, each of them accepted (`tx_is_its_messages_in_order`),
so every reachable-state theorem above holds for histories with multi-message transactions too
(`runEv_reachable`), and no message of an accepted transaction escapes the ownership check because of its
position or of its neighbours (`tx_checks_every_message`, `tx_activate_only_by_licensee_or_delegate`). -/

/-- **tx_all_or_nothing** (failed_op_is_noop for transactions): a rejected transaction — refused by the ante
chain because of ANY of its messages, or because ANY of its handlers failed — leaves the state unchanged, also
when earlier messages of it had succeeded. -/
theorem tx_all_or_nothing (s : State) (msgs : List Op) (h : (tx s msgs).2 = .rejected) : (tx s msgs).1 = s :=
  tx_rejected s msgs h

/-- **tx_checks_every_message**: an accepted transaction passed the ante check with EVERY one of its messages,
whatever its position and whatever the other messages are, on the state before the transaction. -/
theorem tx_checks_every_message (s : State) (msgs : List Op) (hok : (tx s msgs).2 = .ok) (m : Op) (hm : m ∈ msgs) :
    anteOk s m = true :=
  (tx_ok s msgs hok).2.1 m hm

/-- **tx_is_its_messages_in_order**: an accepted transaction is the sequence of its messages as single-message
operations — the final state is `run s msgs`, and each message, run as a single operation (ownership check
included) on the state its predecessors left, is accepted.  Hence `create_requires_fresh`, `activation_exact`,
`activate_once`, `vesting_period_is_licence_months` … apply to every message of a transaction. -/
theorem tx_is_its_messages_in_order (s : State) (msgs : List Op) (hok : (tx s msgs).2 = .ok) :
    (tx s msgs).1 = run s msgs ∧
      ∀ pre m post, msgs = pre ++ m :: post → (step (run s pre) m).2 = .ok := by
  obtain ⟨_, ha, he⟩ := tx_ok s msgs hok
  refine ⟨execAll_run s _ msgs ha he, ?_⟩
  intro pre m post hm
  subst hm
  exact execAll_split s _ pre m post ha he

/-- **tx_singleton**: a transaction with ONE message is the single-message operation (the two halves of the line
protocol agree; the harness sends some single messages through the `tx` path). -/
theorem tx_singleton (s : State) (m : Op) (hm : m.isMsg = true) : tx s [m] = step s m := by
  cases ha : anteOk s m with
  | false =>
    rw [step_of_not_anteOk s m hm ha]
    simp [tx, ha]
  | true =>
    have hh := handle_eq_step s m ha
    cases hr : (step s m).2 with
    | ok =>
      have : step s m = ((step s m).1, .ok) := Prod.ext rfl hr
      simp [tx, ha, execAll, hh, hr]
      exact this.symm
    | rejected =>
      have h1 := failed_op_is_noop s m hr
      have : step s m = (s, .rejected) := Prod.ext h1 hr
      simp [tx, ha, execAll, hh, hr]
      exact this.symm

/-- **tx_activate_only_by_licensee_or_delegate** — "activated … only by the licensed address itself", for
transactions with several messages: if an ACCEPTED transaction contains, at ANY position and next to ANY other
messages, a `MsgRegisterLightNodeClient` for the licence stored under `k` whose declared signer is `sg`, then
`sg` has an account (it signed the transaction) and is the licensed address itself (canonical spelling), or held,
BEFORE the transaction, a fee grant issued by the licensed address.  Neither a message of the same transaction
that is in order, nor a fee grant written by an earlier message of the same transaction, authorises it. -/
theorem tx_activate_only_by_licensee_or_delegate (s : State) (msgs : List Op) (hok : (tx s msgs).2 = .ok)
    (sg : Addr) (k : AddrStr) (now : Nat) (hm : Op.activate sg k now ∈ msgs) :
    s.acct sg ≠ .none ∧ ((k.upper = false ∧ sg = k.addr) ∨ (k.addr, sg) ∈ s.grants) := by
  have := tx_checks_every_message s msgs hok _ hm
  simpa only [anteOk, authorisedStr_iff] using this

/-- the same for the payer of a licence: a `MsgAddLightNodeClientLicense` in an accepted transaction is paid by
`cr` only if its declared signer is `cr` or held a fee grant from `cr` before the transaction -/
theorem tx_create_only_by_payer_or_delegate (s : State) (msgs : List Op) (hok : (tx s msgs).2 = .ok)
    (sg cr : Addr) (cl : Option AddrStr) (amt : Int) (d : Denom) (mo now : Nat)
    (hm : Op.create sg cr cl amt d mo now ∈ msgs) :
    s.acct sg ≠ .none ∧ (sg = cr ∨ (cr, sg) ∈ s.grants) := by
  have := tx_checks_every_message s msgs hok _ hm
  simpa only [anteOk, authorised_iff] using this

/-- **runEv_reachable**: every state reached by a history that contains transactions with several messages is
reached by a history of single operations (`flatten`: the messages of the accepted transactions, in order) —
so every theorem stated for `Reachable` states / `run State.init ops` holds for such histories. -/
theorem runEv_reachable (evs : List Ev) : Reachable (runEv State.init evs) :=
  ⟨flatten State.init evs, runEv_eq_run_flatten State.init evs⟩

/-- … for instance the escrow equation -/
theorem escrow_eq_sum_licences_ev (evs : List Ev) (d : Denom) :
    (runEv State.init evs).escrow d = sumLic d (runEv State.init evs).lics + (runEv State.init evs).gifts d :=
  (reachable_inv (runEv_reachable evs)).escrow d

/-- … and at most one accepted activation per address, transactions included -/
theorem activated_at_most_once_ev (evs : List Ev) (a : Addr) :
    activations a State.init (flatten State.init evs) ≤ 1 :=
  activations_le_one a State.init _

/-- **tx_activate_only_by_licensee_or_delegate**, history level: after ANY history with multi-message
transactions, a `MsgRegisterLightNodeClient` for `k` with declared signer `sg` inside an accepted transaction is
signed by the licensed address itself, or `sg` was issued a fee grant by the licensed address itself EARLIER IN
THE HISTORY (not in this transaction), or `sg` is the client of an earlier sale that ran while governance had
configured the licensed address as fee granter (the three cases of `activate_only_by_licensee_or_delegate`,
over the flattened history). -/
theorem tx_activate_only_by_licensee_or_delegate_history (evs : List Ev) (msgs : List Op)
    (hok : (tx (runEv State.init evs) msgs).2 = .ok) (sg : Addr) (k : AddrStr) (now : Nat)
    (hm : Op.activate sg k now ∈ msgs) :
    (k.upper = false ∧ sg = k.addr) ∨
    (∃ pre post, flatten State.init evs = pre ++ .grant k.addr sg :: post ∧
      (step (run State.init pre) (.grant k.addr sg)).2 = .ok) ∨
    (∃ pre ch c gr ct t post, flatten State.init evs = pre ++ .sale ch (some c) gr ct t :: post ∧ c.addr = sg ∧
      (step (run State.init pre) (.sale ch (some c) gr ct t)).2 = .ok ∧
      (run State.init pre).feegranter = some k.addr ∧ Op.setFeegranter k.addr ∈ pre) := by
  obtain ⟨_, hsig⟩ := tx_activate_only_by_licensee_or_delegate _ msgs hok sg k now hm
  rcases hsig with h | h
  · exact Or.inl h
  · rw [runEv_eq_run_flatten] at h
    obtain ⟨pre, op, post, he, hk, hop | ⟨ch, c, gr, ct, t, hop, hc, hfg, hset⟩⟩ :=
      grant_origin (flatten State.init evs) k.addr sg h
    · subst hop; exact Or.inr (Or.inl ⟨pre, post, he, hk⟩)
    · subst hop; exact Or.inr (Or.inr ⟨pre, ch, c, gr, ct, t, post, he, hc, hk, hfg, hset⟩)

/-! ### the wasm route: messages dispatched by a CONTRACT (CosmosMsg::Any, bare or inside authz.MsgExec)

No ante handler sees these messages; the creator gate of the wasm message router stands in for it.  The gate is a
function of the dispatching contract and the message ALONE (`wasm` takes no router state): what the same router let
through earlier — honest dispatches of the same or of another contract, in this block or an earlier one — cannot
make it accept a message it would refuse on a freshly started node (`wasm_activate_only_by_licensee_history`). -/

/-- **wasm_all_or_nothing** (failed_op_is_noop for a contract's dispatch) -/
theorem wasm_all_or_nothing (s : State) (c : Addr) (depth : Nat) (g : Addr) (msgs : List Op)
    (h : (wasm s c depth g msgs).2 = .rejected) : (wasm s c depth g msgs).1 = s :=
  wasm_rejected s c depth g msgs h

/-- **wasm_is_own_tx**: an ACCEPTED dispatch of contract `c` — bare or under any number of `MsgExec` wrappers — is
exactly the transaction with the same messages that the address `c` could have signed itself: every message names
`c` as creator and as declared signer.  A contract can do through the wasm route nothing an ordinary account could
not do in its own name; in particular every theorem about accepted transactions applies. -/
theorem wasm_is_own_tx (s : State) (c : Addr) (depth : Nat) (g : Addr) (msgs : List Op)
    (hok : (wasm s c depth g msgs).2 = .ok) :
    tx s msgs = wasm s c depth g msgs ∧ ∀ m ∈ msgs, creatorIs c m = true ∧ signerIs c m = true := by
  obtain ⟨hc, hne, _, h4, h6, he⟩ := wasm_ok s c depth g msgs hok
  refine ⟨?_, fun m hm => ⟨h4 m hm, h6 m hm⟩⟩
  have ha : msgs.all (anteOk s) = true :=
    List.all_eq_true.mpr (fun m hm => anteOk_of_own s c m hc (h4 m hm) (h6 m hm))
  have h0 : msgs.isEmpty = false := by cases msgs with
    | nil => exact absurd rfl hne
    | cons _ _ => rfl
  have : tx s msgs = ((wasm s c depth g msgs).1, .ok) := by simp [tx, h0, ha, he]
  rw [this]
  exact Prod.ext rfl hok.symm

/-- **wasm_activate_only_by_licensee** — "activated … only by the licensed address itself", for messages a contract
dispatches: if an ACCEPTED dispatch of contract `c` carries, bare or at ANY position of the message list inside ANY
number of `MsgExec` wrappers and next to ANY other messages, a `MsgRegisterLightNodeClient` for the licence stored
under `k`, then `k` is the canonical spelling of `c`'s own address and `c` is the declared signer: the contract
activated its OWN licence.  (No fee-grant delegation on this route: the router wants creator = contract.) -/
theorem wasm_activate_only_by_licensee (s : State) (c : Addr) (depth : Nat) (g : Addr) (msgs : List Op)
    (hok : (wasm s c depth g msgs).2 = .ok) (sg : Addr) (k : AddrStr) (now : Nat)
    (hm : Op.activate sg k now ∈ msgs) : k = ⟨c, false⟩ ∧ sg = c := by
  obtain ⟨h1, h2⟩ := (wasm_is_own_tx s c depth g msgs hok).2 _ hm
  simp only [creatorIs, signerIs, beq_iff_eq, Bool.and_eq_true] at h1 h2
  refine ⟨?_, h2⟩
  cases k with
  | mk a u => simp only at h1; simp [h1.1, h1.2]

/-- the same for the payer of a licence: a contract's dispatch buys licences only with the contract's own coins -/
theorem wasm_create_only_by_payer (s : State) (c : Addr) (depth : Nat) (g : Addr) (msgs : List Op)
    (hok : (wasm s c depth g msgs).2 = .ok) (sg cr : Addr) (cl : Option AddrStr) (amt : Int) (d : Denom)
    (mo now : Nat) (hm : Op.create sg cr cl amt d mo now ∈ msgs) : cr = c ∧ sg = c := by
  obtain ⟨h1, h2⟩ := (wasm_is_own_tx s c depth g msgs hok).2 _ hm
  simpa only [creatorIs, signerIs, beq_iff_eq] using And.intro h1 h2

theorem stepW_reachable {s : State} (hs : Reachable s) (e : WEv) : Reachable (stepW s e).1 := by
  cases e with
  | ev e =>
    cases e with
    | op o => exact reachable_step hs o
    | tx msgs => exact tx_reachable hs msgs
  | wasm c depth g msgs =>
    simp only [stepW]
    cases hr : (wasm s c depth g msgs).2 with
    | rejected => rw [wasm_rejected s c depth g msgs hr]; exact hs
    | ok =>
      rw [← (wasm_is_own_tx s c depth g msgs hr).1]
      exact tx_reachable hs msgs

/-- **runW_reachable**: every state reached by a history that contains contract dispatches (next to single
operations and multi-message transactions) is reached by a history of single operations — so every theorem stated
for `Reachable` states holds for such histories (escrow equation, one licence per address, no licence after
activation, vesting accounts never change, …). -/
theorem runW_reachable (evs : List WEv) : Reachable (runW State.init evs) := by
  suffices h : ∀ s, Reachable s → Reachable (runW s evs) from h _ ⟨[], rfl⟩
  induction evs with
  | nil => intro s hs; exact hs
  | cons e es ih => intro s hs; exact ih _ (stepW_reachable hs e)

/-- … for instance the escrow equation -/
theorem escrow_eq_sum_licences_w (evs : List WEv) (d : Denom) :
    (runW State.init evs).escrow d = sumLic d (runW State.init evs).lics + (runW State.init evs).gifts d :=
  (reachable_inv (runW_reachable evs)).escrow d

/-- **wasm_activate_only_by_licensee_history**: after ANY history — whatever contracts dispatched before through
the same router, honest `MsgExec`s included — an accepted dispatch of contract `c` that carries a registration for
`k` activates `c`'s own licence, which was pending. -/
theorem wasm_activate_only_by_licensee_history (evs : List WEv) (c : Addr) (depth : Nat) (g : Addr)
    (msgs : List Op) (hok : (wasm (runW State.init evs) c depth g msgs).2 = .ok) (sg : Addr) (k : AddrStr)
    (now : Nat) (hm : Op.activate sg k now ∈ msgs) : k = ⟨c, false⟩ ∧ sg = c :=
  wasm_activate_only_by_licensee _ c depth g msgs hok sg k now hm

/-! ## non-vacuity -/

/-- a small history: two funded accounts, full sale configuration, one licence bought by message, one by an
attested sale, a gift to the escrow account, and a licence stored under an upper-case address string -/
def exOps : List Op :=
  [ .fund 0 0 100000000, .fund 1 0 30000000, .setFeegranter 0, .setFunders [1], .setContracts [(0, 1)],
    .create 0 0 (some ⟨4, false⟩) 1000 0 3 100, .sale 0 (some ⟨5, false⟩) 5 1 110, .gift 0 0 7 120,
    .create 0 0 (some ⟨7, true⟩) 50 0 1 125 ]

def exState : State := run State.init exOps

example : exState.escrow 0 = 5001057 ∧ sumLic 0 exState.lics = 5001050 ∧ exState.gifts 0 = 7 := by decide
example : lookupLic exState.lics ⟨4, false⟩ = some ⟨1000, 0, 3⟩ ∧
    lookupLic exState.lics ⟨5, false⟩ = some ⟨5000000, 0, 24⟩ := by decide
example : exState.bal 1 0 = 25000000 ∧ exState.acct 5 = .base ∧ exState.grants = [(0, 5)] := by decide
-- activation by the licensee succeeds once, then never again; by a stranger it is refused.  The licence for 4
-- has 3 vesting months: activated on 1970-01-01 00:03:20 it vests until 1970-04-01 00:03:20 (31 + 28 + 31 days)
example : (activate exState 4 ⟨4, false⟩ 200).2 = .ok := by decide
example : (activate (activate exState 4 ⟨4, false⟩ 200).1 4 ⟨4, false⟩ 300).2 = .rejected := by decide
example : (activate exState 0 ⟨4, false⟩ 200).2 = .rejected := by decide
example : (activate exState 4 ⟨4, false⟩ 200).1.acct 4 = .vesting 1000 0 200 7776200 ∧
    (activate exState 4 ⟨4, false⟩ 200).1.bal 4 0 = 1000 ∧
    (activate exState 4 ⟨4, false⟩ 200).1.escrow 0 = 5000057 := by decide
-- the calendar: month overflow into the year, day overflow into the next month (2024-01-31 + 1 month = 2024-03-02,
-- 2023-01-31 + 1 month = 2023-03-03), leap day, 24 months, zero months
example : addMonths 1706659200 1 = 1709337600 ∧ addMonths 1675123200 1 = 1677801600 ∧
    addMonths 1709164800 12 = 1740787200 ∧ addMonths 1735689599 24 = 1798761599 ∧ addMonths 1735689599 0 = 1735689599 ∧
    addMonths 1701388800 2 = 1706745600 := by decide
-- a licence keyed by the upper-case spelling: the licensee cannot activate it itself under either spelling,
-- only a delegate it issued a fee grant to can (creator = the upper-case string)
example : (activate exState 7 ⟨7, true⟩ 200).2 = .rejected ∧ (activate exState 7 ⟨7, false⟩ 200).2 = .rejected ∧
    (activate (grant exState 7 8).1 8 ⟨7, true⟩ 200).2 = .ok := by decide
-- a zero-month licence: everything is locked at the activation second and free one second later
example : (activate (create exState 0 0 (some ⟨6, false⟩) 10 0 0 130).1 6 ⟨6, false⟩ 200).1.acct 6 = .vesting 10 0 200 200 ∧
    locked (activate (create exState 0 0 (some ⟨6, false⟩) 10 0 0 130).1 6 ⟨6, false⟩ 200).1 6 0 200 = 10 ∧
    locked (activate (create exState 0 0 (some ⟨6, false⟩) 10 0 0 130).1 6 ⟨6, false⟩ 200).1 6 0 201 = 0 := by decide

/-- the full-strength clause "activated only by the licensed address itself" is FALSE (1): the licensee 4
issues a fee grant to 8 (`MsgGrantAllowance`), and 8 — not 4 — activates 4's licence.  History from the empty
state; disjunct (2) of `activate_only_by_licensee_or_delegate`. -/
theorem activation_by_delegate_reachable :
    ∃ ops sg k now, (activate (run State.init ops) sg k now).2 = .ok ∧ sg ≠ k.addr ∧
      (∃ pre post, ops = pre ++ .grant k.addr sg :: post) :=
  ⟨exOps ++ [.grant 4 8], 8, ⟨4, false⟩, 200, by decide, by decide, exOps, [], rfl⟩

/-- … FALSE (2), without any act of the licensee: governance configures address 4 — which holds a not yet
activated licence — as light-node fee granter; the sale for client 6 writes the grant 4 → 6; client 6 then
activates 4's licence.  Disjunct (3) of `activate_only_by_licensee_or_delegate`; the coins still go to 4. -/
theorem activation_by_sale_client_reachable :
    ∃ ops sg k now, (activate (run State.init ops) sg k now).2 = .ok ∧ sg ≠ k.addr ∧
      (∀ pre post, ops ≠ pre ++ .grant k.addr sg :: post) ∧
      (activate (run State.init ops) sg k now).1.bal k.addr 0 = (run State.init ops).bal k.addr 0 + 1000 ∧
      (activate (run State.init ops) sg k now).1.bal sg 0 = (run State.init ops).bal sg 0 := by
  refine ⟨exOps ++ [.setFeegranter 4, .sale 0 (some ⟨6, false⟩) 5 1 130], 6, ⟨4, false⟩, 200, by decide, by decide, ?_,
    by decide, by decide⟩
  intro pre post h
  have : Op.grant 4 6 ∈ exOps ++ [.setFeegranter 4, .sale 0 (some ⟨6, false⟩) 5 1 130] := by
    rw [h]; simp
  simp [exOps] at this

/-- hence the clause "a licence … is activated … only by the licensed address itself", at full strength, is
FALSE in the model — and in the implementation: both witness histories are replayed by the harness on the real
app (stats `activate.by_delegate`, `activate.by_sale_client_of_feegranter_licensee`; the second one is the known
finding `C18-feegranter-licensee`). -/
theorem activate_only_by_licensee_false :
    ¬ ∀ (ops : List Op) (sg : Addr) (k : AddrStr) (now : Nat),
        (activate (run State.init ops) sg k now).2 = .ok → sg = k.addr := by
  intro H
  obtain ⟨ops, sg, k, now, hok, hne, _⟩ := activation_by_delegate_reachable
  exact hne (H ops sg k now hok)

-- `sale_configured_by_governance` is not vacuous: the sale of `exOps` runs after the three proposals
example : (sale (run State.init (exOps.take 6)) 0 (some ⟨5, false⟩) 5 1 110).2 = .ok ∧
    Op.setFeegranter 0 ∈ exOps.take 6 ∧ Op.setFunders [1] ∈ exOps.take 6 ∧
    Op.setContracts [(0, 1)] ∈ exOps.take 6 := by
  refine ⟨by decide, ?_, ?_, ?_⟩ <;> simp [exOps]

-- the counting form and the provenance theorems are not vacuous on this history: one accepted activation of 4
-- among three attempts; the licence of 5 stems from the sale, that of 4 from the message
example : activations 4 State.init (exOps ++ [.activate 0 ⟨4, false⟩ 190, .activate 4 ⟨4, false⟩ 200, .activate 4 ⟨4, false⟩ 300]) = 1 := by
  decide
example : Issued (run State.init (exOps.take 5)) (.create 0 0 (some ⟨4, false⟩) 1000 0 3 100) ⟨4, false⟩ ⟨1000, 0, 3⟩ := by
  refine ⟨by decide, by decide, ?_, by decide, by decide, by decide, by decide,
    Or.inl ⟨0, 0, 1000, 0, 3, 100, rfl, by decide, by decide⟩⟩
  intro k' _
  have : (run State.init (exOps.take 5)).lics = [] := by decide
  rw [this]; rfl
example : giftLog State.init 0 exOps = 7 ∧ giftLog State.init 1 exOps = 0 := by decide
-- a debit is refused as long as the coins are locked, whatever the path (send, licence purchase, gift)
example : (send (activate exState 4 ⟨4, false⟩ 200).1 4 (some 0) 0 1 201).2 = .rejected ∧
    (create (activate exState 4 ⟨4, false⟩ 200).1 4 4 (some ⟨6, false⟩) 1 0 0 201).2 = .rejected ∧
    (gift (activate exState 4 ⟨4, false⟩ 200).1 4 0 1 201).2 = .rejected ∧
    (send (activate exState 4 ⟨4, false⟩ 200).1 4 (some 0) 0 500 3888200).2 = .ok ∧
    (send (activate exState 4 ⟨4, false⟩ 200).1 4 (some 0) 0 501 3888200).2 = .rejected := by decide
-- creation for an address that has an account / a licence (under any spelling) is refused
example : (create exState 0 0 (some ⟨1, false⟩) 10 0 3 130).2 = .rejected ∧
    (create exState 0 0 (some ⟨4, false⟩) 10 0 3 130).2 = .rejected ∧
    (create exState 0 0 (some ⟨4, true⟩) 10 0 3 130).2 = .rejected := by decide
-- a consequence of paloma's delegation rule (outside C18, see C18.md): the sale client 5 holds the fee grant
-- 0 → 5 and may therefore act as creator 0, e.g. spend the fee granter's whole balance on a licence for 6
example : exState.bal 0 0 = 99998943 ∧ (create exState 5 0 (some ⟨6, false⟩) 99998943 0 0 130).2 = .ok ∧
    (create exState 5 0 (some ⟨6, false⟩) 99998943 0 0 130).1.bal 0 0 = 0 := by decide
-- a fully configured sale that fails AFTER the account creation (zero coin) changes nothing; so do a wrong
-- contract and a price above every funder's balance
example : (sale exState 0 (some ⟨6, false⟩) 0 1 130).2 = .rejected ∧ (sale exState 0 (some ⟨6, false⟩) 1 2 130).2 = .rejected ∧
    (sale exState 0 (some ⟨6, false⟩) 26 1 130).2 = .rejected ∧ (sale exState 0 (some ⟨6, false⟩) 25 1 130).2 = .ok := by decide
-- sale contracts are per chain and compared as strings: chain 0 is configured with contract 1, chain 1 has no
-- record, chain 2 is configured with the EMPTY string.  A claim from chain 1 is refused whatever it names
-- (the empty string, the contract authorised for chain 0); chain 2 accepts exactly the empty string
def exMulti : State := (step exState (.setContracts [(0, 1), (2, 7), (2, emptyStr)])).1
example : (sale exMulti 1 (some ⟨6, false⟩) 25 emptyStr 130).2 = .rejected ∧
    (sale exMulti 1 (some ⟨6, false⟩) 25 1 130).2 = .rejected ∧
    (sale exMulti 0 (some ⟨6, false⟩) 25 emptyStr 130).2 = .rejected ∧
    (sale exMulti 0 (some ⟨6, false⟩) 25 1 130).2 = .ok ∧
    (sale exMulti 2 (some ⟨6, false⟩) 25 7 130).2 = .rejected ∧
    (sale exMulti 2 (some ⟨6, false⟩) 25 emptyStr 130).2 = .ok := by decide
-- rounding is half-even at 18 decimals, not truncation: 1000 over 3 s vests 333, then 667 (not 666)
example : lockedAt 1000 0 3 1 = 667 ∧ lockedAt 1000 0 3 2 = 333 ∧ lockedAt 1000 0 3 3 = 0 ∧ lockedAt 1000 0 3 0 = 1000 := by decide
example : lockedAt 1000 200 7776200 3888200 = 500 := by decide


-- transactions with several messages (state `exState`: licences pending for 4, 5 and 7u; accounts 0, 1 funded):
-- an honest one is accepted and is its messages in order …
example : (tx exState [.legacy 0 0, .create 0 0 (some ⟨6, false⟩) 10 0 2 130, .send 1 (some 8) 0 5 130]).2 = .ok ∧
    (tx exState [.legacy 0 0, .create 0 0 (some ⟨6, false⟩) 10 0 2 130, .send 1 (some 8) 0 5 130]).1.acct 8 = .base ∧
    lookupLic (tx exState [.legacy 0 0, .create 0 0 (some ⟨6, false⟩) 10 0 2 130, .send 1 (some 8) 0 5 130]).1.lics
      ⟨6, false⟩ = some ⟨10, 0, 2⟩ := by decide
-- … a forged activation of 4's licence declared to be signed by 0 is refused at every position, whatever
-- in-order messages of 0 surround it; the licensee's own activation inside a transaction goes through
example : (tx exState [.activate 0 ⟨4, false⟩ 200, .legacy 0 0]).2 = .rejected ∧
    (tx exState [.legacy 0 0, .activate 0 ⟨4, false⟩ 200]).2 = .rejected ∧
    (tx exState [.legacy 0 0, .activate 0 ⟨4, false⟩ 200, .send 0 (some 1) 0 5 200]).2 = .rejected ∧
    (tx exState [.legacy 0 0, .activate 4 ⟨4, false⟩ 200]).2 = .ok ∧
    (tx exState [.legacy 0 0, .activate 4 ⟨4, false⟩ 200]).1.acct 4 = .vesting 1000 0 200 7776200 := by decide
-- a fee grant issued by an EARLIER MESSAGE OF THE SAME transaction does not authorise a later one (the ante chain
-- ran before); issued by an earlier transaction it does
example : (tx exState [.grant 4 0, .activate 0 ⟨4, false⟩ 200]).2 = .rejected ∧
    (tx (tx exState [.grant 4 0, .legacy 4 4]).1 [.legacy 0 0, .activate 0 ⟨4, false⟩ 200]).2 = .ok := by decide
-- all or nothing: the second activation of the same licence fails, so the first one is undone as well; a signer
-- without an account (6) makes the whole transaction fail; the empty transaction is refused
example : (tx exState [.activate 4 ⟨4, false⟩ 200, .activate 4 ⟨4, false⟩ 200]).2 = .rejected ∧
    (tx exState [.activate 4 ⟨4, false⟩ 200, .activate 4 ⟨4, false⟩ 200]).1.acct 4 = .base ∧
    (tx exState [.legacy 0 0, .legacy 6 6]).2 = .rejected ∧ (tx exState []).2 = .rejected := by decide
example : (runEv State.init ((exOps.map Ev.op) ++ [.tx [.legacy 0 0, .activate 0 ⟨4, false⟩ 200],
      .tx [.legacy 0 0, .activate 4 ⟨4, false⟩ 200]])).acct 4 = .vesting 1000 0 200 7776200 ∧
    (flatten State.init ((exOps.map Ev.op) ++ [.tx [.legacy 0 0, .activate 0 ⟨4, false⟩ 200],
      .tx [.legacy 0 0, .activate 4 ⟨4, false⟩ 200]])).length = exOps.length + 2 := by
  decide

/-! the wasm route: address 4 (licensed, base account) standing for a contract activates its OWN licence, bare and
inside two MsgExec wrappers next to another message; contract 0 cannot activate 4's licence — bare, wrapped, after
its own honest wrapped dispatch went through, with 4 as declared signer, or seven wrappers deep -/
example : (wasm exState 4 0 4 [.activate 4 ⟨4, false⟩ 200]).2 = .ok ∧
    (wasm exState 4 2 4 [.legacy 4 4, .activate 4 ⟨4, false⟩ 200]).2 = .ok ∧
    (wasm exState 4 2 4 [.legacy 4 4, .activate 4 ⟨4, false⟩ 200]).1.acct 4 = .vesting 1000 0 200 7776200 := by decide
example : (wasm exState 0 0 0 [.activate 0 ⟨4, false⟩ 200]).2 = .rejected ∧
    (wasm exState 0 1 0 [.legacy 0 0, .activate 0 ⟨4, false⟩ 200]).2 = .rejected ∧
    (wasm exState 0 1 0 [.activate 4 ⟨4, false⟩ 200]).2 = .rejected ∧
    (wasm exState 4 7 4 [.activate 4 ⟨4, false⟩ 200]).2 = .rejected ∧
    (wasm exState 4 1 0 [.activate 4 ⟨4, false⟩ 200]).2 = .rejected := by decide
example : (stepW (runW State.init (exOps.map (fun o => WEv.ev (.op o)))) (.wasm 0 1 0 [.legacy 0 0, .send 0 (some 1) 0 5 130])).2 = .ok ∧
    (wasm (runW State.init (exOps.map (fun o => WEv.ev (.op o)) ++ [.wasm 0 1 0 [.legacy 0 0, .send 0 (some 1) 0 5 130]]))
      0 1 0 [.activate 0 ⟨4, false⟩ 200]).2 = .rejected := by decide

end Paloma.LightNode
