/-
C18 — light-node licences: escrow, creation, activation, vesting, attested sales.
Model: `Model/LightNode.lean`.  Everything below holds for ALL states / histories (`run State.init ops`),
all amounts, denominations, vesting periods, signers and funder balance situations.
-/
import PalomaModel.Model.LightNode

set_option linter.unusedSimpArgs false

namespace Paloma.LightNode

/-! ## helper lemmas -/
section Lemmas

/-! ### vesting arithmetic (half-even rounding at 18 decimals) -/
theorem roundHE_bounds (n p : Nat) (hp : 0 < p) :
    2 * (roundHE n p * p) ≤ 2 * n + p ∧ 2 * n ≤ 2 * (roundHE n p * p) + p := by
  have hdm := Nat.div_add_mod n p
  have hlt := Nat.mod_lt n hp
  have hc : n / p * p = p * (n / p) := Nat.mul_comm _ _
  unfold roundHE
  split
  · rw [hc]; omega
  · split
    · rw [Nat.add_mul, hc]; omega
    · split
      · rw [hc]; omega
      · rw [Nat.add_mul, hc]; omega

theorem roundHE_mul (k p : Nat) (hp : 0 < p) : roundHE (k * p) p = k := by
  unfold roundHE
  simp [Nat.mul_mod_left, Nat.mul_div_cancel _ hp, hp]

theorem roundHE_le_succ (n p : Nat) : roundHE n p ≤ n / p + 1 := by
  unfold roundHE; repeat' split
  all_goals omega

theorem roundHE_ge (n p : Nat) : n / p ≤ roundHE n p := by
  unfold roundHE; repeat' split
  all_goals omega

theorem roundHE_mono (n m p : Nat) (_hp : 0 < p) (h : n ≤ m) : roundHE n p ≤ roundHE m p := by
  have hd : n / p ≤ m / p := Nat.div_le_div_right h
  rcases Nat.lt_or_eq_of_le hd with hlt | heq
  · calc roundHE n p ≤ n / p + 1 := roundHE_le_succ n p
      _ ≤ m / p := hlt
      _ ≤ roundHE m p := roundHE_ge m p
  · have h1 := Nat.div_add_mod n p
    have h2 := Nat.div_add_mod m p
    have hr : n % p ≤ m % p := by
      rw [heq] at h1
      omega
    unfold roundHE
    rw [heq]
    repeat' split
    all_goals omega


theorem prec_pos : 0 < prec := by decide

theorem scalar_le (x y : Nat) (hxy : x ≤ y) (_hy : 0 < y) :
    roundHE (x * (prec * prec) / y) prec ≤ prec := by
  have h1 : x * (prec * prec) / y ≤ prec * prec := by
    apply Nat.div_le_of_le_mul
    exact Nat.mul_le_mul_right _ hxy
  calc roundHE (x * (prec * prec) / y) prec ≤ roundHE (prec * prec) prec := roundHE_mono _ _ _ prec_pos h1
    _ = prec := roundHE_mul prec prec prec_pos

theorem vestedAt_le (orig start stop t : Nat) : vestedAt orig start stop t ≤ orig := by
  unfold vestedAt
  split
  · omega
  · split
    · omega
    · rename_i h1 h2
      have hs := scalar_le (t - start) (stop - start) (by omega) (by omega)
      calc roundHE (orig * roundHE ((t - start) * (prec * prec) / (stop - start)) prec) prec
          ≤ roundHE (orig * prec) prec := roundHE_mono _ _ _ prec_pos (Nat.mul_le_mul_left _ hs)
        _ = orig := roundHE_mul orig prec prec_pos

theorem vestedAt_mono (orig start stop t1 t2 : Nat) (h : t1 ≤ t2) :
    vestedAt orig start stop t1 ≤ vestedAt orig start stop t2 := by
  by_cases h1 : t1 ≤ start
  · simp [vestedAt, h1]
  · by_cases h2 : stop ≤ t2
    · have : vestedAt orig start stop t2 = orig := by
        unfold vestedAt; rw [if_neg (by omega), if_pos h2]
      rw [this]; exact vestedAt_le _ _ _ _
    · unfold vestedAt
      rw [if_neg h1, if_neg (by omega), if_neg (by omega), if_neg h2]
      apply roundHE_mono _ _ _ prec_pos
      apply Nat.mul_le_mul_left
      apply roundHE_mono _ _ _ prec_pos
      apply Nat.div_le_div_right
      apply Nat.mul_le_mul_right
      omega

private theorem lin_up (v orig S A P x y r : Nat)
    (hb1 : 2 * (S * P) ≤ 2 * A + P)
    (hb2 : 2 * (v * P) ≤ 2 * (orig * S) + P)
    (hdm : y * A + r = x * (P * P)) :
    2 * (v * (P * P * y)) ≤ 2 * (orig * x * (P * P)) + (P * P * y + orig * P * y) := by
  have k1 := Nat.mul_le_mul_right (P * y) hb2
  have k2 := Nat.mul_le_mul_right (orig * y) hb1
  have k3 : orig * (y * A) ≤ orig * (x * (P * P)) := Nat.mul_le_mul_left _ (by omega)
  grind

private theorem lin_lo (v orig S A P x y r : Nat)
    (hb1 : 2 * A ≤ 2 * (S * P) + P)
    (hb2 : 2 * (orig * S) ≤ 2 * (v * P) + P)
    (hdm : y * A + r = x * (P * P)) (hml : r < y) :
    2 * (orig * x * (P * P)) ≤ 2 * (v * (P * P * y)) + (P * P * y + orig * P * y + 2 * orig * y) := by
  have k1 := Nat.mul_le_mul_right (P * y) hb2
  have k2 := Nat.mul_le_mul_right (orig * y) hb1
  have k3 : orig * (x * (P * P)) ≤ orig * (y * A + y) := Nat.mul_le_mul_left _ (by omega)
  grind

/-- the vested amount is within `1/2 + orig/(2·10^18) + orig/10^36` of the straight line `orig·x/y` -/
theorem vestedAt_linear (orig start stop t : Nat) (h1 : start < t) (h2 : t < stop) :
    let x := t - start
    let y := stop - start
    let v := vestedAt orig start stop t
    2 * (v * (prec * prec * y)) ≤ 2 * (orig * x * (prec * prec)) + (prec * prec * y + orig * prec * y) ∧
    2 * (orig * x * (prec * prec)) ≤ 2 * (v * (prec * prec * y)) + (prec * prec * y + orig * prec * y + 2 * orig * y) := by
  intro x y v
  have hy : 0 < y := by omega
  have hv : v = roundHE (orig * roundHE (x * (prec * prec) / y) prec) prec := by
    show vestedAt orig start stop t = _
    unfold vestedAt; rw [if_neg (by omega), if_neg (by omega)]
  generalize hA : x * (prec * prec) / y = A at hv
  generalize hS : roundHE A prec = S at hv
  have hb1 := roundHE_bounds A prec prec_pos
  rw [hS] at hb1
  have hb2 := roundHE_bounds (orig * S) prec prec_pos
  rw [← hv] at hb2
  -- A·y ≤ x·P² < A·y + y
  have hdm := Nat.div_add_mod (x * (prec * prec)) y
  have hml := Nat.mod_lt (x * (prec * prec)) hy
  rw [hA] at hdm
  exact ⟨lin_up v orig S A prec x y _ hb1.1 hb2.1 hdm, lin_lo v orig S A prec x y _ hb1.2 hb2.2 hdm hml⟩

/-! ### the licence table -/
theorem sumLic_append (d : Denom) (l : List (AddrStr × Lic)) (x : AddrStr × Lic) :
    sumLic d (l ++ [x]) = sumLic d l + (if x.2.denom = d then x.2.amount else 0) := by
  induction l with
  | nil => simp [sumLic]
  | cons h t ih => obtain ⟨k, v⟩ := h; simp [sumLic, ih]; omega

theorem lookupLic_append (l : List (AddrStr × Lic)) (c : AddrStr) (v : Lic) (a : AddrStr) :
    lookupLic (l ++ [(c, v)]) a =
      match lookupLic l a with
      | some x => some x
      | none => if c = a then some v else none := by
  induction l with
  | nil => simp [lookupLic]
  | cons h t ih =>
    obtain ⟨k, w⟩ := h
    simp only [List.cons_append, lookupLic]
    split
    · rfl
    · exact ih

theorem sumLic_erase (d : Denom) (l : List (AddrStr × Lic)) (a : AddrStr) (v : Lic)
    (h : lookupLic l a = some v) :
    sumLic d (eraseLic l a) + (if v.denom = d then v.amount else 0) = sumLic d l := by
  induction l with
  | nil => simp [lookupLic] at h
  | cons hd t ih =>
    obtain ⟨k, w⟩ := hd
    simp only [lookupLic] at h
    simp only [eraseLic]
    split at h
    · rename_i hk
      simp only [Option.some.injEq] at h
      subst h
      simp [hk, sumLic]; omega
    · rename_i hk
      simp [hk, sumLic]
      have := ih h
      omega

theorem lookupLic_erase_ne (l : List (AddrStr × Lic)) (a b : AddrStr) (h : a ≠ b) :
    lookupLic (eraseLic l a) b = lookupLic l b := by
  induction l with
  | nil => rfl
  | cons hd t ih =>
    obtain ⟨k, w⟩ := hd
    simp only [eraseLic]
    split
    · rename_i hk
      subst hk
      simp [lookupLic, h]
    · simp [lookupLic, ih]

theorem lookupLic_erase_none (l : List (AddrStr × Lic)) (a b : AddrStr) (h : lookupLic l b = none) :
    lookupLic (eraseLic l a) b = none := by
  induction l with
  | nil => rfl
  | cons hd t ih =>
    obtain ⟨k, w⟩ := hd
    simp only [lookupLic] at h
    split at h
    · simp at h
    · rename_i hk
      simp only [eraseLic]
      split
      · exact h
      · simp [lookupLic, hk, ih h]

/-- no two entries of the licence table share a key -/
def keysNodup : List (AddrStr × Lic) → Prop
  | [] => True
  | (k, _) :: rest => lookupLic rest k = none ∧ keysNodup rest

theorem lookupLic_erase_self (l : List (AddrStr × Lic)) (a : AddrStr) (h : keysNodup l) :
    lookupLic (eraseLic l a) a = none := by
  induction l with
  | nil => rfl
  | cons hd t ih =>
    obtain ⟨k, w⟩ := hd
    simp only [keysNodup] at h
    simp only [eraseLic]
    split
    · rename_i hk; subst hk; exact h.1
    · rename_i hk; simp [lookupLic, hk, ih h.2]

theorem keysNodup_append (l : List (AddrStr × Lic)) (c : AddrStr) (v : Lic) (h : keysNodup l)
    (hc : lookupLic l c = none) : keysNodup (l ++ [(c, v)]) := by
  induction l with
  | nil => simp [keysNodup, lookupLic]
  | cons hd t ih =>
    obtain ⟨k, w⟩ := hd
    simp only [keysNodup] at h
    simp only [lookupLic] at hc
    split at hc
    · simp at hc
    · rename_i hk
      simp only [List.cons_append, keysNodup]
      refine ⟨?_, ih h.2 hc⟩
      rw [lookupLic_append, h.1]
      simp; intro h'; exact hk h'.symm

theorem keysNodup_erase (l : List (AddrStr × Lic)) (a : AddrStr) (h : keysNodup l) : keysNodup (eraseLic l a) := by
  induction l with
  | nil => trivial
  | cons hd t ih =>
    obtain ⟨k, w⟩ := hd
    simp only [keysNodup] at h
    simp only [eraseLic]
    split
    · exact h.2
    · exact ⟨lookupLic_erase_none _ _ _ h.1, ih h.2⟩

/-! ### shapes of the successful steps -/


/-- the state written by a successful `createLic` -/
def licState (s : State) (creator : Addr) (c : AddrStr) (n : Nat) (d : Denom) (months : Nat) : State :=
  { s with acct := updA s.acct c.addr .base, nacc := s.nacc + 1,
           bal := upd2 s.bal creator d (s.bal creator d - n),
           escrow := upd s.escrow d (s.escrow d + n),
           lics := s.lics ++ [(c, { amount := n, denom := d, months := months })] }

theorem createLic_some (s s' : State) (cr : Addr) (cl : Option AddrStr) (amt : Int) (d : Denom) (m now : Nat)
    (h : createLic s cr cl amt d m now = some s') :
    ∃ c, cl = some c ∧ 0 < amt ∧ denomValid d = true ∧ lookupLic s.lics c = none ∧ s.acct c.addr = .none ∧
      amt.toNat ≤ spendable s cr d now ∧ s' = licState s cr c amt.toNat d m := by
  unfold createLic at h
  split at h
  · simp at h
  · rename_i h1
    split at h
    · simp at h
    · rename_i c
      split at h
      · simp at h
      · rename_i h2
        split at h
        · simp at h
        · rename_i h3
          split at h
          · simp at h
          · rename_i h4
            split at h
            · simp at h
            · rename_i h5
              simp only [Option.some.injEq] at h
              have h1' : 0 ≤ amt ∧ denomValid d = true := by simpa using h1
              refine ⟨c, rfl, by omega, h1'.2, by simpa using h2, by simpa using h3, by omega, ?_⟩
              rw [← h]; rfl

theorem create_ok (s : State) (sg cr : Addr) (cl : Option AddrStr) (amt : Int) (d : Denom) (m now : Nat)
    (h : (create s sg cr cl amt d m now).2 = .ok) :
    authorised s sg cr = true ∧
    ∃ c, cl = some c ∧ 0 < amt ∧ denomValid d = true ∧ lookupLic s.lics c = none ∧ s.acct c.addr = .none ∧
      amt.toNat ≤ spendable s cr d now ∧ (create s sg cr cl amt d m now).1 = licState s cr c amt.toNat d m := by
  unfold create at h
  split at h
  · simp at h
  · rename_i ha
    split at h
    · simp at h
    · rename_i s' hs
      have ha' : authorised s sg cr = true := by simpa using ha
      refine ⟨ha', ?_⟩
      obtain ⟨c, h1, h2, h3, h4, h5, h6, h7⟩ := createLic_some _ _ _ _ _ _ _ _ hs
      refine ⟨c, h1, h2, h3, h4, h5, h6, ?_⟩
      simp [create, ha', hs, h7]

theorem create_rejected (s : State) (sg cr : Addr) (cl : Option AddrStr) (amt : Int) (d : Denom) (m now : Nat)
    (h : (create s sg cr cl amt d m now).2 = .rejected) : (create s sg cr cl amt d m now).1 = s := by
  unfold create at h ⊢
  split
  · rfl
  · split
    · rfl
    · rename_i h1 _ _ hs; simp [h1, hs] at h

theorem pickFunder_some (s : State) (amt : Int) (l : List Addr) (f : Addr) (h : pickFunder s amt l = some f) :
    f ∈ l ∧ amt ≤ (s.bal f bondDenom : Int) := by
  induction l with
  | nil => simp [pickFunder] at h
  | cons x t ih =>
    simp only [pickFunder] at h
    split at h
    · rename_i g hg
      simp only [Option.some.injEq] at h
      subst h
      exact ⟨List.mem_cons_of_mem _ (ih hg).1, (ih hg).2⟩
    · split at h
      · rename_i hb
        simp only [Option.some.injEq] at h
        subst h
        exact ⟨List.mem_cons_self, hb⟩
      · simp at h

theorem pickFunder_none (s : State) (amt : Int) (l : List Addr) (h : ∀ f ∈ l, (s.bal f bondDenom : Int) < amt) :
    pickFunder s amt l = none := by
  induction l with
  | nil => rfl
  | cons x t ih =>
    simp only [pickFunder]
    rw [ih (fun f hf => h f (List.mem_cons_of_mem _ hf))]
    have := h x List.mem_cons_self
    simp; omega

theorem sale_ok (s : State) (ch : Chain) (cl : Option AddrStr) (g : Int) (ct now : Nat) (h : (sale s ch cl g ct now).2 = .ok) :
    s.contracts ch = some ct ∧ 0 ≤ g ∧ g * (grain : Int) < (maxInt : Int) ∧
    ∃ fg fl f c, s.feegranter = some fg ∧ s.funders = some fl ∧ f ∈ fl ∧ g * (grain : Int) ≤ (s.bal f bondDenom : Int) ∧
      cl = some c ∧ 0 < g ∧ lookupLic s.lics c = none ∧ s.acct c.addr = .none ∧
      (g * (grain : Int)).toNat ≤ spendable s f bondDenom now ∧
      (fg, c.addr) ∉ s.grants ∧
      (sale s ch cl g ct now).1 =
        { licState s f c (g * (grain : Int)).toNat bondDenom saleMonths with grants := s.grants ++ [(fg, c.addr)] } := by
  unfold sale at h ⊢
  split at h
  · simp at h
  · rename_i h1
    split at h
    · simp at h
    · rename_i h2
      split at h
      · simp at h
      · rename_i h3
        split at h
        · simp at h
        · rename_i h4
          split at h
          · simp at h
          · rename_i fg hfg
            split at h
            · simp at h
            · rename_i h5
              split at h
              · simp at h
              · rename_i f hf
                split at h
                · simp at h
                · rename_i s1 hs1
                  split at h
                  · simp at h
                  · rename_i h6
                    obtain ⟨c, hc, hpos, _, hl, ha, hsp, hs1'⟩ := createLic_some _ _ _ _ _ _ _ _ hs1
                    subst hc
                    have hfl : ∃ fl, s.funders = some fl := by
                      cases hfu : s.funders with
                      | none => simp [hfu] at h5
                      | some fl => exact ⟨fl, rfl⟩
                    obtain ⟨fl, hfl⟩ := hfl
                    have hpf := pickFunder_some s _ _ f hf
                    simp only [hfl, Option.getD_some] at hpf
                    have hct : s.contracts ch = some ct := by
                      simpa using h2
                    subst hs1'
                    have hng : (fg, c.addr) ∉ s.grants := by simpa [licState] using h6
                    refine ⟨hct, by omega, by omega, fg, fl, f, c, hfg, hfl, hpf.1, hpf.2, rfl, ?_, hl, ha, hsp, ?_, ?_⟩
                    · have : (0:Int) < (grain : Int) := by decide
                      have : g ≠ 0 := by intro h0; subst h0; simp at hpos
                      omega
                    · exact hng
                    · simp [h1, h2, h3, h4, hfg, h5, hf, hs1, hng, licState]

/-! ### rejected steps and the remaining shapes -/


theorem sale_rejected (s : State) (ch : Chain) (cl : Option AddrStr) (g : Int) (ct now : Nat)
    (h : (sale s ch cl g ct now).2 = .rejected) : (sale s ch cl g ct now).1 = s := by
  have : (sale s ch cl g ct now).1 = s ∨ (sale s ch cl g ct now).2 = .ok := by
    unfold sale
    repeat' split
    all_goals first | (left; rfl) | (right; rfl)
  rcases this with h' | h'
  · exact h'
  · rw [h'] at h; cases h

theorem activate_ok (s : State) (sg : Addr) (cr : AddrStr) (stop now : Nat) (h : (activate s sg cr stop now).2 = .ok) :
    authorisedStr s sg cr = true ∧
    ∃ l, lookupLic s.lics cr = some l ∧ s.acct cr.addr = .base ∧ 0 < l.amount ∧ l.amount ≤ s.escrow l.denom ∧
      (activate s sg cr stop now).1 =
        { s with acct := updA s.acct cr.addr (.vesting l.amount l.denom now stop),
                 bal := upd2 s.bal cr.addr l.denom (s.bal cr.addr l.denom + l.amount),
                 escrow := upd s.escrow l.denom (s.escrow l.denom - l.amount),
                 lics := eraseLic s.lics cr,
                 clients := if s.clients.contains cr then s.clients else s.clients ++ [cr] } := by
  unfold activate at h
  split at h
  · simp at h
  · rename_i ha
    split at h
    · simp at h
    · rename_i l hl
      split at h
      · simp at h
      · rename_i h1
        split at h
        · simp at h
        · rename_i h2
          split at h
          · simp at h
          · rename_i h3
            have ha' : authorisedStr s sg cr = true := by simpa using ha
            have h1' : s.acct cr.addr = .base := by simpa using h1
            refine ⟨ha', l, hl, h1', by omega, by omega, ?_⟩
            simp [activate, ha', hl, h1', h2, h3]

theorem activate_rejected (s : State) (sg : Addr) (cr : AddrStr) (stop now : Nat)
    (h : (activate s sg cr stop now).2 = .rejected) : (activate s sg cr stop now).1 = s := by
  have : (activate s sg cr stop now).1 = s ∨ (activate s sg cr stop now).2 = .ok := by
    unfold activate
    repeat' split
    all_goals first | (left; rfl) | (right; rfl)
  rcases this with h' | h'
  · exact h'
  · rw [h'] at h; cases h

theorem send_rejected (s : State) (a : Addr) (b : Option Addr) (d : Denom) (amt : Int) (now : Nat)
    (h : (send s a b d amt now).2 = .rejected) : (send s a b d amt now).1 = s := by
  have : (send s a b d amt now).1 = s ∨ (send s a b d amt now).2 = .ok := by
    unfold send
    repeat' split
    all_goals first | (left; rfl) | (right; rfl)
  rcases this with h' | h'
  · exact h'
  · rw [h'] at h; cases h

theorem grant_rejected (s : State) (g e : Addr) (h : (grant s g e).2 = .rejected) : (grant s g e).1 = s := by
  have : (grant s g e).1 = s ∨ (grant s g e).2 = .ok := by
    unfold grant
    repeat' split
    all_goals first | (left; rfl) | (right; rfl)
  rcases this with h' | h'
  · exact h'
  · rw [h'] at h; cases h

theorem gift_rejected (s : State) (a : Addr) (d : Denom) (amt now : Nat)
    (h : (gift s a d amt now).2 = .rejected) : (gift s a d amt now).1 = s := by
  have : (gift s a d amt now).1 = s ∨ (gift s a d amt now).2 = .ok := by
    unfold gift
    repeat' split
    all_goals first | (left; rfl) | (right; rfl)
  rcases this with h' | h'
  · exact h'
  · rw [h'] at h; cases h

theorem auth_state (s : State) (sg : Addr) (cr : AddrStr) : (auth s sg cr).1 = s := by
  unfold auth; repeat' split
  all_goals rfl

theorem legacy_rejected (s : State) (sg cr : Addr) (h : (legacy s sg cr).2 = .rejected) : (legacy s sg cr).1 = s := by
  have : (legacy s sg cr).1 = s ∨ (legacy s sg cr).2 = .ok := by
    unfold legacy
    repeat' split
    all_goals first | (left; rfl) | (right; rfl)
  rcases this with h' | h'
  · exact h'
  · rw [h'] at h; cases h

/-! ### frames and the invariant -/


/-- what a step may do to the parts of the state the licence flow does not own -/
structure Frame (s s' : State) : Prop where
  lics : s'.lics = s.lics
  escrow : s'.escrow = s.escrow
  gifts : s'.gifts = s.gifts
  acct : ∀ a, s.acct a ≠ .none → s'.acct a = s.acct a

theorem Frame.refl (s : State) : Frame s s := ⟨rfl, rfl, rfl, fun _ _ => rfl⟩

theorem touchAcct_frame (s : State) (a : Addr) : Frame s (touchAcct s a) := by
  unfold touchAcct
  split
  · rename_i h
    refine ⟨rfl, rfl, rfl, ?_⟩
    intro b hb
    simp only [updA]
    split
    · rename_i hba; subst hba; exact absurd h hb
    · rfl
  · exact Frame.refl s

theorem Frame.trans {a b c : State} (h1 : Frame a b) (h2 : Frame b c) : Frame a c := by
  refine ⟨by rw [h2.lics, h1.lics], by rw [h2.escrow, h1.escrow], by rw [h2.gifts, h1.gifts], ?_⟩
  intro x hx
  have := h1.acct x hx
  rw [h2.acct x (by rw [this]; exact hx), this]

theorem touchAcct_frame' (s s0 : State) (a : Addr) (h : Frame s s0) : Frame s (touchAcct s0 a) :=
  h.trans (touchAcct_frame s0 a)

theorem send_frame (s : State) (a : Addr) (b : Option Addr) (d : Denom) (amt : Int) (now : Nat) :
    Frame s (send s a b d amt now).1 := by
  unfold send
  repeat' split
  all_goals first | exact Frame.refl s | skip
  exact touchAcct_frame' _ _ _ ⟨rfl, rfl, rfl, fun _ _ => rfl⟩

theorem grant_frame (s : State) (g e : Addr) : Frame s (grant s g e).1 := by
  unfold grant
  repeat' split
  all_goals first | exact Frame.refl s | skip
  exact touchAcct_frame' _ _ _ ⟨rfl, rfl, rfl, fun _ _ => rfl⟩

theorem fund_frame (s : State) (a : Addr) (d : Denom) (amt : Nat) : Frame s (fund s a d amt).1 := by
  unfold fund
  exact touchAcct_frame' _ _ _ ⟨rfl, rfl, rfl, fun _ _ => rfl⟩

theorem legacy_frame (s : State) (sg cr : Addr) : Frame s (legacy s sg cr).1 := by
  unfold legacy
  repeat' split
  all_goals first | exact Frame.refl s | exact ⟨rfl, rfl, rfl, fun _ _ => rfl⟩

/-- the invariant of the licence flow -/
structure Inv (s : State) : Prop where
  /-- escrow = outstanding licences + gifts, per denomination -/
  escrow : ∀ d, s.escrow d = sumLic d s.lics + s.gifts d
  nodup : keysNodup s.lics
  /-- a licensed address has a plain base account and a positive amount -/
  lic : ∀ k l, lookupLic s.lics k = some l → s.acct k.addr = .base ∧ 0 < l.amount
  /-- at most one licence per ADDRESS, whatever the spelling of the key -/
  one : ∀ k1 k2 l1 l2, lookupLic s.lics k1 = some l1 → lookupLic s.lics k2 = some l2 →
    k1.addr = k2.addr → k1 = k2

theorem Inv.of_frame {s s' : State} (h : Inv s) (f : Frame s s') : Inv s' := by
  refine ⟨?_, by rw [f.lics]; exact h.nodup, ?_, by rw [f.lics]; exact h.one⟩
  · intro d; rw [f.escrow, f.lics, f.gifts]; exact h.escrow d
  · intro a l hl
    rw [f.lics] at hl
    have := h.lic a l hl
    refine ⟨?_, this.2⟩
    rw [f.acct a.addr (by rw [this.1]; simp), this.1]

theorem Inv.init : Inv State.init :=
  ⟨fun _ => rfl, trivial, fun _ _ h => by simp [State.init, lookupLic] at h,
   fun _ _ _ _ h => by simp [State.init, lookupLic] at h⟩

theorem Inv.licState {s : State} (h : Inv s) (cr : Addr) (c : AddrStr) (n : Nat) (d : Denom) (m : Nat)
    (hn : 0 < n) (hl : lookupLic s.lics c = none) (hc : s.acct c.addr = .none) : Inv (licState s cr c n d m) := by
  -- a key already in the table belongs to an address with a base account, hence not to `c.addr`
  have hother : ∀ k x, lookupLic s.lics k = some x → k.addr ≠ c.addr := by
    intro k x hk hkc
    have := (h.lic k x hk).1
    rw [hkc, hc] at this; cases this
  refine ⟨?_, keysNodup_append _ _ _ h.nodup hl, ?_, ?_⟩
  · intro d'
    simp only [Paloma.LightNode.licState, sumLic_append, upd]
    have := h.escrow d'
    split
    · rename_i hd; subst hd; simp; omega
    · rename_i hd
      have : ¬ d = d' := fun h' => hd h'.symm
      simp [this]; omega
  · intro a l hla
    simp only [Paloma.LightNode.licState, lookupLic_append] at hla ⊢
    split at hla
    · rename_i x hx
      simp only [Option.some.injEq] at hla
      subst hla
      have := h.lic a x hx
      refine ⟨?_, this.2⟩
      simp only [updA]
      split
      · rfl
      · exact this.1
    · split at hla
      · rename_i hca
        simp only [Option.some.injEq] at hla
        subst hla; subst hca
        exact ⟨by simp [updA], hn⟩
      · simp at hla
  · intro k1 k2 l1 l2 h1 h2 hk
    simp only [Paloma.LightNode.licState, lookupLic_append] at h1 h2
    split at h1
    · rename_i x1 hx1
      split at h2
      · rename_i x2 hx2
        exact h.one k1 k2 x1 x2 hx1 hx2 hk
      · split at h2
        · rename_i hc2; subst hc2
          exact absurd hk (hother k1 x1 hx1)
        · cases h2
    · split at h1
      · rename_i hc1; subst hc1
        split at h2
        · rename_i x2 hx2
          exact absurd hk.symm (hother k2 x2 hx2)
        · split at h2
          · rename_i hc2; exact hc2
          · cases h2
      · cases h1

theorem lookupLic_erase_some (l : List (AddrStr × Lic)) (a b : AddrStr) (v : Lic)
    (h : lookupLic (eraseLic l a) b = some v) (hn : keysNodup l) : lookupLic l b = some v := by
  by_cases hab : a = b
  · subst hab; rw [lookupLic_erase_self _ _ hn] at h; cases h
  · rw [lookupLic_erase_ne _ _ _ hab] at h; exact h

/-! ### the invariant holds in every reachable state -/

theorem inv_step {s : State} (h : Inv s) (op : Op) : Inv (step s op).1 := by
  cases op with
  | create sg cr cl amt d m now =>
    simp only [step]
    cases hr : (create s sg cr cl amt d m now).2 with
    | rejected => rw [create_rejected _ _ _ _ _ _ _ _ hr]; exact h
    | ok =>
      obtain ⟨_, c, _, hpos, _, hl, hc, _, hs'⟩ := create_ok _ _ _ _ _ _ _ _ hr
      rw [hs']
      exact h.licState _ _ _ _ _ (by omega) hl hc
  | sale ch cl g ct now =>
    simp only [step]
    cases hr : (sale s ch cl g ct now).2 with
    | rejected => rw [sale_rejected _ _ _ _ _ _ hr]; exact h
    | ok =>
      obtain ⟨_, _, _, fg, fl, f, c, _, _, _, _, _, hpos, hl, hc, _, _, hs'⟩ := sale_ok _ _ _ _ _ _ hr
      rw [hs']
      have hg : (0:Int) < (grain : Int) := by decide
      have : 0 < (g * (grain : Int)).toNat := by
        have := Int.mul_pos hpos hg
        omega
      exact (h.licState f c _ bondDenom saleMonths this hl hc).of_frame ⟨rfl, rfl, rfl, fun _ _ => rfl⟩
  | activate sg cr stop now =>
    simp only [step]
    cases hr : (activate s sg cr stop now).2 with
    | rejected => rw [activate_rejected _ _ _ _ _ hr]; exact h
    | ok =>
      obtain ⟨_, l, hl, hb, hpos, hesc, hs'⟩ := activate_ok _ _ _ _ _ hr
      rw [hs']
      refine ⟨?_, keysNodup_erase _ _ h.nodup, ?_, ?_⟩
      · intro d
        have h1 := h.escrow d
        have h2 := sumLic_erase d _ _ _ hl
        simp only [upd]
        split
        · rename_i hd; subst hd; simp at h2; omega
        · rename_i hd
          have : ¬ l.denom = d := fun h' => hd h'.symm
          simp [this] at h2; omega
      · intro a l' hl'
        simp only at hl' ⊢
        by_cases hac : cr = a
        · subst hac
          rw [lookupLic_erase_self _ _ h.nodup] at hl'
          cases hl'
        · rw [lookupLic_erase_ne _ _ _ hac] at hl'
          have := h.lic a l' hl'
          refine ⟨?_, this.2⟩
          simp only [updA]
          split
          · rename_i h'
            -- another key of the same address would contradict `one`
            exact absurd (h.one cr a l l' hl hl' h'.symm) hac
          · exact this.1
      · intro k1 k2 l1 l2 h1 h2 hk
        exact h.one k1 k2 l1 l2 (lookupLic_erase_some _ _ _ _ h1 h.nodup) (lookupLic_erase_some _ _ _ _ h2 h.nodup) hk
  | auth sg cr => simp only [step, auth_state]; exact h
  | legacy sg cr => exact h.of_frame (legacy_frame _ _ _)
  | send a b d amt now => exact h.of_frame (send_frame _ _ _ _ _ _)
  | grant g e => exact h.of_frame (grant_frame _ _ _)
  | gift a d amt now =>
    simp only [step]
    cases hr : (gift s a d amt now).2 with
    | rejected => rw [gift_rejected _ _ _ _ _ hr]; exact h
    | ok =>
      unfold gift at hr ⊢
      split
      · rename_i h1; simp [h1] at hr
      · split
        · rename_i h1 h2; simp [h1, h2] at hr
        · refine ⟨?_, h.nodup, h.lic, h.one⟩
          intro d'
          have := h.escrow d'
          simp only [upd]
          split <;> simp_all <;> omega
  | fund a d amt => exact h.of_frame (fund_frame _ _ _ _)
  | setFeegranter a => exact h.of_frame ⟨rfl, rfl, rfl, fun _ _ => rfl⟩
  | setFunders l => exact h.of_frame ⟨rfl, rfl, rfl, fun _ _ => rfl⟩
  | setContracts c => exact h.of_frame ⟨rfl, rfl, rfl, fun _ _ => rfl⟩

theorem inv_run {s : State} (h : Inv s) (ops : List Op) : Inv (run s ops) := by
  induction ops generalizing s with
  | nil => exact h
  | cons op ops ih => exact ih (inv_step h op)

theorem reachable_inv {s : State} (h : Reachable s) : Inv s := by
  obtain ⟨ops, rfl⟩ := h
  exact inv_run Inv.init ops

theorem reachable_step {s : State} (h : Reachable s) (op : Op) : Reachable (step s op).1 := by
  obtain ⟨ops, rfl⟩ := h
  refine ⟨ops ++ [op], ?_⟩
  have : ∀ (s0 : State) (l : List Op), run s0 (l ++ [op]) = (Paloma.LightNode.step (run s0 l) op).1 := by
    intro s0 l
    induction l generalizing s0 with
    | nil => rfl
    | cons x t ih => exact ih _
  exact (this _ _).symm

/-! ### accounts only move forward; licences only appear for fresh addresses -/


theorem gift_frame_acct (s : State) (a : Addr) (d : Denom) (amt now : Nat) :
    (gift s a d amt now).1.acct = s.acct ∧ (gift s a d amt now).1.lics = s.lics := by
  unfold gift
  repeat' split
  all_goals exact ⟨rfl, rfl⟩

/-- an existing account is never removed or downgraded; only `activate` turns a base account into a
vesting one, and a vesting account never changes again -/
theorem vesting_persists (s : State) (op : Op) (a : Addr) (o : Nat) (d : Denom) (st en : Nat)
    (h : s.acct a = .vesting o d st en) : (step s op).1.acct a = .vesting o d st en := by
  have hne : s.acct a ≠ .none := by rw [h]; simp
  cases op with
  | create sg cr cl amt d' m now =>
    simp only [step]
    cases hr : (create s sg cr cl amt d' m now).2 with
    | rejected => rw [create_rejected _ _ _ _ _ _ _ _ hr]; exact h
    | ok =>
      obtain ⟨_, c, _, _, _, _, hc, _, hs'⟩ := create_ok _ _ _ _ _ _ _ _ hr
      rw [hs']
      simp only [licState, updA]
      split
      · rename_i hac; subst hac; exact absurd hc hne
      · exact h
  | sale ch cl g ct now =>
    simp only [step]
    cases hr : (sale s ch cl g ct now).2 with
    | rejected => rw [sale_rejected _ _ _ _ _ _ hr]; exact h
    | ok =>
      obtain ⟨_, _, _, fg, fl, f, c, _, _, _, _, _, _, _, hc, _, _, hs'⟩ := sale_ok _ _ _ _ _ _ hr
      rw [hs']
      simp only [licState, updA]
      split
      · rename_i hac; subst hac; exact absurd hc hne
      · exact h
  | activate sg cr stop now =>
    simp only [step]
    cases hr : (activate s sg cr stop now).2 with
    | rejected => rw [activate_rejected _ _ _ _ _ hr]; exact h
    | ok =>
      obtain ⟨_, l, _, hb, _, _, hs'⟩ := activate_ok _ _ _ _ _ hr
      rw [hs']
      simp only [updA]
      split
      · rename_i hac; subst hac; rw [h] at hb; cases hb
      · exact h
  | auth sg cr => simp only [step, auth_state]; exact h
  | legacy sg cr => simp only [step]; rw [(legacy_frame s sg cr).acct a hne]; exact h
  | send x y d' amt now => simp only [step]; rw [(send_frame s x y d' amt now).acct a hne]; exact h
  | grant g e => simp only [step]; rw [(grant_frame s g e).acct a hne]; exact h
  | gift x d' amt now => simp only [step, (gift_frame_acct s x d' amt now).1]; exact h
  | fund x d' amt => simp only [step]; rw [(fund_frame s x d' amt).acct a hne]; exact h
  | setFeegranter x => exact h
  | setFunders l => exact h
  | setContracts c => exact h

theorem vesting_persists_run (s : State) (ops : List Op) (a : Addr) (o : Nat) (d : Denom) (st en : Nat)
    (h : s.acct a = .vesting o d st en) : (run s ops).acct a = .vesting o d st en := by
  induction ops generalizing s with
  | nil => exact h
  | cons op ops ih => exact ih _ (vesting_persists s op a o d st en h)

/-- a licence that was not there before the step belongs to an address without an account, and the step is
an accepted `create` or `sale` for exactly that address -/
theorem new_licence (s : State) (op : Op) (a : AddrStr) (l : Lic)
    (h0 : lookupLic s.lics a = none) (h1 : lookupLic (step s op).1.lics a = some l) :
    s.acct a.addr = .none ∧ (step s op).2 = .ok ∧
      ((∃ sg cr amt d m now, op = .create sg cr (some a) amt d m now ∧ l = ⟨amt.toNat, d, m⟩) ∨
       (∃ ch g ct now, op = .sale ch (some a) g ct now ∧ l = ⟨(g * (grain : Int)).toNat, bondDenom, saleMonths⟩)) := by
  cases op with
  | create sg cr cl amt d m now =>
    simp only [step] at h1 ⊢
    cases hr : (create s sg cr cl amt d m now).2 with
    | rejected => rw [create_rejected _ _ _ _ _ _ _ _ hr, h0] at h1; cases h1
    | ok =>
      obtain ⟨_, c, hcl, _, _, _, hc, _, hs'⟩ := create_ok _ _ _ _ _ _ _ _ hr
      rw [hs'] at h1
      simp only [licState, lookupLic_append, h0] at h1
      split at h1
      · rename_i hca
        subst hca; subst hcl
        simp only [Option.some.injEq] at h1
        exact ⟨hc, rfl, Or.inl ⟨sg, cr, amt, d, m, now, rfl, h1.symm⟩⟩
      · cases h1
  | sale ch cl g ct now =>
    simp only [step] at h1 ⊢
    cases hr : (sale s ch cl g ct now).2 with
    | rejected => rw [sale_rejected _ _ _ _ _ _ hr, h0] at h1; cases h1
    | ok =>
      obtain ⟨_, _, _, fg, fl, f, c, _, _, _, _, hcl, _, _, hc, _, _, hs'⟩ := sale_ok _ _ _ _ _ _ hr
      rw [hs'] at h1
      simp only [licState, lookupLic_append, h0] at h1
      split at h1
      · rename_i hca
        subst hca; subst hcl
        simp only [Option.some.injEq] at h1
        exact ⟨hc, rfl, Or.inr ⟨ch, g, ct, now, rfl, h1.symm⟩⟩
      · cases h1
  | activate sg cr stop now =>
    simp only [step] at h1
    cases hr : (activate s sg cr stop now).2 with
    | rejected => rw [activate_rejected _ _ _ _ _ hr, h0] at h1; cases h1
    | ok =>
      obtain ⟨_, l', _, _, _, _, hs'⟩ := activate_ok _ _ _ _ _ hr
      rw [hs'] at h1
      simp only [lookupLic_erase_none _ _ _ h0] at h1
      cases h1
  | auth sg cr => simp only [step, auth_state, h0] at h1; cases h1
  | legacy sg cr => simp only [step] at h1; rw [(legacy_frame s sg cr).lics, h0] at h1; cases h1
  | send x y d' amt now => simp only [step] at h1; rw [(send_frame s x y d' amt now).lics, h0] at h1; cases h1
  | grant g e => simp only [step] at h1; rw [(grant_frame s g e).lics, h0] at h1; cases h1
  | gift x d' amt now => simp only [step, (gift_frame_acct s x d' amt now).2, h0] at h1; cases h1
  | fund x d' amt => simp only [step] at h1; rw [(fund_frame s x d' amt).lics, h0] at h1; cases h1
  | setFeegranter x => simp only [step, h0] at h1; cases h1
  | setFunders l => simp only [step, h0] at h1; cases h1
  | setContracts c => simp only [step, h0] at h1; cases h1

/-! ### gifts only come from `gift` -/


def Op.isGift : Op → Bool
  | .gift .. => true
  | _ => false

theorem step_gifts (s : State) (op : Op) (h : op.isGift = false) : (step s op).1.gifts = s.gifts := by
  cases op with
  | create sg cr cl amt d m now =>
    simp only [step]
    cases hr : (create s sg cr cl amt d m now).2 with
    | rejected => rw [create_rejected _ _ _ _ _ _ _ _ hr]
    | ok =>
      obtain ⟨_, c, _, _, _, _, _, _, hs'⟩ := create_ok _ _ _ _ _ _ _ _ hr
      rw [hs']; rfl
  | sale ch cl g ct now =>
    simp only [step]
    cases hr : (sale s ch cl g ct now).2 with
    | rejected => rw [sale_rejected _ _ _ _ _ _ hr]
    | ok =>
      obtain ⟨_, _, _, fg, fl, f, c, _, _, _, _, _, _, _, _, _, _, hs'⟩ := sale_ok _ _ _ _ _ _ hr
      rw [hs']; rfl
  | activate sg cr stop now =>
    simp only [step]
    cases hr : (activate s sg cr stop now).2 with
    | rejected => rw [activate_rejected _ _ _ _ _ hr]
    | ok =>
      obtain ⟨_, l, _, _, _, _, hs'⟩ := activate_ok _ _ _ _ _ hr
      rw [hs']
  | auth sg cr => simp only [step, auth_state]
  | legacy sg cr => exact (legacy_frame s sg cr).gifts
  | send x y d' amt now => exact (send_frame s x y d' amt now).gifts
  | grant g e => exact (grant_frame s g e).gifts
  | gift x d' amt now => simp [Op.isGift] at h
  | fund x d' amt => exact (fund_frame s x d' amt).gifts
  | setFeegranter x => rfl
  | setFunders l => rfl
  | setContracts c => rfl

theorem run_gifts (s : State) (ops : List Op) (h : ∀ op ∈ ops, op.isGift = false) :
    (run s ops).gifts = s.gifts := by
  induction ops generalizing s with
  | nil => rfl
  | cons op ops ih =>
    simp only [run]
    rw [ih _ (fun o ho => h o (List.mem_cons_of_mem _ ho)), step_gifts s op (h op List.mem_cons_self)]

/-! ### the sale-contract table only changes through governance -/

theorem contractTable_mem (l : List (Chain × CStr)) (ch : Chain) (c : CStr) (h : contractTable l ch = some c) :
    (ch, c) ∈ l := by
  induction l with
  | nil => simp [contractTable] at h
  | cons hd t ih =>
    obtain ⟨k, v⟩ := hd
    simp only [contractTable] at h
    split at h
    · exact List.mem_cons_of_mem _ (ih h)
    · split at h
      · rename_i hk
        simp only [Option.some.injEq] at h
        subst hk; subst h
        exact List.mem_cons_self
      · cases h

theorem contractTable_none (l : List (Chain × CStr)) (ch : Chain) (h : ∀ p ∈ l, p.1 ≠ ch) :
    contractTable l ch = none := by
  cases hc : contractTable l ch with
  | none => rfl
  | some c => exact absurd rfl (h _ (contractTable_mem l ch c hc))

def Op.isSetContracts : Op → Bool
  | .setContracts _ => true
  | _ => false

theorem touchAcct_contracts (s : State) (a : Addr) : (touchAcct s a).contracts = s.contracts := by
  unfold touchAcct; split <;> rfl

theorem step_contracts (s : State) (op : Op) (h : op.isSetContracts = false) :
    (step s op).1.contracts = s.contracts := by
  cases op with
  | create sg cr cl amt d m now =>
    simp only [step]
    cases hr : (create s sg cr cl amt d m now).2 with
    | rejected => rw [create_rejected _ _ _ _ _ _ _ _ hr]
    | ok =>
      obtain ⟨_, c, _, _, _, _, _, _, hs'⟩ := create_ok _ _ _ _ _ _ _ _ hr
      rw [hs']; rfl
  | sale ch cl g ct now =>
    simp only [step]
    cases hr : (sale s ch cl g ct now).2 with
    | rejected => rw [sale_rejected _ _ _ _ _ _ hr]
    | ok =>
      obtain ⟨_, _, _, fg, fl, f, c, _, _, _, _, _, _, _, _, _, _, hs'⟩ := sale_ok _ _ _ _ _ _ hr
      rw [hs']; rfl
  | activate sg cr stop now =>
    simp only [step]
    cases hr : (activate s sg cr stop now).2 with
    | rejected => rw [activate_rejected _ _ _ _ _ hr]
    | ok =>
      obtain ⟨_, l, _, _, _, _, hs'⟩ := activate_ok _ _ _ _ _ hr
      rw [hs']
  | auth sg cr => simp only [step, auth_state]
  | legacy sg cr =>
    simp only [step]; unfold legacy
    repeat' split
    all_goals rfl
  | send x y d' amt now =>
    simp only [step]; unfold send
    repeat' split
    all_goals first | rfl | exact touchAcct_contracts _ _
  | grant g e =>
    simp only [step]; unfold grant
    repeat' split
    all_goals first | rfl | exact touchAcct_contracts _ _
  | gift x d' amt now =>
    simp only [step]; unfold gift
    repeat' split
    all_goals rfl
  | fund x d' amt => simp only [step]; unfold fund; exact touchAcct_contracts _ _
  | setFeegranter x => rfl
  | setFunders l => rfl
  | setContracts c => simp [Op.isSetContracts] at h

/-- a sale-contract record present after a history was either there before or written by a
`SetLightNodeSaleContractsProposal` of the history that lists it for that very chain -/
theorem run_contracts (s : State) (ops : List Op) (ch : Chain) (ct : CStr)
    (h : (run s ops).contracts ch = some ct) :
    s.contracts ch = some ct ∨ ∃ l, Op.setContracts l ∈ ops ∧ (ch, ct) ∈ l := by
  induction ops generalizing s with
  | nil => exact Or.inl h
  | cons op ops ih =>
    rcases ih _ h with h' | ⟨l, hl, hm⟩
    · cases hop : op.isSetContracts with
      | false => rw [step_contracts s op hop] at h'; exact Or.inl h'
      | true =>
        cases op with
        | setContracts l => exact Or.inr ⟨l, List.mem_cons_self, contractTable_mem l ch ct h'⟩
        | _ => simp [Op.isSetContracts] at hop
    · exact Or.inr ⟨l, List.mem_cons_of_mem _ hl, hm⟩

end Lemmas


/-- in a reachable state an address without an account has no licence under any spelling -/
theorem no_licence_of_no_account (s : State) (hs : Reachable s) (a : Addr) (h : s.acct a = .none) :
    ∀ k : AddrStr, k.addr = a → lookupLic s.lics k = none := by
  intro k hk
  cases hl : lookupLic s.lics k with
  | none => rfl
  | some l =>
    have := ((reachable_inv hs).lic k l hl).1
    rw [hk, h] at this; cases this

/-! ## Property theorems -/

/-- **escrow_eq_sum_licences** (clause "the escrow balance always covers, and absent outside gifts equals,
the sum of all not-yet-activated licences").  After ANY history of operations — licence creation by
message or attested sale, activation, authentication, transfers, fee grants, configuration changes, gifts,
accepted or rejected, at any times — the balance of the escrow account in every denomination is exactly
the sum of the outstanding licences in that denomination plus the coins gifted to it. -/
theorem escrow_eq_sum_licences (ops : List Op) (d : Denom) :
    (run State.init ops).escrow d =
      sumLic d (run State.init ops).lics + (run State.init ops).gifts d :=
  (inv_run Inv.init ops).escrow d

/-- … hence the escrow always covers the outstanding licences … -/
theorem escrow_covers (ops : List Op) (d : Denom) :
    sumLic d (run State.init ops).lics ≤ (run State.init ops).escrow d := by
  rw [escrow_eq_sum_licences]; omega

/-- … and equals them when no outside gift was ever made. -/
theorem escrow_eq_without_gifts (ops : List Op) (h : ∀ op ∈ ops, op.isGift = false) (d : Denom) :
    (run State.init ops).escrow d = sumLic d (run State.init ops).lics := by
  rw [escrow_eq_sum_licences, run_gifts _ _ h]; rfl

/-- **create_requires_fresh** (clause "a licence can be created only for an address that has neither an
account nor a licence"), message path: an accepted `MsgAddLightNodeClientLicense` names a parseable client
address with no account and no licence, a positive amount the creator can spend, and the signer is the
creator or holds a fee grant from the creator; afterwards the client has a base account and exactly the
requested licence. -/
theorem create_requires_fresh (s : State) (sg cr : Addr) (cl : Option AddrStr) (amt : Int) (d : Denom)
    (m now : Nat) (hs : Reachable s) (hok : (create s sg cr cl amt d m now).2 = .ok) :
    ∃ c, cl = some c ∧ s.acct c.addr = .none ∧ (∀ k, k.addr = c.addr → lookupLic s.lics k = none) ∧ 0 < amt ∧
      amt.toNat ≤ s.bal cr d - locked s cr d now ∧
      (s.acct sg ≠ .none ∧ (sg = cr ∨ (cr, sg) ∈ s.grants)) ∧
      lookupLic (create s sg cr cl amt d m now).1.lics c = some ⟨amt.toNat, d, m⟩ ∧
      (create s sg cr cl amt d m now).1.acct c.addr = .base := by
  obtain ⟨ha, c, hcl, hpos, _, hl, hc, hsp, hs'⟩ := create_ok _ _ _ _ _ _ _ _ hok
  refine ⟨c, hcl, hc, no_licence_of_no_account s hs c.addr hc, hpos, hsp, ?_, ?_, ?_⟩
  · simp only [authorised, Bool.and_eq_true, bne_iff_ne, ne_eq, Bool.or_eq_true, beq_iff_eq,
      List.contains_iff_mem] at ha
    exact ha
  · rw [hs']; simp [licState, lookupLic_append, hl]
  · rw [hs']; simp [licState, updA]

/-- **create_requires_fresh**, sale path: an attested sale that creates a licence does so for an address
with no account and no licence; the licence is `grains·10^6 ugrain` over 24 months. -/
theorem sale_requires_fresh (s : State) (ch : Chain) (cl : Option AddrStr) (g : Int) (ct now : Nat)
    (hs : Reachable s) (hok : (sale s ch cl g ct now).2 = .ok) :
    ∃ c, cl = some c ∧ s.acct c.addr = .none ∧ (∀ k, k.addr = c.addr → lookupLic s.lics k = none) ∧
      lookupLic (sale s ch cl g ct now).1.lics c = some ⟨(g * (grain : Int)).toNat, bondDenom, saleMonths⟩ ∧
      (sale s ch cl g ct now).1.acct c.addr = .base := by
  obtain ⟨_, _, _, fg, fl, f, c, _, _, _, _, hcl, _, hl, hc, _, _, hs'⟩ := sale_ok _ _ _ _ _ _ hok
  refine ⟨c, hcl, hc, no_licence_of_no_account s hs c.addr hc, ?_, ?_⟩
  · rw [hs']; simp [licState, lookupLic_append, hl]
  · rw [hs']; simp [licState, updA]

/-- **create_requires_fresh**, the "only": whatever the operation, a licence that appears for an address
appears for an address WITHOUT an account, and the operation is an accepted `create` or `sale` naming it. -/
theorem licence_only_for_fresh (s : State) (op : Op) (a : AddrStr) (l : Lic)
    (h0 : lookupLic s.lics a = none) (h1 : lookupLic (step s op).1.lics a = some l) :
    s.acct a.addr = .none ∧ (step s op).2 = .ok ∧
      ((∃ sg cr amt d m now, op = .create sg cr (some a) amt d m now ∧ l = ⟨amt.toNat, d, m⟩) ∨
       (∃ ch g ct now, op = .sale ch (some a) g ct now ∧ l = ⟨(g * (grain : Int)).toNat, bondDenom, saleMonths⟩)) :=
  new_licence s op a l h0 h1

/-- **activate_once**, who and when: an accepted `MsgRegisterLightNodeClient` whose creator string `k`
decodes to address `a` finds a licence stored under exactly that string, and its signer is `a` itself
(possible only for the canonical spelling) or an address `a` issued a fee grant to (paloma's rule for acting
on behalf of a creator: `VerifyAuthorisedSignatureDecorator`). -/
theorem activate_requires (s : State) (sg : Addr) (k : AddrStr) (stop now : Nat)
    (hok : (activate s sg k stop now).2 = .ok) :
    (∃ l, lookupLic s.lics k = some l) ∧ s.acct sg ≠ .none ∧
      ((k.upper = false ∧ sg = k.addr) ∨ (k.addr, sg) ∈ s.grants) := by
  obtain ⟨ha, l, hl, _⟩ := activate_ok _ _ _ _ _ hok
  simp only [authorisedStr, Bool.and_eq_true, bne_iff_ne, ne_eq, Bool.or_eq_true, beq_iff_eq,
    List.contains_iff_mem] at ha
  exact ⟨⟨l, hl⟩, ha⟩

/-- **activate_once**, at most once: after an accepted activation of address `k.addr`, every later
activation attempt for that address — under either spelling, by anyone, after any further history — is
rejected. -/
theorem activate_once (s : State) (sg : Addr) (k : AddrStr) (stop now : Nat)
    (hok : (activate s sg k stop now).2 = .ok) (ops : List Op) (sg' : Addr) (k' : AddrStr)
    (hk : k'.addr = k.addr) (stop' now' : Nat) :
    (activate (run (activate s sg k stop now).1 ops) sg' k' stop' now').2 = .rejected := by
  obtain ⟨_, l, _, _, _, _, hs'⟩ := activate_ok _ _ _ _ _ hok
  have hv : (activate s sg k stop now).1.acct k.addr = .vesting l.amount l.denom now stop := by
    rw [hs']; simp [updA]
  have hv' := vesting_persists_run _ ops k.addr _ _ _ _ hv
  cases hr : (activate (run (activate s sg k stop now).1 ops) sg' k' stop' now').2 with
  | rejected => rfl
  | ok =>
    obtain ⟨_, _, _, hb, _⟩ := activate_ok _ _ _ _ _ hr
    rw [hk, hv'] at hb; cases hb

/-- … nor can a new licence ever be created for an activated address (so there is nothing to activate). -/
theorem no_licence_after_activation (s : State) (hs : Reachable s) (sg : Addr) (k : AddrStr) (stop now : Nat)
    (hok : (activate s sg k stop now).2 = .ok) (ops : List Op) (k' : AddrStr) (hk : k'.addr = k.addr) :
    lookupLic (run (activate s sg k stop now).1 ops).lics k' = none := by
  obtain ⟨_, l, _, _, _, _, hs'⟩ := activate_ok _ _ _ _ _ hok
  have hv : (activate s sg k stop now).1.acct k.addr = .vesting l.amount l.denom now stop := by
    rw [hs']; simp [updA]
  have hv' := vesting_persists_run _ ops k.addr _ _ _ _ hv
  have hinv : Inv (run (activate s sg k stop now).1 ops) :=
    inv_run (inv_step (reachable_inv hs) (.activate sg k stop now)) ops
  cases hl : lookupLic (run (activate s sg k stop now).1 ops).lics k' with
  | none => rfl
  | some l' => have := (hinv.lic k' l' hl).1; rw [hk, hv'] at this; cases this

/-- an address never holds two licences (one per spelling), so "the" licence of an address is well defined -/
theorem one_licence_per_address (s : State) (hs : Reachable s) (k1 k2 : AddrStr) (l1 l2 : Lic)
    (h1 : lookupLic s.lics k1 = some l1) (h2 : lookupLic s.lics k2 = some l2) (hk : k1.addr = k2.addr) :
    k1 = k2 :=
  (reachable_inv hs).one k1 k2 l1 l2 h1 h2 hk

/-- **activation_exact** (clause "activation moves exactly the licensed amount into that address as a
continuously vesting balance … starting at activation").  In a reachable state an accepted activation of
address `a = k.addr` with licence `l` at block time `now`: credits `a` with exactly `l.amount` of `l.denom`
and nothing else, debits the escrow by exactly that, touches no other balance, removes the licence (no
licence is left for `a` under any spelling), and turns `a`'s account into a continuous vesting account with
original vesting `l.amount`, start `now` and the end time computed by Go; the whole amount is locked at
`now`. -/
theorem activation_exact (s : State) (hs : Reachable s) (sg : Addr) (k : AddrStr) (stop now : Nat)
    (hok : (activate s sg k stop now).2 = .ok) :
    ∃ l, lookupLic s.lics k = some l ∧
      let a := k.addr
      let s' := (activate s sg k stop now).1
      s'.bal a l.denom = s.bal a l.denom + l.amount ∧
      (∀ b d, ¬ (b = a ∧ d = l.denom) → s'.bal b d = s.bal b d) ∧
      s'.escrow l.denom + l.amount = s.escrow l.denom ∧
      (∀ d, d ≠ l.denom → s'.escrow d = s.escrow d) ∧
      s'.acct a = .vesting l.amount l.denom now stop ∧
      (∀ b, b ≠ a → s'.acct b = s.acct b) ∧
      (∀ k', k'.addr = a → lookupLic s'.lics k' = none) ∧
      (∀ k', k'.addr ≠ a → lookupLic s'.lics k' = lookupLic s.lics k') ∧
      locked s' a l.denom now = l.amount := by
  obtain ⟨_, l, hl, _, _, hesc, hs'⟩ := activate_ok _ _ _ _ _ hok
  refine ⟨l, hl, ?_⟩
  intro a s'
  have hnone := no_licence_after_activation s hs sg k stop now hok []
  have e : s' = _ := hs'
  refine ⟨by rw [e]; simp [upd2, a], ?_, by rw [e]; simp [upd]; omega, ?_, by rw [e]; simp [updA, a], ?_, ?_, ?_, ?_⟩
  · intro b d hbd; rw [e]; simp [upd2, a] at hbd ⊢; exact fun h1 h2 => absurd h2 (hbd h1)
  · intro d hd; rw [e]; simp [upd, hd]
  · intro b hb; rw [e]; simp [updA, a] at hb ⊢; exact fun h => absurd h hb
  · intro k' hk'; exact hnone k' hk'
  · intro k' hk'
    rw [e]
    exact lookupLic_erase_ne _ _ _ (fun h => hk' (by rw [← h]))
  · rw [e]; simp [locked, lockedOf, updA, lockedAt, vestedAt, a]

/-- **vesting_linear** (clause "unlocks linearly over the licence's vesting period starting at
activation").  For a continuous vesting account `(orig, start, stop)` as the SDK computes it
(`Dec(x).Quo(Dec(y))`, `Mul`, `RoundInt`: banker's rounding at 18 decimals, NOT truncation):
everything is locked up to and including `start`; nothing is locked from `stop` on (strictly after
`start`, for a zero-length period); the locked amount never increases with time and never exceeds
`orig`; and strictly inside the period the vested amount `v = orig − locked` is within
`1/2 + orig/(2·10^18) + orig/10^36` of the straight line `orig·(t−start)/(stop−start)`. -/
theorem vesting_linear (orig start stop : Nat) :
    (∀ t, t ≤ start → lockedAt orig start stop t = orig) ∧
    (∀ t, stop ≤ t → start < t → lockedAt orig start stop t = 0) ∧
    (∀ t1 t2, t1 ≤ t2 → lockedAt orig start stop t2 ≤ lockedAt orig start stop t1) ∧
    (∀ t, lockedAt orig start stop t ≤ orig ∧
          lockedAt orig start stop t + vestedAt orig start stop t = orig) ∧
    (∀ t, start < t → t < stop →
      2 * (vestedAt orig start stop t * (prec * prec * (stop - start))) ≤
        2 * (orig * (t - start) * (prec * prec)) + (prec * prec * (stop - start) + orig * prec * (stop - start)) ∧
      2 * (orig * (t - start) * (prec * prec)) ≤
        2 * (vestedAt orig start stop t * (prec * prec * (stop - start))) +
          (prec * prec * (stop - start) + orig * prec * (stop - start) + 2 * orig * (stop - start))) := by
  refine ⟨?_, ?_, ?_, ?_, ?_⟩
  · intro t h; simp [lockedAt, vestedAt, h]
  · intro t h1 h2
    have : ¬ t ≤ start := by omega
    simp [lockedAt, vestedAt, this, h1]
  · intro t1 t2 h
    have := vestedAt_mono orig start stop t1 t2 h
    unfold lockedAt; omega
  · intro t
    have := vestedAt_le orig start stop t
    unfold lockedAt; omega
  · intro t h1 h2
    exact vestedAt_linear orig start stop t h1 h2

/-- … and the lock is enforced: a bank send from any account of more than balance − locked is refused,
so an activated address can move the licensed coins only as they vest. -/
theorem locked_enforced (s : State) (a : Addr) (b : Option Addr) (d : Denom) (amt : Int) (now : Nat)
    (hok : (send s a b d amt now).2 = .ok) : 0 < amt ∧ amt.toNat + locked s a d now ≤ s.bal a d := by
  unfold send at hok
  split at hok
  · simp at hok
  · split at hok
    · simp at hok
    · rename_i h2
      split at hok
      · simp at hok
      · split at hok
        · simp at hok
        · rename_i h4
          unfold spendable at h4
          have : 0 < amt.toNat := by omega
          omega

/-- the vesting schedule written at activation is the one in force after any later history -/
theorem vesting_schedule_fixed (s : State) (sg : Addr) (k : AddrStr) (stop now : Nat)
    (hok : (activate s sg k stop now).2 = .ok) (ops : List Op) :
    ∃ l, lookupLic s.lics k = some l ∧
      ∀ t, locked (run (activate s sg k stop now).1 ops) k.addr l.denom t = lockedAt l.amount now stop t := by
  obtain ⟨_, l, hl, _, _, _, hs'⟩ := activate_ok _ _ _ _ _ hok
  have hv : (activate s sg k stop now).1.acct k.addr = .vesting l.amount l.denom now stop := by
    rw [hs']; simp [updA]
  have hv' := vesting_persists_run _ ops k.addr _ _ _ _ hv
  exact ⟨l, hl, fun t => by simp [locked, lockedOf, hv']⟩

/-- **sale_all_or_nothing**, "nothing": a sale that does not create a licence leaves the state exactly as it
was — no account for the client, no licence, no fee grant, no funder debited, escrow untouched. -/
theorem sale_all_or_nothing (s : State) (ch : Chain) (cl : Option AddrStr) (g : Int) (ct now : Nat)
    (h : (sale s ch cl g ct now).2 = .rejected) : (sale s ch cl g ct now).1 = s :=
  sale_rejected s ch cl g ct now h

/-- **sale_all_or_nothing**, "only if … are configured": an accepted sale found the claimed contract
authorised, a fee granter, a non-empty funder list containing an account whose balance covers
`grains·10^6 ugrain`; it debits that funder, credits the escrow, records a 24-month licence and the fee
grant feegranter → client. -/
theorem sale_requires_config (s : State) (ch : Chain) (cl : Option AddrStr) (g : Int) (ct now : Nat)
    (hok : (sale s ch cl g ct now).2 = .ok) :
    s.contracts ch = some ct ∧
    ∃ fg fl f c, s.feegranter = some fg ∧ s.funders = some fl ∧ f ∈ fl ∧ cl = some c ∧ 0 < g ∧
      g * (grain : Int) ≤ (s.bal f bondDenom : Int) ∧
      let n := (g * (grain : Int)).toNat
      let s' := (sale s ch cl g ct now).1
      s'.bal f bondDenom + n = s.bal f bondDenom ∧
      s'.escrow bondDenom = s.escrow bondDenom + n ∧
      lookupLic s'.lics c = some ⟨n, bondDenom, saleMonths⟩ ∧
      (fg, c.addr) ∈ s'.grants := by
  obtain ⟨hct, _, _, fg, fl, f, c, hfg, hfl, hf, hbal, hcl, hpos, hl, _, hsp, _, hs'⟩ := sale_ok _ _ _ _ _ _ hok
  refine ⟨hct, fg, fl, f, c, hfg, hfl, hf, hcl, hpos, hbal, ?_⟩
  intro n s'
  have e : s' = _ := hs'
  rw [e]
  have hle : n ≤ s.bal f bondDenom := by
    have : n ≤ spendable s f bondDenom now := hsp
    unfold spendable at this; omega
  refine ⟨?_, ?_, ?_, ?_⟩
  · simp [licState, upd2]; omega
  · simp [licState, upd]; rfl
  · simp [licState, lookupLic_append, hl]; rfl
  · simp

/-- **sale_all_or_nothing**, the listed causes: no authorised contract for the chain, a claim from another
contract, no fee granter, no funders (unset or empty), or no funder whose balance covers the price — each
makes the sale a no-op. -/
theorem sale_missing_config (s : State) (ch : Chain) (cl : Option AddrStr) (g : Int) (ct now : Nat)
    (h : s.contracts ch ≠ some ct ∨ s.feegranter = none ∨ s.funders = none ∨ s.funders = some [] ∨
         (∀ f ∈ s.funders.getD [], (s.bal f bondDenom : Int) < g * (grain : Int))) :
    sale s ch cl g ct now = (s, .rejected) := by
  have hres : (sale s ch cl g ct now).2 = .rejected := by
    cases hr : (sale s ch cl g ct now).2 with
    | rejected => rfl
    | ok =>
      obtain ⟨hct, _, _, fg, fl, f, c, hfg, hfl, hf, hbal, _⟩ := sale_ok _ _ _ _ _ _ hr
      rcases h with h | h | h | h | h
      · exact absurd hct h
      · rw [hfg] at h; cases h
      · rw [hfl] at h; cases h
      · rw [hfl] at h; simp only [Option.some.injEq] at h; subst h; cases hf
      · have := h f (by rw [hfl]; exact hf)
        omega
  have := sale_rejected s ch cl g ct now hres
  exact Prod.ext this hres

/-- **sale_all_or_nothing**, "an authorised sale contract is configured" — the chain of the claim: a claim
from a chain for which NO sale-contract record exists is a no-op whatever contract address string it carries
(in particular the EMPTY string `emptyStr`, which `ValidateBasic` lets through and which equals the
`ContractAddress` of the zero-value record a failed store lookup returns), whatever else is configured, for
every client, amount and time. -/
theorem sale_unconfigured_chain (s : State) (ch : Chain) (cl : Option AddrStr) (g : Int) (ct now : Nat)
    (h : s.contracts ch = none) : sale s ch cl g ct now = (s, .rejected) := by
  unfold sale; simp [h]

/-- … a contract authorised for OTHER chains only never authorises a sale reported from this chain: right
after a `SetLightNodeSaleContractsProposal` that lists no record for `ch`, every claim from `ch` is a no-op —
even one naming a contract that IS authorised elsewhere. -/
theorem sale_contract_is_per_chain (s : State) (l : List (Chain × CStr)) (ch : Chain) (cl : Option AddrStr)
    (g : Int) (ct now : Nat) (h : ∀ p ∈ l, p.1 ≠ ch) :
    sale (step s (.setContracts l)).1 ch cl g ct now = ((step s (.setContracts l)).1, .rejected) :=
  sale_unconfigured_chain _ ch cl g ct now (contractTable_none l ch h)

/-- … and over whole histories: if after ANY history from the empty chain state an attested sale from chain
`ch` naming contract string `ct` creates a licence, then governance authorised exactly that string for
exactly that chain — some `SetLightNodeSaleContractsProposal` of the history lists `(ch, ct)`.  Nothing else
(no message, sale, transfer, fee grant, other proposal) ever makes a contract authorised. -/
theorem sale_authorised_by_governance (ops : List Op) (ch : Chain) (cl : Option AddrStr) (g : Int)
    (ct now : Nat) (hok : (sale (run State.init ops) ch cl g ct now).2 = .ok) :
    ∃ l, Op.setContracts l ∈ ops ∧ (ch, ct) ∈ l := by
  obtain ⟨hct, _⟩ := sale_ok _ _ _ _ _ _ hok
  rcases run_contracts State.init ops ch ct hct with h | h
  · simp [State.init] at h
  · exact h

/-- **failed_op_is_noop**: every rejected operation of the model (message, attested sale or gift) leaves
the state unchanged. -/
theorem failed_op_is_noop (s : State) (op : Op) (h : (step s op).2 = .rejected) : (step s op).1 = s := by
  cases op with
  | create sg cr cl amt d m now => exact create_rejected _ _ _ _ _ _ _ _ h
  | sale ch cl g ct now => exact sale_rejected _ _ _ _ _ _ h
  | activate sg cr stop now => exact activate_rejected _ _ _ _ _ h
  | auth sg cr => exact auth_state _ _ _
  | legacy sg cr => exact legacy_rejected _ _ _ h
  | send x y d amt now => exact send_rejected _ _ _ _ _ _ h
  | grant g e => exact grant_rejected _ _ _ h
  | gift x d amt now => exact gift_rejected _ _ _ _ _ h
  | fund x d amt => simp [step, fund] at h
  | setFeegranter x => simp [step] at h
  | setFunders l => simp [step] at h
  | setContracts c => simp [step] at h

/-! ## non-vacuity -/

/-- a small history: two funded accounts, full sale configuration, one licence bought by message, one by an
attested sale, a gift to the escrow account, and a licence stored under an upper-case address string -/
def exOps : List Op :=
  [ .fund 0 0 100000000, .fund 1 0 30000000, .setFeegranter 0, .setFunders [1], .setContracts [(0, 1)],
    .create 0 0 (some ⟨4, false⟩) 1000 0 3 100, .sale 0 (some ⟨5, false⟩) 5 1 110, .gift 0 0 7 120,
    .create 0 0 (some ⟨7, true⟩) 50 0 1 125 ]

def exState : State := run State.init exOps

example : exState.escrow 0 = 5001057 ∧ sumLic 0 exState.lics = 5001050 ∧ exState.gifts 0 = 7 := by decide
example : lookupLic exState.lics ⟨4, false⟩ = some ⟨1000, 0, 3⟩ ∧
    lookupLic exState.lics ⟨5, false⟩ = some ⟨5000000, 0, 24⟩ := by decide
example : exState.bal 1 0 = 25000000 ∧ exState.acct 5 = .base ∧ exState.grants = [(0, 5)] := by decide
-- activation by the licensee succeeds once, then never again; by a stranger it is refused
example : (activate exState 4 ⟨4, false⟩ 8000200 200).2 = .ok := by decide
example : (activate (activate exState 4 ⟨4, false⟩ 8000200 200).1 4 ⟨4, false⟩ 8000300 300).2 = .rejected := by decide
example : (activate exState 0 ⟨4, false⟩ 8000200 200).2 = .rejected := by decide
example : (activate exState 4 ⟨4, false⟩ 8000200 200).1.acct 4 = .vesting 1000 0 200 8000200 ∧
    (activate exState 4 ⟨4, false⟩ 8000200 200).1.bal 4 0 = 1000 ∧
    (activate exState 4 ⟨4, false⟩ 8000200 200).1.escrow 0 = 5000057 := by decide
-- a licence keyed by the upper-case spelling: the licensee cannot activate it itself under either spelling,
-- only a delegate it issued a fee grant to can (creator = the upper-case string)
example : (activate exState 7 ⟨7, true⟩ 2700000 200).2 = .rejected ∧ (activate exState 7 ⟨7, false⟩ 2700000 200).2 = .rejected ∧
    (activate (grant exState 7 8).1 8 ⟨7, true⟩ 2700000 200).2 = .ok := by decide
-- creation for an address that has an account / a licence (under any spelling) is refused
example : (create exState 0 0 (some ⟨1, false⟩) 10 0 3 130).2 = .rejected ∧
    (create exState 0 0 (some ⟨4, false⟩) 10 0 3 130).2 = .rejected ∧
    (create exState 0 0 (some ⟨4, true⟩) 10 0 3 130).2 = .rejected := by decide
-- a consequence of paloma's delegation rule (outside C18, see C18.md): the sale client 5 holds the fee grant
-- 0 → 5 and may therefore act as creator 0, e.g. spend the fee granter's whole balance on a licence for 6
example : exState.bal 0 0 = 99998943 ∧ (create exState 5 0 (some ⟨6, false⟩) 99998943 0 0 130).2 = .ok ∧
    (create exState 5 0 (some ⟨6, false⟩) 99998943 0 0 130).1.bal 0 0 = 0 := by decide
-- a fully configured sale that fails AFTER the account creation (zero coin) changes nothing; so do a wrong
-- contract and a price above every funder's balance
example : (sale exState 0 (some ⟨6, false⟩) 0 1 130).2 = .rejected ∧ (sale exState 0 (some ⟨6, false⟩) 1 2 130).2 = .rejected ∧
    (sale exState 0 (some ⟨6, false⟩) 26 1 130).2 = .rejected ∧ (sale exState 0 (some ⟨6, false⟩) 25 1 130).2 = .ok := by decide
-- sale contracts are per chain and compared as strings: chain 0 is configured with contract 1, chain 1 has no
-- record, chain 2 is configured with the EMPTY string.  A claim from chain 1 is refused whatever it names
-- (the empty string, the contract authorised for chain 0); chain 2 accepts exactly the empty string
def exMulti : State := (step exState (.setContracts [(0, 1), (2, 7), (2, emptyStr)])).1
example : (sale exMulti 1 (some ⟨6, false⟩) 25 emptyStr 130).2 = .rejected ∧
    (sale exMulti 1 (some ⟨6, false⟩) 25 1 130).2 = .rejected ∧
    (sale exMulti 0 (some ⟨6, false⟩) 25 emptyStr 130).2 = .rejected ∧
    (sale exMulti 0 (some ⟨6, false⟩) 25 1 130).2 = .ok ∧
    (sale exMulti 2 (some ⟨6, false⟩) 25 7 130).2 = .rejected ∧
    (sale exMulti 2 (some ⟨6, false⟩) 25 emptyStr 130).2 = .ok := by decide
-- rounding is half-even at 18 decimals, not truncation: 1000 over 3 s vests 333, then 667 (not 666)
example : lockedAt 1000 0 3 1 = 667 ∧ lockedAt 1000 0 3 2 = 333 ∧ lockedAt 1000 0 3 3 = 0 ∧ lockedAt 1000 0 3 0 = 1000 := by decide
example : lockedAt 1000 200 8000200 4000200 = 500 := by decide

end Paloma.LightNode
