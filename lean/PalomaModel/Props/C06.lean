/-
C06 — signatures kept with queued cross-chain messages and bridge batches.

"At every block boundary each signature kept with a queued cross-chain message or bridge batch
verifies against that item's current signing bytes under the external-chain key its validator had
registered for that chain when it signed, and a validator or key appears at most once per item.
Whenever something covered by the signing bytes changes (elected gas estimate, computed fees,
relayer) previously collected signatures are discarded rather than carried over."

Model: `PalomaModel/Model/Queue.lean`.  The invariant is proved for every state reachable by any
sequence of `Op`s (enqueue with and without relayer pick, sign with arbitrary claimed address /
signing key / signed bytes, estimate submission, end-block election with fee attachment, delivery
and error reports, evidence, removal, arbitrary environment changes, key (re-)registration, batch
creation / confirmation / gas re-issue), hence in particular at every block boundary.

What is stated where (clause → theorem):
* "verifies against the item's current signing bytes": `stored_signatures_verify`,
  `stored_signature_bytes_verify_as_stored`, `batch_confirms_verify`;
* "under the key its validator had registered for that chain when it signed": `signature_provenance`
  (messages) and `batch_confirm_provenance` (batches) — history-level: the `sign` / `confirm` operation
  that stored it is in the history, it answered `ok`, and the key / eth account is what the executable
  look-up (`signingKey` = `GetSigningKey`, `ethAddrOf` = `GetEthAddressByValidator`) returned on the
  registry of the state that operation ran in; `registry_wellformed_all_histories` /
  `signing_key_identifies_validator` (one registry entry per validator, key bytes identify the validator);
  `stored_signature_valid_under_key_registered_when_signed` and
  `stored_confirm_valid_under_account_registered_when_confirmed` put the two halves together;
* "a validator or key at most once per item": `validator_and_key_once`, `account_once_per_item`,
  `validator_and_key_once_per_batch`;
* "whenever something covered by the signing bytes changes … discarded": `bytes_change_clears`,
  `bytes_change_only_by_election` (the only operation that changes signing bytes is the end-block
  election, it changes gas / fees only), `core_fields_never_change` (kind, payload, sender, assignee,
  relayer address, estimate flag are fixed at enqueue time — over whole histories),
  `signatures_after_bytes_change` / `confirms_after_checkpoint_change` (history-level: same id / nonce at two
  points of a history with different bytes ⇒ an election / re-issue step in between emptied the list, and every
  signature stored afterwards was added after that step), `no_signature_survives_bytes_change`,
  `no_confirm_survives_checkpoint_change` (corollaries), `batch_checkpoint_change_clears`;
* what is signed BEFORE an election (there is no gate): `signatures_before_election_sign_the_defaults`,
  `confirms_before_estimate_confirm_the_default`, `unelected_message_is_signable`.

ABSTRACTIONS: `State` / `Op` hold one queue of one target chain (`targetChain = 0`; there, sibling chains exist
only as registry entries); the queues of ALL chains of the chain type, with requests that carry several signatures
for several of them, are `MultiQ` / `signRequest` / `MQOp` (section "several chains, several signatures per request":
`request_signature_under_own_chain_key`, `request_needs_account_on_every_entry_chain`, `request_rejected_is_noop`,
`multi_chain_invariant_all_histories`, `singleton_request_is_sign`; sibling queues carry no estimates there), messages of the four kinds of `Kind` (compass deployments, whose signing bytes contain neither
relayer nor estimate, are C05's subject), the relayer trigger of clause 3 cannot be exercised (no reachable
operation rewrites the relayer: `core_fields_never_change`, `reassignDead_would_violate`).

EXTERNAL ASSUMPTIONS (not proved here): the signing bytes are a keccak digest of an ABI encoding; the
model uses the tuple `SignBytes` / `BBytes` of the encoded fields instead, i.e. it assumes that two
different tuples have different digests (no keccak collision on the pre-images that occur; the
injectivity of the encoding itself is C05's subject) and that secp256k1 recovery yields the signer.
`Sig.by_` / `Sig.for_` are what the submitted signature bytes really are a signature *of* and *by*.
-/
import PalomaModel.Model.Queue

namespace Paloma.Queue
open List

/-- a stored signature verifies against the item's *current* signing bytes under the key stored with it -/
def SigOk (it : Item) (sg : Sig) : Prop := verifies sg.wire sg.key sg.by_ sg.for_ (bytesOf it) = true

/-- per-item part of the invariant -/
def ItemOk (it : Item) : Prop :=
  (∀ sg ∈ it.sigs, SigOk it sg) ∧ (it.sigs.map (·.val)).Nodup ∧ (it.sigs.map (·.key)).Nodup

/-- a stored batch confirmation verifies against the batch's current checkpoint under the address stored with it -/
def ConfOk (b : Batch) (c : BConfirm) : Prop := c.by_ = canon c.addr ∧ c.for_ = bbytes b ∧ c.wire.bridge = true ∧ c.by_ ≠ 0

def BatchOk (b : Batch) : Prop :=
  (∀ c ∈ b.confirms, ConfOk b c) ∧ (b.confirms.map (·.val)).Nodup ∧ (b.confirms.map (fun c => canon c.addr)).Nodup

/-- ids in the queue are strictly increasing and never exceed the id counter -/
def Sorted (q : List Item) (n : Nat) : Prop := q.Pairwise (fun a b => a.id < b.id) ∧ ∀ it ∈ q, it.id ≤ n

def Inv (s : State) : Prop :=
  (∀ it ∈ s.queue, ItemOk it) ∧ (∀ b ∈ s.batches, BatchOk b) ∧ Sorted s.queue s.nextId

/-- batch nonces are strictly increasing and never exceed the nonce counter -/
def BSorted (bs : List Batch) (n : Nat) : Prop := bs.Pairwise (fun a b => a.nonce < b.nonce) ∧ ∀ b ∈ bs, b.nonce ≤ n

/-- the fields of a queued message that no operation ever rewrites -/
def SameCore (it it' : Item) : Prop :=
  it'.id = it.id ∧ it'.kind = it.kind ∧ it'.content = it.content ∧ it'.sender = it.sender ∧
    it'.assignee = it.assignee ∧ it'.remote = it.remote ∧ it'.reqEst = it.reqEst

/-- `SameCore` and additionally elected estimate, fees and signatures untouched (what estimate
submission, reports and evidence do) -/
def SameSigned (it it' : Item) : Prop :=
  SameCore it it' ∧ it'.elected = it.elected ∧ it'.fees = it.fees ∧ it'.sigs = it.sigs

/-- What one operation `op`, run in state `s`, does to one queued message: nothing; something that
touches neither core fields, estimate, fees nor signatures; it is the `sign` that appended one
signature under the key `GetSigningKey` returned in `s` and answered `ok`; or it is the end-block
step and the message went through `electOne`. -/
def Step (s : State) (op : Op) (it it' : Item) : Prop :=
  it' = it ∨ SameSigned it it' ∨
  (∃ v a b f w key, op = .sign it.id v a b f w ∧ signingKey s.regs v a = some key ∧
      (sign s it.id v a b f w).2 = .ok ∧ it' = addSig it ⟨v, a, key, b, f, w⟩) ∨
  (∃ snap, op = .endBlock ∧ s.env.snapshot = some snap ∧ it' = electOne s.env snap it)

section Lemmas

theorem verifies_iff (w : Wire) (key by_ : Nat) (f c : SignBytes) :
    verifies w key by_ f c = true ↔ w.strict = true ∧ key % 4 = 0 ∧ by_ ≠ 0 ∧ by_ = canon key ∧ f = c := by
  unfold verifies
  simp [and_assoc]

theorem getItem_mem {q : List Item} {id : Nat} {it : Item} (h : getItem q id = some it) : it ∈ q ∧ it.id = id := by
  unfold getItem at h
  exact ⟨List.mem_of_find?_eq_some h, by simpa using List.find?_some h⟩

theorem mem_setItem {q : List Item} {x y : Item} (h : y ∈ setItem q x) :
    (y ∈ q ∧ y.id ≠ x.id) ∨ (y = x ∧ ∃ z ∈ q, z.id = x.id) := by
  unfold setItem at h
  obtain ⟨z, hz, hzy⟩ := List.mem_map.mp h
  by_cases hid : z.id = x.id
  · simp [hid] at hzy
    exact Or.inr ⟨hzy.symm, z, hz, hid⟩
  · simp [hid] at hzy
    subst hzy
    exact Or.inl ⟨hz, hid⟩

theorem pairwise_setItem {q : List Item} {x : Item} (h : q.Pairwise (fun a b => a.id < b.id)) :
    (setItem q x).Pairwise (fun a b => a.id < b.id) := by
  unfold setItem
  rw [List.pairwise_map]
  refine h.imp ?_
  intro a b hab
  by_cases ha : a.id = x.id <;> by_cases hb : b.id = x.id <;> simp [ha, hb] <;> omega

theorem sorted_setItem {q : List Item} {n : Nat} {x : Item} (h : Sorted q n) (hx : ∃ z ∈ q, z.id = x.id) :
    Sorted (setItem q x) n := by
  refine ⟨pairwise_setItem h.1, ?_⟩
  intro y hy
  rcases mem_setItem hy with ⟨hq, _⟩ | ⟨rfl, _⟩
  · exact h.2 y hq
  · obtain ⟨z, hz, hzx⟩ := hx
    rw [← hzx]; exact h.2 z hz

theorem uniq_id_aux : ∀ (q : List Item), q.Pairwise (fun a b => a.id < b.id) →
    ∀ a ∈ q, ∀ b ∈ q, a.id = b.id → a = b
  | [], _, a, ha, _, _, _ => by cases ha
  | x :: xs, h, a, ha, b, hb, hab => by
    obtain ⟨hx, hxs⟩ := List.pairwise_cons.mp h
    rcases List.mem_cons.mp ha with rfl | ha' <;> rcases List.mem_cons.mp hb with rfl | hb'
    · rfl
    · have := hx b hb'; omega
    · have := hx a ha'; omega
    · exact uniq_id_aux xs hxs a ha' b hb' hab

theorem uniq_id {q : List Item} {n : Nat} (h : Sorted q n) {a b : Item} (ha : a ∈ q) (hb : b ∈ q)
    (hab : a.id = b.id) : a = b := uniq_id_aux q h.1 a ha b hb hab

/-- the duplicate loop lets a signature through only if neither its key nor its validator is stored -/
theorem dupCheck_none {sigs : List Sig} {key val : Nat} (h : dupCheck sigs key val = none) :
    key ∉ sigs.map (·.key) ∧ val ∉ sigs.map (·.val) := by
  induction sigs with
  | nil => simp
  | cons s rest ih =>
    unfold dupCheck at h
    split at h
    · cases h
    · split at h
      · cases h
      · rename_i hk hv
        obtain ⟨h1, h2⟩ := ih h
        simp only [List.map_cons, List.mem_cons, not_or]
        exact ⟨⟨fun e => hk (by simp [e]), h1⟩, ⟨fun e => hv (by simp [e]), h2⟩⟩

theorem nodup_append_singleton {α} {l : List α} {x : α} (h : l.Nodup) (hx : x ∉ l) : (l ++ [x]).Nodup := by
  rw [List.nodup_append]
  refine ⟨h, by simp, ?_⟩
  intro a ha b hb
  simp only [List.mem_singleton] at hb
  subst hb
  intro e
  subst e
  exact hx ha

/-- adding a verified, non-duplicate signature keeps the item invariant -/
theorem itemOk_addSig {it : Item} {sg : Sig} (h : ItemOk it) (hv : verifies sg.wire sg.key sg.by_ sg.for_ (bytesOf it) = true)
    (hd : dupCheck it.sigs sg.key sg.val = none) : ItemOk (addSig it sg) := by
  obtain ⟨h1, h2, h3⟩ := h
  obtain ⟨d1, d2⟩ := dupCheck_none hd
  have hb : bytesOf (addSig it sg) = bytesOf it := rfl
  refine ⟨?_, ?_, ?_⟩
  · intro g hg
    unfold SigOk
    rw [hb]
    simp only [addSig, List.mem_append, List.mem_singleton] at hg
    rcases hg with hg | rfl
    · exact h1 g hg
    · exact hv
  · simp only [addSig, List.map_append, List.map_cons, List.map_nil]
    exact nodup_append_singleton h2 d2
  · simp only [addSig, List.map_append, List.map_cons, List.map_nil]
    exact nodup_append_singleton h3 d1

/-- a change that touches neither the signatures nor anything the signing bytes depend on -/
theorem itemOk_congr {it it' : Item} (h : ItemOk it) (hs : it'.sigs = it.sigs) (hb : bytesOf it' = bytesOf it) :
    ItemOk it' := by
  unfold ItemOk SigOk at *
  rw [hs, hb]
  exact h

theorem itemOk_nosigs {it : Item} (h : it.sigs = []) : ItemOk it := by
  unfold ItemOk
  rw [h]
  simp

/-- what the end-block election does to one item: nothing, or election with all signatures dropped -/
theorem electOne_cases (env : Env) (snap : Snap) (it : Item) :
    electOne env snap it = it ∨ ((electOne env snap it).sigs = [] ∧ (electOne env snap it).id = it.id) := by
  unfold electOne
  split
  · exact Or.inl rfl
  · split
    · exact Or.inl rfl
    · split
      · exact Or.inl rfl
      · split
        · exact Or.inl rfl
        · exact Or.inl rfl
        · split
          · split
            · exact Or.inr ⟨rfl, rfl⟩
            · exact Or.inl rfl
          · exact Or.inr ⟨rfl, rfl⟩

theorem electOne_id (env : Env) (snap : Snap) (it : Item) : (electOne env snap it).id = it.id := by
  rcases electOne_cases env snap it with h | h
  · rw [h]
  · exact h.2

theorem sorted_map_electOne {q : List Item} {n : Nat} (env : Env) (snap : Snap) (h : Sorted q n) :
    Sorted (q.map (electOne env snap)) n := by
  constructor
  · rw [List.pairwise_map]
    refine h.1.imp ?_
    intro a b hab
    rw [electOne_id, electOne_id]; exact hab
  · intro y hy
    obtain ⟨z, hz, rfl⟩ := List.mem_map.mp hy
    rw [electOne_id]; exact h.2 z hz

theorem inv_setItem {s : State} {it x : Item} {id : Nat} (h : Inv s) (hg : getItem s.queue id = some it)
    (hid : x.id = it.id) (hx : ItemOk x) : Inv { s with queue := setItem s.queue x } := by
  obtain ⟨hq, hb, hs⟩ := h
  obtain ⟨hmem, _⟩ := getItem_mem hg
  refine ⟨?_, hb, sorted_setItem hs ⟨it, hmem, hid.symm⟩⟩
  intro y hy
  rcases mem_setItem hy with ⟨hyq, _⟩ | ⟨rfl, _⟩
  · exact hq y hyq
  · exact hx

theorem getBatch_mem {bs : List Batch} {n : Nat} {b : Batch} (h : getBatch bs n = some b) : b ∈ bs := by
  unfold getBatch at h
  exact List.mem_of_find?_eq_some h

theorem mem_setBatch {bs : List Batch} {x y : Batch} (h : y ∈ setBatch bs x) : y ∈ bs ∨ y = x := by
  unfold setBatch at h
  obtain ⟨z, hz, hzy⟩ := List.mem_map.mp h
  by_cases hid : z.nonce = x.nonce
  · simp [hid] at hzy
    exact Or.inr hzy.symm
  · simp [hid] at hzy
    subst hzy
    exact Or.inl hz

theorem inv_setBatch {s : State} {x : Batch} (h : Inv s) (hx : BatchOk x) : Inv { s with batches := setBatch s.batches x } := by
  obtain ⟨hq, hb, hs⟩ := h
  refine ⟨hq, ?_, hs⟩
  intro y hy
  rcases mem_setBatch hy with hy | rfl
  · exact hb y hy
  · exact hx

/-! #### every operation preserves the invariant -/

theorem inv_sign (s : State) (id val addr by_ : Nat) (for_ : SignBytes) (w : Wire) (h : Inv s) : Inv (sign s id val addr by_ for_ w).1 := by
  unfold sign signWith
  split
  · exact h
  · rename_i key _
    split
    · exact h
    · rename_i it hg
      split
      · exact h
      · rename_i hd
        split
        · rename_i hv
          have hok := h.1 it (getItem_mem hg).1
          exact inv_setItem h hg rfl (itemOk_addSig (sg := ⟨val, addr, key, by_, for_, w⟩) hok hv hd)
        · exact h

theorem inv_addEstimate (s : State) (id val value : Nat) (h : Inv s) : Inv (addEstimate s id val value).1 := by
  unfold addEstimate
  split
  · exact h
  · rename_i it hg
    split
    · exact h
    · split
      · exact h
      · split
        · exact h
        · exact inv_setItem h hg rfl (itemOk_congr (h.1 it (getItem_mem hg).1) rfl rfl)

theorem inv_endBlock (s : State) (h : Inv s) : Inv (endBlock s).1 := by
  unfold endBlock
  split
  · exact h
  · rename_i snap _
    obtain ⟨hq, hb, hs⟩ := h
    refine ⟨?_, hb, sorted_map_electOne s.env snap hs⟩
    intro y hy
    obtain ⟨z, hz, rfl⟩ := List.mem_map.mp hy
    rcases electOne_cases s.env snap z with he | he
    · rw [he]; exact hq z hz
    · exact itemOk_nosigs he.1

theorem inv_setPublic (s : State) (id : Nat) (h : Inv s) : Inv (setPublic s id).1 := by
  unfold setPublic
  split
  · exact h
  · rename_i it hg
    split
    · exact h
    · exact inv_setItem h hg rfl (itemOk_congr (h.1 it (getItem_mem hg).1) rfl rfl)

theorem inv_setError (s : State) (id : Nat) (h : Inv s) : Inv (setError s id).1 := by
  unfold setError
  split
  · exact h
  · rename_i it hg
    split
    · exact h
    · exact inv_setItem h hg rfl (itemOk_congr (h.1 it (getItem_mem hg).1) rfl rfl)

theorem inv_addEv (s : State) (id val hsh : Nat) (h : Inv s) : Inv (addEv s id val hsh).1 := by
  unfold addEv
  split
  · exact h
  · rename_i it hg
    exact inv_setItem h hg rfl (itemOk_congr (h.1 it (getItem_mem hg).1) rfl rfl)

theorem inv_remove (s : State) (id : Nat) (h : Inv s) : Inv (remove s id).1 := by
  unfold remove
  split
  · exact h
  · obtain ⟨hq, hb, hs⟩ := h
    refine ⟨?_, hb, ?_, ?_⟩
    · intro y hy; exact hq y (List.mem_filter.mp hy).1
    · exact hs.1.sublist List.filter_sublist
    · intro y hy; exact hs.2 y (List.mem_filter.mp hy).1

theorem inv_put (s : State) (k : Kind) (c sd a r : Nat) (q : Bool) (h : Inv s) : Inv (put s k c sd a r q).1 := by
  obtain ⟨hq, hb, hs⟩ := h
  unfold put
  refine ⟨?_, hb, ?_, ?_⟩
  · intro y hy
    simp only [List.mem_append, List.mem_singleton] at hy
    rcases hy with hy | rfl
    · exact hq y hy
    · exact itemOk_nosigs rfl
  · simp only
    rw [List.pairwise_append]
    refine ⟨hs.1, by simp, ?_⟩
    intro a ha b hb'
    simp only [List.mem_singleton] at hb'
    subst hb'
    have := hs.2 a ha
    simp only [newItem]
    omega
  · intro y hy
    simp only [List.mem_append, List.mem_singleton] at hy
    rcases hy with hy | rfl
    · have := hs.2 y hy
      simp only
      omega
    · simp [newItem]

theorem inv_enqueue (s : State) (k : Kind) (c sd : Nat) (m : Bool) (t : Nat) (h : Inv s) : Inv (enqueue s k c sd m t).1 := by
  unfold enqueue
  split
  · exact h
  · exact inv_put s k c sd _ _ true h

theorem inv_register (s : State) (v : Nat) (a : List Account) (h : Inv s) : Inv (register s v a).1 := by
  unfold register
  split
  · exact h
  · exact h

theorem inv_putBatch (s : State) (n c r : Nat) (h : Inv s) : Inv (putBatch s n c r) := by
  unfold putBatch
  split
  · exact h
  · obtain ⟨hq, hb, hs⟩ := h
    refine ⟨hq, ?_, hs⟩
    intro y hy
    simp only [List.mem_append, List.mem_singleton] at hy
    rcases hy with hy | rfl
    · exact hb y hy
    · exact ⟨by simp, by simp, by simp⟩

theorem inv_confirm (s : State) (n v a by_ : Nat) (f : BBytes) (w : Wire) (h : Inv s) : Inv (confirm s n v a by_ f w).1 := by
  unfold confirm confirmWith
  split
  · exact h
  · rename_i b hg
    split
    · exact h
    · rename_i ra _
      split
      · exact h
      · rename_i hcan
        split
        · exact h
        · rename_i hver
          split
          · exact h
          · rename_i hdup
            split
            · exact h
            · rename_i hkey
              obtain ⟨hb1, hb2, hb3⟩ := h.2.1 b (getBatch_mem hg)
              refine inv_setBatch h ⟨?_, ?_, ?_⟩
              · intro c hc
                simp only [addConfirm, List.mem_append, List.mem_singleton] at hc
                rcases hc with hc | rfl
                · exact hb1 c hc
                · simp only [Bool.not_eq_true', Bool.not_eq_false, Bool.and_eq_true, beq_iff_eq, bne_iff_ne, ne_eq] at hver
                  simp only [bne_iff_ne, ne_eq, Decidable.not_not] at hcan
                  exact ⟨by rw [hver.1.2, hcan], hver.2, hver.1.1.1, hver.1.1.2⟩
              · simp only [addConfirm, List.map_append, List.map_cons, List.map_nil]
                refine nodup_append_singleton hb2 ?_
                intro hm
                obtain ⟨c, hc, hcv⟩ := List.mem_map.mp hm
                apply hdup
                exact List.any_eq_true.mpr ⟨c, hc, by simp [hcv]⟩
              · simp only [addConfirm, List.map_append, List.map_cons, List.map_nil]
                refine nodup_append_singleton hb3 ?_
                intro hm
                obtain ⟨c, hc, hcv⟩ := List.mem_map.mp hm
                apply hkey
                simp only [Bool.true_and]
                exact List.any_eq_true.mpr ⟨c, hc, by simp [hcv]⟩

theorem inv_updateBatchGas (s : State) (n g : Nat) (h : Inv s) : Inv (updateBatchGas s n g).1 := by
  unfold updateBatchGas
  split
  · exact h
  · split
    · exact h
    · exact inv_setBatch h ⟨by simp, by simp, by simp⟩

theorem inv_apply (s : State) (op : Op) (h : Inv s) : Inv (apply s op) := by
  cases op with
  | setEnv e => exact h
  | register v a => exact inv_register s v a h
  | put k c sd a r q => exact inv_put s k c sd a r q h
  | enqueue k c sd m t => exact inv_enqueue s k c sd m t h
  | sign id v a b f w => exact inv_sign s id v a b f w h
  | addEstimate id v x => exact inv_addEstimate s id v x h
  | endBlock => exact inv_endBlock s h
  | setPublic id => exact inv_setPublic s id h
  | setError id => exact inv_setError s id h
  | addEvidence id v hh => exact inv_addEv s id v hh h
  | remove id => exact inv_remove s id h
  | putBatch n c r => exact inv_putBatch s n c r h
  | confirm n v a b f w => exact inv_confirm s n v a b f w h
  | updateBatchGas n g => exact inv_updateBatchGas s n g h

theorem inv_foldl (ops : List Op) : ∀ s, Inv s → Inv (ops.foldl apply s) := by
  induction ops with
  | nil => intro s h; exact h
  | cons op rest ih => intro s h; exact ih _ (inv_apply s op h)

theorem inv_init : Inv {} := ⟨by simp, by simp, by simp, by simp⟩

/-! #### frames: which part of the state an operation can touch at all -/

theorem run_snoc (ops : List Op) (op : Op) : run (ops ++ [op]) = apply (run ops) op := by
  simp [run, List.foldl_append]

theorem run_append (pre post : List Op) : run (pre ++ post) = post.foldl apply (run pre) := by
  simp [run, List.foldl_append]

/-- induction over histories from the right -/
theorem snoc_induction {P : List Op → Prop} (h0 : P []) (hs : ∀ ops op, P ops → P (ops ++ [op])) (ops : List Op) : P ops := by
  have : ∀ l : List Op, P l.reverse := by
    intro l
    induction l with
    | nil => exact h0
    | cons x xs ih => rw [List.reverse_cons]; exact hs _ _ ih
  have h := this ops.reverse
  rwa [List.reverse_reverse] at h

/-- operations on queue items leave registry, environment, id counter and batches alone -/
theorem frame_queue_ops (s : State) (op : Op) :
    match op with
    | .sign .. | .addEstimate .. | .endBlock | .setPublic .. | .setError .. | .addEvidence .. | .remove .. =>
      (apply s op).batches = s.batches ∧ (apply s op).regs = s.regs ∧ (apply s op).env = s.env ∧
        (apply s op).nextId = s.nextId ∧ (apply s op).lastNonce = s.lastNonce
    | _ => True := by
  cases op <;> simp only [apply] <;> try trivial
  all_goals first
    | (unfold sign signWith; repeat' split)
    | (unfold addEstimate; repeat' split)
    | (unfold endBlock; repeat' split)
    | (unfold setPublic; repeat' split)
    | (unfold setError; repeat' split)
    | (unfold addEv; repeat' split)
    | (unfold remove; repeat' split)
  all_goals exact ⟨rfl, rfl, rfl, rfl, rfl⟩

/-- environment changes, registration and batch operations leave the queue and its id counter alone -/
theorem frame_nonqueue_ops (s : State) (op : Op) :
    match op with
    | .setEnv .. | .register .. | .putBatch .. | .confirm .. | .updateBatchGas .. =>
      (apply s op).queue = s.queue ∧ (apply s op).nextId = s.nextId
    | _ => True := by
  cases op <;> simp only [apply] <;> try trivial
  all_goals first
    | exact ⟨rfl, rfl⟩
    | (unfold register; repeat' split)
    | (unfold putBatch; repeat' split)
    | (unfold confirm confirmWith; repeat' split)
    | (unfold updateBatchGas; repeat' split)
  all_goals exact ⟨rfl, rfl⟩

/-- only batch operations touch batches and the nonce counter -/
theorem frame_batches (s : State) (op : Op) :
    match op with
    | .putBatch .. | .confirm .. | .updateBatchGas .. => True
    | _ => (apply s op).batches = s.batches ∧ (apply s op).lastNonce = s.lastNonce := by
  cases op <;> simp only [apply] <;> try trivial
  all_goals first
    | exact ⟨rfl, rfl⟩
    | (unfold register; repeat' split)
    | (unfold put; repeat' split)
    | (unfold enqueue put; repeat' split)
    | (unfold sign signWith; repeat' split)
    | (unfold addEstimate; repeat' split)
    | (unfold endBlock; repeat' split)
    | (unfold setPublic; repeat' split)
    | (unfold setError; repeat' split)
    | (unfold addEv; repeat' split)
    | (unfold remove; repeat' split)
  all_goals exact ⟨rfl, rfl⟩

/-- only `register` touches the registry, only `setEnv` the environment -/
theorem frame_regs_env (s : State) (op : Op) :
    (match op with | .register .. => True | _ => (apply s op).regs = s.regs) ∧
    (match op with | .setEnv .. => True | _ => (apply s op).env = s.env) := by
  cases op <;> simp only [apply] <;> refine ⟨?_, ?_⟩ <;> try trivial
  all_goals first
    | rfl
    | (unfold register; repeat' split)
    | (unfold put; repeat' split)
    | (unfold enqueue put; repeat' split)
    | (unfold sign signWith; repeat' split)
    | (unfold addEstimate; repeat' split)
    | (unfold endBlock; repeat' split)
    | (unfold setPublic; repeat' split)
    | (unfold setError; repeat' split)
    | (unfold addEv; repeat' split)
    | (unfold remove; repeat' split)
    | (unfold putBatch; repeat' split)
    | (unfold confirm confirmWith; repeat' split)
    | (unfold updateBatchGas; repeat' split)
  all_goals rfl

/-- the id counter never goes down -/
theorem nextId_mono (s : State) (op : Op) : s.nextId ≤ (apply s op).nextId := by
  have h1 := frame_queue_ops s op
  have h2 := frame_nonqueue_ops s op
  cases op <;> simp only at h1 h2
  case put => simp only [apply, put]; omega
  case enqueue => simp only [apply, enqueue]; split <;> simp only [put] <;> omega
  all_goals first
    | (rw [h1.2.2.2.1]; exact Nat.le_refl _)
    | (rw [h2.2]; exact Nat.le_refl _)

theorem nextId_mono_foldl (post : List Op) : ∀ s : State, s.nextId ≤ (post.foldl apply s).nextId := by
  induction post with
  | nil => intro s; exact Nat.le_refl _
  | cons op rest ih => intro s; exact Nat.le_trans (nextId_mono s op) (ih _)

/-! #### how one operation transforms one item -/

theorem setItem_same_id {s : State} {id : Nat} {y x it it' : Item} (h : Inv s) (hg : getItem s.queue id = some y)
    (hx : x.id = y.id) (hit : it ∈ s.queue) (hit' : it' ∈ setItem s.queue x) (hid : it'.id = it.id) :
    it' = it ∨ (it' = x ∧ it = y) := by
  rcases mem_setItem hit' with ⟨hq, _⟩ | ⟨rfl, _⟩
  · exact Or.inl (uniq_id h.2.2 hq hit hid)
  · exact Or.inr ⟨rfl, uniq_id h.2.2 hit (getItem_mem hg).1 (by rw [← hid, hx])⟩

theorem sameSigned_refl (it : Item) : SameSigned it it := ⟨⟨rfl, rfl, rfl, rfl, rfl, rfl, rfl⟩, rfl, rfl, rfl⟩

/-- `electOne` never touches a core field -/
theorem electOne_core (env : Env) (snap : Snap) (it : Item) : SameCore it (electOne env snap it) := by
  unfold electOne
  repeat' split
  all_goals exact ⟨rfl, rfl, rfl, rfl, rfl, rfl, rfl⟩

/-- **the step lemma**: what one operation does to the message with a given id -/
theorem step_full (s : State) (h : Inv s) (op : Op) (it it' : Item) (hit : it ∈ s.queue)
    (hit' : it' ∈ (apply s op).queue) (hid : it'.id = it.id) : Step s op it it' := by
  have same : ∀ {q : List Item}, q = s.queue → it' ∈ q → Step s op it it' := by
    intro q hq hm
    subst hq
    exact Or.inl (uniq_id h.2.2 hm hit hid)
  have viaSet : ∀ {id : Nat} {y x : Item}, getItem s.queue id = some y →
      it' ∈ setItem s.queue x → x.id = y.id → SameSigned y x → Step s op it it' := by
    intro id y x hg hm hx ht
    rcases setItem_same_id h hg hx hit hm hid with rfl | ⟨rfl, rfl⟩
    · exact Or.inl rfl
    · exact Or.inr (Or.inl ht)
  have hnq := frame_nonqueue_ops s op
  cases op with
  | setEnv e => exact same hnq.1 hit'
  | register v a => exact same hnq.1 hit'
  | putBatch n c r => exact same hnq.1 hit'
  | confirm n v a b f w => exact same hnq.1 hit'
  | updateBatchGas n g => exact same hnq.1 hit'
  | put k c sd a r q =>
    simp only [apply, put, List.mem_append, List.mem_singleton] at hit'
    rcases hit' with hm | rfl
    · exact same rfl hm
    · exfalso
      have := h.2.2.2 it hit
      simp only [newItem] at hid
      omega
  | enqueue k c sd m t =>
    simp only [apply, enqueue] at hit'
    split at hit'
    · exact same rfl hit'
    · simp only [put, List.mem_append, List.mem_singleton] at hit'
      rcases hit' with hm | rfl
      · exact same rfl hm
      · exfalso
        have := h.2.2.2 it hit
        simp only [newItem] at hid
        omega
  | sign id v a b f w =>
    simp only [apply, sign, signWith] at hit'
    split at hit'
    · exact same rfl hit'
    · rename_i key hkey
      split at hit'
      · exact same rfl hit'
      · rename_i y hg
        split at hit'
        · exact same rfl hit'
        · rename_i hd
          split at hit'
          · rename_i hv
            have hit'' : it' ∈ setItem s.queue (addSig y ⟨v, a, key, b, f, w⟩) := hit'
            rcases setItem_same_id (x := addSig y ⟨v, a, key, b, f, w⟩) h hg rfl hit hit'' hid with rfl | ⟨rfl, rfl⟩
            · exact Or.inl rfl
            · have hyid : it.id = id := (getItem_mem hg).2
              refine Or.inr (Or.inr (Or.inl ⟨v, a, b, f, w, key, by rw [hyid], hkey, ?_, rfl⟩))
              rw [hyid]
              simp [sign, signWith, hkey, hg, hd, hv]
          · exact same rfl hit'
  | addEstimate id v x =>
    simp only [apply, addEstimate] at hit'
    split at hit'
    · exact same rfl hit'
    · rename_i y hg
      split at hit'
      · exact same rfl hit'
      · split at hit'
        · exact same rfl hit'
        · split at hit'
          · exact same rfl hit'
          · exact viaSet hg hit' rfl ⟨⟨rfl, rfl, rfl, rfl, rfl, rfl, rfl⟩, rfl, rfl, rfl⟩
  | endBlock =>
    simp only [apply, endBlock] at hit'
    split at hit'
    · exact same rfl hit'
    · rename_i snap hsnap
      obtain ⟨z, hz, rfl⟩ := List.mem_map.mp hit'
      rw [electOne_id] at hid
      have hzi : z = it := uniq_id h.2.2 hz hit hid
      subst hzi
      exact Or.inr (Or.inr (Or.inr ⟨snap, rfl, hsnap, rfl⟩))
  | setPublic id =>
    simp only [apply, setPublic] at hit'
    split at hit'
    · exact same rfl hit'
    · rename_i y hg
      split at hit'
      · exact same rfl hit'
      · exact viaSet hg hit' rfl ⟨⟨rfl, rfl, rfl, rfl, rfl, rfl, rfl⟩, rfl, rfl, rfl⟩
  | setError id =>
    simp only [apply, setError] at hit'
    split at hit'
    · exact same rfl hit'
    · rename_i y hg
      split at hit'
      · exact same rfl hit'
      · exact viaSet hg hit' rfl ⟨⟨rfl, rfl, rfl, rfl, rfl, rfl, rfl⟩, rfl, rfl, rfl⟩
  | addEvidence id v hh =>
    simp only [apply, addEv] at hit'
    split at hit'
    · exact same rfl hit'
    · rename_i y hg
      exact viaSet hg hit' rfl ⟨⟨rfl, rfl, rfl, rfl, rfl, rfl, rfl⟩, rfl, rfl, rfl⟩
  | remove id =>
    simp only [apply, remove] at hit'
    split at hit'
    · exact same rfl hit'
    · exact same rfl (List.mem_filter.mp hit').1

/-- every step keeps the core fields -/
theorem step_core {s : State} {op : Op} {it it' : Item} (h : Step s op it it') : SameCore it it' := by
  rcases h with rfl | h | ⟨v, a, b, f, w, key, _, _, _, rfl⟩ | ⟨snap, _, _, rfl⟩
  · exact ⟨rfl, rfl, rfl, rfl, rfl, rfl, rfl⟩
  · exact h.1
  · exact ⟨rfl, rfl, rfl, rfl, rfl, rfl, rfl⟩
  · exact electOne_core _ _ _

/-- Relation between an item before and after one operation: untouched; changed without touching
the signatures or the signing bytes; all signatures dropped; or one verified signature appended. -/
def Trans (it it' : Item) : Prop :=
  it' = it ∨ (it'.sigs = it.sigs ∧ bytesOf it' = bytesOf it) ∨ it'.sigs = [] ∨
    (∃ sg, it' = addSig it sg)

theorem bytesOf_congr {it it' : Item} (h : SameSigned it it') : bytesOf it' = bytesOf it := by
  obtain ⟨⟨h1, h2, h3, _, _, h6, _⟩, h8, h9, _⟩ := h
  unfold bytesOf
  rw [h1, h2, h3, h6, h8, h9]

theorem step_item (s : State) (h : Inv s) (op : Op) (it it' : Item) (hit : it ∈ s.queue)
    (hit' : it' ∈ (apply s op).queue) (hid : it'.id = it.id) : Trans it it' := by
  rcases step_full s h op it it' hit hit' hid with rfl | hs | ⟨v, a, b, f, w, key, _, _, _, rfl⟩ | ⟨snap, _, _, rfl⟩
  · exact Or.inl rfl
  · exact Or.inr (Or.inl ⟨hs.2.2.2, bytesOf_congr hs⟩)
  · exact Or.inr (Or.inr (Or.inr ⟨_, rfl⟩))
  · rcases electOne_cases s.env snap it with he | he
    · exact Or.inl he
    · exact Or.inr (Or.inr (Or.inl he.1))

/-- a message in the queue after an operation either has a predecessor with the same id, or it was
created by this very operation — a `put` with exactly its fields, or an `enqueue` whose relayer pick
(in the state the operation ran in) returned exactly its assignee and relayer address -/
theorem step_new (s : State) (op : Op) (it' : Item) (hit' : it' ∈ (apply s op).queue) :
    (∃ it ∈ s.queue, it.id = it'.id) ∨
    (it'.id = s.nextId + 1 ∧ ∃ sd, it' = newItem (s.nextId + 1) it'.kind it'.content sd it'.assignee it'.remote it'.reqEst ∧
      (op = .put it'.kind it'.content sd it'.assignee it'.remote it'.reqEst ∨
        ∃ mev ts, op = .enqueue it'.kind it'.content sd mev ts ∧
          pick s.env mev ts = some (it'.assignee, it'.remote) ∧ it'.reqEst = true)) := by
  have same : ∀ {q : List Item}, q = s.queue → it' ∈ q → (∃ it ∈ s.queue, it.id = it'.id) := by
    intro q hq hm; subst hq; exact ⟨it', hm, rfl⟩
  have viaSet : ∀ {x : Item}, it' ∈ setItem s.queue x → (∃ it ∈ s.queue, it.id = it'.id) := by
    intro x hm
    rcases mem_setItem hm with ⟨hq, _⟩ | ⟨rfl, z, hz, hzx⟩
    · exact ⟨it', hq, rfl⟩
    · exact ⟨z, hz, hzx⟩
  have hnq := frame_nonqueue_ops s op
  cases op with
  | setEnv e => exact Or.inl (same hnq.1 hit')
  | register v a => exact Or.inl (same hnq.1 hit')
  | putBatch n c r => exact Or.inl (same hnq.1 hit')
  | confirm n v a b f w => exact Or.inl (same hnq.1 hit')
  | updateBatchGas n g => exact Or.inl (same hnq.1 hit')
  | put k c sd a r q =>
    simp only [apply, put, List.mem_append, List.mem_singleton] at hit'
    rcases hit' with hm | rfl
    · exact Or.inl (same rfl hm)
    · exact Or.inr ⟨rfl, sd, rfl, Or.inl rfl⟩
  | enqueue k c sd m t =>
    simp only [apply, enqueue] at hit'
    split at hit'
    · exact Or.inl (same rfl hit')
    · rename_i vr hp
      simp only [put, List.mem_append, List.mem_singleton] at hit'
      rcases hit' with hm | rfl
      · exact Or.inl (same rfl hm)
      · exact Or.inr ⟨rfl, sd, rfl, Or.inr ⟨m, t, rfl, hp, rfl⟩⟩
  | sign id v a b f w =>
    simp only [apply, sign, signWith] at hit'
    repeat' split at hit'
    all_goals first
      | exact Or.inl (same rfl hit')
      | exact Or.inl (viaSet hit')
  | addEstimate id v x =>
    simp only [apply, addEstimate] at hit'
    repeat' split at hit'
    all_goals first
      | exact Or.inl (same rfl hit')
      | exact Or.inl (viaSet hit')
  | endBlock =>
    simp only [apply, endBlock] at hit'
    split at hit'
    · exact Or.inl (same rfl hit')
    · obtain ⟨z, hz, rfl⟩ := List.mem_map.mp hit'
      exact Or.inl ⟨z, hz, (electOne_id _ _ _).symm⟩
  | setPublic id =>
    simp only [apply, setPublic] at hit'
    repeat' split at hit'
    all_goals first
      | exact Or.inl (same rfl hit')
      | exact Or.inl (viaSet hit')
  | setError id =>
    simp only [apply, setError] at hit'
    repeat' split at hit'
    all_goals first
      | exact Or.inl (same rfl hit')
      | exact Or.inl (viaSet hit')
  | addEvidence id v hh =>
    simp only [apply, addEv] at hit'
    repeat' split at hit'
    all_goals first
      | exact Or.inl (same rfl hit')
      | exact Or.inl (viaSet hit')
  | remove id =>
    simp only [apply, remove] at hit'
    split at hit'
    · exact Or.inl (same rfl hit')
    · exact Or.inl (same rfl (List.mem_filter.mp hit').1)

theorem bytesOf_remote (it : Item) : (bytesOf it).remote = canon it.remote := by
  unfold bytesOf
  split <;> rfl

theorem elected_ne_zero {sn : Paloma.Libcons.Snapshot} {ests : List (Nat × Nat)} {g : Nat}
    (h : Paloma.Libcons.verifyGasEstimates sn ests = .elected g) : g ≠ 0 := by
  unfold Paloma.Libcons.verifyGasEstimates at h
  split at h
  · cases h
  · simp only at h
    split at h
    · cases h
    · rename_i hm
      injection h with h
      subst h
      simpa using hm

/-- exact description of the end-block step on one message: untouched, or — estimation required, none
elected yet, quorum reached on a non-zero median `g` — `g` elected, signatures dropped and, for a
fee-paying action, the fees `feesFor` computes attached (if they cannot be computed: untouched) -/
theorem electOne_spec (env : Env) (snap : Snap) (it : Item) :
    electOne env snap it = it ∨
    (it.reqEst = true ∧ it.elected = 0 ∧ ∃ g, Paloma.Libcons.verifyGasEstimates (libSnap snap) it.estimates = .elected g ∧ g ≠ 0 ∧
      ((it.kind.feePayer = true ∧ ∃ f, feesFor env it.assignee g = some f ∧
          electOne env snap it = { it with sigs := [], elected := g, fees := some f }) ∨
       (it.kind.feePayer = false ∧ electOne env snap it = { it with sigs := [], elected := g }))) := by
  by_cases hreq : it.reqEst = true
  case neg => left; unfold electOne; simp [hreq]
  by_cases hemp : it.estimates.isEmpty = true
  case pos => left; unfold electOne; simp [hreq, hemp]
  by_cases hel : it.elected > 0
  case pos => left; unfold electOne; simp [hreq, hemp, hel]
  have hel' : it.elected = 0 := by omega
  cases hv : Paloma.Libcons.verifyGasEstimates (libSnap snap) it.estimates with
  | notAchieved => left; unfold electOne; simp [hreq, hemp, hel', hv]
  | zero => left; unfold electOne; simp [hreq, hemp, hel', hv]
  | elected g =>
    by_cases hk : it.kind.feePayer = true
    · cases hf : feesFor env it.assignee g with
      | none => left; unfold electOne; simp [hreq, hemp, hel', hv, hk, hf]
      | some f =>
        right
        refine ⟨hreq, hel', g, rfl, elected_ne_zero hv, Or.inl ⟨hk, f, hf, ?_⟩⟩
        unfold electOne
        simp [hreq, hemp, hel', hv, hk, hf]
    · right
      refine ⟨hreq, hel', g, rfl, elected_ne_zero hv, Or.inr ⟨by simpa using hk, ?_⟩⟩
      unfold electOne
      simp [hreq, hemp, hel', hv, hk]

/-- the duplicate loop never answers `ok` -/
theorem dupCheck_ne_ok (l : List Sig) (k v : Nat) : dupCheck l k v ≠ some .ok := by
  induction l with
  | nil => simp [dupCheck]
  | cons x xs ih =>
    unfold dupCheck
    split
    · simp
    · split
      · simp
      · exact ih

theorem confirm_noop_or_ok (s : State) (nonce val addr by_ : Nat) (for_ : BBytes) (w : Wire) :
    (confirm s nonce val addr by_ for_ w).1 = s ∨ (confirm s nonce val addr by_ for_ w).2 = .ok := by
  unfold confirm confirmWith
  repeat' split
  all_goals first
    | exact Or.inl rfl
    | exact Or.inr rfl

theorem sign_noop_or_ok (s : State) (id val addr by_ : Nat) (for_ : SignBytes) (w : Wire) :
    (sign s id val addr by_ for_ w).1 = s ∨ (sign s id val addr by_ for_ w).2 = .ok := by
  unfold sign signWith
  repeat' split
  all_goals first
    | exact Or.inl rfl
    | exact Or.inr rfl

/-! #### where stored signatures come from -/

theorem signingKey_mem {regs : List (Nat × List Account)} {val addr key : Nat} (h : signingKey regs val addr = some key) :
    ∃ r ∈ regs, ∃ a ∈ r.2, r.1 = val ∧ a.chain = targetChain ∧ a.addr = addr ∧ a.raw = key := by
  unfold signingKey at h
  split at h
  · cases h
  · rename_i accts hacc
    unfold assoc? at hacc
    cases hf : regs.find? (fun p => p.1 == val) with
    | none => simp [hf] at hacc
    | some r =>
      simp only [hf, Option.map_some, Option.some.injEq] at hacc
      cases hfa : accts.find? (fun a => a.chain == targetChain && a.addr == addr) with
      | none => simp [hfa] at h
      | some a =>
        simp only [hfa, Option.map_some, Option.some.injEq] at h
        have hp := List.find?_some hfa
        simp only [Bool.and_eq_true, beq_iff_eq] at hp
        refine ⟨r, List.mem_of_find?_eq_some hf, a, ?_, by simpa using List.find?_some hf, hp.1, hp.2, h⟩
        rw [hacc]; exact List.mem_of_find?_eq_some hfa

/-- every signature stored after an operation was stored before it on the same item, or the
operation is the `sign` that added it — it answered `ok`, with the key `GetSigningKey` returned in the pre-state -/
theorem step_sigs (s : State) (h : Inv s) (op : Op) (it' : Item) (hit' : it' ∈ (apply s op).queue) (sg : Sig) (hsg : sg ∈ it'.sigs) :
    (∃ it ∈ s.queue, it.id = it'.id ∧ sg ∈ it.sigs) ∨
      (op = .sign it'.id sg.val sg.addr sg.by_ sg.for_ sg.wire ∧
        (sign s it'.id sg.val sg.addr sg.by_ sg.for_ sg.wire).2 = .ok ∧ signingKey s.regs sg.val sg.addr = some sg.key) := by
  rcases step_new s op it' hit' with ⟨it, hit, hid⟩ | ⟨_, sd, hnew, _⟩
  · rcases step_full s h op it it' hit hit' hid.symm with rfl | hs | ⟨v, a, b, f, w, key, hop, hk, hok, rfl⟩ | ⟨snap, _, _, rfl⟩
    · exact Or.inl ⟨it', hit, rfl, hsg⟩
    · exact Or.inl ⟨it, hit, hid, by rw [← hs.2.2.2]; exact hsg⟩
    · simp only [addSig, List.mem_append, List.mem_singleton] at hsg
      rcases hsg with hsg | rfl
      · exact Or.inl ⟨it, hit, rfl, hsg⟩
      · exact Or.inr ⟨hop, hok, hk⟩
    · rcases electOne_cases s.env snap it with he | he
      · rw [he] at hsg; exact Or.inl ⟨it, hit, hid, hsg⟩
      · rw [he.1] at hsg; cases hsg
  · rw [hnew] at hsg
    simp [newItem] at hsg

/-! #### accounts -/

theorem nodup_map_canon {l : List Nat} (h : l.Nodup) (hc : ∀ x ∈ l, x % 4 = 0) : (l.map canon).Nodup := by
  induction l with
  | nil => simp
  | cons x xs ih =>
    obtain ⟨hx, hxs⟩ := List.nodup_cons.mp h
    simp only [List.map_cons]
    refine List.nodup_cons.mpr ⟨?_, ih hxs (fun y hy => hc y (List.mem_cons_of_mem _ hy))⟩
    intro hm
    obtain ⟨y, hy, hyx⟩ := List.mem_map.mp hm
    have h1 := hc x (by simp)
    have h2 := hc y (List.mem_cons_of_mem _ hy)
    unfold canon at hyx
    have : y = x := by omega
    subst this
    exact hx hy

/-! #### batches -/

theorem getBatch_nonce {bs : List Batch} {n : Nat} {b : Batch} (h : getBatch bs n = some b) : b.nonce = n := by
  unfold getBatch at h
  simpa using List.find?_some h

theorem ethAddrOf_mem {regs : List (Nat × List Account)} {val a : Nat} (h : ethAddrOf regs val = some a) :
    ∃ r ∈ regs, r.1 = val ∧ ∃ acct, chainAccount r.2 = some acct ∧ acct.addr = a := by
  unfold ethAddrOf at h
  split at h
  · cases h
  · rename_i accts hacc
    unfold assoc? at hacc
    cases hf : regs.find? (fun p => p.1 == val) with
    | none => simp [hf] at hacc
    | some r =>
      simp only [hf, Option.map_some, Option.some.injEq] at hacc
      cases hca : chainAccount accts with
      | none => simp [hca] at h
      | some acct =>
        simp only [hca, Option.map_some, Option.some.injEq] at h
        exact ⟨r, List.mem_of_find?_eq_some hf, by simpa using List.find?_some hf, acct, by rw [hacc]; exact hca, h⟩

/-- What one operation does to one batch: nothing; it is created empty by `putBatch` under a fresh
nonce; its checkpoint is re-issued by `updateBatchGas` (gas was 0) with all confirmations dropped; or the
operation is the `confirm` that appended one confirmation — it answered `ok`, and the confirmation's
`EthSigner` denotes the eth account `GetEthAddressByValidator` returned for the validator in `s`. -/
def BStep (s : State) (op : Op) (b' : Batch) : Prop :=
  b' ∈ s.batches ∨
  (∃ c r, op = .putBatch b'.nonce c r ∧ s.lastNonce < b'.nonce ∧ b' = { nonce := b'.nonce, content := c, remote := r }) ∨
  (∃ b ∈ s.batches, ∃ g, op = .updateBatchGas b.nonce g ∧ b.gas = 0 ∧ b' = { b with gas := g, confirms := [] }) ∨
  (∃ b ∈ s.batches, ∃ v a by_ f w reg, op = .confirm b.nonce v a by_ f w ∧ (confirm s b.nonce v a by_ f w).2 = .ok ∧
      ethAddrOf s.regs v = some reg ∧ canon reg = canon a ∧ by_ = canon reg ∧ b' = addConfirm b ⟨v, a, by_, f, w⟩)

theorem step_batch (s : State) (op : Op) (b' : Batch) (hb' : b' ∈ (apply s op).batches) : BStep s op b' := by
  have keep : ∀ {l : List Batch}, l = s.batches → b' ∈ l → BStep s op b' := by
    intro l hl hm; subst hl; exact Or.inl hm
  have hfr := frame_batches s op
  cases op with
  | putBatch n c r =>
    simp only [apply, putBatch] at hb'
    split at hb'
    · exact keep rfl hb'
    · rename_i hfresh
      simp only [List.mem_append, List.mem_singleton] at hb'
      rcases hb' with hm | rfl
      · exact Or.inl hm
      · exact Or.inr (Or.inl ⟨c, r, rfl, by simp only; omega, rfl⟩)
  | confirm n v a b f w =>
    simp only [apply, confirm, confirmWith] at hb'
    split at hb'
    · exact keep rfl hb'
    · rename_i b0 hg
      split at hb'
      · exact keep rfl hb'
      · rename_i reg hreg
        split at hb'
        · exact keep rfl hb'
        · rename_i hcan
          split at hb'
          · exact keep rfl hb'
          · rename_i hver
            split at hb'
            · exact keep rfl hb'
            · rename_i hdup
              split at hb'
              · exact keep rfl hb'
              · rename_i hkey
                rcases mem_setBatch hb' with hm | rfl
                · exact Or.inl hm
                · have hn := getBatch_nonce hg
                  have hver0 := hver
                  simp only [Bool.not_eq_true', Bool.not_eq_false, Bool.and_eq_true, beq_iff_eq, bne_iff_ne, ne_eq] at hver
                  simp only [bne_iff_ne, ne_eq, Decidable.not_not] at hcan
                  refine Or.inr (Or.inr (Or.inr ⟨b0, getBatch_mem hg, v, a, b, f, w, reg, by rw [hn], ?_, hreg, hcan, hver.1.2, rfl⟩))
                  rw [hn]
                  simp only [confirm, confirmWith, hg, hreg]
                  rw [if_neg (by simpa using hcan), if_neg hver0, if_neg hdup, if_neg hkey]
  | updateBatchGas n g =>
    simp only [apply, updateBatchGas] at hb'
    split at hb'
    · exact keep rfl hb'
    · rename_i b0 hg
      split at hb'
      · exact keep rfl hb'
      · rename_i hgas
        rcases mem_setBatch hb' with hm | rfl
        · exact Or.inl hm
        · exact Or.inr (Or.inr (Or.inl ⟨b0, getBatch_mem hg, g, by rw [getBatch_nonce hg], by omega, rfl⟩))
  | setEnv e => exact keep hfr.1 hb'
  | register v a => exact keep hfr.1 hb'
  | put k c sd a r q => exact keep hfr.1 hb'
  | enqueue k c sd m t => exact keep hfr.1 hb'
  | sign id v a b f w => exact keep hfr.1 hb'
  | addEstimate id v x => exact keep hfr.1 hb'
  | endBlock => exact keep hfr.1 hb'
  | setPublic id => exact keep hfr.1 hb'
  | setError id => exact keep hfr.1 hb'
  | addEvidence id v hh => exact keep hfr.1 hb'
  | remove id => exact keep hfr.1 hb'

/-- what one operation does to the list of batches -/
theorem step_batches (s : State) (op : Op) (b' : Batch) (hb' : b' ∈ (apply s op).batches) :
    b' ∈ s.batches ∨ b'.confirms = [] ∨ ∃ b ∈ s.batches, ∃ c, b' = addConfirm b c := by
  rcases step_batch s op b' hb' with h | ⟨c, r, _, _, h⟩ | ⟨b, _, g, _, _, h⟩ | ⟨b, hb, v, a, by_, f, w, reg, _, _, _, _, _, h⟩
  · exact Or.inl h
  · exact Or.inr (Or.inl (by rw [h]))
  · exact Or.inr (Or.inl (by rw [h]))
  · exact Or.inr (Or.inr ⟨b, hb, _, h⟩)

theorem bsorted_setBatch {bs : List Batch} {n : Nat} {x : Batch} (h : BSorted bs n) :
    BSorted (setBatch bs x) n := by
  have hn : ∀ b : Batch, (if (b.nonce == x.nonce) = true then x else b).nonce = b.nonce := by
    intro b
    by_cases hb : b.nonce = x.nonce <;> simp [hb]
  constructor
  · unfold setBatch
    rw [List.pairwise_map]
    refine h.1.imp ?_
    intro a b hab
    rw [hn a, hn b]; exact hab
  · intro y hy
    unfold setBatch at hy
    obtain ⟨z, hz, rfl⟩ := List.mem_map.mp hy
    rw [hn z]; exact h.2 z hz

theorem bsorted_apply (s : State) (op : Op) (h : BSorted s.batches s.lastNonce) :
    BSorted (apply s op).batches (apply s op).lastNonce := by
  have hfr := frame_batches s op
  cases op with
  | putBatch n c r =>
    simp only [apply, putBatch]
    split
    · exact h
    · rename_i hfresh
      constructor
      · simp only
        rw [List.pairwise_append]
        refine ⟨h.1, by simp, ?_⟩
        intro a ha b hb
        simp only [List.mem_singleton] at hb
        subst hb
        have := h.2 a ha
        simp only
        omega
      · intro y hy
        simp only [List.mem_append, List.mem_singleton] at hy
        rcases hy with hy | rfl
        · have := h.2 y hy
          simp only
          omega
        · simp
  | confirm n v a b f w =>
    simp only [apply, confirm, confirmWith]
    repeat' split
    all_goals first
      | exact h
      | (rename_i b0 hg _ _ _ _ _ _ _
         exact bsorted_setBatch h)
  | updateBatchGas n g =>
    simp only [apply, updateBatchGas]
    repeat' split
    all_goals first
      | exact h
      | (rename_i b0 hg _
         exact bsorted_setBatch h)
  | setEnv e => rw [hfr.1, hfr.2]; exact h
  | register v a => rw [hfr.1, hfr.2]; exact h
  | put k c sd a r q => rw [hfr.1, hfr.2]; exact h
  | enqueue k c sd m t => rw [hfr.1, hfr.2]; exact h
  | sign id v a b f w => rw [hfr.1, hfr.2]; exact h
  | addEstimate id v x => rw [hfr.1, hfr.2]; exact h
  | endBlock => rw [hfr.1, hfr.2]; exact h
  | setPublic id => rw [hfr.1, hfr.2]; exact h
  | setError id => rw [hfr.1, hfr.2]; exact h
  | addEvidence id v hh => rw [hfr.1, hfr.2]; exact h
  | remove id => rw [hfr.1, hfr.2]; exact h

theorem bsorted_uniq {bs : List Batch} {n : Nat} (h : BSorted bs n) {a b : Batch} (ha : a ∈ bs) (hb : b ∈ bs)
    (hab : a.nonce = b.nonce) : a = b := by
  have aux : ∀ (l : List Batch), l.Pairwise (fun a b => a.nonce < b.nonce) →
      ∀ a ∈ l, ∀ b ∈ l, a.nonce = b.nonce → a = b := by
    intro l
    induction l with
    | nil => intro _ a ha; cases ha
    | cons x xs ih =>
      intro hp a ha b hb hab
      obtain ⟨hx, hxs⟩ := List.pairwise_cons.mp hp
      rcases List.mem_cons.mp ha with rfl | ha' <;> rcases List.mem_cons.mp hb with rfl | hb'
      · rfl
      · have := hx b hb'; omega
      · have := hx a ha'; omega
      · exact ih hxs a ha' b hb' hab
  exact aux bs h.1 a ha b hb hab

/-! #### the registry (`SetExternalChainInfoState`) -/

/-- registry well-formedness: one entry per validator; two different validators never hold, on the
same chain, the same address string or the same key bytes (the collision rule of
`SetExternalChainInfoState`, which compares strings / bytes verbatim) -/
def RegsOk (regs : List (Nat × List Account)) : Prop :=
  (regs.map (·.1)).Nodup ∧
  ∀ r1 ∈ regs, ∀ r2 ∈ regs, r1.1 ≠ r2.1 → ∀ a1 ∈ r1.2, ∀ a2 ∈ r2.2, a1.chain = a2.chain →
    a1.addr ≠ a2.addr ∧ a1.raw ≠ a2.raw

theorem any_key_false {α} {l : List (Nat × α)} {k : Nat} (h : ¬ l.any (fun p => p.1 == k) = true) :
    ∀ z ∈ l, z.1 ≠ k := by
  intro z hz e
  apply h
  exact List.any_eq_true.mpr ⟨z, hz, by simp [e]⟩

theorem mem_upsert {α} {l : List (Nat × α)} {k : Nat} {v : α} {p : Nat × α} (h : p ∈ upsert l k v) :
    p = (k, v) ∨ (p ∈ l ∧ p.1 ≠ k) := by
  unfold upsert at h
  split at h
  · obtain ⟨z, hz, hzp⟩ := List.mem_map.mp h
    by_cases hk : z.1 = k
    · simp [hk] at hzp
      exact Or.inl hzp.symm
    · simp [hk] at hzp
      subst hzp
      exact Or.inr ⟨hz, hk⟩
  · rename_i hany
    rcases List.mem_append.mp h with hl | hl
    · exact Or.inr ⟨hl, any_key_false hany p hl⟩
    · exact Or.inl (by simpa using hl)

theorem upsert_keys_nodup {α} {l : List (Nat × α)} {k : Nat} {v : α} (h : (l.map (·.1)).Nodup) :
    ((upsert l k v).map (·.1)).Nodup := by
  unfold upsert
  split
  · have : (l.map (fun p => if (p.1 == k) = true then (k, v) else p)).map (·.1) = l.map (·.1) := by
      rw [List.map_map]
      apply List.map_congr_left
      intro z _
      by_cases hz : z.1 = k <;> simp [hz]
    rw [this]; exact h
  · rename_i hany
    rw [List.map_append]
    refine nodup_append_singleton h ?_
    intro hm
    obtain ⟨z, hz, hzk⟩ := List.mem_map.mp hm
    exact any_key_false hany z hz hzk

theorem not_collides {regs : List (Nat × List Account)} {val : Nat} {accts : List Account}
    (h : ¬ collides regs val accts = true) :
    ∀ r ∈ regs, r.1 ≠ val → ∀ e ∈ r.2, ∀ n ∈ accts, n.chain = e.chain → n.addr ≠ e.addr ∧ n.raw ≠ e.raw := by
  intro r hr hne e he n hn hc
  constructor
  · intro ha
    apply h
    unfold collides
    refine List.any_eq_true.mpr ⟨r, hr, ?_⟩
    simp only [Bool.and_eq_true, bne_iff_ne, ne_eq]
    refine ⟨hne, List.any_eq_true.mpr ⟨e, he, List.any_eq_true.mpr ⟨n, hn, ?_⟩⟩⟩
    simp [hc, ha]
  · intro ha
    apply h
    unfold collides
    refine List.any_eq_true.mpr ⟨r, hr, ?_⟩
    simp only [Bool.and_eq_true, bne_iff_ne, ne_eq]
    refine ⟨hne, List.any_eq_true.mpr ⟨e, he, List.any_eq_true.mpr ⟨n, hn, ?_⟩⟩⟩
    simp [hc, ha]

theorem regsOk_register (s : State) (val : Nat) (accts : List Account) (h : RegsOk s.regs) :
    RegsOk (register s val accts).1.regs := by
  unfold register
  split
  · exact h
  · rename_i hcol
    have hnc := not_collides hcol
    refine ⟨upsert_keys_nodup h.1, ?_⟩
    intro r1 h1 r2 h2 hne a1 ha1 a2 ha2 hc
    rcases mem_upsert h1 with rfl | ⟨h1, hk1⟩ <;> rcases mem_upsert h2 with rfl | ⟨h2, hk2⟩
    · exact absurd rfl hne
    · obtain ⟨x, y⟩ := hnc r2 h2 hk2 a2 ha2 a1 ha1 hc
      exact ⟨x, y⟩
    · obtain ⟨x, y⟩ := hnc r1 h1 hk1 a1 ha1 a2 ha2 hc.symm
      exact ⟨fun e => x e.symm, fun e => y e.symm⟩
    · exact h.2 r1 h1 r2 h2 hne a1 ha1 a2 ha2 hc

theorem regsOk_apply (s : State) (op : Op) (h : RegsOk s.regs) : RegsOk (apply s op).regs := by
  have hf := (frame_regs_env s op).1
  cases op with
  | register v a => exact regsOk_register s v a h
  | setEnv e => simp only at hf; rw [hf]; exact h
  | put k c sd a r q => simp only at hf; rw [hf]; exact h
  | enqueue k c sd m t => simp only at hf; rw [hf]; exact h
  | sign id v a b f w => simp only at hf; rw [hf]; exact h
  | addEstimate id v x => simp only at hf; rw [hf]; exact h
  | endBlock => simp only at hf; rw [hf]; exact h
  | setPublic id => simp only at hf; rw [hf]; exact h
  | setError id => simp only at hf; rw [hf]; exact h
  | addEvidence id v hh => simp only at hf; rw [hf]; exact h
  | remove id => simp only at hf; rw [hf]; exact h
  | putBatch n c r => simp only at hf; rw [hf]; exact h
  | confirm n v a b f w => simp only at hf; rw [hf]; exact h
  | updateBatchGas n g => simp only at hf; rw [hf]; exact h

/-- the nonce counter never goes down -/
theorem lastNonce_mono (s : State) (op : Op) : s.lastNonce ≤ (apply s op).lastNonce := by
  have hf := frame_batches s op
  cases op with
  | putBatch n c r =>
    simp only [apply, putBatch]
    split
    · exact Nat.le_refl _
    · simp only; omega
  | confirm n v a b f w =>
    simp only [apply, confirm, confirmWith]
    repeat' split
    all_goals exact Nat.le_refl _
  | updateBatchGas n g =>
    simp only [apply, updateBatchGas]
    repeat' split
    all_goals exact Nat.le_refl _
  | setEnv e => simp only at hf; rw [hf.2]; exact Nat.le_refl _
  | register v a => simp only at hf; rw [hf.2]; exact Nat.le_refl _
  | put k c sd a r q => simp only at hf; rw [hf.2]; exact Nat.le_refl _
  | enqueue k c sd m t => simp only at hf; rw [hf.2]; exact Nat.le_refl _
  | sign id v a b f w => simp only at hf; rw [hf.2]; exact Nat.le_refl _
  | addEstimate id v x => simp only at hf; rw [hf.2]; exact Nat.le_refl _
  | endBlock => simp only at hf; rw [hf.2]; exact Nat.le_refl _
  | setPublic id => simp only at hf; rw [hf.2]; exact Nat.le_refl _
  | setError id => simp only at hf; rw [hf.2]; exact Nat.le_refl _
  | addEvidence id v hh => simp only at hf; rw [hf.2]; exact Nat.le_refl _
  | remove id => simp only at hf; rw [hf.2]; exact Nat.le_refl _

theorem lastNonce_mono_foldl (post : List Op) : ∀ s : State, s.lastNonce ≤ (post.foldl apply s).lastNonce := by
  induction post with
  | nil => intro s; exact Nat.le_refl _
  | cons op rest ih => intro s; exact Nat.le_trans (lastNonce_mono s op) (ih _)

theorem bbytes_addConfirm (b : Batch) (c : BConfirm) : bbytes (addConfirm b c) = bbytes b := rfl

/-! ### idle blocks and the keyed confirmation store (round-4 strengthening) -/

/-- a message with an elected estimate goes through the end-block step untouched -/
theorem electOne_of_elected (env : Env) (snap : Snap) (it : Item) (h : it.elected > 0) : electOne env snap it = it := by
  unfold electOne
  simp [h]

theorem electOne_idem (env : Env) (snap : Snap) (it : Item) :
    electOne env snap (electOne env snap it) = electOne env snap it := by
  rcases electOne_spec env snap it with h | ⟨_, _, g, _, hg, h | h⟩
  · rw [h, h]
  · obtain ⟨_, f, _, he⟩ := h
    rw [he]
    exact electOne_of_elected _ _ _ (by simp; omega)
  · rw [h.2]
    exact electOne_of_elected _ _ _ (by simp; omega)

theorem idleBlocks_succ (s : State) (n : Nat) : idleBlocks s (n + 1) = idleBlocks (endBlock s).1 n := by
  simp [idleBlocks, List.replicate_succ, apply]

theorem run_idle (ops : List Op) (n : Nat) : run (ops ++ List.replicate n Op.endBlock) = idleBlocks (run ops) n := by
  rw [run_append]; rfl

/-- a fold of key deletions is one filter -/
theorem foldl_filter_eq {α β} (p : β → α → Bool) (l : List β) : ∀ st : List α,
    l.foldl (fun acc r => acc.filter (p r)) st = st.filter (fun e => l.all (fun r => p r e)) := by
  induction l with
  | nil => intro st; simp only [List.foldl_nil, List.all_nil]; exact (List.filter_eq_self.2 (fun _ _ => rfl)).symm
  | cons r l ih =>
    intro st
    simp only [List.foldl_cons, List.all_cons]
    rw [ih, List.filter_filter]
    congr 1
    funext e
    exact Bool.and_comm _ _

theorem deleteBatchConfirmsBy_eq (keyOf : ConfRec → Nat) (st : ConfStore) (n : Nat) :
    deleteBatchConfirmsBy keyOf st n = st.filter (fun e => (confirmsOf st n).all (fun r => e.1 != (n, keyOf r))) := by
  unfold deleteBatchConfirmsBy
  exact foldl_filter_eq (fun r e => e.1 != (n, keyOf r)) _ st

/-- every record sits under the key of its own orchestrator -/
def Keyed (st : ConfStore) : Prop := ∀ e ∈ st, e.1.2 = e.2.val

theorem keyed_setBatchConfirm {st : ConfStore} (h : Keyed st) (n : Nat) (r : ConfRec) : Keyed (setBatchConfirm st n r) := by
  intro e he
  unfold setBatchConfirm at he
  rcases List.mem_append.1 he with he | he
  · exact h e (List.mem_filter.1 he).1
  · simp at he; subst he; rfl

theorem keyed_deleteBatchConfirmsBy {st : ConfStore} (h : Keyed st) (keyOf : ConfRec → Nat) (n : Nat) :
    Keyed (deleteBatchConfirmsBy keyOf st n) := by
  intro e he
  rw [deleteBatchConfirmsBy_eq] at he
  exact h e (List.mem_filter.1 he).1

inductive SOp where
  | set (nonce : Nat) (r : ConfRec)
  | del (nonce : Nat)

def sapply (st : ConfStore) : SOp → ConfStore
  | .set n r => setBatchConfirm st n r
  | .del n => deleteBatchConfirms st n

def srun (ops : List SOp) : ConfStore := ops.foldl sapply []

/-! #### several chains, several signatures per request -/

theorem queueOf_setQueue (w : MultiQ) (c c' : Nat) (q : List Item) :
    queueOf (setQueue w c q) c' = if c' = c then some q else queueOf w c' := rfl

theorem regs_setQueue (w : MultiQ) (c : Nat) (q : List Item) : (setQueue w c q).regs = w.regs := rfl

/-- `Queue.AddSignature` answers `ok` exactly on the admission conditions, and then stores exactly one signature -/
theorem storeSigned_ok {q : List Item} {val key : Nat} {e : SigEntry} (h : (storeSigned q val key e).2 = .ok) :
    ∃ it, getItem q e.id = some it ∧ dupCheck it.sigs key val = none ∧ verifies e.wire key e.by_ e.for_ (bytesOf it) = true ∧
      (storeSigned q val key e).1 = setItem q (addSig it ⟨val, e.addr, key, e.by_, e.for_, e.wire⟩) := by
  cases hg : getItem q e.id with
  | none => simp [storeSigned, hg] at h
  | some it =>
    cases hd : dupCheck it.sigs key val with
    | some r =>
      simp only [storeSigned, hg, hd] at h
      exact absurd (h ▸ hd) (dupCheck_ne_ok _ _ _)
    | none =>
      by_cases hv : verifies e.wire key e.by_ e.for_ (bytesOf it) = true
      · exact ⟨it, rfl, hd, hv, by simp [storeSigned, hg, hd, hv]⟩
      · simp [storeSigned, hg, hd, hv] at h

/-- a signature the validator `val` put on message `it'` of chain `c` by one of the entries `es`, checked under
    the key `GetSigningKey` returns on the registry `regs` FOR CHAIN `c` -/
def StoredBy (regs : List (Nat × List Account)) (val : Nat) (es : List SigEntry) (c : Nat) (it' : Item) (sg : Sig) : Prop :=
  ∃ e ∈ es, e.chain = c ∧ e.id = it'.id ∧ sg.val = val ∧ sg.addr = e.addr ∧ sg.by_ = e.by_ ∧ sg.for_ = e.for_ ∧
    sg.wire = e.wire ∧ signingKeyOn c regs val e.addr = some sg.key

/-- one step of the loop (`memo = false`): the equations `simp` needs -/
theorem signLoop_cons_ok {val : Nat} {cache : List (Nat × Nat)} {w w' : MultiQ} {e : SigEntry} {rest : List SigEntry}
    (h : signLoop false val cache w (e :: rest) = (w', .ok)) :
    ∃ q key, queueOf w e.chain = some q ∧ signingKeyOn e.chain w.regs val e.addr = some key ∧
      (storeSigned q val key e).2 = .ok ∧
      signLoop false val ((e.addr, key) :: cache) (setQueue w e.chain (storeSigned q val key e).1) rest = (w', .ok) := by
  unfold signLoop at h
  split at h
  · cases h
  · rename_i q hq
    split at h
    · cases h
    · rename_i key hk
      split at h
      · rename_i hs
        refine ⟨q, key, hq, by simpa [keyFor] using hk, by simpa using hs, h⟩
      · rename_i hs
        exfalso
        apply hs
        have := congrArg Prod.snd h
        simp only at this
        simp [this]

/-- what a request that went through stored, on every chain: registry untouched, queues exist as before, and every
    signature is an old one of the message with the same id or was stored by an entry FOR THAT CHAIN under that
    chain's key -/
theorem signLoop_sigs (val : Nat) : ∀ (es : List SigEntry) (cache : List (Nat × Nat)) (w w' : MultiQ),
    signLoop false val cache w es = (w', .ok) →
    w'.regs = w.regs ∧ ∀ c q', queueOf w' c = some q' → ∃ q, queueOf w c = some q ∧ ∀ it' ∈ q', ∀ sg ∈ it'.sigs,
      (∃ it ∈ q, it.id = it'.id ∧ sg ∈ it.sigs) ∨ StoredBy w.regs val es c it' sg := by
  intro es
  induction es with
  | nil =>
    intro cache w w' h
    unfold signLoop at h
    cases h
    exact ⟨rfl, fun c q' hq' => ⟨q', hq', fun it' hit' sg hsg => Or.inl ⟨it', hit', rfl, hsg⟩⟩⟩
  | cons e rest ih =>
    intro cache w w' h
    obtain ⟨q, key, hq, hk, hs, hrest⟩ := signLoop_cons_ok h
    obtain ⟨it, hg, _, _, hq1⟩ := storeSigned_ok hs
    obtain ⟨hr, hall⟩ := ih _ _ _ hrest
    rw [regs_setQueue] at hr
    refine ⟨hr, ?_⟩
    intro c q' hq'
    obtain ⟨q1, hq1c, hsig⟩ := hall c q' hq'
    rw [queueOf_setQueue] at hq1c
    by_cases hc : c = e.chain
    · rw [if_pos hc] at hq1c
      refine ⟨q, hc ▸ hq, ?_⟩
      intro it' hit' sg hsg
      rcases hsig it' hit' sg hsg with ⟨it1, hit1, hid1, hsg1⟩ | ⟨e', he', h1, h2, h3⟩
      · have hq1' : q1 = setItem q (addSig it ⟨val, e.addr, key, e.by_, e.for_, e.wire⟩) := by
          rw [← hq1]; exact (Option.some.inj hq1c).symm
        rw [hq1'] at hit1
        rcases mem_setItem hit1 with ⟨hm, _⟩ | ⟨rfl, _⟩
        · exact Or.inl ⟨it1, hm, hid1, hsg1⟩
        · simp only [addSig, List.mem_append, List.mem_singleton] at hsg1
          rcases hsg1 with hold | rfl
          · exact Or.inl ⟨it, (getItem_mem hg).1, hid1, hold⟩
          · refine Or.inr ⟨e, List.mem_cons_self, hc.symm, ?_, rfl, rfl, rfl, rfl, rfl, hc ▸ hk⟩
            rw [← hid1]
            exact (getItem_mem hg).2.symm
      · exact Or.inr ⟨e', List.mem_cons_of_mem _ he', h1, h2, by rw [regs_setQueue] at h3; exact h3⟩
    · rw [if_neg hc] at hq1c
      refine ⟨q1, hq1c, ?_⟩
      intro it' hit' sg hsg
      rcases hsig it' hit' sg hsg with hold | ⟨e', he', h1, h2, h3⟩
      · exact Or.inl hold
      · exact Or.inr ⟨e', List.mem_cons_of_mem _ he', h1, h2, by rw [regs_setQueue] at h3; exact h3⟩

/-- every message of every queue satisfies the per-item invariant -/
def MultiOk (w : MultiQ) : Prop := ∀ c q, queueOf w c = some q → ∀ it ∈ q, ItemOk it

theorem signLoop_multiOk (val : Nat) : ∀ (es : List SigEntry) (cache : List (Nat × Nat)) (w : MultiQ),
    MultiOk w → MultiOk (signLoop false val cache w es).1 := by
  intro es
  induction es with
  | nil => intro cache w h; unfold signLoop; exact h
  | cons e rest ih =>
    intro cache w h
    unfold signLoop
    split
    · exact h
    · rename_i q hq
      split
      · exact h
      · rename_i key hk
        split
        · rename_i hs
          have hs' : (storeSigned q val key e).2 = .ok := by simpa using hs
          obtain ⟨it, hg, hd, hv, hq1⟩ := storeSigned_ok hs'
          apply ih
          intro c qc hqc x hx
          rw [queueOf_setQueue] at hqc
          by_cases hc : c = e.chain
          · rw [if_pos hc] at hqc
            have : qc = setItem q (addSig it ⟨val, e.addr, key, e.by_, e.for_, e.wire⟩) := by
              rw [← hq1]; exact (Option.some.inj hqc).symm
            rw [this] at hx
            rcases mem_setItem hx with ⟨hm, _⟩ | ⟨rfl, _⟩
            · exact h e.chain q hq x hm
            · exact itemOk_addSig (h e.chain q hq it (getItem_mem hg).1) hv hd
          · rw [if_neg hc] at hqc
            exact h c qc hqc x hx
        · exact h

theorem multiOk_signRequest (w : MultiQ) (val : Nat) (es : List SigEntry) (h : MultiOk w) : MultiOk (signRequest w val es).1 := by
  unfold signRequest signRequestWith
  split
  · exact signLoop_multiOk val es [] w h
  · exact h

theorem multiOk_putOn (w : MultiQ) (c id : Nat) (k : Kind) (ct sd a r : Nat) (rq : Bool) (h : MultiOk w) :
    MultiOk (putOn w c id k ct sd a r rq) := by
  intro c' q hq x hx
  unfold putOn at hq
  rw [queueOf_setQueue] at hq
  by_cases hc : c' = c
  · rw [if_pos hc] at hq
    cases hq
    rcases List.mem_append.mp hx with hx | hx
    · cases hqc : queueOf w c with
      | none => simp [hqc] at hx
      | some q0 => simp [hqc] at hx; exact h c q0 hqc x hx
    · simp only [List.mem_singleton] at hx
      subst hx
      exact itemOk_nosigs rfl
  · rw [if_neg hc] at hq
    exact h c' q hq x hx

theorem multiOk_mqapply (s : MQState) (op : MQOp) (h : MultiOk s.w) : MultiOk (mqapply s op).w := by
  cases op with
  | register v a =>
    simp only [mqapply]
    split <;> exact h
  | put c k ct sd a r q =>
    simp only [mqapply]
    exact multiOk_putOn s.w c _ k ct sd a r q h
  | request v es =>
    simp only [mqapply]
    exact multiOk_signRequest s.w v es h

theorem signingKeyOn_mem {c : Nat} {regs : List (Nat × List Account)} {val addr key : Nat} (h : signingKeyOn c regs val addr = some key) :
    ∃ r ∈ regs, ∃ a ∈ r.2, r.1 = val ∧ a.chain = c ∧ a.addr = addr ∧ a.raw = key := by
  unfold signingKeyOn at h
  split at h
  · cases h
  · rename_i accts hacc
    unfold assoc? at hacc
    cases hf : regs.find? (fun p => p.1 == val) with
    | none => simp [hf] at hacc
    | some r =>
      simp only [hf, Option.map_some, Option.some.injEq] at hacc
      cases hfa : accts.find? (fun a => a.chain == c && a.addr == addr) with
      | none => simp [hfa] at h
      | some a =>
        simp only [hfa, Option.map_some, Option.some.injEq] at h
        have hp := List.find?_some hfa
        simp only [Bool.and_eq_true, beq_iff_eq] at hp
        refine ⟨r, List.mem_of_find?_eq_some hf, a, ?_, by simpa using List.find?_some hf, hp.1, hp.2, h⟩
        rw [hacc]; exact List.mem_of_find?_eq_some hfa

/-- a request goes through only if EVERY entry finds a key on the registry for the chain of its own queue -/
theorem signLoop_ok_all_keys (val : Nat) : ∀ (es : List SigEntry) (cache : List (Nat × Nat)) (w w' : MultiQ),
    signLoop false val cache w es = (w', .ok) → ∀ e ∈ es, ∃ key, signingKeyOn e.chain w.regs val e.addr = some key := by
  intro es
  induction es with
  | nil => intro _ _ _ _ e he; cases he
  | cons e0 rest ih =>
    intro cache w w' h e he
    obtain ⟨q, key, _, hk, _, hrest⟩ := signLoop_cons_ok h
    rcases List.mem_cons.mp he with rfl | he
    · exact ⟨key, hk⟩
    · have := ih _ _ _ hrest e he
      rw [regs_setQueue] at this
      exact this

theorem signRequest_ok_loop {w : MultiQ} {val : Nat} {es : List SigEntry} (h : (signRequest w val es).2 = .ok) :
    signLoop false val [] w es = ((signRequest w val es).1, .ok) := by
  unfold signRequest signRequestWith at h ⊢
  split
  · rename_i hs
    have hs' : (signLoop false val [] w es).2 = .ok := by simpa using hs
    exact Prod.ext rfl hs'
  · rename_i hs
    rw [if_neg hs] at h
    simp only at h
    exact absurd (by simp [h]) hs

end Lemmas

/-! ## Property theorems -/

/-- **invariant_all_histories.** The invariant — every stored signature / batch confirmation
verifies against the item's current signing bytes under the key stored with it, validators and
key byte strings are unique per item, validators are unique per batch, ids are strictly increasing —
holds after every finite sequence of operations from the empty state. -/
theorem invariant_all_histories (ops : List Op) : Inv (run ops) := inv_foldl ops {} inv_init

/-- **batch_nonces_unique.** In every reachable state the batches are in nonce order, no nonce occurs
twice and none exceeds the nonce counter: a nonce identifies one batch. -/
theorem batch_nonces_unique (ops : List Op) : BSorted (run ops).batches (run ops).lastNonce := by
  induction ops using snoc_induction with
  | h0 => exact ⟨by simp [run], by simp [run]⟩
  | hs ops op ih => rw [run_snoc]; exact bsorted_apply _ op ih

/-- **stored_signatures_verify** (clause 1, messages).  In every reachable state each signature kept
with a queued message was made for exactly the message's *current* signing bytes, by the eth account
denoted by the key bytes stored with it, and those key bytes are in canonical (20-byte) spelling. -/
theorem stored_signatures_verify (ops : List Op) :
    ∀ it ∈ (run ops).queue, ∀ sg ∈ it.sigs, sg.for_ = bytesOf it ∧ sg.by_ = canon sg.key ∧ sg.key % 4 = 0 := by
  intro it hit sg hsg
  have := ((invariant_all_histories ops).1 it hit).1 sg hsg
  unfold SigOk at this
  rw [verifies_iff] at this
  exact ⟨this.2.2.2.2, this.2.2.2.1, this.2.1⟩

/-- **stored_signature_bytes_verify_as_stored** (clause 1, "each signature *kept* … verifies").  The
bytes kept with a message are the bytes that were submitted, and in every reachable state they are
in a form a strict `Ecrecover` over exactly those bytes maps to the signer: whatever byte form a
signature is submitted in (recovery id spelled 27/28, 2/3, missing, trailing bytes, `s` mirrored),
it is either refused or stored in a form that verifies as it is — the admission check never looks at
a normalised copy of what it stores. -/
theorem stored_signature_bytes_verify_as_stored (ops : List Op) :
    ∀ it ∈ (run ops).queue, ∀ sg ∈ it.sigs, sg.wire.strict = true := by
  intro it hit sg hsg
  have := ((invariant_all_histories ops).1 it hit).1 sg hsg
  unfold SigOk at this
  rw [verifies_iff] at this
  exact this.1

/-- **sign_rejected_is_noop** (error branches, messages).  Whatever is submitted — unknown message, no
account on the chain under the claimed address, a key or a validator already present, a signature
that does not verify — a `sign` that does not answer `ok` leaves the whole state as it was. -/
theorem sign_rejected_is_noop (s : State) (id val addr by_ : Nat) (for_ : SignBytes) (w : Wire)
    (h : (sign s id val addr by_ for_ w).2 ≠ .ok) : (sign s id val addr by_ for_ w).1 = s := by
  rcases sign_noop_or_ok s id val addr by_ for_ w with h1 | h1
  · exact h1
  · exact absurd h1 h

/-- **sign_ok_iff** (admission rule, messages).  A `sign` answers `ok` exactly when the validator holds
an account on the queue's chain under the claimed address (key bytes `key`), the message exists, neither
`key` nor the validator already occurs among its signatures, and the submitted bytes are a strictly
recoverable signature by the account `key` denotes (`key` spelled canonically) over the message's
current signing bytes. -/
theorem sign_ok_iff (s : State) (id val addr by_ : Nat) (for_ : SignBytes) (w : Wire) :
    (sign s id val addr by_ for_ w).2 = .ok ↔
      ∃ key it, signingKey s.regs val addr = some key ∧ getItem s.queue id = some it ∧
        dupCheck it.sigs key val = none ∧ verifies w key by_ for_ (bytesOf it) = true := by
  unfold sign signWith
  constructor
  · intro h
    split at h
    · cases h
    · rename_i key hk
      split at h
      · cases h
      · rename_i it hg
        split at h
        · rename_i r hr
          exfalso
          apply dupCheck_ne_ok it.sigs key val
          rw [hr]
          simp only at h
          rw [h]
        · rename_i hd
          split at h
          · rename_i hv
            exact ⟨key, it, hk, hg, hd, hv⟩
          · cases h
  · rintro ⟨key, it, hk, hg, hd, hv⟩
    simp [hk, hg, hd, hv]

/-- a signature in a byte form that does not verify as it is is never stored — by any validator, for
any message, under any registration -/
theorem nonstrict_wire_refused (s : State) (id val addr by_ : Nat) (for_ : SignBytes) (w : Wire)
    (hw : w.strict = false) : (sign s id val addr by_ for_ w).1 = s ∧ (sign s id val addr by_ for_ w).2 ≠ .ok := by
  have hne : (sign s id val addr by_ for_ w).2 ≠ .ok := by
    intro h
    obtain ⟨key, it, _, _, _, hv⟩ := (sign_ok_iff s id val addr by_ for_ w).mp h
    rw [verifies_iff] at hv
    rw [hw] at hv
    exact absurd hv.1 (by simp)
  exact ⟨sign_rejected_is_noop s id val addr by_ for_ w hne, hne⟩

/-- **batch_confirms_verify** (clause 1, bridge batches).  In every reachable state each stored batch
confirmation was made for the batch's current checkpoint by the eth account of its `EthSigner`. -/
theorem batch_confirms_verify (ops : List Op) :
    ∀ b ∈ (run ops).batches, ∀ c ∈ b.confirms, c.for_ = bbytes b ∧ c.by_ = canon c.addr ∧ c.wire.bridge = true := by
  intro b hb c hc
  have := ((invariant_all_histories ops).2.1 b hb).1 c hc
  exact ⟨this.2.1, this.1, this.2.2.1⟩

/-- **stored_signers_are_real.** No stored signature or batch confirmation is "a signature by nobody"
(random bytes, `by_ = 0`): such bytes recover to an account nobody holds and never pass the check. -/
theorem stored_signers_are_real (ops : List Op) :
    (∀ it ∈ (run ops).queue, ∀ sg ∈ it.sigs, sg.by_ ≠ 0) ∧ (∀ b ∈ (run ops).batches, ∀ c ∈ b.confirms, c.by_ ≠ 0) := by
  constructor
  · intro it hit sg hsg
    have := ((invariant_all_histories ops).1 it hit).1 sg hsg
    unfold SigOk at this
    rw [verifies_iff] at this
    exact this.2.2.1
  · intro b hb c hc
    exact (((invariant_all_histories ops).2.1 b hb).1 c hc).2.2.2

/-- **key_registered_when_signed** (clause 1, one step).
Across one operation a stored signature is either inherited from the same item, or it was added by
this very operation, a `sign` by that validator that answered `ok`, and its key is what `GetSigningKey`
returned in the state the operation ran in (`signingKey … = some sg.key`, the executable look-up itself):
the key bytes of an account `a` the validator had registered on the queue's chain under the address it
claimed.  Nothing else ever writes a signature.
(`signature_provenance` is the lift to whole histories.) -/
theorem key_registered_when_signed (ops : List Op) (op : Op) :
    ∀ it' ∈ (run (ops ++ [op])).queue, ∀ sg ∈ it'.sigs,
      (∃ it ∈ (run ops).queue, it.id = it'.id ∧ sg ∈ it.sigs) ∨
      (op = .sign it'.id sg.val sg.addr sg.by_ sg.for_ sg.wire ∧
        (sign (run ops) it'.id sg.val sg.addr sg.by_ sg.for_ sg.wire).2 = .ok ∧
        signingKey (run ops).regs sg.val sg.addr = some sg.key ∧
        ∃ r ∈ (run ops).regs, ∃ a ∈ r.2, r.1 = sg.val ∧ a.chain = targetChain ∧ a.addr = sg.addr ∧ a.raw = sg.key) := by
  intro it' hit' sg hsg
  rw [run_snoc] at hit'
  rcases step_sigs (run ops) (invariant_all_histories ops) op it' hit' sg hsg with h | ⟨h1, h2, h3⟩
  · exact Or.inl h
  · exact Or.inr ⟨h1, h2, h3, signingKey_mem h3⟩

/-- **signature_provenance** (clause 1, "under the … key its validator had registered for that chain
*when it signed*" — over whole histories).  For every signature `sg` stored with a message `it` in the
state reached by ANY history `ops`, the history splits as `pre ++ sign … :: post` where the `sign`
operation carries exactly the stored validator, claimed address, signer, signed bytes and byte form, it
answered `ok` in the state `run pre` it ran in, and the stored key bytes `sg.key` are what the executable
look-up `GetSigningKey` (`signingKey`) returned on the registry of `run pre` for that validator and claimed
address — the key bytes of an account `a` that validator held there on the queue's chain under the claimed
address — whatever was registered, re-registered or rotated before or afterwards.  (The registry has one
entry per validator and no two validators share key bytes on a chain: `registry_wellformed_all_histories`,
`signing_key_identifies_validator`.) -/
theorem signature_provenance (ops : List Op) :
    ∀ it ∈ (run ops).queue, ∀ sg ∈ it.sigs,
      ∃ pre post, ops = pre ++ Op.sign it.id sg.val sg.addr sg.by_ sg.for_ sg.wire :: post ∧
        (sign (run pre) it.id sg.val sg.addr sg.by_ sg.for_ sg.wire).2 = .ok ∧
        signingKey (run pre).regs sg.val sg.addr = some sg.key ∧
        ∃ r ∈ (run pre).regs, ∃ a ∈ r.2, r.1 = sg.val ∧ a.chain = targetChain ∧ a.addr = sg.addr ∧ a.raw = sg.key := by
  induction ops using snoc_induction with
  | h0 => intro it hit; simp [run] at hit
  | hs ops op ih =>
    intro it' hit' sg hsg
    rcases key_registered_when_signed ops op it' hit' sg hsg with ⟨it, hit, hid, hs⟩ | ⟨h1, h2, h3⟩
    · obtain ⟨pre, post, he, hk⟩ := ih it hit sg hs
      exact ⟨pre, post ++ [op], by rw [he, hid]; simp, by rw [← hid]; exact hk⟩
    · exact ⟨ops, [], by rw [h1], h2, h3⟩

/-- **stored_signature_valid_under_key_registered_when_signed** (clause 1, complete).  Every stored
signature, in every reachable state: (now) it is a strictly recoverable signature over the message's
CURRENT signing bytes by the eth account `canon a.raw`, where (then) `a` is the account — on the
queue's chain, under the address the validator claimed — found in the registry at the point of the
history where the validator's `sign` was accepted. -/
theorem stored_signature_valid_under_key_registered_when_signed (ops : List Op) :
    ∀ it ∈ (run ops).queue, ∀ sg ∈ it.sigs,
      ∃ pre post, ops = pre ++ Op.sign it.id sg.val sg.addr sg.by_ sg.for_ sg.wire :: post ∧
        ∃ r ∈ (run pre).regs, ∃ a ∈ r.2, r.1 = sg.val ∧ a.chain = targetChain ∧ a.addr = sg.addr ∧
          sg.for_ = bytesOf it ∧ sg.by_ = canon a.raw ∧ a.raw % 4 = 0 ∧ sg.wire.strict = true := by
  intro it hit sg hsg
  obtain ⟨pre, post, he, _, _, r, hr, a, ha, h1, h2, h3, h4⟩ := signature_provenance ops it hit sg hsg
  obtain ⟨v1, v2, v3⟩ := stored_signatures_verify ops it hit sg hsg
  refine ⟨pre, post, he, r, hr, a, ha, h1, h2, h3, v1, ?_, ?_, stored_signature_bytes_verify_as_stored ops it hit sg hsg⟩
  · rw [h4]; exact v2
  · rw [h4]; exact v3

/-- **registry_wellformed_all_histories** (what "the key its validator had registered" refers to).  In every
reachable state the external-account registry has exactly one entry per validator, and two different
validators never hold, on the same chain, the same address string or the same key bytes — the collision rule
of `SetExternalChainInfoState`, as an invariant over all histories of registrations and re-registrations. -/
theorem registry_wellformed_all_histories (ops : List Op) : RegsOk (run ops).regs := by
  induction ops using snoc_induction with
  | h0 => exact ⟨by simp [run], by intro r1 h1; simp [run] at h1⟩
  | hs ops op ih => rw [run_snoc]; exact regsOk_apply _ op ih

/-- **signing_key_identifies_validator.** In every reachable state the key bytes `GetSigningKey` returns
identify the validator: no two validators obtain the same key bytes for the queue's chain, under whatever
addresses they claim.  So the `signingKey … = some sg.key` of `signature_provenance` names ONE registry entry. -/
theorem signing_key_identifies_validator (ops : List Op) (v v' a a' k : Nat)
    (h : signingKey (run ops).regs v a = some k) (h' : signingKey (run ops).regs v' a' = some k) : v = v' := by
  obtain ⟨r, hr, acct, hacct, hv, hc, _, hk⟩ := signingKey_mem h
  obtain ⟨r', hr', acct', hacct', hv', hc', _, hk'⟩ := signingKey_mem h'
  by_cases hne : r.1 = r'.1
  · rw [← hv, ← hv', hne]
  · exfalso
    exact ((registry_wellformed_all_histories ops).2 r hr r' hr' hne acct hacct acct' hacct' (by rw [hc, hc'])).2
      (by rw [hk, hk'])

/-- **sign_needs_target_chain_account** (clause 1, "the key … registered *for that chain*").  If the
validator holds no account on the queue's own chain under the address it claims — whatever accounts,
with whatever keys, it holds under that address on sibling chains — the signature is refused with
`noKey` and nothing changes.  In particular a signature made with the key registered for another
chain is never stored, even though it is a perfectly valid signature by one of the validator's keys. -/
theorem sign_needs_target_chain_account (s : State) (id val addr by_ : Nat) (for_ : SignBytes) (w : Wire)
    (h : ∀ r ∈ s.regs, r.1 = val → ∀ a ∈ r.2, a.addr = addr → a.chain ≠ targetChain) :
    sign s id val addr by_ for_ w = (s, .noKey) := by
  have hk : signingKey s.regs val addr = none := by
    cases hs : signingKey s.regs val addr with
    | none => rfl
    | some key =>
      obtain ⟨r, hr, a, ha, hv, hc, haddr, _⟩ := signingKey_mem hs
      exact absurd hc (h r hr hv a ha haddr)
  unfold sign signWith
  simp [hk]

/-- **batch_confirm_one_step** (clause 1, bridge batches, one step).  Across one operation every
batch is: an old batch unchanged; a new empty batch under a fresh nonce; an old batch whose checkpoint
was re-issued with all confirmations dropped; or an old batch with one confirmation appended by this
very operation — a `confirm` that answered `ok` — whose `EthSigner` denotes the eth account that
`GetEthAddressByValidator` returned for that validator in the state the operation ran in, and that
account is the signer.  Nothing else ever writes a confirmation. -/
theorem batch_confirm_one_step (ops : List Op) (op : Op) :
    ∀ b' ∈ (run (ops ++ [op])).batches, BStep (run ops) op b' := by
  intro b' hb'
  rw [run_snoc] at hb'
  exact step_batch (run ops) op b' hb'

/-- **batch_confirm_provenance** (clause 1 for bridge batches, "under the … key its validator had
registered for that chain *when it signed*" — over whole histories).  For every confirmation `c` stored
with a batch `b` in the state reached by ANY history, the history splits as `pre ++ confirm … :: post`
where the `confirm` carries exactly the stored validator, `EthSigner` string, signer, signed checkpoint
and byte form, it answered `ok` in `run pre`, and in the registry of `run pre` the validator `c.val` had
an entry `r` whose first account on the batch's chain, `acct` — what the executable look-up
`GetEthAddressByValidator` (`ethAddrOf`) returned there — denotes the same eth account as the stored
`EthSigner` — and that account is the signer `c.by_`. -/
theorem batch_confirm_provenance (ops : List Op) :
    ∀ b ∈ (run ops).batches, ∀ c ∈ b.confirms,
      ∃ pre post, ops = pre ++ Op.confirm b.nonce c.val c.addr c.by_ c.for_ c.wire :: post ∧
        (confirm (run pre) b.nonce c.val c.addr c.by_ c.for_ c.wire).2 = .ok ∧
        ∃ r ∈ (run pre).regs, r.1 = c.val ∧ ∃ acct, chainAccount r.2 = some acct ∧
          ethAddrOf (run pre).regs c.val = some acct.addr ∧
          canon acct.addr = canon c.addr ∧ c.by_ = canon acct.addr := by
  induction ops using snoc_induction with
  | h0 => intro b hb; simp [run] at hb
  | hs ops op ih =>
    intro b' hb' c hc
    have lift : ∀ b ∈ (run ops).batches, b.nonce = b'.nonce → c ∈ b.confirms →
        ∃ pre post, ops ++ [op] = pre ++ Op.confirm b'.nonce c.val c.addr c.by_ c.for_ c.wire :: post ∧
          (confirm (run pre) b'.nonce c.val c.addr c.by_ c.for_ c.wire).2 = .ok ∧
          ∃ r ∈ (run pre).regs, r.1 = c.val ∧ ∃ acct, chainAccount r.2 = some acct ∧
            ethAddrOf (run pre).regs c.val = some acct.addr ∧
            canon acct.addr = canon c.addr ∧ c.by_ = canon acct.addr := by
      intro b hb hn hcb
      obtain ⟨pre, post, he, hk⟩ := ih b hb c hcb
      rw [hn] at he hk
      exact ⟨pre, post ++ [op], by rw [he]; simp, hk⟩
    rcases batch_confirm_one_step ops op b' hb' with h | ⟨c0, r0, _, _, h⟩ | ⟨b, hb, g, _, _, h⟩ |
        ⟨b, hb, v, a, by_, f, w, reg, hop, hok, hreg, hcan, hby, h⟩
    · exact lift b' h rfl hc
    · rw [h] at hc; simp at hc
    · rw [h] at hc; simp at hc
    · have hn : b.nonce = b'.nonce := by rw [h]; rfl
      rw [h] at hc
      simp only [addConfirm, List.mem_append, List.mem_singleton] at hc
      rcases hc with hc | rfl
      · exact lift b hb hn hc
      · obtain ⟨r, hr, hrv, acct, hacct, haddr⟩ := ethAddrOf_mem hreg
        rw [hn] at hop hok
        refine ⟨ops, [], by rw [hop], hok, r, hr, hrv, acct, hacct, ?_, ?_, ?_⟩
        · rw [haddr]; exact hreg
        · rw [haddr]; exact hcan
        · rw [haddr]; exact hby

/-- **stored_confirm_valid_under_account_registered_when_confirmed** (clause 1 for batches, complete).
Every stored batch confirmation, in every reachable state: (now) it is a signature — in a byte form the
bridge's recovery accepts — over the batch's CURRENT checkpoint by the eth account `canon acct.addr`,
where (then) `acct` is the first account on the chain that the confirming validator held in the registry
at the point of the history where its `confirm` was accepted. -/
theorem stored_confirm_valid_under_account_registered_when_confirmed (ops : List Op) :
    ∀ b ∈ (run ops).batches, ∀ c ∈ b.confirms,
      ∃ pre post, ops = pre ++ Op.confirm b.nonce c.val c.addr c.by_ c.for_ c.wire :: post ∧
        ∃ r ∈ (run pre).regs, r.1 = c.val ∧ ∃ acct, chainAccount r.2 = some acct ∧
          c.for_ = bbytes b ∧ c.by_ = canon acct.addr ∧ c.wire.bridge = true := by
  intro b hb c hc
  obtain ⟨pre, post, he, _, r, hr, hv, acct, hacct, _, _, hby⟩ := batch_confirm_provenance ops b hb c hc
  obtain ⟨v1, _, v3⟩ := batch_confirms_verify ops b hb c hc
  exact ⟨pre, post, he, r, hr, hv, acct, hacct, v1, hby, v3⟩

/-- **confirm_rejected_is_noop** (error branches, batches).  A `confirm` that does not answer `ok`
(unknown batch, validator without account on the chain, `EthSigner` that is not the validator's
account, bad signature, validator or eth account already present) leaves the whole state as it was. -/
theorem confirm_rejected_is_noop (s : State) (nonce val addr by_ : Nat) (for_ : BBytes) (w : Wire)
    (h : (confirm s nonce val addr by_ for_ w).2 ≠ .ok) : (confirm s nonce val addr by_ for_ w).1 = s := by
  rcases confirm_noop_or_ok s nonce val addr by_ for_ w with h1 | h1
  · exact h1
  · exact absurd h1 h

/-- **confirm_needs_registered_account** (clause 1 for batches, refusal direction).  A validator with no
account on the batch's chain in the registry cannot confirm (`noAddr`), and one whose account there
denotes another eth account than the `EthSigner` it submits is refused (`mismatch`) — whatever the
signature is. -/
theorem confirm_needs_registered_account (s : State) (nonce val addr by_ : Nat) (for_ : BBytes) (w : Wire) (b : Batch)
    (hb : getBatch s.batches nonce = some b) :
    (ethAddrOf s.regs val = none → confirm s nonce val addr by_ for_ w = (s, .noAddr)) ∧
    (∀ a, ethAddrOf s.regs val = some a → canon a ≠ canon addr → confirm s nonce val addr by_ for_ w = (s, .mismatch)) := by
  constructor
  · intro h
    simp [confirm, confirmWith, hb, h]
  · intro a h hne
    simp [confirm, confirmWith, hb, h, hne]

/-- **validator_and_key_once** (clause 2, messages).  Per queued message, no validator and no key
byte string occurs twice among the stored signatures. -/
theorem validator_and_key_once (ops : List Op) :
    ∀ it ∈ (run ops).queue, (it.sigs.map (·.val)).Nodup ∧ (it.sigs.map (·.key)).Nodup := by
  intro it hit
  exact ((invariant_all_histories ops).1 it hit).2

/-- **account_once_per_item** (clause 2 for the external *account*).  Since only canonically spelled
key bytes verify (23185e9f), distinct stored key byte strings denote distinct accounts: no external
account occurs twice among the signatures of a message — whatever was registered, re-registered or
replayed.  (Before the repair this failed, see `aliasReplay_preFix`.) -/
theorem account_once_per_item (ops : List Op) :
    ∀ it ∈ (run ops).queue, (it.sigs.map (fun sg => canon sg.key)).Nodup := by
  intro it hit
  have hk := ((invariant_all_histories ops).1 it hit).2.2
  have := nodup_map_canon hk (by
    intro x hx
    obtain ⟨sg, hsg, rfl⟩ := List.mem_map.mp hx
    exact (stored_signatures_verify ops it hit sg hsg).2.2)
  simpa [List.map_map, Function.comp_def] using this

/-- **signer_once_per_item** (clause 2 for the *signer*).  The signing eth accounts of the stored
signatures of a message are pairwise distinct. -/
theorem signer_once_per_item (ops : List Op) :
    ∀ it ∈ (run ops).queue, (it.sigs.map (·.by_)).Nodup := by
  intro it hit
  have h := account_once_per_item ops it hit
  have he : it.sigs.map (·.by_) = it.sigs.map (fun sg => canon sg.key) := by
    apply List.map_congr_left
    intro sg hsg
    exact (stored_signatures_verify ops it hit sg hsg).2.1
  rw [he]; exact h

/-- **validator_and_key_once_per_batch** (clause 2, bridge batches).  A validator confirms a batch at
most once, and so does an eth account (db2aad4e; before the repair the latter failed, see
`batchTakeover_preFix`). -/
theorem validator_and_key_once_per_batch (ops : List Op) :
    ∀ b ∈ (run ops).batches, (b.confirms.map (·.val)).Nodup ∧ (b.confirms.map (fun c => canon c.addr)).Nodup := by
  intro b hb
  exact ((invariant_all_histories ops).2.1 b hb).2

/-- **bytes_change_clears** (clause 3, messages).  If an operation changes the signing bytes of a
queued message then the message holds no signature afterwards. -/
theorem bytes_change_clears (ops : List Op) (op : Op) (it it' : Item) (hit : it ∈ (run ops).queue)
    (hit' : it' ∈ (apply (run ops) op).queue) (hid : it'.id = it.id) (hb : bytesOf it' ≠ bytesOf it) :
    it'.sigs = [] := by
  rcases step_item (run ops) (invariant_all_histories ops) op it it' hit hit' hid with h | h | h | ⟨sg, h⟩
  · rw [h] at hb; exact absurd rfl hb
  · exact absurd h.2 hb
  · exact h
  · rw [h] at hb; exact absurd rfl hb

/-- **bytes_change_only_by_election** (clause 3, which triggers exist).  The only operation that can
change the signing bytes of a queued message is the end-block election step on that message: the
message goes through `electOne` with the current environment and snapshot, its elected estimate was 0
and becomes non-zero, the relayer part of the signing bytes is untouched, and all signatures are
dropped.  In particular neither estimate submission, reports, evidence, signing, registration nor
environment changes alter what has been signed. -/
theorem bytes_change_only_by_election (ops : List Op) (op : Op) (it it' : Item) (hit : it ∈ (run ops).queue)
    (hit' : it' ∈ (apply (run ops) op).queue) (hid : it'.id = it.id) (hb : bytesOf it' ≠ bytesOf it) :
    op = .endBlock ∧ (∃ snap, (run ops).env.snapshot = some snap ∧ it' = electOne (run ops).env snap it) ∧
      it.elected = 0 ∧ it'.elected ≠ 0 ∧ (bytesOf it').remote = (bytesOf it).remote ∧ it'.sigs = [] := by
  have hclr := bytes_change_clears ops op it it' hit hit' hid hb
  rcases step_full (run ops) (invariant_all_histories ops) op it it' hit hit' hid with rfl | hs | ⟨v, a, b, f, w, key, _, _, _, rfl⟩ | ⟨snap, hop, hsnap, rfl⟩
  · exact absurd rfl hb
  · exact absurd (bytesOf_congr hs) hb
  · exact absurd rfl hb
  · refine ⟨hop, ⟨snap, hsnap, rfl⟩, ?_, ?_, ?_, hclr⟩
    · rcases electOne_spec (run ops).env snap it with he | ⟨_, h0, _⟩
      · rw [he] at hb; exact absurd rfl hb
      · exact h0
    · rcases electOne_spec (run ops).env snap it with he | ⟨_, _, g, _, hg, ⟨_, f, _, he⟩ | ⟨_, he⟩⟩
      · rw [he] at hb; exact absurd rfl hb
      · rw [he]; exact hg
      · rw [he]; exact hg
    · rw [bytesOf_remote, bytesOf_remote, (electOne_core (run ops).env snap it).2.2.2.2.2.1]

/-- **core_fields_never_change** (clause 3, "relayer" — over whole histories).  Between any two points
of any history the message with a given id keeps its kind, payload, sender, assignee, relayer address
and estimate flag: they are fixed when the message is enqueued.  No reachable operation rewrites the
relayer, so the relayer component of the signing bytes never changes under stored signatures.
(The only code that would rewrite it, `Queue.ReassignValidator`, is unreachable — see `reassignDead`
and the witness below.)  Ids are never reused: the earlier and the later message are the same message. -/
theorem core_fields_never_change (pre post : List Op) (it it' : Item) (hit : it ∈ (run pre).queue)
    (hit' : it' ∈ (run (pre ++ post)).queue) (hid : it'.id = it.id) : SameCore it it' := by
  induction post using snoc_induction generalizing it' with
  | h0 =>
    rw [List.append_nil] at hit'
    have := uniq_id (invariant_all_histories pre).2.2 hit' hit hid
    subst this
    exact ⟨rfl, rfl, rfl, rfl, rfl, rfl, rfl⟩
  | hs post op ih =>
    rw [← List.append_assoc, run_snoc] at hit'
    rcases step_new (run (pre ++ post)) op it' hit' with ⟨it1, hit1, hid1⟩ | ⟨hnew, _⟩
    · have h1 := ih it1 hit1 (by rw [hid1, hid])
      have h2 := step_core (step_full (run (pre ++ post)) (invariant_all_histories _) op it1 it' hit1 hit' hid1.symm)
      obtain ⟨a1, a2, a3, a4, a5, a6, a7⟩ := h1
      obtain ⟨b1, b2, b3, b4, b5, b6, b7⟩ := h2
      exact ⟨by rw [b1, a1], by rw [b2, a2], by rw [b3, a3], by rw [b4, a4], by rw [b5, a5], by rw [b6, a6], by rw [b7, a7]⟩
    · exfalso
      have h1 := (invariant_all_histories pre).2.2.2 it hit
      have h2 : (run pre).nextId ≤ (run (pre ++ post)).nextId := by
        rw [run_append]; exact nextId_mono_foldl post _
      omega

/-- **signatures_after_bytes_change** (clause 3 over whole histories: "discarded rather than carried over").
Take the message with a given id at two points of ANY history (`run pre` and `run (pre ++ post)`; ids are
never reused, so it is the same message).  If its signing bytes differ between the two points, then `post`
contains an end-block step (`post = p1 ++ endBlock :: p2`) at which this message — `before`, without elected
estimate — went through the election and came out as `mid`: estimate elected, NO signatures, and already
with the signing bytes it has at the later point; and EVERY signature stored at the later point was added by
a `sign` operation of `p2`, i.e. strictly after that step, which answered `ok` in the state it ran in.
Nothing collected before the change is carried over. -/
theorem signatures_after_bytes_change (pre post : List Op) (it it' : Item) (hit : it ∈ (run pre).queue)
    (hit' : it' ∈ (run (pre ++ post)).queue) (hid : it'.id = it.id) (hb : bytesOf it' ≠ bytesOf it) :
    ∃ p1 p2 before mid, post = p1 ++ Op.endBlock :: p2 ∧
      before ∈ (run (pre ++ p1)).queue ∧ before.id = it.id ∧ before.elected = 0 ∧
      mid ∈ (run (pre ++ p1 ++ [Op.endBlock])).queue ∧ mid.id = it.id ∧ mid.elected ≠ 0 ∧
      mid.sigs = [] ∧ bytesOf mid = bytesOf it' ∧
      ∀ sg ∈ it'.sigs, ∃ q1 q2, p2 = q1 ++ Op.sign it.id sg.val sg.addr sg.by_ sg.for_ sg.wire :: q2 ∧
        (sign (run (pre ++ p1 ++ Op.endBlock :: q1)) it.id sg.val sg.addr sg.by_ sg.for_ sg.wire).2 = .ok := by
  induction post using snoc_induction generalizing it' with
  | h0 =>
    rw [List.append_nil] at hit'
    have := uniq_id (invariant_all_histories pre).2.2 hit' hit hid
    subst this
    exact absurd rfl hb
  | hs post op ih =>
    rw [← List.append_assoc, run_snoc] at hit'
    rcases step_new (run (pre ++ post)) op it' hit' with ⟨it1, hit1, hid1⟩ | ⟨hnew, _⟩
    · have hid1' : it1.id = it.id := by rw [hid1, hid]
      have extend : ∀ x : Item, bytesOf x ≠ bytesOf it → bytesOf x = bytesOf it1 →
          (∀ sg ∈ x.sigs, sg ∈ it1.sigs ∨
            (op = Op.sign it.id sg.val sg.addr sg.by_ sg.for_ sg.wire ∧
              (sign (run (pre ++ post)) it.id sg.val sg.addr sg.by_ sg.for_ sg.wire).2 = .ok)) →
          ∃ p1 p2 before mid, post ++ [op] = p1 ++ Op.endBlock :: p2 ∧
            before ∈ (run (pre ++ p1)).queue ∧ before.id = it.id ∧ before.elected = 0 ∧
            mid ∈ (run (pre ++ p1 ++ [Op.endBlock])).queue ∧ mid.id = it.id ∧ mid.elected ≠ 0 ∧
            mid.sigs = [] ∧ bytesOf mid = bytesOf x ∧
            ∀ sg ∈ x.sigs, ∃ q1 q2, p2 = q1 ++ Op.sign it.id sg.val sg.addr sg.by_ sg.for_ sg.wire :: q2 ∧
              (sign (run (pre ++ p1 ++ Op.endBlock :: q1)) it.id sg.val sg.addr sg.by_ sg.for_ sg.wire).2 = .ok := by
        intro x hbx hbe hs
        obtain ⟨p1, p2, before, mid, he, h1, h2, h3, h4, h5, h6, h7, h8, h9⟩ :=
          ih it1 hit1 hid1' (by rw [← hbe]; exact hbx)
        refine ⟨p1, p2 ++ [op], before, mid, by rw [he]; simp, h1, h2, h3, h4, h5, h6, h7, by rw [h8, hbe], ?_⟩
        intro sg hsg
        rcases hs sg hsg with hold | ⟨hop, hok⟩
        · obtain ⟨q1, q2, hq, hk⟩ := h9 sg hold
          exact ⟨q1, q2 ++ [op], by rw [hq]; simp, hk⟩
        · refine ⟨p2, [], by rw [hop], ?_⟩
          have : pre ++ p1 ++ Op.endBlock :: p2 = pre ++ post := by rw [he]; simp
          rw [this]; exact hok
      rcases step_full (run (pre ++ post)) (invariant_all_histories _) op it1 it' hit1 hit' hid1.symm with
        heq | hs | ⟨v, a, b, f, w, key, hop, _, hok, heq⟩ | ⟨snap, hop, hsnap, heq⟩
      · exact extend it' hb (by rw [heq]) (fun sg hsg => Or.inl (by rw [← heq]; exact hsg))
      · exact extend it' hb (bytesOf_congr hs) (fun sg hsg => Or.inl (by rw [← hs.2.2.2]; exact hsg))
      · refine extend it' hb (by rw [heq]; rfl) ?_
        intro sg hsg
        rw [heq] at hsg
        simp only [addSig, List.mem_append, List.mem_singleton] at hsg
        rcases hsg with hsg | rfl
        · exact Or.inl hsg
        · right
          rw [← hid1']
          exact ⟨hop, hok⟩
      · rcases electOne_spec (run (pre ++ post)).env snap it1 with he | ⟨_, h0, g, _, hg, ⟨_, f, _, he⟩ | ⟨_, he⟩⟩
        · rw [he] at heq
          exact extend it' hb (by rw [heq]) (fun sg hsg => Or.inl (by rw [← heq]; exact hsg))
        · rw [he] at heq
          refine ⟨post, [], it1, it', by rw [hop], hit1, hid1', h0, by rw [run_snoc, ← hop]; exact hit', hid,
            by rw [heq]; exact hg, by rw [heq], rfl, ?_⟩
          intro sg hsg
          rw [heq] at hsg
          cases hsg
        · rw [he] at heq
          refine ⟨post, [], it1, it', by rw [hop], hit1, hid1', h0, by rw [run_snoc, ← hop]; exact hit', hid,
            by rw [heq]; exact hg, by rw [heq], rfl, ?_⟩
          intro sg hsg
          rw [heq] at hsg
          cases hsg
    · exfalso
      have h1 := (invariant_all_histories pre).2.2.2 it hit
      have h2 : (run pre).nextId ≤ (run (pre ++ post)).nextId := by
        rw [run_append]; exact nextId_mono_foldl post _
      omega

/-- **no_signature_survives_bytes_change** (corollary of `signatures_after_bytes_change`).  If between two
points of a history the signing bytes of the message with a given id differ, then no signature stored at the
earlier point is stored at the later point — because the list was emptied by the election step in between and
everything in it now was signed afterwards, for the new bytes.  (The bare disjointness also follows from
`stored_signatures_verify` alone; the theorem above is the statement about the history.) -/
theorem no_signature_survives_bytes_change (pre post : List Op) (it it' : Item) (hit : it ∈ (run pre).queue)
    (hit' : it' ∈ (run (pre ++ post)).queue) (hid : it'.id = it.id) (hb : bytesOf it' ≠ bytesOf it) :
    (∀ sg ∈ it.sigs, sg ∉ it'.sigs) ∧
    ∃ p1 p2, post = p1 ++ Op.endBlock :: p2 ∧
      ∀ sg ∈ it'.sigs, ∃ q1 q2, p2 = q1 ++ Op.sign it.id sg.val sg.addr sg.by_ sg.for_ sg.wire :: q2 := by
  obtain ⟨p1, p2, _, _, he, _, _, _, _, _, _, _, _, h9⟩ := signatures_after_bytes_change pre post it it' hit hit' hid hb
  refine ⟨?_, p1, p2, he, fun sg hsg => ?_⟩
  · intro sg hsg hsg'
    have h1 := (stored_signatures_verify pre it hit sg hsg).1
    have h2 := (stored_signatures_verify (pre ++ post) it' hit' sg hsg').1
    exact hb (by rw [← h1, ← h2])
  · obtain ⟨q1, q2, hq, _⟩ := h9 sg hsg
    exact ⟨q1, q2, hq⟩

/-- **signatures_only_dropped_or_appended.** Across one operation the signature list of a message is
unchanged, emptied, or extended by exactly one signature at the end: nothing is ever carried over in
altered form. -/
theorem signatures_only_dropped_or_appended (ops : List Op) (op : Op) (it it' : Item) (hit : it ∈ (run ops).queue)
    (hit' : it' ∈ (apply (run ops) op).queue) (hid : it'.id = it.id) :
    it'.sigs = it.sigs ∨ it'.sigs = [] ∨ ∃ sg, it'.sigs = it.sigs ++ [sg] := by
  rcases step_item (run ops) (invariant_all_histories ops) op it it' hit hit' hid with h | h | h | ⟨sg, h⟩
  · exact Or.inl (by rw [h])
  · exact Or.inl h.1
  · exact Or.inr (Or.inl h)
  · exact Or.inr (Or.inr ⟨sg, by rw [h]; rfl⟩)

/-- **election_clears** (clause 3, the concrete trigger).  When the end-block step elects an estimate
for a message (with or without fee attachment) the result has no signatures. -/
theorem election_clears (env : Env) (snap : Snap) (it : Item) (h : electOne env snap it ≠ it) :
    (electOne env snap it).sigs = [] := by
  rcases electOne_cases env snap it with he | he
  · exact absurd he h
  · exact he.1

/-- **batch_reissue_clears** (clause 3, bridge batches).  After one operation every batch is an old
batch unchanged, an old batch with one more confirmation (same checkpoint), or has no confirmations
at all (new batch, or checkpoint re-issued by `UpdateBatchGasEstimate`). -/
theorem batch_reissue_clears (ops : List Op) (op : Op) :
    ∀ b' ∈ (apply (run ops) op).batches,
      b' ∈ (run ops).batches ∨ b'.confirms = [] ∨
        ∃ b ∈ (run ops).batches, ∃ c, b' = addConfirm b c ∧ bbytes b' = bbytes b := by
  intro b' hb'
  rcases step_batches (run ops) op b' hb' with h | h | ⟨b, hb, c, h⟩
  · exact Or.inl h
  · exact Or.inr (Or.inl h)
  · exact Or.inr (Or.inr ⟨b, hb, c, h, by rw [h]; rfl⟩)

/-- **batch_checkpoint_change_clears** (clause 3 for batches, keyed by nonce).  If an operation changes
the checkpoint of the batch with a given nonce, the operation is `updateBatchGas` on that nonce, the
batch's gas estimate was 0, only the gas component of the checkpoint changes (relayer, contents and
nonce are untouched), and the batch holds no confirmation afterwards. -/
theorem batch_checkpoint_change_clears (ops : List Op) (op : Op) (b b' : Batch) (hb : b ∈ (run ops).batches)
    (hb' : b' ∈ (apply (run ops) op).batches) (hn : b'.nonce = b.nonce) (hne : bbytes b' ≠ bbytes b) :
    b'.confirms = [] ∧ (∃ g, op = .updateBatchGas b.nonce g ∧ b' = { b with gas := g, confirms := [] }) ∧ b.gas = 0 ∧
      (bbytes b').remote = (bbytes b).remote ∧ (bbytes b').content = (bbytes b).content := by
  have hu := batch_nonces_unique ops
  rcases step_batch (run ops) op b' hb' with h | ⟨c, r, _, hfresh, _⟩ | ⟨b0, hb0, g, hop, hg0, h⟩ |
      ⟨b0, hb0, v, a, by_, f, w, reg, _, _, _, _, _, h⟩
  · have := bsorted_uniq hu h hb hn
    subst this
    exact absurd rfl hne
  · exfalso
    have := hu.2 b hb
    omega
  · have hn0 : b0.nonce = b.nonce := by rw [← hn, h]
    have := bsorted_uniq hu hb0 hb hn0
    subst this
    refine ⟨by rw [h], ⟨g, hop, h⟩, hg0, by rw [h]; rfl, by rw [h]; rfl⟩
  · have hn0 : b0.nonce = b.nonce := by rw [← hn, h]; rfl
    have := bsorted_uniq hu hb0 hb hn0
    subst this
    exfalso
    apply hne
    rw [h]; rfl

theorem updateBatchGas_clears (s : State) (n g : Nat) (b : Batch) (hg : getBatch s.batches n = some b) (h0 : b.gas = 0) :
    (updateBatchGas s n g).2 = true ∧
      ∀ b' ∈ (updateBatchGas s n g).1.batches, b'.nonce = b.nonce → b'.confirms = [] := by
  unfold updateBatchGas
  simp only [hg, h0, Nat.lt_irrefl, if_false, true_and]
  intro b' hb' hn
  unfold setBatch at hb'
  obtain ⟨z, hz, hzb⟩ := List.mem_map.mp hb'
  by_cases hzn : z.nonce = b.nonce
  · simp [hzn] at hzb; rw [← hzb]
  · simp [hzn] at hzb
    subst hzb
    exact absurd hn hzn

/-- **confirms_after_checkpoint_change** (clause 3 for bridge batches, over whole histories).  Take the batch
with a given nonce at two points of ANY history (a nonce identifies one batch: `batch_nonces_unique`).  If its
checkpoint differs between the two points, then `post` contains an `updateBatchGas` on that nonce
(`post = p1 ++ updateBatchGas nonce g :: p2`) which found the batch without gas estimate (`before`) and
re-issued it as `mid`: NO confirmations, and already with the checkpoint of the later point; and EVERY
confirmation stored at the later point was added by a `confirm` operation of `p2`, strictly after the
re-issue, which answered `ok` in the state it ran in. -/
theorem confirms_after_checkpoint_change (pre post : List Op) (b b' : Batch) (hb : b ∈ (run pre).batches)
    (hb' : b' ∈ (run (pre ++ post)).batches) (hn : b'.nonce = b.nonce) (hne : bbytes b' ≠ bbytes b) :
    ∃ p1 p2 g before mid, post = p1 ++ Op.updateBatchGas b.nonce g :: p2 ∧
      before ∈ (run (pre ++ p1)).batches ∧ before.nonce = b.nonce ∧ before.gas = 0 ∧
      mid ∈ (run (pre ++ p1 ++ [Op.updateBatchGas b.nonce g])).batches ∧ mid.nonce = b.nonce ∧
      mid.confirms = [] ∧ bbytes mid = bbytes b' ∧
      ∀ c ∈ b'.confirms, ∃ q1 q2, p2 = q1 ++ Op.confirm b.nonce c.val c.addr c.by_ c.for_ c.wire :: q2 ∧
        (confirm (run (pre ++ p1 ++ Op.updateBatchGas b.nonce g :: q1)) b.nonce c.val c.addr c.by_ c.for_ c.wire).2 = .ok := by
  induction post using snoc_induction generalizing b' with
  | h0 =>
    rw [List.append_nil] at hb'
    have := bsorted_uniq (batch_nonces_unique pre) hb' hb hn
    subst this
    exact absurd rfl hne
  | hs post op ih =>
    rw [← List.append_assoc, run_snoc] at hb'
    have extend : ∀ b1 ∈ (run (pre ++ post)).batches, b1.nonce = b.nonce → bbytes b' = bbytes b1 →
        (∀ c ∈ b'.confirms, c ∈ b1.confirms ∨
          (op = Op.confirm b.nonce c.val c.addr c.by_ c.for_ c.wire ∧
            (confirm (run (pre ++ post)) b.nonce c.val c.addr c.by_ c.for_ c.wire).2 = .ok)) →
        ∃ p1 p2 g before mid, post ++ [op] = p1 ++ Op.updateBatchGas b.nonce g :: p2 ∧
          before ∈ (run (pre ++ p1)).batches ∧ before.nonce = b.nonce ∧ before.gas = 0 ∧
          mid ∈ (run (pre ++ p1 ++ [Op.updateBatchGas b.nonce g])).batches ∧ mid.nonce = b.nonce ∧
          mid.confirms = [] ∧ bbytes mid = bbytes b' ∧
          ∀ c ∈ b'.confirms, ∃ q1 q2, p2 = q1 ++ Op.confirm b.nonce c.val c.addr c.by_ c.for_ c.wire :: q2 ∧
            (confirm (run (pre ++ p1 ++ Op.updateBatchGas b.nonce g :: q1)) b.nonce c.val c.addr c.by_ c.for_ c.wire).2 = .ok := by
      intro b1 hb1 hn1 hbe hs
      obtain ⟨p1, p2, g, before, mid, he, h1, h2, h3, h4, h5, h6, h7, h8⟩ :=
        ih b1 hb1 hn1 (by rw [← hbe]; exact hne)
      refine ⟨p1, p2 ++ [op], g, before, mid, by rw [he]; simp, h1, h2, h3, h4, h5, h6, by rw [h7, hbe], ?_⟩
      intro c hc
      rcases hs c hc with hold | ⟨hop, hok⟩
      · obtain ⟨q1, q2, hq, hk⟩ := h8 c hold
        exact ⟨q1, q2 ++ [op], by rw [hq]; simp, hk⟩
      · refine ⟨p2, [], by rw [hop], ?_⟩
        have : pre ++ p1 ++ Op.updateBatchGas b.nonce g :: p2 = pre ++ post := by rw [he]; simp
        rw [this]; exact hok
    rcases step_batch (run (pre ++ post)) op b' hb' with h | ⟨c0, r0, _, hfresh, _⟩ | ⟨b0, hb0, g, hop, hg0, h⟩ |
        ⟨b0, hb0, v, a, by_, f, w, reg, hop, hok, _, _, _, h⟩
    · exact extend b' h hn rfl (fun c hc => Or.inl hc)
    · exfalso
      have h1 := (batch_nonces_unique pre).2 b hb
      have h2 : (run pre).lastNonce ≤ (run (pre ++ post)).lastNonce := by
        rw [run_append]; exact lastNonce_mono_foldl post _
      omega
    · have hn0 : b0.nonce = b.nonce := by rw [← hn, h]
      rw [hn0] at hop
      refine ⟨post, [], g, b0, b', by rw [hop], hb0, hn0, hg0, by rw [run_snoc, ← hop]; exact hb', hn,
        by rw [h], rfl, ?_⟩
      intro c hc
      rw [h] at hc
      cases hc
    · have hn0 : b0.nonce = b.nonce := by rw [← hn, h]; rfl
      rw [hn0] at hop hok
      refine extend b0 hb0 hn0 (by rw [h]; rfl) ?_
      intro c hc
      rw [h] at hc
      simp only [addConfirm, List.mem_append, List.mem_singleton] at hc
      rcases hc with hc | rfl
      · exact Or.inl hc
      · exact Or.inr ⟨hop, hok⟩

/-- **no_confirm_survives_checkpoint_change** (corollary of `confirms_after_checkpoint_change`): no confirmation
stored with the batch of a given nonce before its checkpoint changed is stored with it afterwards; the
confirmations it holds afterwards were all made after the re-issue. -/
theorem no_confirm_survives_checkpoint_change (pre post : List Op) (b b' : Batch) (hb : b ∈ (run pre).batches)
    (hb' : b' ∈ (run (pre ++ post)).batches) (hn : b'.nonce = b.nonce) (hne : bbytes b' ≠ bbytes b) :
    (∀ c ∈ b.confirms, c ∉ b'.confirms) ∧
    ∃ p1 p2 g, post = p1 ++ Op.updateBatchGas b.nonce g :: p2 ∧
      ∀ c ∈ b'.confirms, ∃ q1 q2, p2 = q1 ++ Op.confirm b.nonce c.val c.addr c.by_ c.for_ c.wire :: q2 := by
  obtain ⟨p1, p2, g, _, _, he, _, _, _, _, _, _, _, h8⟩ := confirms_after_checkpoint_change pre post b b' hb hb' hn hne
  refine ⟨?_, p1, p2, g, he, fun c hc => ?_⟩
  · intro c hc hc'
    have h1 := (batch_confirms_verify pre b hb c hc).1
    have h2 := (batch_confirms_verify (pre ++ post) b' hb' c hc').1
    exact hne (by rw [← h1, ← h2])
  · obtain ⟨q1, q2, hq, _⟩ := h8 c hc
    exact ⟨q1, q2, hq⟩

/-- **addEstimate_rejected_is_noop** (error branches: unknown message, value 0, estimation not required,
second estimate by the same validator). -/
theorem addEstimate_rejected_is_noop (s : State) (id val value : Nat) (h : (addEstimate s id val value).2 = false) :
    (addEstimate s id val value).1 = s := by
  have : (addEstimate s id val value).1 = s ∨ (addEstimate s id val value).2 = true := by
    unfold addEstimate
    repeat' split
    all_goals first
      | exact Or.inl rfl
      | exact Or.inr rfl
  rcases this with h1 | h1
  · exact h1
  · rw [h1] at h; cases h

/-- **updateBatchGas_refused_is_noop** (error branches: unknown batch, estimate already set — a batch's
checkpoint is re-issued at most once). -/
theorem updateBatchGas_refused_is_noop (s : State) (n g : Nat) (h : (updateBatchGas s n g).2 = false) :
    (updateBatchGas s n g).1 = s := by
  have : (updateBatchGas s n g).1 = s ∨ (updateBatchGas s n g).2 = true := by
    unfold updateBatchGas
    repeat' split
    all_goals first
      | exact Or.inl rfl
      | exact Or.inr rfl
  rcases this with h1 | h1
  · exact h1
  · rw [h1] at h; cases h

/-- **endBlock_without_snapshot_is_noop.** Without a snapshot the election step does nothing to the state
(the real code fails before touching a message); the flag reports it. -/
theorem endBlock_without_snapshot_is_noop (s : State) (h : s.env.snapshot = none) : endBlock s = (s, true) := by
  unfold endBlock
  simp [h]

/-! ### non-vacuity, the two replay histories (refused), and their pre-repair negation witnesses -/

/-- bytes of message 1 of the demos before and after the election with fees -/
def demoBytes0 : SignBytes := { kind := .slc, content := 7, id := 1, gas := 0, fr := 100000, fc := 100000, fs := 100000, remote := 1 }
def demoBytes1 : SignBytes := { kind := .slc, content := 7, id := 1, gas := 0, fr := 23100, fc := 693, fs := 231, remote := 1 }

def demoEnv6 : Env :=
  { snapshot := some { vals := [⟨1, 5, [⟨0, 4, 4, false⟩]⟩, ⟨2, 5, [⟨0, 8, 8, false⟩]⟩, ⟨3, 5, [⟨0, 12, 12, false⟩]⟩], total := 15 },
    fees := [(1, 1100000000000000000)], community := 30000000000000000, security := 10000000000000000 }

/-- sign, sign, elect (signatures dropped, fees attached, bytes changed), stale signature refused, re-sign -/
def demo : List Op :=
  [ .setEnv demoEnv6, .register 1 [⟨0, 4, 4, false⟩], .register 2 [⟨0, 8, 8, false⟩],
    .put .slc 7 1 1 4 true,
    .sign 1 1 4 1 demoBytes0, .sign 1 2 8 2 demoBytes0, .sign 1 2 8 2 demoBytes0, .sign 1 1 4 2 demoBytes0,
    .addEstimate 1 1 21000, .addEstimate 1 2 21000, .addEstimate 1 3 21001 ]

example : ((run demo).queue.map fun it => (it.sigs.map fun g => (g.val, g.key), it.elected, it.fees)) =
    [([(1, 4), (2, 8)], 0, none)] := by decide
example : ((run (demo ++ [.endBlock])).queue.map fun it => (it.sigs.map fun g => (g.val, g.key), it.elected, it.fees)) =
    [([], 21000, some (23100, 693, 231))] := by decide
example : (run demo).queue.map bytesOf = [demoBytes0] ∧ (run (demo ++ [.endBlock])).queue.map bytesOf = [demoBytes1] := by decide
example : ((run (demo ++ [.endBlock, .sign 1 1 4 1 demoBytes0, .sign 1 1 4 1 demoBytes1])).queue.map
    fun it => it.sigs.map fun g => (g.val, g.key)) = [[(1, 4)]] := by decide

/-- **alias registration + replay is refused.**  Validator 2 registers validator 1's account under
another spelling (address string 5, key bytes 5: same account `canon 5 = canon 4 = 1`); the collision
rule compares strings/bytes verbatim and lets it through, but the non-canonical key bytes no longer
verify, so the replayed signature is rejected. -/
def aliasReplay : List Op :=
  [ .register 1 [⟨0, 4, 4, false⟩], .register 2 [⟨0, 5, 5, false⟩], .put .slc 7 1 1 4 true,
    .sign 1 1 4 1 demoBytes0 ]

example : (sign (run aliasReplay) 1 2 5 1 demoBytes0).2 = .badSig ∧
    ((run (aliasReplay ++ [.sign 1 2 5 1 demoBytes0])).queue.map fun it => it.sigs.map fun g => (g.val, g.key)) = [[(1, 4)]] := by decide

/-- **aliasReplay_preFix** (negation witness for the code before 23185e9f, where any spelling of the key
bytes verified).  The same replay was accepted: one account, two validators on one message. -/
example : (signWith verifiesPreFix (run aliasReplay) 1 2 5 1 demoBytes0 .canonical).2 = .ok ∧
    ((signWith verifiesPreFix (run aliasReplay) 1 2 5 1 demoBytes0 .canonical).1.queue.map
      fun it => it.sigs.map fun g => (g.val, g.key, canon g.key, g.by_)) = [[(1, 4, 1, 1), (2, 5, 1, 1)]] := by decide

def demoBB : BBytes := { nonce := 9, content := 3, remote := 2, gas := 300000 }

/-- **key take-over on a batch is refused.**  Validator 1 confirms, rotates to another key, validator 2
registers the released address (all spellings canonical) and replays validator 1's confirmation:
rejected as a duplicate key. -/
def batchTakeover : List Op :=
  [ .register 1 [⟨0, 4, 4, false⟩], .register 2 [⟨0, 8, 8, false⟩], .putBatch 9 3 8,
    .confirm 9 1 4 1 demoBB, .register 1 [⟨0, 12, 12, false⟩], .register 2 [⟨0, 4, 4, false⟩] ]

example : (confirm (run batchTakeover) 9 2 4 1 demoBB).2 = .dupKey ∧
    ((run (batchTakeover ++ [.confirm 9 2 4 1 demoBB])).batches.map fun b => b.confirms.map fun c => (c.val, c.addr)) = [[(1, 4)]] := by decide

/-- **batchTakeover_preFix** (negation witness for the code before db2aad4e, confirmations unique per
orchestrator only).  The replay was accepted: the same key confirmed the batch twice. -/
example : (confirmWith false (run batchTakeover) 9 2 4 1 demoBB .canonical).2 = .ok ∧
    ((confirmWith false (run batchTakeover) 9 2 4 1 demoBB .canonical).1.batches.map
      fun b => b.confirms.map fun c => (c.val, c.addr, c.by_)) = [[(1, 4, 1), (2, 4, 1)]] := by decide

/-- re-issuing the checkpoint drops every confirmation; a validator that already confirmed cannot confirm again with its new key -/
example : ((run (batchTakeover ++ [.confirm 9 2 4 1 demoBB, .confirm 9 1 12 3 demoBB, .updateBatchGas 9 21000])).batches.map
    fun b => (b.gas, b.confirms.length)) = [(21000, 0)] ∧
    ((run (batchTakeover ++ [.confirm 9 1 12 3 demoBB])).batches.map fun b => b.confirms.map fun c => (c.val, c.addr)) = [[(1, 4)]] := by decide

/-! ### sibling chains and byte forms -/

/-- validator 1 holds key 1 (address 4) on the queue's chain and a *different* key 7 (address 28) on a
sibling chain; validator 2 holds an account on the sibling chain only -/
def siblingRegs : List Op :=
  [ .register 1 [⟨1, 28, 28, false⟩, ⟨0, 4, 4, false⟩], .register 2 [⟨1, 8, 8, false⟩], .put .slc 7 1 1 4 true ]

/-- signing the target chain's message with the sibling chain's key, claiming the sibling chain's
address: refused (`noKey`), although the signature is a valid one by a key of that validator; the
proper account still signs -/
example : (sign (run siblingRegs) 1 1 28 7 demoBytes0).2 = .noKey ∧ (sign (run siblingRegs) 1 2 8 2 demoBytes0).2 = .noKey ∧
    (sign (run siblingRegs) 1 1 4 7 demoBytes0).2 = .badSig ∧ (sign (run siblingRegs) 1 1 4 1 demoBytes0).2 = .ok := by decide

/-- byte forms: the 27/28 spelling, recovery id 2/3, 64 and 66 bytes of an otherwise correct signature
are refused and leave the message without signature; the mirrored-`s` twin verifies as it is and is stored -/
example : (sign (run siblingRegs) 1 1 4 1 demoBytes0 .v27).2 = .badSig ∧ (sign (run siblingRegs) 1 1 4 1 demoBytes0 .recid23).2 = .badSig ∧
    (sign (run siblingRegs) 1 1 4 1 demoBytes0 .short).2 = .badSig ∧ (sign (run siblingRegs) 1 1 4 1 demoBytes0 .long).2 = .badSig ∧
    (sign (run siblingRegs) 1 1 4 1 demoBytes0 .highS).2 = .ok ∧
    ((run (siblingRegs ++ [.sign 1 1 4 1 demoBytes0 .v27])).queue.map fun it => it.sigs.length) = [0] := by decide

/-- the bridge's own convention accepts 27/28 for batch confirmations (and nothing shorter or longer) -/
example : (confirm (run batchTakeover) 9 2 4 1 demoBB .v27).2 = .dupKey ∧
    (confirm (run [.register 1 [⟨0, 4, 4, false⟩], .putBatch 9 3 8]) 9 1 4 1 demoBB .v27).2 = .ok ∧
    (confirm (run [.register 1 [⟨0, 4, 4, false⟩], .putBatch 9 3 8]) 9 1 4 1 demoBB .short).2 = .badSig ∧
    (confirm (run [.register 1 [⟨1, 4, 4, false⟩, ⟨0, 28, 28, false⟩], .putBatch 9 3 8]) 9 1 4 1 demoBB).2 = .mismatch := by decide

/-! ### provenance, key rotation, dead code, shared bytes (all through `run` from the initial state) -/

/-- validator 1 signs with the key it holds (account 4), then rotates to account 12: the stored signature
keeps the key registered WHEN IT SIGNED (`signature_provenance`), the registry now says 12, and the
validator cannot add a second signature under the new key (`dupVal`) -/
def keyRotation : List Op :=
  [ .register 1 [⟨0, 4, 4, false⟩], .put .slc 7 1 1 4 true, .sign 1 1 4 1 demoBytes0, .register 1 [⟨0, 12, 12, false⟩] ]

example : ((run keyRotation).queue.map fun it => it.sigs.map fun g => (g.val, g.addr, g.key, g.by_)) = [[(1, 4, 4, 1)]] ∧
    signingKey (run keyRotation).regs 1 12 = some 12 ∧ signingKey (run keyRotation).regs 1 4 = none ∧
    signingKey (run (keyRotation.take 2)).regs 1 4 = some 4 ∧
    (sign (run keyRotation) 1 1 12 3 demoBytes0).2 = .dupVal := by decide

/-- same for a batch: the confirmation of `batchTakeover` stays under the account validator 1 held when it
confirmed (address 4), although validator 1 now holds 12 and validator 2 holds 4 -/
example : ((run batchTakeover).batches.map fun b => b.confirms.map fun c => (c.val, c.addr, c.by_)) = [[(1, 4, 1)]] ∧
    ethAddrOf (run batchTakeover).regs 1 = some 12 ∧ ethAddrOf (run batchTakeover).regs 2 = some 4 ∧
    ethAddrOf (run (batchTakeover.take 3)).regs 1 = some 4 := by decide

/-- **reassignDead_would_violate** (why the frame theorem `core_fields_never_change` matters).
`Queue.ReassignValidator` — unreachable in /repo: its only caller `ReassignOrphanedMessages` is called by
nobody — rewrites the relayer address and KEEPS the signatures: applied to the state after `demo` it
leaves two stored signatures that no longer match the message's signing bytes.  If it were ever wired
in, clause 3 ("relayer … discarded rather than carried over") would fail. -/
example : ((reassignDead (run demo) 1 2 8).queue.map fun it =>
      (it.assignee, it.remote, it.sigs.length, it.sigs.all fun g => g.for_ == bytesOf it)) = [(2, 8, 2, false)] ∧
    ((run demo).queue.map fun it => (it.assignee, it.remote, it.sigs.length, it.sigs.all fun g => g.for_ == bytesOf it)) =
      [(1, 4, 2, true)] := by decide

/-- the signing bytes of UpdateValset / CompassHandover do not contain the message id
(`turnstone_abi.go`): two queued updates with the same payload, relayer and estimate have the same signing
bytes, so one signature verifies for both.  This does not contradict C06 (the signature does verify
against the item's current bytes) — recorded because the tuple `SignBytes` makes it explicit. -/
example : ((run [.put .valset 3 0 2 8 false, .put .valset 3 0 2 8 false]).queue.map bytesOf) =
    [⟨.valset, 3, 0, 300000, 0, 0, 0, 2⟩, ⟨.valset, 3, 0, 300000, 0, 0, 0, 2⟩] := by decide

/-- random bytes (`by_ = 0`) are a signature by nobody: refused even if somebody registered "account 0" -/
example : (sign (run [.register 1 [⟨0, 0, 0, false⟩], .put .slc 7 1 1 0 true]) 1 1 0 0
    { kind := .slc, content := 7, id := 1, gas := 0, fr := 100000, fc := 100000, fs := 100000, remote := 0 }).2 = .badSig := by decide

/-- batch nonces come from a counter: a nonce that was already handed out creates nothing -/
example : ((run [.putBatch 9 3 8, .putBatch 9 5 12, .putBatch 7 1 1, .putBatch 10 5 12]).batches.map fun b => (b.nonce, b.content)) =
    [(9, 3), (10, 5)] := by decide

/-- rejected operations leave the state alone (`sign_rejected_is_noop`, `confirm_rejected_is_noop`): all five
refusals of `sign` and all six of `confirm`, on a reachable state -/
example : (sign (run demo) 9 1 4 1 demoBytes0).2 = .notFound ∧ (sign (run demo) 1 3 12 3 demoBytes0).2 = .noKey ∧
    (sign (run demo) 1 1 4 1 demoBytes0).2 = .dupKey ∧
    (sign (run (demo ++ [.register 1 [⟨0, 16, 16, false⟩]])) 1 1 16 4 demoBytes0).2 = .dupVal ∧
    (sign (run (demo ++ [.register 3 [⟨0, 12, 12, false⟩]])) 1 3 12 3 demoBytes1).2 = .badSig ∧
    (sign (run (demo ++ [.register 3 [⟨0, 12, 12, false⟩]])) 1 3 12 3 demoBytes0).2 = .ok := by decide
example : (confirm (run batchTakeover) 8 1 12 3 demoBB).2 = .notFound ∧ (confirm (run batchTakeover) 9 3 12 3 demoBB).2 = .noAddr ∧
    (confirm (run batchTakeover) 9 2 8 2 demoBB).2 = .mismatch ∧ (confirm (run batchTakeover) 9 2 4 2 demoBB).2 = .badSig ∧
    (confirm (run batchTakeover) 9 1 12 3 demoBB).2 = .dup ∧ (confirm (run batchTakeover) 9 2 4 1 demoBB).2 = .dupKey := by decide

/-! ### signing before the election (what the stored signatures are signatures OF while nothing is elected)

`AddMessageSignature` / `ConfirmBatch` have no "estimate elected" gate, and `GetMessagesForSigning` has no
`HasGasEstimate` filter (x/consensus/keeper/concensus_keeper.go): validators sign a message as soon as it is
queued.  C06 is not violated by that — the election discards those signatures (`signatures_after_bytes_change`) —
but what they sign before the election is the DEFAULT value (gas 300000 / fees 100000×3), which nobody
elected.  C05 records the consequence for the remote contract (`Props/C05.lean`,
`elected_estimate_clause_false_before_election`). -/

/-- **signatures_before_election_sign_the_defaults.** In every reachable state, the signatures kept with a
message whose estimate is not elected yet are signatures over the default gas estimate 300000
(UpdateValset / CompassHandover) resp. over the default fee triple 100000 (fee-paying actions without
attached fees) — the values `Keccak256WithSignedMessage` substitutes, not elected ones. -/
theorem signatures_before_election_sign_the_defaults (ops : List Op) :
    ∀ it ∈ (run ops).queue, it.elected = 0 → ∀ sg ∈ it.sigs,
      (it.kind.feePayer = false → sg.for_.gas = defaultGas) ∧
      (it.kind.feePayer = true → it.fees = none →
        sg.for_.fr = defaultFee ∧ sg.for_.fc = defaultFee ∧ sg.for_.fs = defaultFee) := by
  intro it hit h0 sg hsg
  have h := (stored_signatures_verify ops it hit sg hsg).1
  constructor
  · intro hk; rw [h]; unfold bytesOf; simp [hk, h0]
  · intro hk hf; rw [h]; unfold bytesOf; simp [hk, hf]

/-- the same for bridge batches: confirmations kept with a batch without gas estimate confirm the
checkpoint over the default estimate 300000 -/
theorem confirms_before_estimate_confirm_the_default (ops : List Op) :
    ∀ b ∈ (run ops).batches, b.gas = 0 → ∀ c ∈ b.confirms, c.for_.gas = defaultGas := by
  intro b hb h0 c hc
  rw [(batch_confirms_verify ops b hb c hc).1]
  unfold bbytes
  simp [h0]

def envSBE : Env :=
  { snapshot := some { vals := [⟨1, 5, [⟨0, 4, 4, false⟩]⟩, ⟨2, 5, [⟨0, 8, 8, false⟩]⟩, ⟨3, 5, [⟨0, 12, 12, false⟩]⟩], total := 15 },
    metrics := [(1, ⟨P, P, 0, 0⟩)], fees := [(1, 1100000000000000000)],
    community := 30000000000000000, security := 10000000000000000 }

/-- a validator-set update enters through the relayer pick (estimation required), validator 1 signs it at once -/
def signBeforeElection : List Op :=
  [ .setEnv envSBE, .register 1 [⟨0, 4, 4, false⟩], .enqueue .valset 3 0 false 0,
    .sign 1 1 4 1 ⟨.valset, 3, 0, 300000, 0, 0, 0, 1⟩ ]

/-- **unelected_message_is_signable** (reachability; non-vacuity of the two theorems above).  Through `run` from
the initial state: the update requires estimation, nothing is elected, it is offered to NOBODY — and it already
holds a signature, over gas 300000.  After the election (here of 21000) that signature is gone and the bytes
carry 21000; if the election yields exactly 300000 the bytes do not change at all, the signature list is
emptied all the same, and the very same signature bytes are accepted again. -/
theorem unelected_message_is_signable :
    ((run signBeforeElection).queue.map fun it =>
        (it.kind, it.reqEst, it.elected, it.sigs.map fun g => (g.val, g.for_.gas))) = [(.valset, true, 0, [(1, 300000)])] ∧
    offered (run signBeforeElection).queue 1 = [] ∧
    ((run (signBeforeElection ++ [.addEstimate 1 1 21000, .addEstimate 1 2 21000, .endBlock])).queue.map fun it =>
        (it.elected, it.sigs.length, (bytesOf it).gas)) = [(21000, 0, 21000)] ∧
    ((run (signBeforeElection ++ [.addEstimate 1 1 300000, .addEstimate 1 2 300000, .endBlock])).queue.map fun it =>
        (it.elected, it.sigs.length, (bytesOf it).gas)) = [(300000, 0, 300000)] ∧
    (sign (run (signBeforeElection ++ [.addEstimate 1 1 300000, .addEstimate 1 2 300000, .endBlock])) 1 1 4 1
        ⟨.valset, 3, 0, 300000, 0, 0, 0, 1⟩).2 = .ok := by decide

/-! ### history-level discard (non-vacuity of `signatures_after_bytes_change` / `confirms_after_checkpoint_change`) -/

-- `demo` holds two signatures over `demoBytes0`; after `endBlock` the bytes are `demoBytes1`; validator 1 signs again:
-- the hypotheses of `signatures_after_bytes_change` hold with `pre = demo`, `post = [endBlock, sign …]`
example : ((run demo).queue.map fun it => (it.id, bytesOf it, it.sigs.length)) = [(1, demoBytes0, 2)] ∧
    ((run (demo ++ [.endBlock, .sign 1 1 4 1 demoBytes1])).queue.map fun it => (it.id, bytesOf it, it.sigs.map (·.val))) =
      [(1, demoBytes1, [1])] := by decide

-- batch 9 of `batchTakeover` holds one confirmation over gas 300000; re-issue with gas 21000, validator 2 confirms
example : ((run batchTakeover).batches.map fun b => (b.nonce, (bbytes b).gas, b.confirms.length)) = [(9, 300000, 1)] ∧
    ((run (batchTakeover ++ [.updateBatchGas 9 21000, .confirm 9 2 4 1 { demoBB with gas := 21000 }])).batches.map
      fun b => (b.nonce, (bbytes b).gas, b.confirms.map (·.val))) = [(9, 21000, [2])] := by decide

-- the registry invariant is not vacuous: after `batchTakeover` two validators hold accounts, keys pairwise distinct
example : (run batchTakeover).regs = [(1, [⟨0, 12, 12, false⟩]), (2, [⟨0, 4, 4, false⟩])] := by decide
-- a colliding registration (validator 3 claims validator 2's key bytes under another address) is refused
example : (register (run batchTakeover) 3 [⟨0, 16, 4, false⟩]).2 = false := by decide

/-! ### round-4 strengthening: confirmations delivered by another account; messages that sit unrelayed -/

/-- **conf_store_keyed_all_histories**: after any history of confirmations (delivered by whatever account)
and re-issues, every stored confirmation sits under the key of the orchestrator it names. -/
theorem conf_store_keyed_all_histories (ops : List SOp) : Keyed (srun ops) := by
  unfold srun
  suffices h : ∀ st, Keyed st → Keyed (ops.foldl sapply st) from h [] (by intro e he; cases he)
  induction ops with
  | nil => intro st h; exact h
  | cons op ops ih =>
    intro st h
    apply ih
    cases op with
    | set n r => exact keyed_setBatchConfirm h n r
    | del n => exact keyed_deleteBatchConfirmsBy h _ n

/-- **deleteBatchConfirms_complete** (clause 3 for bridge batches at the level of the store: "discarded
rather than carried over").  On a store where every record sits under its orchestrator's key,
`DeleteBatchConfirms` leaves NO confirmation under the batch — whoever created the transactions that
delivered them (`ConfRec.creator` is arbitrary). -/
theorem deleteBatchConfirms_complete (st : ConfStore) (n : Nat) (h : Keyed st) :
    confirmsOf (deleteBatchConfirms st n) n = [] := by
  unfold deleteBatchConfirms
  rw [deleteBatchConfirmsBy_eq]
  unfold confirmsOf
  rw [List.map_eq_nil_iff, List.filter_filter, List.filter_eq_nil_iff]
  intro e he
  simp only [Bool.and_eq_true, not_and, beq_iff_eq]
  intro hn hall
  have hmem : e.2 ∈ (st.filter (fun e => e.1.1 == n)).map (·.2) :=
    List.mem_map.2 ⟨e, List.mem_filter.2 ⟨he, by simpa using hn⟩, rfl⟩
  have := List.all_eq_true.1 hall e.2 hmem
  have hk := h e he
  apply (bne_iff_ne.1 this)
  rw [← hk, ← hn]

/-- the re-issue of one batch touches no other batch's confirmations -/
theorem deleteBatchConfirms_frame (st : ConfStore) (n m : Nat) (hm : m ≠ n) :
    confirmsOf (deleteBatchConfirms st n) m = confirmsOf st m := by
  unfold deleteBatchConfirms
  rw [deleteBatchConfirmsBy_eq]
  unfold confirmsOf
  rw [List.filter_filter]
  congr 1
  apply List.filter_congr
  intro e _
  by_cases hem : e.1.1 = m
  · have : ((confirmsOf st n).all fun r => e.1 != (n, r.val)) = true := by
      apply List.all_eq_true.2
      intro r _
      apply bne_iff_ne.2
      intro heq
      apply hm
      rw [← hem, heq]
    unfold confirmsOf at this
    simp [hem, this]
  · simp [hem]

/-- **reissue_discards_every_confirm**: after ANY history of the confirmation store, the re-issue of a
batch leaves no confirmation with it. -/
theorem reissue_discards_every_confirm (ops : List SOp) (n : Nat) : confirmsOf (srun (ops ++ [.del n])) n = [] := by
  unfold srun
  rw [List.foldl_append]
  exact deleteBatchConfirms_complete _ n (conf_store_keyed_all_histories ops)

/-- a confirmation is found under its batch once written, whoever delivered it -/
theorem setBatchConfirm_found (st : ConfStore) (n : Nat) (r : ConfRec) : r ∈ confirmsOf (setBatchConfirm st n r) n := by
  unfold confirmsOf setBatchConfirm
  simp

/-- non-vacuity: validators 1 and 2 confirm batch 9; validator 2's confirmation is delivered by account
100 (not its orchestrator); validator 1 also confirms batch 10.  The re-issue of batch 9 empties it and
leaves batch 10 alone. -/
def demoStore : List SOp := [.set 9 ⟨1, 1, 4⟩, .set 9 ⟨2, 100, 8⟩, .set 10 ⟨1, 1, 4⟩]

example : (confirmsOf (srun demoStore) 9).map (fun r => (r.val, r.creator)) = [(1, 1), (2, 100)] ∧
    confirmsOf (srun (demoStore ++ [.del 9])) 9 = [] ∧
    (confirmsOf (srun (demoStore ++ [.del 9])) 10).map (fun r => (r.val, r.creator)) = [(1, 1)] := by decide

/-- negation witness: a delete that derives the key from the transaction creator (as
`DeleteBatchGasEstimates` does for estimates) misses the confirmation delivered by another account — it
would be carried over the change of the checkpoint. -/
example : (confirmsOf (deleteBatchConfirmsBy (·.creator) (srun demoStore) 9) 9).map (fun r => (r.val, r.creator)) = [(2, 100)] := by decide

/-- **endBlock_idempotent**: a second end-block step directly after the first changes nothing. -/
theorem endBlock_idempotent (s : State) : (endBlock (endBlock s).1).1 = (endBlock s).1 := by
  unfold endBlock
  cases hs : s.env.snapshot with
  | none => simp [hs]
  | some snap =>
    simp only [hs, List.map_map]
    congr 1
    apply List.map_congr_left
    intro it _
    exact electOne_idem s.env snap it

/-- **idle_blocks_equal_one_block**: however many blocks pass without a submission, the state is the one
after the first of them: a queued message that nobody relays keeps its assignee, its relayer address and
(if it was not elected in that first block) every signature, for as long as it sits in the queue. -/
theorem idle_blocks_equal_one_block (s : State) (n : Nat) : idleBlocks s (n + 1) = (endBlock s).1 := by
  induction n generalizing s with
  | zero => simp [idleBlocks, apply]
  | succ n ih => rw [idleBlocks_succ, ih, endBlock_idempotent]

/-- **unrelayed_message_keeps_relayer_and_valid_signatures** (clauses 1 and 3, "relayer", over time): let any
history be followed by any number of blocks in which nothing is submitted.  The message with a given id
still has the same kind, payload, sender, assignee, relayer address and estimate flag, and every
signature stored with it verifies against its current signing bytes. -/
theorem unrelayed_message_keeps_relayer_and_valid_signatures (ops : List Op) (n : Nat) (it it' : Item)
    (hit : it ∈ (run ops).queue) (hit' : it' ∈ (idleBlocks (run ops) n).queue) (hid : it'.id = it.id) :
    SameCore it it' ∧ ∀ sg ∈ it'.sigs, SigOk it' sg := by
  rw [← run_idle] at hit'
  exact ⟨core_fields_never_change ops _ it it' hit hit' hid,
    ((invariant_all_histories (ops ++ List.replicate n Op.endBlock)).1 it' hit').1⟩

/-- non-vacuity: the demo message (two signatures, one estimate: no quorum) after 45 idle blocks -/
example : ((idleBlocks (run (demo.take 9)) (44 + 1)).queue.map fun it => (it.assignee, it.remote, it.sigs.length, it.sigs.all fun g => g.for_ == bytesOf it)) =
    [(1, 4, 2, true)] := by rw [idle_blocks_equal_one_block]; decide

/-! ### several chains, several signatures per request

One `MsgAddMessagesSignatures` carries signatures for several messages, of several queues (`signRequest` over
`MultiQ`: the turnstone queues of all chains of the chain type, one registry).  Clause 1 says "under the key its
validator had registered FOR THAT CHAIN": for every entry of a request that is the chain of the entry's own
queue, whatever the entries before it were checked under. -/

/-- **request_signature_under_own_chain_key** (clause 1 for a request of any length over any number of chains).  After a
request that went through, on every chain every stored signature is an old one of the message with the same id, or
was stored by an entry of the request for a message OF THAT CHAIN, and its key is what `GetSigningKey` returns on the
registry for THAT chain under the address the entry claims: the key bytes of an account the validator had registered
on the chain of the message's queue.  The registry is untouched and no queue appears or disappears. -/
theorem request_signature_under_own_chain_key (w : MultiQ) (val : Nat) (es : List SigEntry)
    (h : (signRequest w val es).2 = .ok) :
    (signRequest w val es).1.regs = w.regs ∧
    ∀ c q', queueOf (signRequest w val es).1 c = some q' → ∃ q, queueOf w c = some q ∧ ∀ it' ∈ q', ∀ sg ∈ it'.sigs,
      (∃ it ∈ q, it.id = it'.id ∧ sg ∈ it.sigs) ∨
      (∃ e ∈ es, e.chain = c ∧ e.id = it'.id ∧ sg.val = val ∧ sg.addr = e.addr ∧ sg.by_ = e.by_ ∧ sg.for_ = e.for_ ∧
        sg.wire = e.wire ∧ signingKeyOn c w.regs val e.addr = some sg.key ∧
        ∃ r ∈ w.regs, ∃ a ∈ r.2, r.1 = val ∧ a.chain = c ∧ a.addr = e.addr ∧ a.raw = sg.key) := by
  obtain ⟨hr, hall⟩ := signLoop_sigs val es [] w _ (signRequest_ok_loop h)
  refine ⟨hr, ?_⟩
  intro c q' hq'
  obtain ⟨q, hq, hs⟩ := hall c q' hq'
  refine ⟨q, hq, ?_⟩
  intro it' hit' sg hsg
  rcases hs it' hit' sg hsg with hold | ⟨e, he, h1, h2, h3, h4, h5, h6, h7, hk⟩
  · exact Or.inl hold
  · exact Or.inr ⟨e, he, h1, h2, h3, h4, h5, h6, h7, hk, signingKeyOn_mem hk⟩

/-- **request_needs_account_on_every_entry_chain** (clause 1, refusal direction).  If for SOME entry of a request —
at whatever position, behind however many entries that pass — the validator holds no account on the chain of
that entry's queue under the address the entry claims (whatever it holds under that address on other chains), the
request does not go through and nothing at all is stored. -/
theorem request_needs_account_on_every_entry_chain (w : MultiQ) (val : Nat) (es : List SigEntry) (e : SigEntry) (he : e ∈ es)
    (h : ∀ r ∈ w.regs, r.1 = val → ∀ a ∈ r.2, a.addr = e.addr → a.chain ≠ e.chain) :
    (signRequest w val es).2 ≠ .ok ∧ (signRequest w val es).1 = w := by
  have hne : (signRequest w val es).2 ≠ .ok := by
    intro hok
    obtain ⟨key, hk⟩ := signLoop_ok_all_keys val es [] w _ (signRequest_ok_loop hok) e he
    obtain ⟨r, hr, a, ha, hv, hc, haddr, _⟩ := signingKeyOn_mem hk
    exact h r hr hv a ha haddr hc
  refine ⟨hne, ?_⟩
  unfold signRequest signRequestWith at hne ⊢
  split
  · rename_i hs
    rw [if_pos hs] at hne
    exact absurd (by simpa using hs) hne
  · rfl

/-- **request_rejected_is_noop** (error branches: the handler runs on a cached context).  A request that does not
answer `ok` — at whichever entry it failed — stores nothing, on any chain. -/
theorem request_rejected_is_noop (w : MultiQ) (val : Nat) (es : List SigEntry) (h : (signRequest w val es).2 ≠ .ok) :
    (signRequest w val es).1 = w := by
  unfold signRequest signRequestWith at h ⊢
  split
  · rename_i hs
    rw [if_pos hs] at h
    exact absurd (by simpa using hs) h
  · rfl

/-- **multi_chain_invariant_all_histories** (clauses 1 and 2 over all histories of several chains).  After any history of
registrations, enqueueing on any chain and requests of any length, every message of every queue keeps only signatures
that verify against its current signing bytes under the key stored with them, a validator and a key at most once. -/
theorem multi_chain_invariant_all_histories (ops : List MQOp) : MultiOk (mqrun ops).w := by
  unfold mqrun
  have : ∀ (s : MQState), MultiOk s.w → MultiOk (ops.foldl mqapply s).w := by
    induction ops with
    | nil => intro s h; exact h
    | cons op rest ih => intro s h; exact ih _ (multiOk_mqapply s op h)
  exact this {} (fun c q hq => by cases hq)

/-- **request_one_step_all_histories** (clause 1, one step of a history of several chains): across a `request` op of any
history, a new signature on a message of chain `c` carries the key registered for chain `c` in the state the request
ran in. -/
theorem request_one_step_all_histories (ops : List MQOp) (val : Nat) (es : List SigEntry)
    (h : (signRequest (mqrun ops).w val es).2 = .ok) :
    ∀ c q', queueOf (mqrun (ops ++ [.request val es])).w c = some q' → ∃ q, queueOf (mqrun ops).w c = some q ∧
      ∀ it' ∈ q', ∀ sg ∈ it'.sigs, (∃ it ∈ q, it.id = it'.id ∧ sg ∈ it.sigs) ∨
        (sg.val = val ∧ ∃ e ∈ es, e.chain = c ∧ e.id = it'.id ∧ sg.addr = e.addr ∧
          signingKeyOn c (mqrun ops).w.regs val e.addr = some sg.key) := by
  intro c q' hq'
  have hrun : (mqrun (ops ++ [.request val es])).w = (signRequest (mqrun ops).w val es).1 := by
    simp [mqrun, List.foldl_append, mqapply]
  rw [hrun] at hq'
  obtain ⟨q, hq, hs⟩ := (request_signature_under_own_chain_key _ val es h).2 c q' hq'
  refine ⟨q, hq, ?_⟩
  intro it' hit' sg hsg
  rcases hs it' hit' sg hsg with hold | ⟨e, he, h1, h2, h3, h4, _, _, _, hk, _⟩
  · exact Or.inl hold
  · exact Or.inr ⟨h3, e, he, h1, h2, h4, hk⟩

/-- validator 1 holds key 1 (address 4) on chain 0 and key 7 (address 28) on chain 1; validator 2 holds key 2 on both;
    message 1 sits in the queue of chain 0, message 2 in the queue of chain 1 -/
def twoQueues : List MQOp :=
  [.register 1 [⟨0, 4, 4, false⟩, ⟨1, 28, 28, false⟩], .register 2 [⟨0, 8, 8, false⟩, ⟨1, 8, 8, false⟩],
   .put 0 .slc 7 1 1 4 true, .put 1 .slc 7 1 1 4 true]

def demoBytesC1 : SignBytes := { demoBytes0 with id := 2 }

/-- non-vacuity and the refusal: behind a good chain-0 entry, validator 1's chain-0 account claimed for the chain-1
    message is refused (`noKey`) and NOTHING is stored — also not the good first entry; the same signature sent alone is
    refused likewise; with each entry under its own chain's account both are stored; validator 2 (one key everywhere)
    signs both messages in one request -/
example : (signRequest (mqrun twoQueues).w 1 [⟨0, 1, 4, 1, demoBytes0, .canonical⟩, ⟨1, 2, 4, 1, demoBytesC1, .canonical⟩]).2 = .noKey ∧
    ((queueOf (signRequest (mqrun twoQueues).w 1 [⟨0, 1, 4, 1, demoBytes0, .canonical⟩, ⟨1, 2, 4, 1, demoBytesC1, .canonical⟩]).1 0).getD []).map (·.sigs.length) = [0] ∧
    (signRequest (mqrun twoQueues).w 1 [⟨1, 2, 4, 1, demoBytesC1, .canonical⟩]).2 = .noKey ∧
    (signRequest (mqrun twoQueues).w 1 [⟨0, 1, 4, 1, demoBytes0, .canonical⟩, ⟨1, 2, 28, 7, demoBytesC1, .canonical⟩]).2 = .ok ∧
    (signRequest (mqrun twoQueues).w 2 [⟨0, 1, 8, 2, demoBytes0, .canonical⟩, ⟨1, 2, 8, 2, demoBytesC1, .canonical⟩]).2 = .ok := by decide

example : ((queueOf (mqrun (twoQueues ++ [.request 1 [⟨0, 1, 4, 1, demoBytes0, .canonical⟩, ⟨1, 2, 28, 7, demoBytesC1, .canonical⟩],
      .request 2 [⟨1, 2, 8, 2, demoBytesC1, .canonical⟩, ⟨0, 1, 8, 2, demoBytes0, .canonical⟩]])).w 1).getD []).map
      (fun it => (it.id, bytesOf it, it.sigs.map fun g => (g.val, g.addr, g.key))) = [(2, demoBytesC1, [(1, 28, 28), (2, 8, 8)])] := by decide

/-- all or nothing: a bad last entry (signature over other bytes) discards the good first one; the same message twice
    in one request is a duplicate -/
example : (signRequest (mqrun twoQueues).w 2 [⟨0, 1, 8, 2, demoBytes0, .canonical⟩, ⟨1, 2, 8, 2, demoBytes0, .canonical⟩]).2 = .badSig ∧
    ((queueOf (signRequest (mqrun twoQueues).w 2 [⟨0, 1, 8, 2, demoBytes0, .canonical⟩, ⟨1, 2, 8, 2, demoBytes0, .canonical⟩]).1 0).getD []).map (·.sigs.length) = [0] ∧
    (signRequest (mqrun twoQueues).w 2 [⟨0, 1, 8, 2, demoBytes0, .canonical⟩, ⟨0, 1, 8, 2, demoBytes0, .canonical⟩]).2 = .dupKey := by decide

/-- **memoised_key_would_violate** (negation witness: why the key must be fetched per entry, for the entry's chain).  A
loop that remembers, within one request, the key fetched for a claimed address (`signRequestWith true`) accepts the
chain-1 entry under the CHAIN-0 key and stores it: message 2 of chain 1 then keeps a signature of validator 1 under
key 4, while the key validator 1 registered for chain 1 is 28.  The stored signature verifies and is unique — the
per-item invariant cannot see it; `request_signature_under_own_chain_key` is what rules it out. -/
example : (signRequestWith true (mqrun twoQueues).w 1 [⟨0, 1, 4, 1, demoBytes0, .canonical⟩, ⟨1, 2, 4, 1, demoBytesC1, .canonical⟩]).2 = .ok ∧
    ((queueOf (signRequestWith true (mqrun twoQueues).w 1 [⟨0, 1, 4, 1, demoBytes0, .canonical⟩, ⟨1, 2, 4, 1, demoBytesC1, .canonical⟩]).1 1).getD []).map
      (fun it => it.sigs.map fun g => (g.val, g.addr, g.key)) = [[(1, 4, 4)]] ∧
    signingKeyOn 1 (mqrun twoQueues).w.regs 1 4 = none ∧ signingKeyOn 1 (mqrun twoQueues).w.regs 1 28 = some 28 := by decide

/-- the one-queue model is the chain-0 instance: `GetSigningKey` for the target chain is `signingKey` -/
theorem signingKeyOn_targetChain (regs : List (Nat × List Account)) (val addr : Nat) :
    signingKeyOn targetChain regs val addr = signingKey regs val addr := rfl

/-- **singleton_request_is_sign** (the several-chains model extends the one-queue model conservatively): a request
with ONE entry for the queue of the target chain answers what `sign` answers and leaves that queue as `sign` leaves it. -/
theorem singleton_request_is_sign (s : State) (id val addr by_ : Nat) (for_ : SignBytes) (wr : Wire) :
    (signRequest ⟨s.regs, fun c => if c = targetChain then some s.queue else none⟩ val [⟨targetChain, id, addr, by_, for_, wr⟩]).2
        = (sign s id val addr by_ for_ wr).2 ∧
    queueOf (signRequest ⟨s.regs, fun c => if c = targetChain then some s.queue else none⟩ val [⟨targetChain, id, addr, by_, for_, wr⟩]).1 targetChain
        = some (sign s id val addr by_ for_ wr).1.queue := by
  unfold signRequest signRequestWith signLoop signLoop sign signWith keyFor storeSigned queueOf
  simp only [signingKeyOn_targetChain, if_true, Bool.false_eq_true, if_false]
  cases hk : signingKey s.regs val addr with
  | none => simp
  | some key =>
    cases hg : getItem s.queue id with
    | none => simp
    | some it =>
      cases hd : dupCheck it.sigs key val with
      | some r =>
        have hr : r ≠ .ok := fun e => dupCheck_ne_ok _ _ _ (e ▸ hd)
        simp [hd, hr]
      | none =>
        by_cases hv : verifies wr key by_ for_ (bytesOf it) = true
        · simp [hd, hv, setQueue]
        · simp [hd, hv]

end Paloma.Queue
