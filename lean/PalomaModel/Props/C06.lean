/-
C06 — signatures kept with queued cross-chain messages and bridge batches.

"At every block boundary each signature kept with a queued cross-chain message or bridge batch
verifies against that item's current signing bytes under the external-chain key its validator had
registered for that chain when it signed, and a validator or key appears at most once per item.
Whenever something covered by the signing bytes changes (elected gas estimate, computed fees,
relayer) previously collected signatures are discarded rather than carried over."

Model: `PalomaModel/Model/Queue.lean`.  The invariant is proved for every state reachable by any
sequence of `Op`s (enqueue with and without relayer pick, sign with arbitrary claimed address /
signing key / signed bytes, estimate submission, end-block election with fee attachment, delivery
and error reports, evidence, removal, arbitrary environment changes, key (re-)registration, batch
creation / confirmation / gas re-issue), hence in particular at every block boundary.
-/
import PalomaModel.Model.Queue

namespace Paloma.Queue
open List

/-- a stored signature verifies against the item's *current* signing bytes under the key stored with it -/
def SigOk (it : Item) (sg : Sig) : Prop := verifies sg.wire sg.key sg.by_ sg.for_ (bytesOf it) = true

/-- per-item part of the invariant -/
def ItemOk (it : Item) : Prop :=
  (∀ sg ∈ it.sigs, SigOk it sg) ∧ (it.sigs.map (·.val)).Nodup ∧ (it.sigs.map (·.key)).Nodup

/-- a stored batch confirmation verifies against the batch's current checkpoint under the address stored with it -/
def ConfOk (b : Batch) (c : BConfirm) : Prop := c.by_ = canon c.addr ∧ c.for_ = bbytes b ∧ c.wire.bridge = true

def BatchOk (b : Batch) : Prop :=
  (∀ c ∈ b.confirms, ConfOk b c) ∧ (b.confirms.map (·.val)).Nodup ∧ (b.confirms.map (fun c => canon c.addr)).Nodup

/-- ids in the queue are strictly increasing and never exceed the id counter -/
def Sorted (q : List Item) (n : Nat) : Prop := q.Pairwise (fun a b => a.id < b.id) ∧ ∀ it ∈ q, it.id ≤ n

def Inv (s : State) : Prop :=
  (∀ it ∈ s.queue, ItemOk it) ∧ (∀ b ∈ s.batches, BatchOk b) ∧ Sorted s.queue s.nextId

section Lemmas

theorem verifies_iff (w : Wire) (key by_ : Nat) (f c : SignBytes) :
    verifies w key by_ f c = true ↔ w.strict = true ∧ key % 4 = 0 ∧ by_ = canon key ∧ f = c := by
  unfold verifies
  simp [and_assoc]

theorem getItem_mem {q : List Item} {id : Nat} {it : Item} (h : getItem q id = some it) : it ∈ q ∧ it.id = id := by
  unfold getItem at h
  exact ⟨List.mem_of_find?_eq_some h, by simpa using List.find?_some h⟩

theorem mem_setItem {q : List Item} {x y : Item} (h : y ∈ setItem q x) :
    (y ∈ q ∧ y.id ≠ x.id) ∨ (y = x ∧ ∃ z ∈ q, z.id = x.id) := by
  unfold setItem at h
  obtain ⟨z, hz, hzy⟩ := List.mem_map.mp h
  by_cases hid : z.id = x.id
  · simp [hid] at hzy
    exact Or.inr ⟨hzy.symm, z, hz, hid⟩
  · simp [hid] at hzy
    subst hzy
    exact Or.inl ⟨hz, hid⟩

theorem pairwise_setItem {q : List Item} {x : Item} (h : q.Pairwise (fun a b => a.id < b.id)) :
    (setItem q x).Pairwise (fun a b => a.id < b.id) := by
  unfold setItem
  rw [List.pairwise_map]
  refine h.imp ?_
  intro a b hab
  by_cases ha : a.id = x.id <;> by_cases hb : b.id = x.id <;> simp [ha, hb] <;> omega

theorem sorted_setItem {q : List Item} {n : Nat} {x : Item} (h : Sorted q n) (hx : ∃ z ∈ q, z.id = x.id) :
    Sorted (setItem q x) n := by
  refine ⟨pairwise_setItem h.1, ?_⟩
  intro y hy
  rcases mem_setItem hy with ⟨hq, _⟩ | ⟨rfl, _⟩
  · exact h.2 y hq
  · obtain ⟨z, hz, hzx⟩ := hx
    rw [← hzx]; exact h.2 z hz

theorem uniq_id_aux : ∀ (q : List Item), q.Pairwise (fun a b => a.id < b.id) →
    ∀ a ∈ q, ∀ b ∈ q, a.id = b.id → a = b
  | [], _, a, ha, _, _, _ => by cases ha
  | x :: xs, h, a, ha, b, hb, hab => by
    obtain ⟨hx, hxs⟩ := List.pairwise_cons.mp h
    rcases List.mem_cons.mp ha with rfl | ha' <;> rcases List.mem_cons.mp hb with rfl | hb'
    · rfl
    · have := hx b hb'; omega
    · have := hx a ha'; omega
    · exact uniq_id_aux xs hxs a ha' b hb' hab

theorem uniq_id {q : List Item} {n : Nat} (h : Sorted q n) {a b : Item} (ha : a ∈ q) (hb : b ∈ q)
    (hab : a.id = b.id) : a = b := uniq_id_aux q h.1 a ha b hb hab

/-- the duplicate loop lets a signature through only if neither its key nor its validator is stored -/
theorem dupCheck_none {sigs : List Sig} {key val : Nat} (h : dupCheck sigs key val = none) :
    key ∉ sigs.map (·.key) ∧ val ∉ sigs.map (·.val) := by
  induction sigs with
  | nil => simp
  | cons s rest ih =>
    unfold dupCheck at h
    split at h
    · cases h
    · split at h
      · cases h
      · rename_i hk hv
        obtain ⟨h1, h2⟩ := ih h
        simp only [List.map_cons, List.mem_cons, not_or]
        exact ⟨⟨fun e => hk (by simp [e]), h1⟩, ⟨fun e => hv (by simp [e]), h2⟩⟩

theorem nodup_append_singleton {α} {l : List α} {x : α} (h : l.Nodup) (hx : x ∉ l) : (l ++ [x]).Nodup := by
  rw [List.nodup_append]
  refine ⟨h, by simp, ?_⟩
  intro a ha b hb
  simp only [List.mem_singleton] at hb
  subst hb
  intro e
  subst e
  exact hx ha

/-- adding a verified, non-duplicate signature keeps the item invariant -/
theorem itemOk_addSig {it : Item} {sg : Sig} (h : ItemOk it) (hv : verifies sg.wire sg.key sg.by_ sg.for_ (bytesOf it) = true)
    (hd : dupCheck it.sigs sg.key sg.val = none) : ItemOk (addSig it sg) := by
  obtain ⟨h1, h2, h3⟩ := h
  obtain ⟨d1, d2⟩ := dupCheck_none hd
  have hb : bytesOf (addSig it sg) = bytesOf it := rfl
  refine ⟨?_, ?_, ?_⟩
  · intro g hg
    unfold SigOk
    rw [hb]
    simp only [addSig, List.mem_append, List.mem_singleton] at hg
    rcases hg with hg | rfl
    · exact h1 g hg
    · exact hv
  · simp only [addSig, List.map_append, List.map_cons, List.map_nil]
    exact nodup_append_singleton h2 d2
  · simp only [addSig, List.map_append, List.map_cons, List.map_nil]
    exact nodup_append_singleton h3 d1

/-- a change that touches neither the signatures nor anything the signing bytes depend on -/
theorem itemOk_congr {it it' : Item} (h : ItemOk it) (hs : it'.sigs = it.sigs) (hb : bytesOf it' = bytesOf it) :
    ItemOk it' := by
  unfold ItemOk SigOk at *
  rw [hs, hb]
  exact h

theorem itemOk_nosigs {it : Item} (h : it.sigs = []) : ItemOk it := by
  unfold ItemOk
  rw [h]
  simp

/-- what the end-block election does to one item: nothing, or election with all signatures dropped -/
theorem electOne_cases (env : Env) (snap : Snap) (it : Item) :
    electOne env snap it = it ∨ ((electOne env snap it).sigs = [] ∧ (electOne env snap it).id = it.id) := by
  unfold electOne
  split
  · exact Or.inl rfl
  · split
    · exact Or.inl rfl
    · split
      · exact Or.inl rfl
      · split
        · exact Or.inl rfl
        · exact Or.inl rfl
        · split
          · split
            · exact Or.inr ⟨rfl, rfl⟩
            · exact Or.inl rfl
          · exact Or.inr ⟨rfl, rfl⟩

theorem electOne_id (env : Env) (snap : Snap) (it : Item) : (electOne env snap it).id = it.id := by
  rcases electOne_cases env snap it with h | h
  · rw [h]
  · exact h.2

theorem sorted_map_electOne {q : List Item} {n : Nat} (env : Env) (snap : Snap) (h : Sorted q n) :
    Sorted (q.map (electOne env snap)) n := by
  constructor
  · rw [List.pairwise_map]
    refine h.1.imp ?_
    intro a b hab
    rw [electOne_id, electOne_id]; exact hab
  · intro y hy
    obtain ⟨z, hz, rfl⟩ := List.mem_map.mp hy
    rw [electOne_id]; exact h.2 z hz

theorem inv_setItem {s : State} {it x : Item} {id : Nat} (h : Inv s) (hg : getItem s.queue id = some it)
    (hid : x.id = it.id) (hx : ItemOk x) : Inv { s with queue := setItem s.queue x } := by
  obtain ⟨hq, hb, hs⟩ := h
  obtain ⟨hmem, _⟩ := getItem_mem hg
  refine ⟨?_, hb, sorted_setItem hs ⟨it, hmem, hid.symm⟩⟩
  intro y hy
  rcases mem_setItem hy with ⟨hyq, _⟩ | ⟨rfl, _⟩
  · exact hq y hyq
  · exact hx

theorem getBatch_mem {bs : List Batch} {n : Nat} {b : Batch} (h : getBatch bs n = some b) : b ∈ bs := by
  unfold getBatch at h
  exact List.mem_of_find?_eq_some h

theorem mem_setBatch {bs : List Batch} {x y : Batch} (h : y ∈ setBatch bs x) : y ∈ bs ∨ y = x := by
  unfold setBatch at h
  obtain ⟨z, hz, hzy⟩ := List.mem_map.mp h
  by_cases hid : z.nonce = x.nonce
  · simp [hid] at hzy
    exact Or.inr hzy.symm
  · simp [hid] at hzy
    subst hzy
    exact Or.inl hz

theorem inv_setBatch {s : State} {x : Batch} (h : Inv s) (hx : BatchOk x) : Inv { s with batches := setBatch s.batches x } := by
  obtain ⟨hq, hb, hs⟩ := h
  refine ⟨hq, ?_, hs⟩
  intro y hy
  rcases mem_setBatch hy with hy | rfl
  · exact hb y hy
  · exact hx

/-! #### every operation preserves the invariant -/

theorem inv_sign (s : State) (id val addr by_ : Nat) (for_ : SignBytes) (w : Wire) (h : Inv s) : Inv (sign s id val addr by_ for_ w).1 := by
  unfold sign signWith
  split
  · exact h
  · rename_i key _
    split
    · exact h
    · rename_i it hg
      split
      · exact h
      · rename_i hd
        split
        · rename_i hv
          have hok := h.1 it (getItem_mem hg).1
          exact inv_setItem h hg rfl (itemOk_addSig (sg := ⟨val, addr, key, by_, for_, w⟩) hok hv hd)
        · exact h

theorem inv_addEstimate (s : State) (id val value : Nat) (h : Inv s) : Inv (addEstimate s id val value).1 := by
  unfold addEstimate
  split
  · exact h
  · rename_i it hg
    split
    · exact h
    · split
      · exact h
      · split
        · exact h
        · exact inv_setItem h hg rfl (itemOk_congr (h.1 it (getItem_mem hg).1) rfl rfl)

theorem inv_endBlock (s : State) (h : Inv s) : Inv (endBlock s).1 := by
  unfold endBlock
  split
  · exact h
  · rename_i snap _
    obtain ⟨hq, hb, hs⟩ := h
    refine ⟨?_, hb, sorted_map_electOne s.env snap hs⟩
    intro y hy
    obtain ⟨z, hz, rfl⟩ := List.mem_map.mp hy
    rcases electOne_cases s.env snap z with he | he
    · rw [he]; exact hq z hz
    · exact itemOk_nosigs he.1

theorem inv_setPublic (s : State) (id : Nat) (h : Inv s) : Inv (setPublic s id).1 := by
  unfold setPublic
  split
  · exact h
  · rename_i it hg
    split
    · exact h
    · exact inv_setItem h hg rfl (itemOk_congr (h.1 it (getItem_mem hg).1) rfl rfl)

theorem inv_setError (s : State) (id : Nat) (h : Inv s) : Inv (setError s id).1 := by
  unfold setError
  split
  · exact h
  · rename_i it hg
    split
    · exact h
    · exact inv_setItem h hg rfl (itemOk_congr (h.1 it (getItem_mem hg).1) rfl rfl)

theorem inv_addEv (s : State) (id val hsh : Nat) (h : Inv s) : Inv (addEv s id val hsh).1 := by
  unfold addEv
  split
  · exact h
  · rename_i it hg
    exact inv_setItem h hg rfl (itemOk_congr (h.1 it (getItem_mem hg).1) rfl rfl)

theorem inv_remove (s : State) (id : Nat) (h : Inv s) : Inv (remove s id).1 := by
  unfold remove
  split
  · exact h
  · obtain ⟨hq, hb, hs⟩ := h
    refine ⟨?_, hb, ?_, ?_⟩
    · intro y hy; exact hq y (List.mem_filter.mp hy).1
    · exact hs.1.sublist List.filter_sublist
    · intro y hy; exact hs.2 y (List.mem_filter.mp hy).1

theorem inv_put (s : State) (k : Kind) (c sd a r : Nat) (q : Bool) (h : Inv s) : Inv (put s k c sd a r q).1 := by
  obtain ⟨hq, hb, hs⟩ := h
  unfold put
  refine ⟨?_, hb, ?_, ?_⟩
  · intro y hy
    simp only [List.mem_append, List.mem_singleton] at hy
    rcases hy with hy | rfl
    · exact hq y hy
    · exact itemOk_nosigs rfl
  · simp only
    rw [List.pairwise_append]
    refine ⟨hs.1, by simp, ?_⟩
    intro a ha b hb'
    simp only [List.mem_singleton] at hb'
    subst hb'
    have := hs.2 a ha
    simp only
    omega
  · intro y hy
    simp only [List.mem_append, List.mem_singleton] at hy
    rcases hy with hy | rfl
    · have := hs.2 y hy
      simp only
      omega
    · simp

theorem inv_enqueue (s : State) (k : Kind) (c sd : Nat) (m : Bool) (t : Nat) (h : Inv s) : Inv (enqueue s k c sd m t).1 := by
  unfold enqueue
  split
  · exact h
  · exact inv_put s k c sd _ _ true h

theorem inv_register (s : State) (v : Nat) (a : List Account) (h : Inv s) : Inv (register s v a).1 := by
  unfold register
  split
  · exact h
  · exact h

theorem inv_putBatch (s : State) (n c r : Nat) (h : Inv s) : Inv (putBatch s n c r) := by
  obtain ⟨hq, hb, hs⟩ := h
  refine ⟨hq, ?_, hs⟩
  intro y hy
  simp only [putBatch, List.mem_append, List.mem_singleton] at hy
  rcases hy with hy | rfl
  · exact hb y hy
  · exact ⟨by simp, by simp, by simp⟩

theorem inv_confirm (s : State) (n v a by_ : Nat) (f : BBytes) (w : Wire) (h : Inv s) : Inv (confirm s n v a by_ f w).1 := by
  unfold confirm confirmWith
  split
  · exact h
  · rename_i b hg
    split
    · exact h
    · rename_i ra _
      split
      · exact h
      · rename_i hcan
        split
        · exact h
        · rename_i hver
          split
          · exact h
          · rename_i hdup
            split
            · exact h
            · rename_i hkey
              obtain ⟨hb1, hb2, hb3⟩ := h.2.1 b (getBatch_mem hg)
              refine inv_setBatch h ⟨?_, ?_, ?_⟩
              · intro c hc
                simp only [addConfirm, List.mem_append, List.mem_singleton] at hc
                rcases hc with hc | rfl
                · exact hb1 c hc
                · simp only [Bool.not_eq_true', Bool.not_eq_false, Bool.and_eq_true, beq_iff_eq] at hver
                  simp only [bne_iff_ne, ne_eq, Decidable.not_not] at hcan
                  exact ⟨by rw [hver.1.2, hcan], hver.2, hver.1.1⟩
              · simp only [addConfirm, List.map_append, List.map_cons, List.map_nil]
                refine nodup_append_singleton hb2 ?_
                intro hm
                obtain ⟨c, hc, hcv⟩ := List.mem_map.mp hm
                apply hdup
                exact List.any_eq_true.mpr ⟨c, hc, by simp [hcv]⟩
              · simp only [addConfirm, List.map_append, List.map_cons, List.map_nil]
                refine nodup_append_singleton hb3 ?_
                intro hm
                obtain ⟨c, hc, hcv⟩ := List.mem_map.mp hm
                apply hkey
                simp only [Bool.true_and]
                exact List.any_eq_true.mpr ⟨c, hc, by simp [hcv]⟩

theorem inv_updateBatchGas (s : State) (n g : Nat) (h : Inv s) : Inv (updateBatchGas s n g).1 := by
  unfold updateBatchGas
  split
  · exact h
  · split
    · exact h
    · exact inv_setBatch h ⟨by simp, by simp, by simp⟩

theorem inv_apply (s : State) (op : Op) (h : Inv s) : Inv (apply s op) := by
  cases op with
  | setEnv e => exact h
  | register v a => exact inv_register s v a h
  | put k c sd a r q => exact inv_put s k c sd a r q h
  | enqueue k c sd m t => exact inv_enqueue s k c sd m t h
  | sign id v a b f w => exact inv_sign s id v a b f w h
  | addEstimate id v x => exact inv_addEstimate s id v x h
  | endBlock => exact inv_endBlock s h
  | setPublic id => exact inv_setPublic s id h
  | setError id => exact inv_setError s id h
  | addEvidence id v hh => exact inv_addEv s id v hh h
  | remove id => exact inv_remove s id h
  | putBatch n c r => exact inv_putBatch s n c r h
  | confirm n v a b f w => exact inv_confirm s n v a b f w h
  | updateBatchGas n g => exact inv_updateBatchGas s n g h

theorem inv_foldl (ops : List Op) : ∀ s, Inv s → Inv (ops.foldl apply s) := by
  induction ops with
  | nil => intro s h; exact h
  | cons op rest ih => intro s h; exact ih _ (inv_apply s op h)

theorem inv_init : Inv {} := ⟨by simp, by simp, by simp, by simp⟩

/-! #### how one operation transforms one item -/

theorem setItem_same_id {s : State} {id : Nat} {y x it it' : Item} (h : Inv s) (hg : getItem s.queue id = some y)
    (hx : x.id = y.id) (hit : it ∈ s.queue) (hit' : it' ∈ setItem s.queue x) (hid : it'.id = it.id) :
    it' = it ∨ (it' = x ∧ it = y) := by
  rcases mem_setItem hit' with ⟨hq, _⟩ | ⟨rfl, _⟩
  · exact Or.inl (uniq_id h.2.2 hq hit hid)
  · exact Or.inr ⟨rfl, uniq_id h.2.2 hit (getItem_mem hg).1 (by rw [← hid, hx])⟩

/-- Relation between an item before and after one operation: untouched; changed without touching
the signatures or the signing bytes; all signatures dropped; or one verified signature appended. -/
def Trans (it it' : Item) : Prop :=
  it' = it ∨ (it'.sigs = it.sigs ∧ bytesOf it' = bytesOf it) ∨ it'.sigs = [] ∨
    (∃ sg, it' = addSig it sg)

theorem step_item (s : State) (h : Inv s) (op : Op) (it it' : Item) (hit : it ∈ s.queue)
    (hit' : it' ∈ (apply s op).queue) (hid : it'.id = it.id) : Trans it it' := by
  have same : ∀ {q : List Item}, q = s.queue → it' ∈ q → Trans it it' := by
    intro q hq hm
    subst hq
    exact Or.inl (uniq_id h.2.2 hm hit hid)
  have viaSet : ∀ {id : Nat} {y x : Item}, getItem s.queue id = some y →
      it' ∈ setItem s.queue x → x.id = y.id → Trans y x → Trans it it' := by
    intro id y x hg hm hx ht
    rcases setItem_same_id h hg hx hit hm hid with rfl | ⟨rfl, rfl⟩
    · exact Or.inl rfl
    · exact ht
  cases op with
  | setEnv e => exact same rfl hit'
  | register v a =>
    simp only [apply, register] at hit'
    split at hit' <;> exact same rfl hit'
  | put k c sd a r q =>
    simp only [apply, put, List.mem_append, List.mem_singleton] at hit'
    rcases hit' with hm | rfl
    · exact same rfl hm
    · exact Or.inr (Or.inr (Or.inl rfl))
  | enqueue k c sd m t =>
    simp only [apply, enqueue] at hit'
    split at hit'
    · exact same rfl hit'
    · simp only [put, List.mem_append, List.mem_singleton] at hit'
      rcases hit' with hm | rfl
      · exact same rfl hm
      · exact Or.inr (Or.inr (Or.inl rfl))
  | sign id v a b f w =>
    simp only [apply, sign, signWith] at hit'
    split at hit'
    · exact same rfl hit'
    · split at hit'
      · exact same rfl hit'
      · rename_i y hg
        split at hit'
        · exact same rfl hit'
        · split at hit'
          · exact viaSet hg hit' rfl (Or.inr (Or.inr (Or.inr ⟨_, rfl⟩)))
          · exact same rfl hit'
  | addEstimate id v x =>
    simp only [apply, addEstimate] at hit'
    split at hit'
    · exact same rfl hit'
    · rename_i y hg
      split at hit'
      · exact same rfl hit'
      · split at hit'
        · exact same rfl hit'
        · split at hit'
          · exact same rfl hit'
          · exact viaSet hg hit' rfl (Or.inr (Or.inl ⟨rfl, rfl⟩))
  | endBlock =>
    simp only [apply, endBlock] at hit'
    split at hit'
    · exact same rfl hit'
    · rename_i snap _
      obtain ⟨z, hz, rfl⟩ := List.mem_map.mp hit'
      rw [electOne_id] at hid
      have hzi : z = it := uniq_id h.2.2 hz hit hid
      subst hzi
      rcases electOne_cases s.env snap z with he | he
      · exact Or.inl he
      · exact Or.inr (Or.inr (Or.inl he.1))
  | setPublic id =>
    simp only [apply, setPublic] at hit'
    split at hit'
    · exact same rfl hit'
    · rename_i y hg
      split at hit'
      · exact same rfl hit'
      · exact viaSet hg hit' rfl (Or.inr (Or.inl ⟨rfl, rfl⟩))
  | setError id =>
    simp only [apply, setError] at hit'
    split at hit'
    · exact same rfl hit'
    · rename_i y hg
      split at hit'
      · exact same rfl hit'
      · exact viaSet hg hit' rfl (Or.inr (Or.inl ⟨rfl, rfl⟩))
  | addEvidence id v hh =>
    simp only [apply, addEv] at hit'
    split at hit'
    · exact same rfl hit'
    · rename_i y hg
      exact viaSet hg hit' rfl (Or.inr (Or.inl ⟨rfl, rfl⟩))
  | remove id =>
    simp only [apply, remove] at hit'
    split at hit'
    · exact same rfl hit'
    · exact same rfl (List.mem_filter.mp hit').1
  | putBatch n c r => exact same rfl hit'
  | confirm n v a b f w =>
    simp only [apply, confirm, confirmWith] at hit'
    split at hit'
    · exact same rfl hit'
    · split at hit'
      · exact same rfl hit'
      · split at hit'
        · exact same rfl hit'
        · split at hit'
          · exact same rfl hit'
          · split at hit'
            · exact same rfl hit'
            · split at hit' <;> exact same rfl hit'
  | updateBatchGas n g =>
    simp only [apply, updateBatchGas] at hit'
    split at hit'
    · exact same rfl hit'
    · split at hit' <;> exact same rfl hit'

/-! #### where stored signatures come from -/

theorem signingKey_mem {regs : List (Nat × List Account)} {val addr key : Nat} (h : signingKey regs val addr = some key) :
    ∃ r ∈ regs, ∃ a ∈ r.2, r.1 = val ∧ a.chain = targetChain ∧ a.addr = addr ∧ a.raw = key := by
  unfold signingKey at h
  split at h
  · cases h
  · rename_i accts hacc
    unfold assoc? at hacc
    cases hf : regs.find? (fun p => p.1 == val) with
    | none => simp [hf] at hacc
    | some r =>
      simp only [hf, Option.map_some, Option.some.injEq] at hacc
      cases hfa : accts.find? (fun a => a.chain == targetChain && a.addr == addr) with
      | none => simp [hfa] at h
      | some a =>
        simp only [hfa, Option.map_some, Option.some.injEq] at h
        have hp := List.find?_some hfa
        simp only [Bool.and_eq_true, beq_iff_eq] at hp
        refine ⟨r, List.mem_of_find?_eq_some hf, a, ?_, by simpa using List.find?_some hf, hp.1, hp.2, h⟩
        rw [hacc]; exact List.mem_of_find?_eq_some hfa

/-- every signature stored after an operation was stored before it on the same item, or the
operation is the `sign` that added it — with the key `GetSigningKey` returned in the pre-state -/
theorem step_sigs (s : State) (op : Op) (it' : Item) (hit' : it' ∈ (apply s op).queue) (sg : Sig) (hsg : sg ∈ it'.sigs) :
    (∃ it ∈ s.queue, it.id = it'.id ∧ sg ∈ it.sigs) ∨
      (∃ id, op = .sign id sg.val sg.addr sg.by_ sg.for_ sg.wire ∧ it'.id = id ∧ signingKey s.regs sg.val sg.addr = some sg.key) := by
  have same : ∀ {q : List Item}, q = s.queue → it' ∈ q →
      (∃ it ∈ s.queue, it.id = it'.id ∧ sg ∈ it.sigs) := by
    intro q hq hm; subst hq; exact ⟨it', hm, rfl, hsg⟩
  have viaSet : ∀ {id : Nat} {y x : Item}, getItem s.queue id = some y →
      it' ∈ setItem s.queue x → x.id = y.id → x.sigs = y.sigs → (∃ it ∈ s.queue, it.id = it'.id ∧ sg ∈ it.sigs) := by
    intro id y x hg hm hx hs
    rcases mem_setItem hm with ⟨hq, _⟩ | ⟨rfl, _⟩
    · exact ⟨it', hq, rfl, hsg⟩
    · exact ⟨y, (getItem_mem hg).1, hx.symm, by rw [← hs]; exact hsg⟩
  cases op with
  | setEnv e => exact Or.inl (same rfl hit')
  | register v a =>
    simp only [apply, register] at hit'
    split at hit' <;> exact Or.inl (same rfl hit')
  | put k c sd a r q =>
    simp only [apply, put, List.mem_append, List.mem_singleton] at hit'
    rcases hit' with hm | rfl
    · exact Or.inl (same rfl hm)
    · simp at hsg
  | enqueue k c sd m t =>
    simp only [apply, enqueue] at hit'
    split at hit'
    · exact Or.inl (same rfl hit')
    · simp only [put, List.mem_append, List.mem_singleton] at hit'
      rcases hit' with hm | rfl
      · exact Or.inl (same rfl hm)
      · simp at hsg
  | sign id v a b f w =>
    simp only [apply, sign, signWith] at hit'
    split at hit'
    · exact Or.inl (same rfl hit')
    · rename_i key hkey
      split at hit'
      · exact Or.inl (same rfl hit')
      · rename_i y hg
        split at hit'
        · exact Or.inl (same rfl hit')
        · split at hit'
          · rcases mem_setItem hit' with ⟨hq, _⟩ | ⟨rfl, _⟩
            · exact Or.inl ⟨it', hq, rfl, hsg⟩
            · simp only [addSig, List.mem_append, List.mem_singleton] at hsg
              rcases hsg with hsg | rfl
              · exact Or.inl ⟨y, (getItem_mem hg).1, rfl, hsg⟩
              · exact Or.inr ⟨id, rfl, (getItem_mem hg).2, hkey⟩
          · exact Or.inl (same rfl hit')
  | addEstimate id v x =>
    simp only [apply, addEstimate] at hit'
    split at hit'
    · exact Or.inl (same rfl hit')
    · rename_i y hg
      split at hit'
      · exact Or.inl (same rfl hit')
      · split at hit'
        · exact Or.inl (same rfl hit')
        · split at hit'
          · exact Or.inl (same rfl hit')
          · exact Or.inl (viaSet hg hit' rfl rfl)
  | endBlock =>
    simp only [apply, endBlock] at hit'
    split at hit'
    · exact Or.inl (same rfl hit')
    · rename_i snap _
      obtain ⟨z, hz, rfl⟩ := List.mem_map.mp hit'
      rcases electOne_cases s.env snap z with he | he
      · rw [he] at hsg ⊢; exact Or.inl ⟨z, hz, rfl, hsg⟩
      · rw [he.1] at hsg; cases hsg
  | setPublic id =>
    simp only [apply, setPublic] at hit'
    split at hit'
    · exact Or.inl (same rfl hit')
    · rename_i y hg
      split at hit'
      · exact Or.inl (same rfl hit')
      · exact Or.inl (viaSet hg hit' rfl rfl)
  | setError id =>
    simp only [apply, setError] at hit'
    split at hit'
    · exact Or.inl (same rfl hit')
    · rename_i y hg
      split at hit'
      · exact Or.inl (same rfl hit')
      · exact Or.inl (viaSet hg hit' rfl rfl)
  | addEvidence id v hh =>
    simp only [apply, addEv] at hit'
    split at hit'
    · exact Or.inl (same rfl hit')
    · rename_i y hg
      exact Or.inl (viaSet hg hit' rfl rfl)
  | remove id =>
    simp only [apply, remove] at hit'
    split at hit'
    · exact Or.inl (same rfl hit')
    · exact Or.inl (same rfl (List.mem_filter.mp hit').1)
  | putBatch n c r => exact Or.inl (same rfl hit')
  | confirm n v a b f w =>
    simp only [apply, confirm, confirmWith] at hit'
    split at hit'
    · exact Or.inl (same rfl hit')
    · split at hit'
      · exact Or.inl (same rfl hit')
      · split at hit'
        · exact Or.inl (same rfl hit')
        · split at hit'
          · exact Or.inl (same rfl hit')
          · split at hit'
            · exact Or.inl (same rfl hit')
            · split at hit' <;> exact Or.inl (same rfl hit')
  | updateBatchGas n g =>
    simp only [apply, updateBatchGas] at hit'
    split at hit'
    · exact Or.inl (same rfl hit')
    · split at hit' <;> exact Or.inl (same rfl hit')

/-! #### accounts -/

theorem nodup_map_canon {l : List Nat} (h : l.Nodup) (hc : ∀ x ∈ l, x % 4 = 0) : (l.map canon).Nodup := by
  induction l with
  | nil => simp
  | cons x xs ih =>
    obtain ⟨hx, hxs⟩ := List.nodup_cons.mp h
    simp only [List.map_cons]
    refine List.nodup_cons.mpr ⟨?_, ih hxs (fun y hy => hc y (List.mem_cons_of_mem _ hy))⟩
    intro hm
    obtain ⟨y, hy, hyx⟩ := List.mem_map.mp hm
    have h1 := hc x (by simp)
    have h2 := hc y (List.mem_cons_of_mem _ hy)
    unfold canon at hyx
    have : y = x := by omega
    subst this
    exact hx hy

/-- what one operation does to the list of batches -/
theorem step_batches (s : State) (op : Op) (b' : Batch) (hb' : b' ∈ (apply s op).batches) :
    b' ∈ s.batches ∨ b'.confirms = [] ∨ ∃ b ∈ s.batches, ∃ c, b' = addConfirm b c := by
  have keep : ∀ {l : List Batch}, l = s.batches → b' ∈ l → b' ∈ s.batches ∨ b'.confirms = [] ∨ ∃ b ∈ s.batches, ∃ c, b' = addConfirm b c := by
    intro l hl hm; subst hl; exact Or.inl hm
  cases op with
  | setEnv e => exact keep rfl hb'
  | register v a =>
    simp only [apply, register] at hb'
    split at hb' <;> exact keep rfl hb'
  | put k c sd a r q => exact keep rfl hb'
  | enqueue k c sd m t =>
    simp only [apply, enqueue] at hb'
    split at hb' <;> exact keep rfl hb'
  | sign id v a b f w =>
    simp only [apply, sign, signWith] at hb'
    split at hb'
    · exact keep rfl hb'
    · split at hb'
      · exact keep rfl hb'
      · split at hb'
        · exact keep rfl hb'
        · split at hb' <;> exact keep rfl hb'
  | addEstimate id v x =>
    simp only [apply, addEstimate] at hb'
    split at hb'
    · exact keep rfl hb'
    · split at hb'
      · exact keep rfl hb'
      · split at hb'
        · exact keep rfl hb'
        · split at hb' <;> exact keep rfl hb'
  | endBlock =>
    simp only [apply, endBlock] at hb'
    split at hb' <;> exact keep rfl hb'
  | setPublic id =>
    simp only [apply, setPublic] at hb'
    split at hb'
    · exact keep rfl hb'
    · split at hb' <;> exact keep rfl hb'
  | setError id =>
    simp only [apply, setError] at hb'
    split at hb'
    · exact keep rfl hb'
    · split at hb' <;> exact keep rfl hb'
  | addEvidence id v hh =>
    simp only [apply, addEv] at hb'
    split at hb' <;> exact keep rfl hb'
  | remove id =>
    simp only [apply, remove] at hb'
    split at hb' <;> exact keep rfl hb'
  | putBatch n c r =>
    simp only [apply, putBatch, List.mem_append, List.mem_singleton] at hb'
    rcases hb' with hm | rfl
    · exact Or.inl hm
    · exact Or.inr (Or.inl rfl)
  | confirm n v a b f w =>
    simp only [apply, confirm, confirmWith] at hb'
    split at hb'
    · exact keep rfl hb'
    · rename_i b0 hg
      split at hb'
      · exact keep rfl hb'
      · split at hb'
        · exact keep rfl hb'
        · split at hb'
          · exact keep rfl hb'
          · split at hb'
            · exact keep rfl hb'
            · split at hb'
              · exact keep rfl hb'
              · rcases mem_setBatch hb' with hm | rfl
                · exact Or.inl hm
                · exact Or.inr (Or.inr ⟨b0, getBatch_mem hg, _, rfl⟩)
  | updateBatchGas n g =>
    simp only [apply, updateBatchGas] at hb'
    split at hb'
    · exact keep rfl hb'
    · split at hb'
      · exact keep rfl hb'
      · rcases mem_setBatch hb' with hm | rfl
        · exact Or.inl hm
        · exact Or.inr (Or.inl rfl)

end Lemmas

/-! ## Property theorems -/

/-- **invariant_all_histories.** The invariant — every stored signature / batch confirmation
verifies against the item's current signing bytes under the key stored with it, validators and
key byte strings are unique per item, validators are unique per batch, ids are strictly increasing —
holds after every finite sequence of operations from the empty state. -/
theorem invariant_all_histories (ops : List Op) : Inv (run ops) := inv_foldl ops {} inv_init

/-- **stored_signatures_verify** (clause 1, messages).  In every reachable state each signature kept
with a queued message was made for exactly the message's *current* signing bytes, by the eth account
denoted by the key bytes stored with it, and those key bytes are in canonical (20-byte) spelling. -/
theorem stored_signatures_verify (ops : List Op) :
    ∀ it ∈ (run ops).queue, ∀ sg ∈ it.sigs, sg.for_ = bytesOf it ∧ sg.by_ = canon sg.key ∧ sg.key % 4 = 0 := by
  intro it hit sg hsg
  have := ((invariant_all_histories ops).1 it hit).1 sg hsg
  unfold SigOk at this
  rw [verifies_iff] at this
  exact ⟨this.2.2.2, this.2.2.1, this.2.1⟩

/-- **stored_signature_bytes_verify_as_stored** (clause 1, "each signature *kept* … verifies").  The
bytes kept with a message are the bytes that were submitted, and in every reachable state they are
in a form a strict `Ecrecover` over exactly those bytes maps to the signer: whatever byte form a
signature is submitted in (recovery id spelled 27/28, 2/3, missing, trailing bytes, `s` mirrored),
it is either refused or stored in a form that verifies as it is — the admission check never looks at
a normalised copy of what it stores. -/
theorem stored_signature_bytes_verify_as_stored (ops : List Op) :
    ∀ it ∈ (run ops).queue, ∀ sg ∈ it.sigs, sg.wire.strict = true := by
  intro it hit sg hsg
  have := ((invariant_all_histories ops).1 it hit).1 sg hsg
  unfold SigOk at this
  rw [verifies_iff] at this
  exact this.1

/-- a signature in a byte form that does not verify as it is is never stored — by any validator, for
any message, under any registration -/
theorem nonstrict_wire_refused (s : State) (id val addr by_ : Nat) (for_ : SignBytes) (w : Wire)
    (hw : w.strict = false) : (sign s id val addr by_ for_ w).1 = s ∧ (sign s id val addr by_ for_ w).2 ≠ .ok := by
  unfold sign signWith verifies
  split
  · exact ⟨rfl, by simp⟩
  · split
    · exact ⟨rfl, by simp⟩
    · split
      · rename_i r hr
        refine ⟨rfl, ?_⟩
        intro h
        rename_i sigs key _ _
        -- the duplicate loop never answers `ok`
        have : ∀ (l : List Sig) (k v : Nat), dupCheck l k v ≠ some .ok := by
          intro l k v
          induction l with
          | nil => simp [dupCheck]
          | cons x xs ih =>
            unfold dupCheck
            split
            · simp
            · split
              · simp
              · exact ih
        exact this _ _ _ (by rw [hr]; simp at h; rw [h])
      · simp [hw]

/-- **batch_confirms_verify** (clause 1, bridge batches).  In every reachable state each stored batch
confirmation was made for the batch's current checkpoint by the eth account of its `EthSigner`. -/
theorem batch_confirms_verify (ops : List Op) :
    ∀ b ∈ (run ops).batches, ∀ c ∈ b.confirms, c.for_ = bbytes b ∧ c.by_ = canon c.addr ∧ c.wire.bridge = true := by
  intro b hb c hc
  have := ((invariant_all_histories ops).2.1 b hb).1 c hc
  exact ⟨this.2.1, this.1, this.2.2⟩

/-- **key_registered_when_signed** (clause 1, "the key its validator had registered when it signed").
Across one operation a stored signature is either inherited from the same item, or it was added by
this very operation, a `sign` by that validator, and its key is what `GetSigningKey` returned in the
state the operation ran in: the key bytes of an account `a` the validator had registered on the
queue's chain under the address it claimed.  Nothing else ever writes a signature. -/
theorem key_registered_when_signed (ops : List Op) (op : Op) :
    ∀ it' ∈ (run (ops ++ [op])).queue, ∀ sg ∈ it'.sigs,
      (∃ it ∈ (run ops).queue, it.id = it'.id ∧ sg ∈ it.sigs) ∨
      (∃ id, op = .sign id sg.val sg.addr sg.by_ sg.for_ sg.wire ∧ it'.id = id ∧
        ∃ r ∈ (run ops).regs, ∃ a ∈ r.2, r.1 = sg.val ∧ a.chain = targetChain ∧ a.addr = sg.addr ∧ a.raw = sg.key) := by
  intro it' hit' sg hsg
  have hrun : run (ops ++ [op]) = apply (run ops) op := by simp [run, List.foldl_append]
  rw [hrun] at hit'
  rcases step_sigs (run ops) op it' hit' sg hsg with h | ⟨id, h1, h2, h3⟩
  · exact Or.inl h
  · exact Or.inr ⟨id, h1, h2, signingKey_mem h3⟩

/-- **sign_needs_target_chain_account** (clause 1, "the key … registered *for that chain*").  If the
validator holds no account on the queue's own chain under the address it claims — whatever accounts,
with whatever keys, it holds under that address on sibling chains — the signature is refused with
`noKey` and nothing changes.  In particular a signature made with the key registered for another
chain is never stored, even though it is a perfectly valid signature by one of the validator's keys. -/
theorem sign_needs_target_chain_account (s : State) (id val addr by_ : Nat) (for_ : SignBytes) (w : Wire)
    (h : ∀ r ∈ s.regs, r.1 = val → ∀ a ∈ r.2, a.addr = addr → a.chain ≠ targetChain) :
    sign s id val addr by_ for_ w = (s, .noKey) := by
  have hk : signingKey s.regs val addr = none := by
    cases hs : signingKey s.regs val addr with
    | none => rfl
    | some key =>
      obtain ⟨r, hr, a, ha, hv, hc, haddr, _⟩ := signingKey_mem hs
      exact absurd hc (h r hr hv a ha haddr)
  unfold sign signWith
  simp [hk]

/-- **validator_and_key_once** (clause 2, messages).  Per queued message, no validator and no key
byte string occurs twice among the stored signatures. -/
theorem validator_and_key_once (ops : List Op) :
    ∀ it ∈ (run ops).queue, (it.sigs.map (·.val)).Nodup ∧ (it.sigs.map (·.key)).Nodup := by
  intro it hit
  exact ((invariant_all_histories ops).1 it hit).2

/-- **account_once_per_item** (clause 2 for the external *account*).  Since only canonically spelled
key bytes verify (23185e9f), distinct stored key byte strings denote distinct accounts: no external
account occurs twice among the signatures of a message — whatever was registered, re-registered or
replayed.  (Before the repair this failed, see `aliasReplay_preFix`.) -/
theorem account_once_per_item (ops : List Op) :
    ∀ it ∈ (run ops).queue, (it.sigs.map (fun sg => canon sg.key)).Nodup := by
  intro it hit
  have hk := ((invariant_all_histories ops).1 it hit).2.2
  have := nodup_map_canon hk (by
    intro x hx
    obtain ⟨sg, hsg, rfl⟩ := List.mem_map.mp hx
    exact (stored_signatures_verify ops it hit sg hsg).2.2)
  simpa [List.map_map, Function.comp_def] using this

/-- **validator_and_key_once_per_batch** (clause 2, bridge batches).  A validator confirms a batch at
most once, and so does an eth account (db2aad4e; before the repair the latter failed, see
`batchTakeover_preFix`). -/
theorem validator_and_key_once_per_batch (ops : List Op) :
    ∀ b ∈ (run ops).batches, (b.confirms.map (·.val)).Nodup ∧ (b.confirms.map (fun c => canon c.addr)).Nodup := by
  intro b hb
  exact ((invariant_all_histories ops).2.1 b hb).2

/-- **bytes_change_clears** (clause 3, messages).  If an operation changes the signing bytes of a
queued message (elected gas estimate, attached fees — the only things that can change; the relayer is
fixed at enqueue time) then the message holds no signature afterwards. -/
theorem bytes_change_clears (ops : List Op) (op : Op) (it it' : Item) (hit : it ∈ (run ops).queue)
    (hit' : it' ∈ (apply (run ops) op).queue) (hid : it'.id = it.id) (hb : bytesOf it' ≠ bytesOf it) :
    it'.sigs = [] := by
  rcases step_item (run ops) (invariant_all_histories ops) op it it' hit hit' hid with h | h | h | ⟨sg, h⟩
  · rw [h] at hb; exact absurd rfl hb
  · exact absurd h.2 hb
  · exact h
  · rw [h] at hb; exact absurd rfl hb

/-- **signatures_only_dropped_or_appended.** Across one operation the signature list of a message is
unchanged, emptied, or extended by exactly one signature at the end: nothing is ever carried over in
altered form. -/
theorem signatures_only_dropped_or_appended (ops : List Op) (op : Op) (it it' : Item) (hit : it ∈ (run ops).queue)
    (hit' : it' ∈ (apply (run ops) op).queue) (hid : it'.id = it.id) :
    it'.sigs = it.sigs ∨ it'.sigs = [] ∨ ∃ sg, it'.sigs = it.sigs ++ [sg] := by
  rcases step_item (run ops) (invariant_all_histories ops) op it it' hit hit' hid with h | h | h | ⟨sg, h⟩
  · exact Or.inl (by rw [h])
  · exact Or.inl h.1
  · exact Or.inr (Or.inl h)
  · exact Or.inr (Or.inr ⟨sg, by rw [h]; rfl⟩)

/-- **election_clears** (clause 3, the concrete trigger).  When the end-block step elects an estimate
for a message (with or without fee attachment) the result has no signatures. -/
theorem election_clears (env : Env) (snap : Snap) (it : Item) (h : electOne env snap it ≠ it) :
    (electOne env snap it).sigs = [] := by
  rcases electOne_cases env snap it with he | he
  · exact absurd he h
  · exact he.1

/-- **batch_reissue_clears** (clause 3, bridge batches).  After one operation every batch is an old
batch unchanged, an old batch with one more confirmation (same checkpoint), or has no confirmations
at all (new batch, or checkpoint re-issued by `UpdateBatchGasEstimate`). -/
theorem batch_reissue_clears (ops : List Op) (op : Op) :
    ∀ b' ∈ (apply (run ops) op).batches,
      b' ∈ (run ops).batches ∨ b'.confirms = [] ∨
        ∃ b ∈ (run ops).batches, ∃ c, b' = addConfirm b c ∧ bbytes b' = bbytes b := by
  intro b' hb'
  rcases step_batches (run ops) op b' hb' with h | h | ⟨b, hb, c, h⟩
  · exact Or.inl h
  · exact Or.inr (Or.inl h)
  · exact Or.inr (Or.inr ⟨b, hb, c, h, by rw [h]; rfl⟩)

theorem updateBatchGas_clears (s : State) (n g : Nat) (b : Batch) (hg : getBatch s.batches n = some b) (h0 : b.gas = 0) :
    (updateBatchGas s n g).2 = true ∧
      ∀ b' ∈ (updateBatchGas s n g).1.batches, b'.nonce = b.nonce → b'.confirms = [] := by
  unfold updateBatchGas
  simp only [hg, h0, Nat.lt_irrefl, if_false, true_and]
  intro b' hb' hn
  unfold setBatch at hb'
  obtain ⟨z, hz, hzb⟩ := List.mem_map.mp hb'
  by_cases hzn : z.nonce = b.nonce
  · simp [hzn] at hzb; rw [← hzb]
  · simp [hzn] at hzb
    subst hzb
    exact absurd hn hzn

/-! ### non-vacuity, the two replay histories (refused), and their pre-repair negation witnesses -/

/-- bytes of message 1 of the demos before and after the election with fees -/
def demoBytes0 : SignBytes := { kind := .slc, content := 7, id := 1, gas := 0, fr := 100000, fc := 100000, fs := 100000, remote := 1 }
def demoBytes1 : SignBytes := { kind := .slc, content := 7, id := 1, gas := 0, fr := 23100, fc := 693, fs := 231, remote := 1 }

def demoEnv6 : Env :=
  { snapshot := some { vals := [⟨1, 5, [⟨0, 4, 4, false⟩]⟩, ⟨2, 5, [⟨0, 8, 8, false⟩]⟩, ⟨3, 5, [⟨0, 12, 12, false⟩]⟩], total := 15 },
    fees := [(1, 1100000000000000000)], community := 30000000000000000, security := 10000000000000000 }

/-- sign, sign, elect (signatures dropped, fees attached, bytes changed), stale signature refused, re-sign -/
def demo : List Op :=
  [ .setEnv demoEnv6, .register 1 [⟨0, 4, 4, false⟩], .register 2 [⟨0, 8, 8, false⟩],
    .put .slc 7 1 1 4 true,
    .sign 1 1 4 1 demoBytes0, .sign 1 2 8 2 demoBytes0, .sign 1 2 8 2 demoBytes0, .sign 1 1 4 2 demoBytes0,
    .addEstimate 1 1 21000, .addEstimate 1 2 21000, .addEstimate 1 3 21001 ]

example : ((run demo).queue.map fun it => (it.sigs.map fun g => (g.val, g.key), it.elected, it.fees)) =
    [([(1, 4), (2, 8)], 0, none)] := by decide
example : ((run (demo ++ [.endBlock])).queue.map fun it => (it.sigs.map fun g => (g.val, g.key), it.elected, it.fees)) =
    [([], 21000, some (23100, 693, 231))] := by decide
example : (run demo).queue.map bytesOf = [demoBytes0] ∧ (run (demo ++ [.endBlock])).queue.map bytesOf = [demoBytes1] := by decide
example : ((run (demo ++ [.endBlock, .sign 1 1 4 1 demoBytes0, .sign 1 1 4 1 demoBytes1])).queue.map
    fun it => it.sigs.map fun g => (g.val, g.key)) = [[(1, 4)]] := by decide

/-- **alias registration + replay is refused.**  Validator 2 registers validator 1's account under
another spelling (address string 5, key bytes 5: same account `canon 5 = canon 4 = 1`); the collision
rule compares strings/bytes verbatim and lets it through, but the non-canonical key bytes no longer
verify, so the replayed signature is rejected. -/
def aliasReplay : List Op :=
  [ .register 1 [⟨0, 4, 4, false⟩], .register 2 [⟨0, 5, 5, false⟩], .put .slc 7 1 1 4 true,
    .sign 1 1 4 1 demoBytes0 ]

example : (sign (run aliasReplay) 1 2 5 1 demoBytes0).2 = .badSig ∧
    ((run (aliasReplay ++ [.sign 1 2 5 1 demoBytes0])).queue.map fun it => it.sigs.map fun g => (g.val, g.key)) = [[(1, 4)]] := by decide

/-- **aliasReplay_preFix** (negation witness for the code before 23185e9f, where any spelling of the key
bytes verified).  The same replay was accepted: one account, two validators on one message. -/
example : (signWith verifiesPreFix (run aliasReplay) 1 2 5 1 demoBytes0 .canonical).2 = .ok ∧
    ((signWith verifiesPreFix (run aliasReplay) 1 2 5 1 demoBytes0 .canonical).1.queue.map
      fun it => it.sigs.map fun g => (g.val, g.key, canon g.key, g.by_)) = [[(1, 4, 1, 1), (2, 5, 1, 1)]] := by decide

def demoBB : BBytes := { nonce := 9, content := 3, remote := 2, gas := 300000 }

/-- **key take-over on a batch is refused.**  Validator 1 confirms, rotates to another key, validator 2
registers the released address (all spellings canonical) and replays validator 1's confirmation:
rejected as a duplicate key. -/
def batchTakeover : List Op :=
  [ .register 1 [⟨0, 4, 4, false⟩], .register 2 [⟨0, 8, 8, false⟩], .putBatch 9 3 8,
    .confirm 9 1 4 1 demoBB, .register 1 [⟨0, 12, 12, false⟩], .register 2 [⟨0, 4, 4, false⟩] ]

example : (confirm (run batchTakeover) 9 2 4 1 demoBB).2 = .dupKey ∧
    ((run (batchTakeover ++ [.confirm 9 2 4 1 demoBB])).batches.map fun b => b.confirms.map fun c => (c.val, c.addr)) = [[(1, 4)]] := by decide

/-- **batchTakeover_preFix** (negation witness for the code before db2aad4e, confirmations unique per
orchestrator only).  The replay was accepted: the same key confirmed the batch twice. -/
example : (confirmWith false (run batchTakeover) 9 2 4 1 demoBB .canonical).2 = .ok ∧
    ((confirmWith false (run batchTakeover) 9 2 4 1 demoBB .canonical).1.batches.map
      fun b => b.confirms.map fun c => (c.val, c.addr, c.by_)) = [[(1, 4, 1), (2, 4, 1)]] := by decide

/-- re-issuing the checkpoint drops every confirmation; a validator that already confirmed cannot confirm again with its new key -/
example : ((run (batchTakeover ++ [.confirm 9 2 4 1 demoBB, .confirm 9 1 12 3 demoBB, .updateBatchGas 9 21000])).batches.map
    fun b => (b.gas, b.confirms.length)) = [(21000, 0)] ∧
    ((run (batchTakeover ++ [.confirm 9 1 12 3 demoBB])).batches.map fun b => b.confirms.map fun c => (c.val, c.addr)) = [[(1, 4)]] := by decide

/-! ### sibling chains and byte forms -/

/-- validator 1 holds key 1 (address 4) on the queue's chain and a *different* key 7 (address 28) on a
sibling chain; validator 2 holds an account on the sibling chain only -/
def siblingRegs : List Op :=
  [ .register 1 [⟨1, 28, 28, false⟩, ⟨0, 4, 4, false⟩], .register 2 [⟨1, 8, 8, false⟩], .put .slc 7 1 1 4 true ]

/-- signing the target chain's message with the sibling chain's key, claiming the sibling chain's
address: refused (`noKey`), although the signature is a valid one by a key of that validator; the
proper account still signs -/
example : (sign (run siblingRegs) 1 1 28 7 demoBytes0).2 = .noKey ∧ (sign (run siblingRegs) 1 2 8 2 demoBytes0).2 = .noKey ∧
    (sign (run siblingRegs) 1 1 4 7 demoBytes0).2 = .badSig ∧ (sign (run siblingRegs) 1 1 4 1 demoBytes0).2 = .ok := by decide

/-- byte forms: the 27/28 spelling, recovery id 2/3, 64 and 66 bytes of an otherwise correct signature
are refused and leave the message without signature; the mirrored-`s` twin verifies as it is and is stored -/
example : (sign (run siblingRegs) 1 1 4 1 demoBytes0 .v27).2 = .badSig ∧ (sign (run siblingRegs) 1 1 4 1 demoBytes0 .recid23).2 = .badSig ∧
    (sign (run siblingRegs) 1 1 4 1 demoBytes0 .short).2 = .badSig ∧ (sign (run siblingRegs) 1 1 4 1 demoBytes0 .long).2 = .badSig ∧
    (sign (run siblingRegs) 1 1 4 1 demoBytes0 .highS).2 = .ok ∧
    ((run (siblingRegs ++ [.sign 1 1 4 1 demoBytes0 .v27])).queue.map fun it => it.sigs.length) = [0] := by decide

/-- the bridge's own convention accepts 27/28 for batch confirmations (and nothing shorter or longer) -/
example : (confirm (run batchTakeover) 9 2 4 1 demoBB .v27).2 = .dupKey ∧
    (confirm (run [.register 1 [⟨0, 4, 4, false⟩], .putBatch 9 3 8]) 9 1 4 1 demoBB .v27).2 = .ok ∧
    (confirm (run [.register 1 [⟨0, 4, 4, false⟩], .putBatch 9 3 8]) 9 1 4 1 demoBB .short).2 = .badSig ∧
    (confirm (run [.register 1 [⟨1, 4, 4, false⟩, ⟨0, 28, 28, false⟩], .putBatch 9 3 8]) 9 1 4 1 demoBB).2 = .mismatch := by decide

end Paloma.Queue
