/-
C19 — the application mempool yields every pending transaction exactly once, per sender in
strictly increasing nonce order, higher priority class first; count = number pending.
Helper lemmas are in the `Lemmas` section; the property theorems follow the marker line.
-/
import PalomaModel.Model.Mempool

namespace Paloma.Mempool

/-! ## helper lemmas -/
section Lemmas

instance : Std.TransCmp keyCmp := by unfold keyCmp; infer_instance
instance : Std.OrientedCmp keyCmp := by unfold keyCmp; infer_instance

theorem keyCmp_eq_iff {a b : PNode} :
    keyCmp a b = .eq ↔ a.prio = b.prio ∧ a.weight = b.weight ∧ a.sender = b.sender ∧ a.nonce = b.nonce := by
  unfold keyCmp compareLex compareOn
  simp only [Ordering.then_eq_eq, Std.compare_eq_iff_eq]

theorem keyCmp_self (a : PNode) : keyCmp a a = .eq := keyCmp_eq_iff.mpr ⟨rfl, rfl, rfl, rfl⟩

/-- what the iterator needs from the order of the priority index -/
theorem keyCmp_gt_weak {a b : PNode} (h : keyCmp a b = .gt) :
    b.prio < a.prio ∨ (a.prio = b.prio ∧ b.weight ≤ a.weight) := by
  unfold keyCmp compareLex compareOn at h
  rw [Ordering.then_eq_gt] at h
  rcases h with h | ⟨h1, h2⟩
  · exact Or.inl (Int.compare_eq_gt.mp h)
  · have hp : a.prio = b.prio := Std.compare_eq_iff_eq.mp h1
    rw [Ordering.then_eq_gt] at h2
    rcases h2 with h2 | ⟨h2, _⟩
    · have hw : b.weight < a.weight := Int.compare_eq_gt.mp h2
      exact Or.inr ⟨hp, Int.le_of_lt hw⟩
    · have hw : a.weight = b.weight := Std.compare_eq_iff_eq.mp h2
      exact Or.inr ⟨hp, by rw [hw]; exact Int.le_refl _⟩

/-- the priority index is strictly descending in the comparator -/
def Sorted (l : List PNode) : Prop := l.Pairwise (fun a b => keyCmp a b = .gt)

/-- a sender index is strictly ascending in the nonce -/
def SSorted (l : List Tx) : Prop := l.Pairwise (fun a b => a.nonce < b.nonce)

theorem pset_perm (k : PNode) (l : List PNode) (h : ∀ x ∈ l, keyCmp k x ≠ .eq) :
    (pset k l).Perm (k :: l) := by
  induction l with
  | nil => simp [pset]
  | cons x xs ih =>
    have hx := h x (by simp)
    have ih' := ih (fun y hy => h y (by simp [hy]))
    unfold pset
    split
    · exact (List.Perm.cons x ih').trans (List.Perm.swap k x xs)
    · rename_i he; exact absurd he hx
    · exact List.Perm.refl _

theorem pset_sorted (k : PNode) (l : List PNode) (hs : Sorted l) (h : ∀ x ∈ l, keyCmp k x ≠ .eq) :
    Sorted (pset k l) := by
  induction l with
  | nil => simp [pset, Sorted]
  | cons x xs ih =>
    have hx := h x (by simp)
    have hs' := List.pairwise_cons.mp hs
    have hrest : ∀ y ∈ xs, keyCmp k y ≠ .eq := fun y hy => h y (by simp [hy])
    unfold pset
    split
    · rename_i hlt
      refine List.pairwise_cons.mpr ⟨?_, ih hs'.2 hrest⟩
      intro y hy
      rcases List.mem_cons.mp ((pset_perm k xs hrest).mem_iff.mp hy) with hy | hy
      · subst hy; exact Std.OrientedCmp.gt_iff_lt.mpr hlt
      · exact hs'.1 y hy
    · rename_i he; exact absurd he hx
    · rename_i hgt
      refine List.pairwise_cons.mpr ⟨?_, hs⟩
      intro y hy
      rcases List.mem_cons.mp hy with hy | hy
      · subst hy; exact hgt
      · exact Std.TransCmp.gt_trans hgt (hs'.1 y hy)

theorem perase_sublist (k : PNode) (l : List PNode) : (perase k l).Sublist l := by
  induction l with
  | nil => simp [perase]
  | cons x xs ih =>
    unfold perase
    split
    · exact ih.cons_cons x
    · exact List.sublist_cons_self x xs
    · exact List.Sublist.refl _

theorem perase_sorted (k : PNode) (l : List PNode) (hs : Sorted l) : Sorted (perase k l) :=
  List.Pairwise.sublist (perase_sublist k l) hs

/-- `Remove` finds the element that compares equal (this uses the full order of the index) -/
theorem perase_perm (k k' : PNode) (l : List PNode) (hs : Sorted l) (hk : k' ∈ l)
    (he : keyCmp k k' = .eq) : l.Perm (k' :: perase k l) := by
  induction l with
  | nil => cases hk
  | cons x xs ih =>
    have hs' := List.pairwise_cons.mp hs
    rcases List.mem_cons.mp hk with hk | hk
    · subst hk
      unfold perase
      simp [he]
    · have hxk : keyCmp x k' = .gt := hs'.1 k' hk
      have hkx : keyCmp k x = .lt := by
        rw [Std.TransCmp.congr_left he]
        exact Std.OrientedCmp.gt_iff_lt.mp hxk
      unfold perase
      simp only [hkx]
      exact (List.Perm.cons x (ih hs'.2 hk)).trans (List.Perm.swap k' x _)

theorem sset_perm (t : Tx) (l : List Tx) (h : ∀ x ∈ l, x.nonce ≠ t.nonce) :
    (sset t l).Perm (t :: l) := by
  induction l with
  | nil => simp [sset]
  | cons x xs ih =>
    have hx := h x (by simp)
    have ih' := ih (fun y hy => h y (by simp [hy]))
    unfold sset
    split
    · exact List.Perm.refl _
    · split
      · rename_i he; exact absurd he.symm hx
      · exact (List.Perm.cons x ih').trans (List.Perm.swap t x xs)

theorem sset_sorted (t : Tx) (l : List Tx) (hs : SSorted l) (h : ∀ x ∈ l, x.nonce ≠ t.nonce) :
    SSorted (sset t l) := by
  induction l with
  | nil => simp [sset, SSorted]
  | cons x xs ih =>
    have hx := h x (by simp)
    have hs' := List.pairwise_cons.mp hs
    have hrest : ∀ y ∈ xs, y.nonce ≠ t.nonce := fun y hy => h y (by simp [hy])
    unfold sset
    split
    · rename_i hlt
      refine List.pairwise_cons.mpr ⟨?_, hs⟩
      intro y hy
      rcases List.mem_cons.mp hy with hy | hy
      · subst hy; exact hlt
      · have := hs'.1 y hy; omega
    · split
      · rename_i he; exact absurd he.symm hx
      · rename_i h1 h2
        refine List.pairwise_cons.mpr ⟨?_, ih hs'.2 hrest⟩
        intro y hy
        rcases List.mem_cons.mp ((sset_perm t xs hrest).mem_iff.mp hy) with hy | hy
        · subst hy; omega
        · exact hs'.1 y hy

theorem serase_sublist (n : Nat) (l : List Tx) : (serase n l).Sublist l := by
  induction l with
  | nil => simp [serase]
  | cons x xs ih =>
    unfold serase
    split
    · exact ih.cons_cons x
    · split
      · exact List.sublist_cons_self x xs
      · exact List.Sublist.refl _

theorem mem_serase (n : Nat) (l : List Tx) (hs : SSorted l) (y : Tx) :
    y ∈ serase n l ↔ y ∈ l ∧ y.nonce ≠ n := by
  induction l with
  | nil => simp [serase]
  | cons x xs ih =>
    have hs' := List.pairwise_cons.mp hs
    unfold serase
    split
    · rename_i hlt
      simp only [List.mem_cons, ih hs'.2]
      constructor
      · rintro (h | h)
        · subst h; exact ⟨Or.inl rfl, by omega⟩
        · exact ⟨Or.inr h.1, h.2⟩
      · rintro ⟨h | h, hn⟩
        · exact Or.inl h
        · exact Or.inr ⟨h, hn⟩
    · split
      · rename_i h1 he
        simp only [List.mem_cons]
        constructor
        · intro h; exact ⟨Or.inr h, by have := hs'.1 y h; omega⟩
        · rintro ⟨h | h, hn⟩
          · subst h; exact absurd he hn
          · exact h
      · rename_i h1 h2
        simp only [List.mem_cons]
        constructor
        · rintro (h | h)
          · subst h; exact ⟨Or.inl rfl, h2⟩
          · exact ⟨Or.inr h, by have := hs'.1 y h; omega⟩
        · rintro ⟨h, _⟩; exact h

/-! ### specification of the pending set and the precondition on histories -/

/-- the pending set after one operation (inserting an existing (sender, nonce) replaces it) -/
def pendingStep (P : List Tx) : Op → List Tx
  | .insert s n p id => ⟨s, n, p, id⟩ :: P.filter (fun t => !(t.sender == s && t.nonce == n))
  | .remove s n => P.filter (fun t => !(t.sender == s && t.nonce == n))
  | .select => P

/-- the pending set after a history -/
def pending (ops : List Op) : List Tx := ops.foldl pendingStep []

/-- the property's precondition for one operation in pending set `P`: an inserted transaction
    has a (sender, nonce) that is not pending — or, slightly more generally, it replaces a
    pending transaction of the *same* priority.  Nothing else: in particular no condition on
    the priority value (the `MinValue` sentinel is handled separately, see `NoMin`). -/
def OpOk (P : List Tx) : Op → Prop
  | .insert s n p _ => ∀ t ∈ P, t.sender = s ∧ t.nonce = n → t.prio = p
  | _ => True

def AdmFrom (P : List Tx) : List Op → Prop
  | [] => True
  | op :: ops => OpOk P op ∧ AdmFrom (pendingStep P op) ops

/-- (sender, nonce) unique among pending transactions along the whole history -/
def Admissible (ops : List Op) : Prop := AdmFrom [] ops

/-- the indices describe the pending set `P` -/
structure Inv (mp : Pool) (P : List Tx) : Prop where
  keys_nodup : (P.map Tx.skey).Nodup
  psorted : Sorted mp.pidx
  pkeys : (mp.pidx.map PNode.skey).Nodup
  pmem : ∀ t, t ∈ mp.pidx.map PNode.tx ↔ t ∈ P
  ssorted : ∀ s, SSorted (mp.sidx s)
  smem : ∀ s t, t ∈ mp.sidx s ↔ t ∈ P ∧ t.sender = s
  score_node : ∀ k ∈ mp.pidx, mp.scores k.sender k.nonce = some ⟨k.prio, k.weight⟩
  node_score : ∀ s n sc, mp.scores s n = some sc → ∃ k ∈ mp.pidx, k.sender = s ∧ k.nonce = n
  pcount : ∀ p, mp.pcounts p = ((P.map Tx.prio).count p : Nat)

theorem nodup_map_inj {α β : Type} {f : α → β} {l : List α} (h : (l.map f).Nodup) {a b : α}
    (ha : a ∈ l) (hb : b ∈ l) (e : f a = f b) : a = b := by
  induction l with
  | nil => cases ha
  | cons x xs ih =>
    rw [List.map_cons, List.nodup_cons] at h
    rcases List.mem_cons.mp ha with ha | ha <;> rcases List.mem_cons.mp hb with hb | hb
    · rw [ha, hb]
    · have hm : f b ∈ xs.map f := List.mem_map.mpr ⟨b, hb, rfl⟩
      rw [← e, ha] at hm; exact absurd hm h.1
    · have hm : f a ∈ xs.map f := List.mem_map.mpr ⟨a, ha, rfl⟩
      rw [e, hb] at hm; exact absurd hm h.1
    · exact ih h.2 ha hb

theorem nodup_of_map {α β : Type} (f : α → β) {l : List α} (h : (l.map f).Nodup) : l.Nodup := by
  unfold List.Nodup at *
  rw [List.pairwise_map] at h
  exact h.imp (fun hne e => hne (congrArg f e))

theorem skey_tx (k : PNode) : k.tx.skey = k.skey := rfl

theorem Inv.ptx_nodup {mp : Pool} {P : List Tx} (h : Inv mp P) : (mp.pidx.map PNode.tx).Nodup := by
  have : (mp.pidx.map PNode.tx).map Tx.skey = mp.pidx.map PNode.skey := by
    rw [List.map_map]; rfl
  exact nodup_of_map _ (this ▸ h.pkeys)

theorem Inv.P_nodup {mp : Pool} {P : List Tx} (h : Inv mp P) : P.Nodup :=
  nodup_of_map _ h.keys_nodup

theorem Inv.pperm {mp : Pool} {P : List Tx} (h : Inv mp P) : (mp.pidx.map PNode.tx).Perm P :=
  (List.perm_ext_iff_of_nodup h.ptx_nodup h.P_nodup).mpr h.pmem

theorem Inv.node_of {mp : Pool} {P : List Tx} (h : Inv mp P) {t : Tx} (ht : t ∈ P) :
    ∃ k ∈ mp.pidx, k.tx = t := by
  have := (h.pmem t).mpr ht
  rcases List.mem_map.mp this with ⟨k, hk, e⟩
  exact ⟨k, hk, e⟩

theorem Inv.node_mem {mp : Pool} {P : List Tx} (h : Inv mp P) {k : PNode} (hk : k ∈ mp.pidx) :
    k.tx ∈ P := (h.pmem _).mp (List.mem_map.mpr ⟨k, hk, rfl⟩)

theorem inv_empty : Inv Pool.empty [] := by
  constructor <;> simp [Pool.empty, Sorted, SSorted]

theorem filter_key_fresh (P : List Tx) (s : String) (n : Nat)
    (h : ∀ t ∈ P, ¬ (t.sender = s ∧ t.nonce = n)) :
    P.filter (fun t => !(t.sender == s && t.nonce == n)) = P := by
  rw [List.filter_eq_self]
  intro t ht
  have := h t ht
  simp only [Bool.not_eq_true', Bool.and_eq_false_iff, beq_eq_false_iff_ne, ne_eq]
  by_cases hs : t.sender = s
  · exact Or.inr (fun hn => this ⟨hs, hn⟩)
  · exact Or.inl hs

theorem perm_filter_key (P : List Tx) (t0 : Tx) (hnd : (P.map Tx.skey).Nodup) (h0 : t0 ∈ P) :
    P.Perm (t0 :: P.filter (fun t => !(t.sender == t0.sender && t.nonce == t0.nonce))) := by
  induction P with
  | nil => cases h0
  | cons x xs ih =>
    rw [List.map_cons, List.nodup_cons] at hnd
    rcases List.mem_cons.mp h0 with h0 | h0
    · subst h0
      have : xs.filter (fun t => !(t.sender == t0.sender && t.nonce == t0.nonce)) = xs := by
        apply filter_key_fresh
        intro t ht hk
        apply hnd.1
        exact List.mem_map.mpr ⟨t, ht, by simp [Tx.skey, hk.1, hk.2]⟩
      have hdrop : (!(t0.sender == t0.sender && t0.nonce == t0.nonce)) = false := by simp
      rw [List.filter_cons, hdrop, this]
      simp
    · have hne : ¬ (x.sender = t0.sender ∧ x.nonce = t0.nonce) := by
        intro hk
        apply hnd.1
        exact List.mem_map.mpr ⟨t0, h0, by simp [Tx.skey, hk.1, hk.2]⟩
      have hkeep : (!(x.sender == t0.sender && x.nonce == t0.nonce)) = true := by
        simp only [Bool.not_eq_true', Bool.and_eq_false_iff, beq_eq_false_iff_ne, ne_eq]
        by_cases hs : x.sender = t0.sender
        · exact Or.inr (fun hn => hne ⟨hs, hn⟩)
        · exact Or.inl hs
      rw [List.filter_cons, if_pos hkeep]
      exact (List.Perm.cons x (ih hnd.2 h0)).trans (List.Perm.swap t0 x _)

theorem inv_insert_fresh {mp : Pool} {P : List Tx} (h : Inv mp P) (s : String) (n : Nat) (p : Int) (id : Nat)
    (hfresh : ∀ t ∈ P, ¬ (t.sender = s ∧ t.nonce = n)) :
    Inv (mp.insert s n p id) (pendingStep P (.insert s n p id)) := by
  have hP' : pendingStep P (.insert s n p id) = ⟨s, n, p, id⟩ :: P := by
    simp only [pendingStep]; rw [filter_key_fresh P s n hfresh]
  have hnokey : ∀ x ∈ mp.pidx, ¬ (x.sender = s ∧ x.nonce = n) := by
    intro x hx hk
    exact hfresh x.tx (h.node_mem hx) hk
  have hnone : mp.scores s n = none := by
    cases hsc : mp.scores s n with
    | none => rfl
    | some sc =>
      obtain ⟨k, hk, h1, h2⟩ := h.node_score s n sc hsc
      exact absurd ⟨h1, h2⟩ (hnokey k hk)
  have hneq : ∀ x ∈ mp.pidx, keyCmp ⟨p, 0, s, n, id⟩ x ≠ .eq := by
    intro x hx he
    have := keyCmp_eq_iff.mp he
    exact hnokey x hx ⟨this.2.2.1.symm, this.2.2.2.symm⟩
  have hperm := pset_perm ⟨p, 0, s, n, id⟩ mp.pidx hneq
  have hsn : ∀ x ∈ mp.sidx s, x.nonce ≠ (⟨s, n, p, id⟩ : Tx).nonce := by
    intro x hx hn
    have := (h.smem s x).mp hx
    exact hfresh x this.1 ⟨this.2, hn⟩
  have hsperm := sset_perm ⟨s, n, p, id⟩ (mp.sidx s) hsn
  have hins : mp.insert s n p id =
      { pidx := pset ⟨p, 0, s, n, id⟩ mp.pidx
        sidx := upd mp.sidx s (sset ⟨s, n, p, id⟩ (mp.sidx s))
        scores := upd2 mp.scores s n (some ⟨p, 0⟩)
        pcounts := bump mp.pcounts p 1 } := by
    simp only [Pool.insert, hnone]
  rw [hP', hins]
  constructor
  · -- keys_nodup
    rw [List.map_cons, List.nodup_cons]
    refine ⟨?_, h.keys_nodup⟩
    intro hm
    rcases List.mem_map.mp hm with ⟨t, ht, e⟩
    simp only [Tx.skey, Prod.mk.injEq] at e
    exact hfresh t ht e
  · exact pset_sorted _ _ h.psorted hneq
  · -- pkeys
    refine ((hperm.map PNode.skey).nodup_iff).mpr ?_
    rw [List.map_cons, List.nodup_cons]
    refine ⟨?_, h.pkeys⟩
    intro hm
    rcases List.mem_map.mp hm with ⟨x, hx, e⟩
    simp only [PNode.skey, Prod.mk.injEq] at e
    exact hnokey x hx e
  · -- pmem
    intro t
    rw [(hperm.map PNode.tx).mem_iff, List.map_cons, List.mem_cons, List.mem_cons, h.pmem]
    rfl
  · -- ssorted
    intro s'
    simp only [upd]
    split
    · exact sset_sorted _ _ (h.ssorted s) hsn
    · exact h.ssorted s'
  · -- smem
    intro s' t
    simp only [upd]
    split
    · rename_i hs; subst hs
      rw [hsperm.mem_iff, List.mem_cons, List.mem_cons, h.smem]
      constructor
      · rintro (e | ⟨h1, h2⟩)
        · subst e; exact ⟨Or.inl rfl, rfl⟩
        · exact ⟨Or.inr h1, h2⟩
      · rintro ⟨e | h1, h2⟩
        · exact Or.inl e
        · exact Or.inr ⟨h1, h2⟩
    · rename_i hs
      rw [h.smem, List.mem_cons]
      constructor
      · rintro ⟨h1, h2⟩; exact ⟨Or.inr h1, h2⟩
      · rintro ⟨e | h1, h2⟩
        · subst e; exact absurd h2.symm hs
        · exact ⟨h1, h2⟩
  · -- score_node
    intro k hk
    rcases List.mem_cons.mp (hperm.mem_iff.mp hk) with hk | hk
    · subst hk; simp [upd2]
    · have := hnokey k hk
      simp only [upd2, this, if_false]
      exact h.score_node k hk
  · -- node_score
    intro s' n' sc hsc
    simp only [upd2] at hsc
    split at hsc
    · rename_i hc
      exact ⟨⟨p, 0, s, n, id⟩, hperm.mem_iff.mpr (List.mem_cons_self), hc.1.symm, hc.2.symm⟩
    · obtain ⟨k, hk, hk'⟩ := h.node_score s' n' sc hsc
      exact ⟨k, hperm.mem_iff.mpr (List.mem_cons_of_mem _ hk), hk'⟩
  · -- pcount
    intro p'
    simp only [bump, List.map_cons, List.count_cons, h.pcount]
    by_cases hpp : p' = p
    · subst hpp; simp
    · have : ¬ p = p' := fun e => hpp e.symm
      simp [hpp, this]

theorem inv_remove {mp : Pool} {P : List Tx} (h : Inv mp P) (s : String) (n : Nat) :
    Inv (mp.remove s n).1 (pendingStep P (.remove s n)) := by
  cases hsc : mp.scores s n with
  | none =>
    have hfresh : ∀ t ∈ P, ¬ (t.sender = s ∧ t.nonce = n) := by
      intro t ht hk
      obtain ⟨k, hk1, hk2⟩ := h.node_of ht
      have := h.score_node k hk1
      have e1 : k.sender = s := by rw [← hk.1, ← hk2]; rfl
      have e2 : k.nonce = n := by rw [← hk.2, ← hk2]; rfl
      rw [e1, e2, hsc] at this
      cases this
    have hP' : pendingStep P (.remove s n) = P := by
      simp only [pendingStep]; exact filter_key_fresh P s n hfresh
    have hrm : (mp.remove s n).1 = mp := by simp only [Pool.remove, hsc]
    rw [hP', hrm]; exact h
  | some sc =>
    obtain ⟨k, hk, h1, h2⟩ := h.node_score s n sc hsc
    subst h1 h2
    have hsc' := h.score_node k hk
    rw [hsc] at hsc'
    have hsce : sc = ⟨k.prio, k.weight⟩ := Option.some.inj hsc'
    subst hsce
    have hrm : (mp.remove k.sender k.nonce).1 =
        { pidx := perase ⟨k.prio, k.weight, k.sender, k.nonce, 0⟩ mp.pidx
          sidx := upd mp.sidx k.sender (serase k.nonce (mp.sidx k.sender))
          scores := upd2 mp.scores k.sender k.nonce none
          pcounts := bump mp.pcounts k.prio (-1) } := by
      simp only [Pool.remove, hsc]
    have hke : keyCmp ⟨k.prio, k.weight, k.sender, k.nonce, 0⟩ k = .eq :=
      keyCmp_eq_iff.mpr ⟨rfl, rfl, rfl, rfl⟩
    have hperm := perase_perm ⟨k.prio, k.weight, k.sender, k.nonce, 0⟩ k mp.pidx h.psorted hk hke
    have ht0 : k.tx ∈ P := h.node_mem hk
    have hPperm := perm_filter_key P k.tx h.keys_nodup ht0
    have hP' : pendingStep P (.remove k.sender k.nonce) =
        P.filter (fun t => !(t.sender == k.tx.sender && t.nonce == k.tx.nonce)) := rfl
    have hknot : k.skey ∉ (perase ⟨k.prio, k.weight, k.sender, k.nonce, 0⟩ mp.pidx).map PNode.skey := by
      have := ((hperm.map PNode.skey).nodup_iff).mp h.pkeys
      rw [List.map_cons, List.nodup_cons] at this
      exact this.1
    rw [hP', hrm]
    constructor
    · exact List.Nodup.sublist (List.Sublist.map _ List.filter_sublist) h.keys_nodup
    · exact perase_sorted _ _ h.psorted
    · exact List.Nodup.sublist (List.Sublist.map _ (perase_sublist _ _)) h.pkeys
    · -- pmem
      intro t
      have e1 := (hperm.map PNode.tx)
      rw [List.map_cons] at e1
      have e2 := (e1.symm.trans (h.pperm.trans hPperm)).cons_inv
      exact e2.mem_iff
    · intro s'
      simp only [upd]
      split
      · exact List.Pairwise.sublist (serase_sublist _ _) (h.ssorted _)
      · exact h.ssorted s'
    · -- smem
      intro s' t
      simp only [upd]
      have hdec : ∀ t : Tx, (!(t.sender == k.tx.sender && t.nonce == k.tx.nonce)) = true ↔
          ¬ (t.sender = k.sender ∧ t.nonce = k.nonce) := by
        intro t
        simp only [PNode.tx, Bool.not_eq_true', Bool.and_eq_false_iff, beq_eq_false_iff_ne, ne_eq]
        constructor
        · rintro (h1 | h1) hk
          · exact h1 hk.1
          · exact h1 hk.2
        · intro hk
          by_cases hs : t.sender = k.sender
          · exact Or.inr (fun hn => hk ⟨hs, hn⟩)
          · exact Or.inl hs
      split
      · rename_i hs; subst hs
        rw [mem_serase _ _ (h.ssorted _), h.smem, List.mem_filter, hdec]
        constructor
        · rintro ⟨⟨h1, h2⟩, h3⟩; exact ⟨⟨h1, fun hk => h3 hk.2⟩, h2⟩
        · rintro ⟨⟨h1, h3⟩, h2⟩; exact ⟨⟨h1, h2⟩, fun hn => h3 ⟨h2, hn⟩⟩
      · rename_i hs
        rw [h.smem, List.mem_filter, hdec]
        constructor
        · rintro ⟨h1, h2⟩; exact ⟨⟨h1, fun hk => hs (h2 ▸ hk.1)⟩, h2⟩
        · rintro ⟨⟨h1, _⟩, h2⟩; exact ⟨h1, h2⟩
    · -- score_node
      intro k' hk'
      have hk'0 : k' ∈ mp.pidx := (perase_sublist _ _).subset hk'
      have hne : ¬ (k'.sender = k.sender ∧ k'.nonce = k.nonce) := by
        intro e
        apply hknot
        exact List.mem_map.mpr ⟨k', hk', by simp [PNode.skey, e.1, e.2]⟩
      simp only [upd2, hne, if_false]
      exact h.score_node k' hk'0
    · -- node_score
      intro s' n' sc' hsc'
      simp only [upd2] at hsc'
      split at hsc'
      · cases hsc'
      · rename_i hc
        obtain ⟨k', hk', e1, e2⟩ := h.node_score s' n' sc' hsc'
        rcases List.mem_cons.mp (hperm.mem_iff.mp hk') with hkk | hkk
        · subst hkk; exact absurd ⟨e1.symm, e2.symm⟩ hc
        · exact ⟨k', hkk, e1, e2⟩
    · -- pcount
      intro p'
      have := (hPperm.map Tx.prio).count_eq p'
      simp only [bump, h.pcount, this, List.map_cons, List.count_cons]
      by_cases hpp : p' = k.prio
      · subst hpp; simp [PNode.tx]; omega
      · have : ¬ k.prio = p' := fun e => hpp e.symm
        simp [hpp, this, PNode.tx]

theorem upd_upd {α : Type} (f : String → α) (s : String) (a b : α) :
    upd (upd f s a) s b = upd f s b := by
  funext x; simp only [upd]; split <;> rfl

theorem upd2_upd2 {α : Type} (f : String → Nat → α) (s : String) (n : Nat) (a b : α) :
    upd2 (upd2 f s n a) s n b = upd2 f s n b := by
  funext x y; simp only [upd2]; split <;> rfl

/-- replacing the value of the element with the same nonce = unlinking it and linking the new one,
    provided the new entry carries the same key priority -/
theorem sset_serase (t : Tx) (l : List Tx) (hs : SSorted l) (x : Tx) (hx : x ∈ l)
    (hn : x.nonce = t.nonce) (hid : { x with id := t.id } = t) :
    sset t (serase t.nonce l) = sset t l := by
  induction l with
  | nil => cases hx
  | cons y ys ih =>
    have hs' := List.pairwise_cons.mp hs
    by_cases hlt : y.nonce < t.nonce
    · have hxy : x ∈ ys := by
        rcases List.mem_cons.mp hx with e | e
        · subst e; omega
        · exact e
      have h1 : ¬ t.nonce < y.nonce := by omega
      have h2 : ¬ t.nonce = y.nonce := by omega
      simp only [serase, hlt, if_true, sset, h1, h2, if_false]
      rw [ih hs'.2 hxy]
    · have hxy : x = y := by
        rcases List.mem_cons.mp hx with e | e
        · exact e
        · have := hs'.1 x e; omega
      subst hxy
      have hge : ∀ z ∈ ys, t.nonce < z.nonce := fun z hz => by have := hs'.1 z hz; omega
      have h0 : ¬ x.nonce < t.nonce := hlt
      have h1 : ¬ t.nonce < x.nonce := by omega
      have hL : serase t.nonce (x :: ys) = ys := by
        simp only [serase]; rw [if_neg h0, if_pos hn]
      have hR : sset t (x :: ys) = t :: ys := by
        simp only [sset]; rw [if_neg h1, if_pos hn.symm, hid]
      rw [hL, hR]
      cases ys with
      | nil => rfl
      | cons z zs =>
        simp only [sset]; rw [if_pos (hge z (by simp))]

/-- `Insert` on a pending (sender, nonce) with an unchanged priority is `Remove` then `Insert` -/
theorem insert_eq_remove_insert {mp : Pool} {P : List Tx} (h : Inv mp P) (s : String) (n : Nat)
    (p : Int) (id : Nat) (t0 : Tx) (ht0 : t0 ∈ P) (hk0 : t0.sender = s ∧ t0.nonce = n) (hp0 : t0.prio = p) :
    mp.insert s n p id = (mp.remove s n).1.insert s n p id := by
  obtain ⟨k, hk, hke⟩ := h.node_of ht0
  have e1 : k.sender = s := by rw [← hk0.1, ← hke]; rfl
  have e2 : k.nonce = n := by rw [← hk0.2, ← hke]; rfl
  have e3 : k.prio = p := by rw [← hp0, ← hke]; rfl
  have hsc := h.score_node k hk
  rw [e1, e2] at hsc
  have hmem : t0 ∈ mp.sidx s := (h.smem s t0).mpr ⟨ht0, hk0.1⟩
  have hss := sset_serase ⟨s, n, p, id⟩ (mp.sidx s) (h.ssorted s) t0 hmem hk0.2
    (by cases t0; simp only at hk0 hp0; simp [hk0.1, hk0.2, hp0])
  have hnone : upd2 mp.scores s n none s n = none := by simp [upd2]
  have hsx : upd mp.sidx s (serase n (mp.sidx s)) s = serase n (mp.sidx s) := by simp [upd]
  simp only [Pool.insert, Pool.remove, hsc, hnone, hsx, upd_upd, upd2_upd2]
  rw [hss]

theorem inv_insert {mp : Pool} {P : List Tx} (h : Inv mp P) (s : String) (n : Nat) (p : Int) (id : Nat)
    (hok : OpOk P (.insert s n p id)) :
    Inv (mp.insert s n p id) (pendingStep P (.insert s n p id)) := by
  have hsame := hok
  by_cases hex : ∃ t ∈ P, t.sender = s ∧ t.nonce = n
  · obtain ⟨t0, ht0, hk0⟩ := hex
    rw [insert_eq_remove_insert h s n p id t0 ht0 hk0 (hsame t0 ht0 hk0)]
    have h1 := inv_remove h s n
    have hfresh : ∀ t ∈ pendingStep P (.remove s n), ¬ (t.sender = s ∧ t.nonce = n) := by
      intro t ht hk
      simp only [pendingStep, List.mem_filter] at ht
      simp [hk.1, hk.2] at ht
    have h2 := inv_insert_fresh h1 s n p id hfresh
    have hP : pendingStep (pendingStep P (.remove s n)) (.insert s n p id)
        = pendingStep P (.insert s n p id) := by
      simp only [pendingStep, List.filter_filter, Bool.and_self]
    rw [hP] at h2
    exact h2
  · exact inv_insert_fresh h s n p id (fun t ht hk => hex ⟨t, ht, hk⟩)

/-- one round of the second loop of `reorderPriorityTies` keeps the invariant, and keeps every
    other element of the priority index in place -/
theorem inv_reweigh {mp : Pool} {P : List Tx} (h : Inv mp P) (d : PNode) (w : Int) (hd : d ∈ mp.pidx) :
    Inv (mp.reweigh (d, { d with weight := w })) P ∧
    (∀ d' ∈ mp.pidx, d'.skey ≠ d.skey → d' ∈ (mp.reweigh (d, { d with weight := w })).pidx) := by
  have hperm1 := perase_perm d d mp.pidx h.psorted hd (keyCmp_self d)
  have hknot : d.skey ∉ (perase d mp.pidx).map PNode.skey := by
    have := ((hperm1.map PNode.skey).nodup_iff).mp h.pkeys
    rw [List.map_cons, List.nodup_cons] at this
    exact this.1
  have hnoeq : ∀ x ∈ perase d mp.pidx, keyCmp { d with weight := w } x ≠ .eq := by
    intro x hx he
    have e := keyCmp_eq_iff.mp he
    apply hknot
    exact List.mem_map.mpr ⟨x, hx, by simp only [PNode.skey]; rw [← e.2.2.1, ← e.2.2.2]⟩
  have hperm2 := pset_perm { d with weight := w } (perase d mp.pidx) hnoeq
  have hrw : mp.reweigh (d, { d with weight := w }) =
      { mp with
        pidx := pset { d with weight := w } (perase d mp.pidx)
        scores := upd2 mp.scores d.sender d.nonce (some ⟨d.prio, w⟩) } := rfl
  rw [hrw]
  refine ⟨?_, ?_⟩
  · constructor
    · exact h.keys_nodup
    · exact pset_sorted _ _ (perase_sorted _ _ h.psorted) hnoeq
    · -- pkeys
      have e : (pset { d with weight := w } (perase d mp.pidx)).map PNode.skey |>.Perm
          (mp.pidx.map PNode.skey) :=
        (hperm2.map PNode.skey).trans (hperm1.map PNode.skey).symm
      exact (e.nodup_iff).mpr h.pkeys
    · -- pmem
      intro t
      have e : (pset { d with weight := w } (perase d mp.pidx)).map PNode.tx |>.Perm
          (mp.pidx.map PNode.tx) :=
        (hperm2.map PNode.tx).trans (hperm1.map PNode.tx).symm
      rw [e.mem_iff]; exact h.pmem t
    · exact h.ssorted
    · exact h.smem
    · -- score_node
      intro k hk
      rcases List.mem_cons.mp (hperm2.mem_iff.mp hk) with hk | hk
      · subst hk; simp [upd2]
      · have hk0 : k ∈ mp.pidx := (perase_sublist _ _).subset hk
        have hne : ¬ (k.sender = d.sender ∧ k.nonce = d.nonce) := by
          intro e
          apply hknot
          exact List.mem_map.mpr ⟨k, hk, by simp [PNode.skey, e.1, e.2]⟩
        simp only [upd2, hne, if_false]
        exact h.score_node k hk0
    · -- node_score
      intro s' n' sc hsc
      simp only [upd2] at hsc
      split at hsc
      · rename_i hc
        exact ⟨{ d with weight := w }, hperm2.mem_iff.mpr List.mem_cons_self, hc.1.symm, hc.2.symm⟩
      · rename_i hc
        obtain ⟨k, hk, e1, e2⟩ := h.node_score s' n' sc hsc
        rcases List.mem_cons.mp (hperm1.mem_iff.mp hk) with hkk | hkk
        · subst hkk; exact absurd ⟨e1.symm, e2.symm⟩ hc
        · exact ⟨k, hperm2.mem_iff.mpr (List.mem_cons_of_mem _ hkk), e1, e2⟩
    · exact h.pcount
  · intro d' hd' hne
    rcases List.mem_cons.mp (hperm1.mem_iff.mp hd') with e | e
    · subst e; exact absurd rfl hne
    · exact hperm2.mem_iff.mpr (List.mem_cons_of_mem _ e)

theorem inv_reweigh_fold {P : List Tx} (todo : List (PNode × PNode)) :
    ∀ mp : Pool, Inv mp P →
      (∀ di ∈ todo, di.1 ∈ mp.pidx ∧ ∃ w, di.2 = { di.1 with weight := w }) →
      (todo.map (fun di => di.1.skey)).Nodup →
      Inv (todo.foldl Pool.reweigh mp) P := by
  induction todo with
  | nil => intro mp h _ _; exact h
  | cons di rest ih =>
    intro mp h hmem hnd
    rw [List.map_cons, List.nodup_cons] at hnd
    obtain ⟨hd, w, hw⟩ := hmem di (by simp)
    have hdi : di = (di.1, { di.1 with weight := w }) := by
      cases di with
      | mk a b => simp only at hw ⊢; rw [hw]
    have := inv_reweigh h di.1 w hd
    rw [← hdi] at this
    rw [List.foldl_cons]
    apply ih _ this.1
    · intro di' hdi'
      obtain ⟨hd', hw'⟩ := hmem di' (by simp [hdi'])
      refine ⟨this.2 _ hd' ?_, hw'⟩
      intro e
      apply hnd.1
      exact List.mem_map.mpr ⟨di', hdi', e⟩
    · exact hnd.2

theorem inv_reorder {mp : Pool} {P : List Tx} (h : Inv mp P) : Inv mp.reorder P := by
  unfold Pool.reorder
  apply inv_reweigh_fold _ mp h
  · intro di hdi
    simp only [Pool.reorderKeys] at hdi
    rcases List.mem_map.mp hdi with ⟨k, hk, e⟩
    subst e
    exact ⟨(List.mem_filter.mp hk).1, _, rfl⟩
  · simp only [Pool.reorderKeys, List.map_map]
    exact List.Nodup.sublist (List.Sublist.map _ List.filter_sublist) h.pkeys

theorem inv_select {mp : Pool} {P : List Tx} (h : Inv mp P) : Inv mp.select.1 P := by
  unfold Pool.select
  split
  · exact h
  · exact inv_reorder h

theorem inv_steps (ops : List Op) : ∀ (mp : Pool) (P : List Tx), Inv mp P → AdmFrom P ops →
    Inv (ops.foldl Pool.step mp) (ops.foldl pendingStep P) := by
  induction ops with
  | nil => intro mp P h _; exact h
  | cons op ops ih =>
    intro mp P h hadm
    rw [List.foldl_cons, List.foldl_cons]
    apply ih _ _ _ hadm.2
    cases op with
    | insert s n p id => exact inv_insert h s n p id hadm.1
    | remove s n => exact inv_remove h s n
    | select => exact inv_select h

theorem inv_run (ops : List Op) (h : Admissible ops) : Inv (run ops) (pending ops) :=
  inv_steps ops _ _ inv_empty h

/-! ### histories: prefixes, provenance of pending transactions -/

theorem run_append (a b : List Op) : run (a ++ b) = b.foldl Pool.step (run a) := by
  simp only [run, List.foldl_append]

theorem pending_append (a b : List Op) : pending (a ++ b) = b.foldl pendingStep (pending a) := by
  simp only [pending, List.foldl_append]

/-- prefix closure of the precondition -/
theorem admFrom_append (a b : List Op) : ∀ P : List Tx,
    AdmFrom P (a ++ b) ↔ AdmFrom P a ∧ AdmFrom (a.foldl pendingStep P) b := by
  induction a with
  | nil => intro P; simp [AdmFrom]
  | cons op a ih =>
    intro P
    simp only [List.cons_append, AdmFrom, List.foldl_cons, ih, and_assoc]

theorem Admissible.prefix {a b : List Op} (h : Admissible (a ++ b)) : Admissible a :=
  ((admFrom_append a b []).mp h).1

/-- a transaction that is pending after `ops` was pending before or was inserted by `ops` -/
theorem foldl_pending_mem (ops : List Op) : ∀ (P : List Tx) (t : Tx), t ∈ ops.foldl pendingStep P →
    t ∈ P ∨ Op.insert t.sender t.nonce t.prio t.id ∈ ops := by
  induction ops with
  | nil => intro P t h; exact Or.inl h
  | cons op ops ih =>
    intro P t h
    rw [List.foldl_cons] at h
    rcases ih _ t h with h | h
    · cases op with
      | insert s n p id =>
        simp only [pendingStep] at h
        rcases List.mem_cons.mp h with h | h
        · subst h; exact Or.inr List.mem_cons_self
        · exact Or.inl (List.mem_filter.mp h).1
      | remove s n => exact Or.inl (List.mem_filter.mp h).1
      | select => exact Or.inl h
    · exact Or.inr (List.mem_cons_of_mem _ h)

/-- the operation concerns the transaction key (sender, nonce) -/
def touches (s : String) (n : Nat) : Op → Prop
  | .insert s' n' _ _ => s' = s ∧ n' = n
  | .remove s' n' => s' = s ∧ n' = n
  | .select => False

/-- a pending transaction stays pending as long as no operation concerns its key -/
theorem foldl_pending_keep (ops : List Op) : ∀ (P : List Tx) (t : Tx), t ∈ P →
    (∀ op ∈ ops, ¬ touches t.sender t.nonce op) → t ∈ ops.foldl pendingStep P := by
  induction ops with
  | nil => intro P t h _; exact h
  | cons op ops ih =>
    intro P t h hno
    rw [List.foldl_cons]
    apply ih _ t _ (fun o ho => hno o (List.mem_cons_of_mem _ ho))
    have h0 := hno op List.mem_cons_self
    have hkeep : ∀ s n, ¬ (s = t.sender ∧ n = t.nonce) →
        t ∈ P.filter (fun x => !(x.sender == s && x.nonce == n)) := by
      intro s n hne
      refine List.mem_filter.mpr ⟨h, ?_⟩
      simp only [Bool.not_eq_true', Bool.and_eq_false_iff, beq_eq_false_iff_ne, ne_eq]
      by_cases hs : t.sender = s
      · exact Or.inr (fun hn => hne ⟨hs.symm, hn.symm⟩)
      · exact Or.inl hs
    cases op with
    | insert s n p id => exact List.mem_cons_of_mem _ (hkeep s n h0)
    | remove s n => exact hkeep s n h0
    | select => exact h

/-- the priorities are Go `int64` values.  This is the *type* of `Insert`'s priority, not a
    restriction: every value the implementation can be called with satisfies it. -/
def Int64Prios (ops : List Op) : Prop :=
  ∀ s n p id, Op.insert s n p id ∈ ops → minInt64 ≤ p ∧ p ≤ maxInt64

theorem Int64Prios.prefix {a b : List Op} (h : Int64Prios (a ++ b)) : Int64Prios a :=
  fun s n p id hm => h s n p id (List.mem_append_left _ hm)

theorem pending_ge {ops : List Op} (h : Int64Prios ops) : ∀ t ∈ pending ops, minInt64 ≤ t.prio := by
  intro t ht
  rcases foldl_pending_mem ops [] t ht with h0 | h0
  · cases h0
  · exact (h _ _ _ _ h0).1

/-- no pending transaction carries the `MinValue` sentinel as its priority -/
def NoMin (P : List Tx) : Prop := ∀ t ∈ P, t.prio ≠ minInt64

/-! ### the iterator -/

/-- `k` is the priority-index element of the sender-index entry `e` of sender `s`
    (same nonce, same priority, and the weight recorded in `scores`) -/
def Own (scores : String → Nat → Option Score) (k : PNode) (s : String) (e : Tx) : Prop :=
  k.sender = s ∧ k.nonce = e.nonce ∧ k.prio = e.prio ∧ weightOf scores s e.nonce = k.weight

/-- `e` is not below any element of `R` (what remains true of `e` once its own element has
    been visited, because the index is sorted) -/
def Dom (scores : String → Nat → Option Score) (s : String) (e : Tx) (R : List PNode) : Prop :=
  ∀ r ∈ R, r.prio < e.prio ∨ (e.prio = r.prio ∧ r.weight ≤ weightOf scores s e.nonce)

/-- `nextPriority` as `iteratePriority` sets it -/
def nextPrio : Option PNode → Int
  | none => minInt64
  | some m => m.prio

/-- loop invariant of the iterator; `R` are the priority elements not yet visited.
    `head` is the key fact: every sender's first not yet yielded entry still has its own
    element ahead.  `pge` is the `int64` typing of the priorities. -/
structure LI (scores : String → Nat → Option Score) (R : List PNode) (rem : String → List Tx) : Prop where
  sorted : Sorted R
  own : ∀ s, ∀ e ∈ rem s, (∃ k ∈ R, Own scores k s e) ∨ Dom scores s e R
  head : ∀ s e es, rem s = e :: es → ∃ k ∈ R, Own scores k s e
  pge : ∀ s, ∀ e ∈ rem s, minInt64 ≤ e.prio
  snd : ∀ s, ∀ e ∈ rem s, e.sender = s

/-- `own_node_passes`: an entry whose own element is not ahead any more is never deferred
    (it passes, or — only with the `MinValue` priority at the very last element — panics) -/
theorem passes_of_dom (scores : String → Nat → Option Score) (s : String) (e : Tx) (R : List PNode)
    (hd : Dom scores s e R) (hp : minInt64 ≤ e.prio) : passes scores R.head? s e ≠ .stop := by
  cases R with
  | nil =>
    simp only [List.head?_nil, passes]
    rw [if_neg (by omega)]
    split <;> (intro h; cases h)
  | cons m R' =>
    simp only [List.head?_cons, passes]
    rcases hd m (by simp) with h | ⟨h1, h2⟩
    · rw [if_neg (by omega), if_neg (by omega)]; intro h; cases h
    · rw [if_neg (by omega), if_neg (by omega)]; intro h; cases h

theorem passes_pass_ge (scores : String → Nat → Option Score) (next : Option PNode) (s : String) (e : Tx)
    (h : passes scores next s e = .pass) : nextPrio next ≤ e.prio := by
  cases next with
  | none =>
    simp only [nextPrio]
    simp only [passes] at h
    split at h
    · cases h
    · omega
  | some m =>
    simp only [nextPrio]
    simp only [passes] at h
    split at h
    · cases h
    · omega

/-- the nil dereference happens only at the last element and only for the `MinValue` priority -/
theorem passes_panic (scores : String → Nat → Option Score) (next : Option PNode) (s : String) (e : Tx)
    (h : passes scores next s e = .panic) : next = none ∧ e.prio = minInt64 := by
  cases next with
  | none =>
    simp only [passes] at h
    split at h
    · cases h
    · split at h
      · rename_i h2; exact ⟨rfl, h2⟩
      · cases h
  | some m =>
    simp only [passes] at h
    split at h
    · cases h
    · split at h <;> cases h

theorem drain_append (scores : String → Nat → Option Score) (next : Option PNode) (s : String) (l : List Tx) :
    (drain scores next s l).1 ++ (drain scores next s l).2.1 = l := by
  induction l with
  | nil => simp [drain]
  | cons e es ih =>
    unfold drain
    split <;> simp [ih]

theorem drain_pass (scores : String → Nat → Option Score) (next : Option PNode) (s : String) (l : List Tx) :
    ∀ e ∈ (drain scores next s l).1, passes scores next s e = .pass := by
  induction l with
  | nil => simp [drain]
  | cons e es ih =>
    unfold drain
    split
    · simp
    · simp
    · rename_i hp
      intro x hx
      rcases List.mem_cons.mp hx with hx | hx
      · subst hx; exact hp
      · exact ih x hx

theorem drain_stop (scores : String → Nat → Option Score) (next : Option PNode) (s : String) (l : List Tx)
    (hnp : (drain scores next s l).2.2 = false) (e : Tx) (es : List Tx)
    (h : (drain scores next s l).2.1 = e :: es) : passes scores next s e = .stop := by
  induction l with
  | nil => simp [drain] at h
  | cons x xs ih =>
    cases hp : passes scores next s x with
    | stop =>
      simp only [drain, hp, List.cons.injEq] at h
      rw [← h.1]; exact hp
    | panic => simp [drain, hp] at hnp
    | pass =>
      simp only [drain, hp] at h hnp
      exact ih hnp h

theorem drain_panic (scores : String → Nat → Option Score) (next : Option PNode) (s : String) (l : List Tx)
    (h : (drain scores next s l).2.2 = true) : ∃ e ∈ l, passes scores next s e = .panic := by
  induction l with
  | nil => simp [drain] at h
  | cons x xs ih =>
    cases hp : passes scores next s x with
    | stop => simp [drain, hp] at h
    | panic => exact ⟨x, List.mem_cons_self, hp⟩
    | pass =>
      simp only [drain, hp] at h
      obtain ⟨e, he, hpe⟩ := ih h
      exact ⟨e, List.mem_cons_of_mem _ he, hpe⟩

/-- status of an entry after the priority element `m` has been visited -/
theorem own_step (scores : String → Nat → Option Score) (m : PNode) (R' : List PNode) (s : String) (e : Tx)
    (hs : Sorted (m :: R'))
    (h : (∃ k ∈ m :: R', Own scores k s e) ∨ Dom scores s e (m :: R')) :
    (∃ k ∈ R', Own scores k s e) ∨ Dom scores s e R' := by
  rcases h with ⟨k, hk, ho⟩ | hd
  · rcases List.mem_cons.mp hk with hk | hk
    · subst hk
      right
      intro r hr
      have := keyCmp_gt_weak ((List.pairwise_cons.mp hs).1 r hr)
      obtain ⟨_, _, h3, h4⟩ := ho
      rw [← h3, h4]
      rcases this with h | ⟨h1, h2⟩
      · exact Or.inl h
      · exact Or.inr ⟨h1, h2⟩
    · exact Or.inl ⟨k, hk, ho⟩
  · exact Or.inr (fun r hr => hd r (by simp [hr]))

theorem upd_drain_sub (scores : String → Nat → Option Score) (next : Option PNode) (m : String)
    (rem : String → List Tx) :
    ∀ s, ∀ e ∈ upd rem m (drain scores next m (rem m)).2.1 s, e ∈ rem s := by
  intro s e he
  simp only [upd] at he
  split at he
  · rename_i hs; subst hs
    rw [← drain_append scores next s (rem s)]; exact List.mem_append_right _ he
  · exact he

/-- one element of the priority index visited without a panic: the loop invariant is kept -/
theorem LI_step (scores : String → Nat → Option Score) (m : PNode) (R' : List PNode)
    (rem : String → List Tx) (h : LI scores (m :: R') rem)
    (hnp : (drain scores R'.head? m.sender (rem m.sender)).2.2 = false) :
    LI scores R' (upd rem m.sender (drain scores R'.head? m.sender (rem m.sender)).2.1) := by
  have hsub := upd_drain_sub scores R'.head? m.sender rem
  constructor
  · exact (List.pairwise_cons.mp h.sorted).2
  · intro s e he
    exact own_step scores m R' s e h.sorted (h.own s e (hsub s e he))
  · intro s e es hrem
    have hmem : e ∈ upd rem m.sender (drain scores R'.head? m.sender (rem m.sender)).2.1 s := by
      rw [hrem]; simp
    have hst := own_step scores m R' s e h.sorted (h.own s e (hsub s e hmem))
    simp only [upd] at hrem
    split at hrem
    · rename_i hs; subst hs
      rcases hst with hk | hd
      · exact hk
      · have h1 := drain_stop scores R'.head? m.sender (rem m.sender) hnp e es hrem
        exact absurd h1 (passes_of_dom scores m.sender e R' hd (h.pge _ e (hsub _ e hmem)))
    · rename_i hs
      obtain ⟨k, hk, ho⟩ := h.head s e es hrem
      rcases List.mem_cons.mp hk with hk | hk
      · subst hk; exact absurd ho.1.symm hs
      · exact ⟨k, hk, ho⟩
  · intro s e he; exact h.pge s e (hsub s e he)
  · intro s e he; exact h.snd s e (hsub s e he)

theorem filter_sender_self (l : List Tx) (s : String) (h : ∀ e ∈ l, e.sender = s) :
    l.filter (fun t => t.sender == s) = l := by
  rw [List.filter_eq_self]
  intro a ha; simp [h a ha]

theorem filter_sender_other (l : List Tx) (z s : String) (h : ∀ e ∈ l, e.sender = z) (hs : ¬ s = z) :
    l.filter (fun t => t.sender == s) = [] := by
  rw [List.filter_eq_nil_iff]
  intro a ha
  rw [h a ha]
  simp only [beq_iff_eq]
  exact fun e => hs e.symm

/-- what the iterator yields for sender `s` is always a prefix of what was left of `s`, in the
    order of the sender index; it is all of it unless the iterator panics; and it panics only
    if some entry carries the `MinValue` priority -/
theorem iter_filter (scores : String → Nat → Option Score) (R : List PNode) :
    ∀ rem : String → List Tx, LI scores R rem →
      (∀ s, (iter scores R rem).1.filter (fun t => t.sender == s) <+: rem s) ∧
      ((iter scores R rem).2 = false →
        ∀ s, (iter scores R rem).1.filter (fun t => t.sender == s) = rem s) ∧
      ((iter scores R rem).2 = true → ∃ s, ∃ e ∈ rem s, e.prio = minInt64) := by
  induction R with
  | nil =>
    intro rem h
    refine ⟨fun s => List.nil_prefix, ?_, ?_⟩
    · intro _ s
      cases hr : rem s with
      | nil => simp [iter]
      | cons e es =>
        obtain ⟨k, hk, _⟩ := h.head s e es hr
        cases hk
    · intro hp; simp [iter] at hp
  | cons m R' ih =>
    intro rem h
    have happ := drain_append scores R'.head? m.sender (rem m.sender)
    have hsnd : ∀ e ∈ (drain scores R'.head? m.sender (rem m.sender)).1, e.sender = m.sender := by
      intro e he
      apply h.snd m.sender e
      rw [← happ]; exact List.mem_append_left _ he
    cases hnp : (drain scores R'.head? m.sender (rem m.sender)).2.2 with
    | true =>
      have hit : iter scores (m :: R') rem = ((drain scores R'.head? m.sender (rem m.sender)).1, true) := by
        simp only [iter, hnp, if_true]
      rw [hit]
      refine ⟨?_, ?_, ?_⟩
      · intro s
        by_cases hs : s = m.sender
        · subst hs
          rw [filter_sender_self _ _ hsnd]
          exact ⟨_, happ⟩
        · rw [filter_sender_other _ _ _ hsnd hs]; exact List.nil_prefix
      · intro hc; cases hc
      · intro _
        obtain ⟨e, he, hpe⟩ := drain_panic _ _ _ _ hnp
        exact ⟨m.sender, e, he, (passes_panic _ _ _ _ hpe).2⟩
    | false =>
      have hli := LI_step scores m R' rem h hnp
      obtain ⟨ih1, ih2, ih3⟩ := ih _ hli
      have hit : iter scores (m :: R') rem =
          ((drain scores R'.head? m.sender (rem m.sender)).1 ++
            (iter scores R' (upd rem m.sender (drain scores R'.head? m.sender (rem m.sender)).2.1)).1,
           (iter scores R' (upd rem m.sender (drain scores R'.head? m.sender (rem m.sender)).2.1)).2) := by
        simp only [iter, hnp, Bool.false_eq_true, if_false]
      rw [hit]
      refine ⟨?_, ?_, ?_⟩
      · intro s
        rw [List.filter_append]
        have := ih1 s
        simp only [upd] at this
        split at this
        · rename_i hs; subst hs
          rw [filter_sender_self _ _ hsnd]
          have h2 := (List.prefix_append_right_inj
            (drain scores R'.head? m.sender (rem m.sender)).1).mpr this
          rw [happ] at h2
          exact h2
        · rename_i hs
          rw [filter_sender_other _ _ _ hsnd hs, List.nil_append]
          exact this
      · intro hc s
        rw [List.filter_append, ih2 hc s]
        simp only [upd]
        split
        · rename_i hs; subst hs
          rw [filter_sender_self _ _ hsnd, happ]
        · rename_i hs
          rw [filter_sender_other _ _ _ hsnd hs, List.nil_append]
      · intro hc
        obtain ⟨s, e, he, hpe⟩ := ih3 hc
        exact ⟨s, e, upd_drain_sub _ _ _ _ s e he, hpe⟩

/-- class order, recursively: when `t` is yielded, the first later transaction of any other
    sender does not have a higher priority -/
def CO : List Tx → Prop
  | [] => True
  | t :: l =>
    (∀ u, u.sender ≠ t.sender → l.find? (fun v => v.sender == u.sender) = some u → u.prio ≤ t.prio) ∧ CO l

theorem co_append (ys tail : List Tx) (z : String) (B : Int)
    (hys : ∀ t ∈ ys, t.sender = z ∧ B ≤ t.prio)
    (htail : ∀ u, u.sender ≠ z → tail.find? (fun v => v.sender == u.sender) = some u → u.prio ≤ B)
    (hco : CO tail) : CO (ys ++ tail) := by
  induction ys with
  | nil => exact hco
  | cons t ys ih =>
    have ht := hys t (by simp)
    have hys' : ∀ t ∈ ys, t.sender = z ∧ B ≤ t.prio := fun x hx => hys x (by simp [hx])
    refine ⟨?_, ih hys'⟩
    intro u hu hf
    rw [ht.1] at hu
    have hf : (ys ++ tail).find? (fun v => v.sender == u.sender) = some u := hf
    rw [List.find?_append] at hf
    have hnone : ys.find? (fun v => v.sender == u.sender) = none := by
      rw [List.find?_eq_none]
      intro x hx
      rw [(hys' x hx).1]
      simp only [beq_iff_eq]
      exact fun e => hu e.symm
    rw [hnone, Option.none_or] at hf
    have := htail u hu hf
    omega

theorem iter_co (scores : String → Nat → Option Score) (R : List PNode) :
    ∀ rem : String → List Tx, LI scores R rem → CO (iter scores R rem).1 := by
  induction R with
  | nil => intro rem _; simp [iter, CO]
  | cons m R' ih =>
    intro rem h
    have happ := drain_append scores R'.head? m.sender (rem m.sender)
    have hys : ∀ t ∈ (drain scores R'.head? m.sender (rem m.sender)).1,
        t.sender = m.sender ∧ nextPrio R'.head? ≤ t.prio := by
      intro t ht
      have hmem : t ∈ rem m.sender := by rw [← happ]; exact List.mem_append_left _ ht
      exact ⟨h.snd _ t hmem, passes_pass_ge scores _ _ t (drain_pass scores _ _ _ t ht)⟩
    cases hnp : (drain scores R'.head? m.sender (rem m.sender)).2.2 with
    | true =>
      have hit : iter scores (m :: R') rem = ((drain scores R'.head? m.sender (rem m.sender)).1, true) := by
        simp only [iter, hnp, if_true]
      rw [hit]
      have := co_append _ [] m.sender (nextPrio R'.head?) hys (by intro u _ hf; simp at hf) trivial
      simpa using this
    | false =>
      have hli := LI_step scores m R' rem h hnp
      have hco := ih _ hli
      obtain ⟨hfil, _, _⟩ := iter_filter scores R' _ hli
      have hit : iter scores (m :: R') rem =
          ((drain scores R'.head? m.sender (rem m.sender)).1 ++
            (iter scores R' (upd rem m.sender (drain scores R'.head? m.sender (rem m.sender)).2.1)).1,
           (iter scores R' (upd rem m.sender (drain scores R'.head? m.sender (rem m.sender)).2.1)).2) := by
        simp only [iter, hnp, Bool.false_eq_true, if_false]
      rw [hit]
      apply co_append _ _ m.sender (nextPrio R'.head?) hys _ hco
      intro u hu hf
      rw [← List.head?_filter] at hf
      have hpre := hfil u.sender
      cases hfl : (iter scores R' (upd rem m.sender (drain scores R'.head? m.sender (rem m.sender)).2.1)).1.filter
          (fun v => v.sender == u.sender) with
      | nil => rw [hfl] at hf; cases hf
      | cons e es =>
        rw [hfl] at hf hpre
        simp only [List.head?_cons, Option.some.injEq] at hf
        subst hf
        obtain ⟨tl, htl⟩ := hpre
        obtain ⟨k, hk, ho⟩ := hli.head _ e (es ++ tl) (by rw [← htl]; rfl)
        rw [← ho.2.2.1]
        cases R' with
        | nil => cases hk
        | cons m' R'' =>
          simp only [List.head?_cons, nextPrio]
          rcases List.mem_cons.mp hk with hk | hk
          · subst hk; exact Int.le_refl _
          · have := keyCmp_gt_weak ((List.pairwise_cons.mp hli.sorted).1 k hk)
            omega

/-- from the invariant to the iterator's loop invariant at the start of the iteration -/
theorem LI_of_inv {mp : Pool} {P : List Tx} (h : Inv mp P) (hge : ∀ t ∈ P, minInt64 ≤ t.prio) :
    LI mp.scores mp.pidx mp.sidx := by
  have hown : ∀ s, ∀ e ∈ mp.sidx s, ∃ k ∈ mp.pidx, Own mp.scores k s e := by
    intro s e he
    obtain ⟨heP, hes⟩ := (h.smem s e).mp he
    obtain ⟨k, hk, hke⟩ := h.node_of heP
    have hsc := h.score_node k hk
    subst hke
    refine ⟨k, hk, hes, rfl, rfl, ?_⟩
    have e1 : k.sender = s := hes
    simp only [weightOf, PNode.tx]
    rw [← e1, hsc]
  constructor
  · exact h.psorted
  · intro s e he; exact Or.inl (hown s e he)
  · intro s e es hr; exact hown s e (by rw [hr]; simp)
  · intro s e he; exact hge e ((h.smem s e).mp he).1
  · intro s e he; exact ((h.smem s e).mp he).2

theorem select_eq_iter (mp : Pool) :
    mp.select.2 = iter mp.select.1.scores mp.select.1.pidx mp.select.1.sidx := by
  unfold Pool.select
  split
  · rename_i he
    have : mp.pidx = [] := by simpa using he
    simp [this, iter]
  · rfl

theorem co_split (l : List Tx) (h : CO l) (pre mid post : List Tx) (t u : Tx)
    (hl : l = pre ++ t :: (mid ++ u :: post)) (hne : t.sender ≠ u.sender)
    (hmid : ∀ v ∈ mid, v.sender ≠ u.sender) : u.prio ≤ t.prio := by
  induction pre generalizing l with
  | nil =>
    subst hl
    apply h.1 u (fun e => hne e.symm)
    rw [List.find?_append]
    have hnone : mid.find? (fun v => v.sender == u.sender) = none := by
      rw [List.find?_eq_none]
      intro x hx
      simp only [beq_iff_eq]
      exact hmid x hx
    rw [hnone, Option.none_or, List.find?_cons]
    simp
  | cons x pre ih =>
    subst hl
    exact ih _ h.2 rfl

theorem ssorted_nodup (l : List Tx) (h : SSorted l) : l.Nodup := by
  unfold List.Nodup
  exact h.imp (fun hlt e => by subst e; omega)

/-- everything the iterator theorems need about `Select` in a state that satisfies the invariant -/
theorem select_spec {mp : Pool} {P : List Tx} (h : Inv mp P) (hge : ∀ t ∈ P, minInt64 ≤ t.prio) :
    (∀ s, mp.select.2.1.filter (fun t => t.sender == s) <+: mp.select.1.sidx s) ∧
    (mp.select.2.2 = false → ∀ s, mp.select.2.1.filter (fun t => t.sender == s) = mp.select.1.sidx s) ∧
    (mp.select.2.2 = true → ∃ t ∈ P, t.prio = minInt64) ∧
    CO mp.select.2.1 ∧ Inv mp.select.1 P := by
  have hi := inv_select h
  have hli := LI_of_inv hi hge
  have h1 := iter_filter _ _ _ hli
  have h2 := iter_co _ _ _ hli
  rw [← select_eq_iter] at h1 h2
  refine ⟨h1.1, h1.2.1, ?_, h2, hi⟩
  intro hp
  obtain ⟨s, e, he, hpe⟩ := h1.2.2 hp
  exact ⟨e, ((hi.smem s e).mp he).1, hpe⟩

theorem perm_of_filter_eq {mp : Pool} {P : List Tx} (h : Inv mp P) (out : List Tx)
    (hf : ∀ s, out.filter (fun t => t.sender == s) = mp.sidx s) : out.Perm P := by
  rw [List.perm_iff_count]
  intro a
  have h1 : List.count a out = List.count a (out.filter (fun t => t.sender == a.sender)) := by
    rw [List.count_filter]; simp
  rw [h1, hf a.sender, (ssorted_nodup _ (h.ssorted _)).count, h.P_nodup.count]
  have := h.smem a.sender a
  by_cases ha : a ∈ P
  · rw [if_pos ha, if_pos (this.mpr ⟨ha, rfl⟩)]
  · rw [if_neg ha, if_neg (fun hm => ha (this.mp hm).1)]

/-- safety from the prefix property alone: nothing twice, nothing that is not pending -/
theorem safe_of_filter_prefix {mp : Pool} {P : List Tx} (h : Inv mp P) (out : List Tx)
    (hf : ∀ s, out.filter (fun t => t.sender == s) <+: mp.sidx s) :
    out.Nodup ∧ (∀ t ∈ out, t ∈ P) ∧
    ∀ s, ((out.filter (fun t => t.sender == s)).map Tx.nonce).Pairwise (· < ·) := by
  refine ⟨?_, ?_, ?_⟩
  · rw [List.nodup_iff_count]
    intro a
    have h1 : List.count a out = List.count a (out.filter (fun t => t.sender == a.sender)) := by
      rw [List.count_filter]; simp
    rw [h1]
    exact Nat.le_trans ((hf a.sender).sublist.count_le a)
      (List.nodup_iff_count.mp (ssorted_nodup _ (h.ssorted _)) a)
  · intro t ht
    have : t ∈ out.filter (fun x => x.sender == t.sender) := List.mem_filter.mpr ⟨ht, by simp⟩
    exact ((h.smem t.sender t).mp (List.IsPrefix.mem this (hf t.sender))).1
  · intro s
    rw [List.pairwise_map]
    exact List.Pairwise.sublist (hf s).sublist (h.ssorted s)

/-- a prefix of a nonce-sorted list is closed under "smaller nonce": what was yielded of a
    sender has no gap below it -/
theorem prefix_sorted_closed (L' L : List Tx) (hs : SSorted L) (hp : L' <+: L) (t t' : Tx)
    (ht : t ∈ L') (ht' : t' ∈ L) (hlt : t'.nonce < t.nonce) : t' ∈ L' := by
  obtain ⟨tl, rfl⟩ := hp
  rcases List.mem_append.mp ht' with h | h
  · exact h
  · have := (List.pairwise_append.mp hs).2.2 t ht t' h
    omega

/-! ### the iterator one `Next()` at a time: exhausting it is `iter` -/

theorem upd_self {α : Type} (f : String → α) (s : String) : upd f s (f s) = f := by
  funext x
  simp only [upd]
  split
  · rename_i h; rw [h]
  · rfl

theorem iter_rem_nil (scores : String → Nat → Option Score) (m : PNode) (rest : List PNode)
    (rem : String → List Tx) (h : rem m.sender = []) :
    iter scores (m :: rest) rem = iter scores rest rem := by
  have hu : upd rem m.sender [] = rem := by rw [← h]; exact upd_self rem m.sender
  simp only [iter, h, drain, Bool.false_eq_true, if_false, hu, List.nil_append]

theorem iter_rem_stop (scores : String → Nat → Option Score) (m : PNode) (rest : List PNode)
    (rem : String → List Tx) (e : Tx) (es : List Tx) (h : rem m.sender = e :: es)
    (hp : passes scores rest.head? m.sender e = .stop) :
    iter scores (m :: rest) rem = iter scores rest rem := by
  have hu : upd rem m.sender (e :: es) = rem := by rw [← h]; exact upd_self rem m.sender
  simp only [iter, h, drain, hp, Bool.false_eq_true, if_false, hu, List.nil_append]

theorem iter_rem_panic (scores : String → Nat → Option Score) (m : PNode) (rest : List PNode)
    (rem : String → List Tx) (e : Tx) (es : List Tx) (h : rem m.sender = e :: es)
    (hp : passes scores rest.head? m.sender e = .panic) :
    iter scores (m :: rest) rem = ([], true) := by
  simp only [iter, h, drain, hp, if_true]

theorem iter_rem_pass (scores : String → Nat → Option Score) (m : PNode) (rest : List PNode)
    (rem : String → List Tx) (e : Tx) (es : List Tx) (h : rem m.sender = e :: es)
    (hp : passes scores rest.head? m.sender e = .pass) :
    iter scores (m :: rest) rem =
      (e :: (iter scores (m :: rest) (upd rem m.sender es)).1,
       (iter scores (m :: rest) (upd rem m.sender es)).2) := by
  have hu : upd rem m.sender es m.sender = es := by simp [upd]
  simp only [iter, h, drain, hp, hu, upd_upd]
  cases (drain scores rest.head? m.sender es).2.2 <;> simp

/-- what `k` rounds of `Tx()`/`Next()` produce, against the exhaustive `iter` -/
def RunSpec (r : List Tx × IterResult) (I : List Tx × Bool) (k : Nat) : Prop :=
  r.1 = I.1.take k ∧
  match r.2 with
  | .panic => I.2 = true ∧ r.1 = I.1
  | .done => I.2 = false ∧ r.1 = I.1
  | .at _ => r.1.length = k

theorem runIter_done (scores : String → Nat → Option Score) (k : Nat) :
    runIter scores k .done = ([], .done) := by
  cases k <;> rfl

theorem runIter_panic (scores : String → Nat → Option Score) (k : Nat) :
    runIter scores k .panic = ([], .panic) := by
  cases k <;> rfl

theorem runSpec_cons (r : List Tx × IterResult) (I : List Tx × Bool) (k : Nat) (e : Tx)
    (h : RunSpec r I k) : RunSpec (e :: r.1, r.2) (e :: I.1, I.2) (k + 1) := by
  obtain ⟨h1, h2⟩ := h
  refine ⟨by simp [h1], ?_⟩
  revert h2
  cases r.2 with
  | panic => intro h2; exact ⟨h2.1, by simp [h2.2]⟩
  | done => intro h2; exact ⟨h2.1, by simp [h2.2]⟩
  | «at» it => intro h2; simp only [List.length_cons]; omega

theorem runIter_advance (scores : String → Nat → Option Score) (R : List PNode) :
    ∀ (rem : String → List Tx) (k : Nat),
      RunSpec (runIter scores k (advance scores R rem)) (iter scores R rem) k := by
  induction R with
  | nil =>
    intro rem k
    simp only [advance, runIter_done, iter]
    exact ⟨by simp, rfl, rfl⟩
  | cons m rest ih =>
    have inner : ∀ (l : List Tx) (rem : String → List Tx), rem m.sender = l → ∀ k,
        RunSpec (runIter scores k (advance scores (m :: rest) rem)) (iter scores (m :: rest) rem) k := by
      intro l
      induction l with
      | nil =>
        intro rem hl k
        have : advance scores (m :: rest) rem = advance scores rest rem := by
          simp only [advance, hl]
        rw [this, iter_rem_nil scores m rest rem hl]
        exact ih rem k
      | cons e es ihl =>
        intro rem hl k
        cases hp : passes scores rest.head? m.sender e with
        | stop =>
          have : advance scores (m :: rest) rem = advance scores rest rem := by
            simp only [advance, hl, hp]
          rw [this, iter_rem_stop scores m rest rem e es hl hp]
          exact ih rem k
        | panic =>
          have : advance scores (m :: rest) rem = .panic := by
            simp only [advance, hl, hp]
          rw [this, iter_rem_panic scores m rest rem e es hl hp, runIter_panic]
          exact ⟨by simp, rfl, rfl⟩
        | pass =>
          have : advance scores (m :: rest) rem = .at ⟨m :: rest, upd rem m.sender es, e⟩ := by
            simp only [advance, hl, hp]
          rw [this, iter_rem_pass scores m rest rem e es hl hp]
          cases k with
          | zero => exact ⟨by simp [runIter], by simp [runIter]⟩
          | succ k =>
            have hrec := ihl (upd rem m.sender es) (by simp [upd]) k
            have := runSpec_cons _ _ k e hrec
            simpa only [runIter, Iter.next] using this
    intro rem k
    exact inner (rem m.sender) rem rfl k

theorem selectN_spec (mp : Pool) (k : Nat) :
    (mp.selectN k).1 = mp.select.1 ∧ RunSpec (mp.selectN k).2 mp.select.2 k := by
  unfold Pool.selectN Pool.selectStart Pool.select
  split
  · refine ⟨rfl, ?_⟩
    simp only [runIter_done]
    exact ⟨by simp, rfl, rfl⟩
  · exact ⟨rfl, runIter_advance _ _ _ k⟩

/-! ### `NewDefaultTxPriority` -/

theorem prefix_excl {u p q : List Char} (hp : p <+: u) (hq : q <+: u) : p <+: q ∨ q <+: p := by
  rcases Nat.le_total p.length q.length with h | h
  · exact Or.inl (List.prefix_of_prefix_length_le hp hq h)
  · exact Or.inr (List.prefix_of_prefix_length_le hq hp h)

theorem hasPrefix_excl (u p q : String) (hp : hasPrefix u p = true) (hq : hasPrefix u q = true)
    (h1 : ¬ p.toList <+: q.toList) (h2 : ¬ q.toList <+: p.toList) : False := by
  unfold hasPrefix at hp hq
  rw [List.isPrefixOf_iff_prefix] at hp hq
  rcases prefix_excl hp hq with h | h
  · exact h1 h
  · exact h2 h


/-- the priority class of a transaction as the property text defines it — 4 consensus queue,
    3 scheduler, 2 bridge chain (evm), 1 validator set, for single-message transactions; 0 for
    everything else.  Defined without reference to `classTable` or to any priority value. -/
def classOf : List String → Nat
  | [u] =>
    if hasPrefix u "/palomachain.paloma.consensus." then 4
    else if hasPrefix u "/palomachain.paloma.scheduler." then 3
    else if hasPrefix u "/palomachain.paloma.evm." then 2
    else if hasPrefix u "/palomachain.paloma.valset." then 1
    else 0
  | _ => 0

/-- the priority `GetTxPriority` must return for a class and a CheckTx priority -/
def rankPrio (cl : Nat) (c : Int) : Int :=
  if cl = 0 then c
  else if cl = 1 then maxInt64 - 3
  else if cl = 2 then maxInt64 - 2
  else if cl = 3 then maxInt64 - 1
  else maxInt64

theorem classOf_le (urls : List String) : classOf urls ≤ 4 := by
  unfold classOf
  split
  · repeat' split
    all_goals omega
  · omega

/-- `GetTxPriority` computes the class rank of the property text -/
theorem txPriority_rank (urls : List String) (c : Int) :
    txPriority urls c = rankPrio (classOf urls) c := by
  match urls with
  | [] => rfl
  | _ :: _ :: _ => rfl
  | [u] =>
    simp only [txPriority, classOf, classRank, classTable]
    by_cases h1 : hasPrefix u "/palomachain.paloma.consensus." = true
    · simp [List.find?, h1, rankPrio]
    · by_cases h2 : hasPrefix u "/palomachain.paloma.scheduler." = true
      · simp [List.find?, h1, h2, rankPrio]
      · by_cases h3 : hasPrefix u "/palomachain.paloma.evm." = true
        · simp [List.find?, h1, h2, h3, rankPrio]
        · by_cases h4 : hasPrefix u "/palomachain.paloma.valset." = true
          · simp [List.find?, h1, h2, h3, h4, rankPrio]
          · simp [List.find?, h1, h2, h3, h4, rankPrio]

theorem rankPrio_lt (a b : Nat) (hb : b ≤ 4) (hab : a < b) (c1 c2 : Int)
    (h1 : c1 < maxInt64 - 3) : rankPrio a c1 < rankPrio b c2 := by
  have ha : a = 0 ∨ a = 1 ∨ a = 2 ∨ a = 3 := by omega
  have hb' : b = 1 ∨ b = 2 ∨ b = 3 ∨ b = 4 := by omega
  rcases ha with rfl | rfl | rfl | rfl <;> rcases hb' with rfl | rfl | rfl | rfl <;>
    first
    | omega
    | (simp [rankPrio, maxInt64] at h1 ⊢ <;> omega)

theorem rankPrio_bounds (a : Nat) (c : Int) (hc : minInt64 ≤ c ∧ c ≤ maxInt64) :
    minInt64 ≤ rankPrio a c ∧ rankPrio a c ≤ maxInt64 ∧ (minInt64 < c → minInt64 < rankPrio a c) := by
  unfold rankPrio
  simp only [minInt64, maxInt64] at *
  repeat' split
  all_goals omega

/-! ### histories of application-level operations (`TxOp`) -/

/-- a pending transaction together with what `Insert` was given: the type URLs of its messages
    and the CheckTx priority of the context -/
structure PTx where
  tx : Tx
  urls : List String
  ctxPrio : Int

/-- the pending set of a `TxOp` history, with URLs and CheckTx priorities: defined from the
    history alone, like `pending` -/
def tpendingStep (P : List PTx) : TxOp → List PTx
  | .insert s n urls c id =>
    ⟨⟨s, n, txPriority urls c, id⟩, urls, c⟩ :: P.filter (fun x => !(x.tx.sender == s && x.tx.nonce == n))
  | .remove s n => P.filter (fun x => !(x.tx.sender == s && x.tx.nonce == n))
  | .select => P

def tpending (tops : List TxOp) : List PTx := tops.foldl tpendingStep []

theorem tpendingStep_tx (P : List PTx) (op : TxOp) :
    (tpendingStep P op).map PTx.tx = pendingStep (P.map PTx.tx) op.toOp := by
  cases op with
  | insert s n urls c id =>
    simp only [tpendingStep, TxOp.toOp, pendingStep, List.map_cons, List.filter_map]
    rfl
  | remove s n =>
    simp only [tpendingStep, TxOp.toOp, pendingStep, List.filter_map]
    rfl
  | select => rfl

theorem tpending_fold_tx (tops : List TxOp) : ∀ P : List PTx,
    (tops.foldl tpendingStep P).map PTx.tx = (tops.map TxOp.toOp).foldl pendingStep (P.map PTx.tx) := by
  induction tops with
  | nil => intro P; rfl
  | cons op tops ih =>
    intro P
    rw [List.foldl_cons, List.map_cons, List.foldl_cons, ih, tpendingStep_tx]

/-- the model's pending set is the `TxOp` pending set with the URLs forgotten -/
theorem tpending_tx (tops : List TxOp) :
    (tpending tops).map PTx.tx = pending (tops.map TxOp.toOp) :=
  tpending_fold_tx tops []

/-- every pending transaction was inserted by an operation of the history, with the recorded
    URLs and CheckTx priority, and its priority is what `GetTxPriority` computes from them -/
theorem tpending_fold_prov (tops : List TxOp) : ∀ P : List PTx, ∀ x ∈ tops.foldl tpendingStep P,
    x ∈ P ∨ (x.tx.prio = txPriority x.urls x.ctxPrio ∧
      TxOp.insert x.tx.sender x.tx.nonce x.urls x.ctxPrio x.tx.id ∈ tops) := by
  induction tops with
  | nil => intro P x h; exact Or.inl h
  | cons op tops ih =>
    intro P x h
    rw [List.foldl_cons] at h
    rcases ih _ x h with h | h
    · cases op with
      | insert s n urls c id =>
        simp only [tpendingStep] at h
        rcases List.mem_cons.mp h with h | h
        · subst h; exact Or.inr ⟨rfl, List.mem_cons_self⟩
        · exact Or.inl (List.mem_filter.mp h).1
      | remove s n => exact Or.inl (List.mem_filter.mp h).1
      | select => exact Or.inl h
    · exact Or.inr ⟨h.1, List.mem_cons_of_mem _ h.2⟩

theorem tpending_prov (tops : List TxOp) : ∀ x ∈ tpending tops,
    x.tx.prio = txPriority x.urls x.ctxPrio ∧
    TxOp.insert x.tx.sender x.tx.nonce x.urls x.ctxPrio x.tx.id ∈ tops := by
  intro x hx
  rcases tpending_fold_prov tops [] x hx with h | h
  · cases h
  · exact h

theorem mem_map_toOp_insert (tops : List TxOp) (s : String) (n : Nat) (p : Int) (id : Nat)
    (h : Op.insert s n p id ∈ tops.map TxOp.toOp) :
    ∃ urls c, TxOp.insert s n urls c id ∈ tops ∧ p = txPriority urls c := by
  rcases List.mem_map.mp h with ⟨op, hop, e⟩
  cases op with
  | insert s' n' urls c id' =>
    simp only [TxOp.toOp, Op.insert.injEq] at e
    obtain ⟨rfl, rfl, rfl, rfl⟩ := e
    exact ⟨urls, c, hop, rfl⟩
  | remove s' n' => simp [TxOp.toOp] at e
  | select => simp [TxOp.toOp] at e

/-- the CheckTx priorities of a `TxOp` history are Go `int64` values (typing, not a restriction) -/
def Int64Ctx (tops : List TxOp) : Prop :=
  ∀ s n urls c id, TxOp.insert s n urls c id ∈ tops → minInt64 ≤ c ∧ c ≤ maxInt64

theorem int64Prios_of_ctx {tops : List TxOp} (h : Int64Ctx tops) : Int64Prios (tops.map TxOp.toOp) := by
  intro s n p id hm
  obtain ⟨urls, c, hin, rfl⟩ := mem_map_toOp_insert tops s n p id hm
  have := rankPrio_bounds (classOf urls) c (h _ _ _ _ _ hin)
  rw [txPriority_rank]
  exact ⟨this.1, this.2.1⟩

/-- if no CheckTx priority is the `MinValue` sentinel, no pending priority is -/
theorem noMin_of_ctx {tops : List TxOp} (h : Int64Ctx tops)
    (hmin : ∀ s n urls c id, TxOp.insert s n urls c id ∈ tops → c ≠ minInt64) :
    NoMin (pending (tops.map TxOp.toOp)) := by
  intro t ht
  rw [← tpending_tx] at ht
  rcases List.mem_map.mp ht with ⟨x, hx, rfl⟩
  obtain ⟨hp, hin⟩ := tpending_prov tops x hx
  have hb := h _ _ _ _ _ hin
  have := (rankPrio_bounds (classOf x.urls) x.ctxPrio hb).2.2
    (by have := hmin _ _ _ _ _ hin; omega)
  rw [hp, txPriority_rank]
  omega

end Lemmas

/-! ## Property theorems (C19)

Reading guide.  `Admissible ops` is the property's own precondition and nothing else: an inserted
(sender, nonce) is not pending (or replaces a pending transaction of the same priority).
`pending ops` is the specification of the pending set, a function of the history alone.
`Int64Prios ops` is the Go type of the priorities (`int64`), not a restriction.
`NoMin (pending ops)` — "no pending priority is the `MinValue` sentinel" — is a SIDE CONDITION that
is **not** in the property statement; it is needed for exactly one clause ("every pending
transaction is yielded"), that clause is false without it (`select_complete_false_at_minvalue`, a
behaviour of /repo reproduced by the harness), and it holds in the application
(`mempool_app`: `TxFeeSkipper` makes every CheckTx priority 42). -/

/-- **index_consistent** (clause "the pool's count always equals the number of pending
transactions", and the mechanism "indices kept in step").  After any history of `Insert`,
`Remove` and `Select` in which an inserted (sender, nonce) is never already pending (or is
re-inserted with an unchanged priority) — *whatever the priorities are, `MinValue` included* —
the priority index, the per-sender indices, `scores` and `priorityCounts` all describe exactly
the pending set, the priority index is sorted by the code's comparator, every sender index by
nonce, and `CountTx` is the number of pending transactions. -/
theorem index_consistent (ops : List Op) (h : Admissible ops) :
    Inv (run ops) (pending ops) ∧
    ((run ops).pidx.map PNode.tx).Perm (pending ops) ∧
    (∀ s, ((run ops).sidx s).Perm ((pending ops).filter (fun t => t.sender == s))) ∧
    (∀ s n, ((run ops).scores s n).isSome ↔ ∃ t ∈ pending ops, t.sender = s ∧ t.nonce = n) ∧
    (∀ p, (run ops).pcounts p = (((pending ops).map Tx.prio).count p : Nat)) ∧
    (run ops).count = (pending ops).length := by
  have hi := inv_run ops h
  refine ⟨hi, hi.pperm, ?_, ?_, hi.pcount, ?_⟩
  · intro s
    rw [List.perm_ext_iff_of_nodup (ssorted_nodup _ (hi.ssorted s))
      (List.Nodup.sublist List.filter_sublist hi.P_nodup)]
    intro a
    rw [hi.smem, List.mem_filter]
    simp
  · intro s n
    constructor
    · intro hs
      cases hsc : (run ops).scores s n with
      | none => rw [hsc] at hs; cases hs
      | some sc =>
        obtain ⟨k, hk, e1, e2⟩ := hi.node_score s n sc hsc
        exact ⟨k.tx, hi.node_mem hk, e1, e2⟩
    · rintro ⟨t, ht, e1, e2⟩
      obtain ⟨k, hk, hke⟩ := hi.node_of ht
      have := hi.score_node k hk
      subst hke e1 e2
      simp only [PNode.tx]
      rw [this]; rfl
  · have := hi.pperm.length_eq
    rw [List.length_map] at this
    exact this

/-- **count_always.** "Always": at every point of an admissible history (every prefix `pre`),
`CountTx` equals the number of pending transactions.  (`Admissible` is prefix-closed:
`Admissible.prefix`.) -/
theorem count_always (pre post : List Op) (h : Admissible (pre ++ post)) :
    (run pre).count = (pending pre).length :=
  (index_consistent pre h.prefix).2.2.2.2.2

/-- **remove_found_iff** (the rejected branch of `Remove`).  `Remove` succeeds exactly for a
pending (sender, nonce) and answers `ErrTxNotFound` — leaving the pool as it is — otherwise. -/
theorem remove_found_iff (ops : List Op) (h : Admissible ops) (s : String) (n : Nat) :
    (((run ops).remove s n).2 = true ↔ ∃ t ∈ pending ops, t.sender = s ∧ t.nonce = n) ∧
    (((run ops).remove s n).2 = false → ((run ops).remove s n).1 = run ops) := by
  have hs := (index_consistent ops h).2.2.2.1 s n
  rw [← hs]
  unfold Pool.remove
  cases (run ops).scores s n <;> simp

/-- **pending_provenance.** The specification set is tied to the history: a pending transaction
is the argument of an `insert` operation of the history (same sender, nonce, priority, id). -/
theorem pending_provenance (ops : List Op) (t : Tx) (ht : t ∈ pending ops) :
    Op.insert t.sender t.nonce t.prio t.id ∈ ops := by
  rcases foldl_pending_mem ops [] t ht with h | h
  · cases h
  · exact h

/-- **inserted_pending.** Conversely, a transaction inserted by the history is pending at the end
unless a later operation concerns its (sender, nonce) — so `pending` is neither too small nor too
large, and "every pending transaction is yielded" speaks about exactly the inserted, not yet
removed or replaced transactions. -/
theorem inserted_pending (pre post : List Op) (s : String) (n : Nat) (p : Int) (id : Nat)
    (hpost : ∀ op ∈ post, ¬ touches s n op) :
    (⟨s, n, p, id⟩ : Tx) ∈ pending (pre ++ .insert s n p id :: post) := by
  rw [pending_append, List.foldl_cons]
  exact foldl_pending_keep post _ ⟨s, n, p, id⟩ (by simp [pendingStep]) hpost

/-- **removed_not_pending** (clause "never a removed one", on the history).  After
`remove s n`, as long as (s, n) is not inserted again, no transaction with that sender and
nonce is pending — hence, by `select_safe`, none is ever yielded. -/
theorem removed_not_pending (pre post : List Op) (s : String) (n : Nat)
    (hpost : ∀ p id, Op.insert s n p id ∉ post) :
    ∀ t ∈ pending (pre ++ .remove s n :: post), ¬ (t.sender = s ∧ t.nonce = n) := by
  intro t ht hk
  rw [pending_append, List.foldl_cons] at ht
  rcases foldl_pending_mem post _ t ht with h | h
  · simp only [pendingStep, List.mem_filter] at h
    simp [hk.1, hk.2] at h
  · rw [hk.1, hk.2] at h
    exact hpost _ _ h

/-- **select_safe** (clauses "exactly once" — at most once —, "never a removed one", "each
sender's transactions in strictly increasing sequence-number order"), with **no** condition on
priority values: after any admissible history, whether or not `Next` hits its nil dereference,
what `Select` has yielded up to that point
* contains no transaction twice,
* contains only pending transactions (so nothing removed or replaced),
* lists every sender's transactions in strictly increasing nonce order, without skipping a
  pending transaction of that sender with a smaller nonce;
and the iterator panics only if some pending priority is the `MinValue` sentinel; if it does
not panic the result is a permutation of the pending set. -/
theorem select_safe (ops : List Op) (h : Admissible ops) (h64 : Int64Prios ops) :
    (run ops).select.2.1.Nodup ∧
    (∀ t ∈ (run ops).select.2.1, t ∈ pending ops) ∧
    (∀ s, (((run ops).select.2.1.filter (fun t => t.sender == s)).map Tx.nonce).Pairwise (· < ·)) ∧
    (∀ t ∈ (run ops).select.2.1, ∀ t' ∈ pending ops, t'.sender = t.sender → t'.nonce < t.nonce →
      t' ∈ (run ops).select.2.1) ∧
    ((run ops).select.2.2 = true → ∃ t ∈ pending ops, t.prio = minInt64) ∧
    ((run ops).select.2.2 = false → (run ops).select.2.1.Perm (pending ops)) := by
  have hi := inv_run ops h
  obtain ⟨h1, h2, h3, _, h5⟩ := select_spec hi (pending_ge h64)
  obtain ⟨s1, s2, s3⟩ := safe_of_filter_prefix h5 _ h1
  refine ⟨s1, s2, s3, ?_, h3, fun hnp => perm_of_filter_eq h5 _ (h2 hnp)⟩
  intro t ht t' ht' hs hlt
  have htf : t ∈ (run ops).select.2.1.filter (fun x => x.sender == t.sender) :=
    List.mem_filter.mpr ⟨ht, by simp⟩
  have ht'm : t' ∈ (run ops).select.1.sidx t.sender := (h5.smem _ _).mpr ⟨ht', hs⟩
  exact (List.mem_filter.mp
    (prefix_sorted_closed _ _ (h5.ssorted _) (h1 t.sender) t t' htf ht'm hlt)).1

/-- **select_perm** (clause "yields every pending transaction exactly once, never a removed
one").  After any admissible history in which no pending priority is the `MinValue` sentinel,
`Select` (iterated to exhaustion) does not hit the nil dereference in `Next`, and yields a
permutation of the pending set without repetition: every pending transaction exactly once, and
nothing else.  Since the history is arbitrary and may itself contain `select`s, this covers
repeated selects.  The side condition `NoMin` cannot be dropped:
`select_complete_false_at_minvalue`. -/
theorem select_perm (ops : List Op) (h : Admissible ops) (h64 : Int64Prios ops)
    (hmin : NoMin (pending ops)) :
    (run ops).select.2.2 = false ∧
    (run ops).select.2.1.Perm (pending ops) ∧
    (run ops).select.2.1.Nodup ∧
    (∀ t, t ∈ (run ops).select.2.1 ↔ t ∈ pending ops) := by
  obtain ⟨s1, _, _, _, s5, s6⟩ := select_safe ops h h64
  have hnp : (run ops).select.2.2 = false := by
    cases hp : (run ops).select.2.2 with
    | false => rfl
    | true =>
      obtain ⟨t, ht, hpt⟩ := s5 hp
      exact absurd hpt (hmin t ht)
  exact ⟨hnp, s6 hnp, s1, fun t => (s6 hnp).mem_iff⟩

/-- **select_sender_sorted.** In the sequence `Select` yields, the transactions of any one
sender appear in strictly increasing nonce order (no condition on priority values). -/
theorem select_sender_sorted (ops : List Op) (h : Admissible ops) (h64 : Int64Prios ops) (s : String) :
    (((run ops).select.2.1.filter (fun t => t.sender == s)).map Tx.nonce).Pairwise (· < ·) :=
  (select_safe ops h h64).2.2.1 s

/-- **class_order.** Whenever `t` is yielded while `u` is the next (first not yet yielded)
transaction of a different sender, `u` does not have a strictly higher priority than `t`:
of two senders whose next transactions are both available, the one with the strictly higher
priority (class) is yielded first.  Holds with priority ties across senders, and for whatever
was yielded before a panic (no condition on priority values). -/
theorem class_order (ops : List Op) (h : Admissible ops) (h64 : Int64Prios ops)
    (pre mid post : List Tx) (t u : Tx)
    (hout : (run ops).select.2.1 = pre ++ t :: (mid ++ u :: post))
    (hne : t.sender ≠ u.sender) (hnext : ∀ v ∈ mid, v.sender ≠ u.sender) :
    u.prio ≤ t.prio := by
  have hi := inv_run ops h
  obtain ⟨_, _, _, h3, _⟩ := select_spec hi (pending_ge h64)
  exact co_split _ h3 pre mid post t u hout hne hnext

/-- **select_in_history** (quantifier "including repeated selects between inserts").  A `select`
anywhere inside an admissible history — with arbitrary operations, other selects included,
before and after it — is the `Select` of the pool `run pre` the history has built up to that
point, it leaves the pool `(run pre).select.1` to the rest of the history, and it satisfies
every clause: no panic, permutation of the transactions pending at that point, no repetition,
per sender increasing nonces, class order. -/
theorem select_in_history (pre post : List Op) (h : Admissible (pre ++ .select :: post))
    (h64 : Int64Prios (pre ++ .select :: post)) (hmin : NoMin (pending pre)) :
    run (pre ++ .select :: post) = post.foldl Pool.step (run pre).select.1 ∧
    (run pre).select.2.2 = false ∧
    (run pre).select.2.1.Perm (pending pre) ∧
    (run pre).select.2.1.Nodup ∧
    (∀ s, (((run pre).select.2.1.filter (fun t => t.sender == s)).map Tx.nonce).Pairwise (· < ·)) ∧
    (∀ (p mid q : List Tx) (t u : Tx), (run pre).select.2.1 = p ++ t :: (mid ++ u :: q) →
      t.sender ≠ u.sender → (∀ v ∈ mid, v.sender ≠ u.sender) → u.prio ≤ t.prio) := by
  have ha := h.prefix
  have hb := h64.prefix
  obtain ⟨p1, p2, p3, _⟩ := select_perm pre ha hb hmin
  refine ⟨?_, p1, p2, p3, fun s => select_sender_sorted pre ha hb s,
    fun p mid q t u => class_order pre ha hb p mid q t u⟩
  rw [run_append, List.foldl_cons]
  rfl

/-- **selectN_prefix** (the iterator need not be exhausted).  `Select` followed by any number
`k` of `Tx()`/`Next()` rounds — what `PrepareProposal` does until the block is full — yields
exactly the first `k` transactions of the exhaustive sequence, and leaves the pool exactly as
the exhaustive `Select` does.  Hence every safety clause of `select_safe` / `class_order` holds
for the part that was taken; the loop ends with a nil iterator only after the whole sequence
has been yielded; it ends with a panic only if the exhaustive run panics.  No hypotheses. -/
theorem selectN_prefix (mp : Pool) (k : Nat) :
    (mp.selectN k).1 = mp.select.1 ∧
    (mp.selectN k).2.1 = mp.select.2.1.take k ∧
    (match (mp.selectN k).2.2 with
     | .panic => mp.select.2.2 = true ∧ (mp.selectN k).2.1 = mp.select.2.1
     | .done => mp.select.2.2 = false ∧ (mp.selectN k).2.1 = mp.select.2.1
     | .at _ => (mp.selectN k).2.1.length = k) := by
  obtain ⟨h1, h2, h3⟩ := selectN_spec mp k
  exact ⟨h1, h2, h3⟩

/-- **selectN_complete.** After an admissible history without the `MinValue` priority, taking
`k` transactions from the iterator yields `min k |pending|` distinct pending transactions (the
first `k` of the exhaustive order), never panics, and if the iterator ends it has yielded a
permutation of the pending set. -/
theorem selectN_complete (ops : List Op) (h : Admissible ops) (h64 : Int64Prios ops)
    (hmin : NoMin (pending ops)) (k : Nat) :
    ((run ops).selectN k).2.1 = (run ops).select.2.1.take k ∧
    ((run ops).selectN k).2.1.length = min k (pending ops).length ∧
    ((run ops).selectN k).2.1.Nodup ∧
    (∀ t ∈ ((run ops).selectN k).2.1, t ∈ pending ops) ∧
    (match ((run ops).selectN k).2.2 with
     | .panic => False
     | .done => ((run ops).selectN k).2.1.Perm (pending ops)
     | .at _ => ((run ops).selectN k).2.1.length = k) := by
  obtain ⟨p1, p2, p3, p4⟩ := select_perm ops h h64 hmin
  obtain ⟨_, q2, q3⟩ := selectN_prefix (run ops) k
  refine ⟨q2, ?_, ?_, ?_, ?_⟩
  · rw [q2, List.length_take, p2.length_eq]
  · rw [q2]; exact List.Nodup.sublist (List.take_sublist _ _) p3
  · intro t ht
    rw [q2] at ht
    exact (p4 t).mp (List.mem_of_mem_take ht)
  · revert q3
    cases ((run ops).selectN k).2.2 with
    | panic => intro q3; rw [p1] at q3; cases q3.1
    | done => intro q3; rw [q3.2]; exact p2
    | «at» it => intro q3; exact q3

/-- **classes.** `NewDefaultTxPriority`: a transaction with exactly one message whose type URL
starts with the consensus / scheduler / evm / valset prefix gets a priority that is ordered
consensus > scheduler > evm (bridge chains) > valset > every other transaction, whatever the
`CheckTx` priorities are, as long as the `CheckTx` priority of the other one is below
`MaxInt64 - 3`; transactions with zero or several messages, or an unlisted type URL, keep the
`CheckTx` priority.  The bound is exact: `classes_false_at_bound`. -/
theorem classes (uc us ue uv uo : String) (pc ps pe pv po : Int)
    (hc : hasPrefix uc "/palomachain.paloma.consensus." = true)
    (hs : hasPrefix us "/palomachain.paloma.scheduler." = true)
    (he : hasPrefix ue "/palomachain.paloma.evm." = true)
    (hv : hasPrefix uv "/palomachain.paloma.valset." = true)
    (ho : classRank uo = none) (hpo : po < maxInt64 - 3) :
    txPriority [uc] pc = maxInt64 ∧ txPriority [us] ps = maxInt64 - 1 ∧
    txPriority [ue] pe = maxInt64 - 2 ∧ txPriority [uv] pv = maxInt64 - 3 ∧
    txPriority [uo] po = po ∧
    txPriority [uc] pc > txPriority [us] ps ∧ txPriority [us] ps > txPriority [ue] pe ∧
    txPriority [ue] pe > txPriority [uv] pv ∧ txPriority [uv] pv > txPriority [uo] po ∧
    (∀ l, l.length ≠ 1 → txPriority l po = po) := by
  have nsc : hasPrefix us "/palomachain.paloma.consensus." = false := by
    cases hx : hasPrefix us "/palomachain.paloma.consensus." with
    | false => rfl
    | true => exact (hasPrefix_excl us _ _ hx hs (by decide) (by decide)).elim
  have nec : hasPrefix ue "/palomachain.paloma.consensus." = false := by
    cases hx : hasPrefix ue "/palomachain.paloma.consensus." with
    | false => rfl
    | true => exact (hasPrefix_excl ue _ _ hx he (by decide) (by decide)).elim
  have nes : hasPrefix ue "/palomachain.paloma.scheduler." = false := by
    cases hx : hasPrefix ue "/palomachain.paloma.scheduler." with
    | false => rfl
    | true => exact (hasPrefix_excl ue _ _ hx he (by decide) (by decide)).elim
  have nvc : hasPrefix uv "/palomachain.paloma.consensus." = false := by
    cases hx : hasPrefix uv "/palomachain.paloma.consensus." with
    | false => rfl
    | true => exact (hasPrefix_excl uv _ _ hx hv (by decide) (by decide)).elim
  have nvs : hasPrefix uv "/palomachain.paloma.scheduler." = false := by
    cases hx : hasPrefix uv "/palomachain.paloma.scheduler." with
    | false => rfl
    | true => exact (hasPrefix_excl uv _ _ hx hv (by decide) (by decide)).elim
  have nve : hasPrefix uv "/palomachain.paloma.evm." = false := by
    cases hx : hasPrefix uv "/palomachain.paloma.evm." with
    | false => rfl
    | true => exact (hasPrefix_excl uv _ _ hx hv (by decide) (by decide)).elim
  have e1 : txPriority [uc] pc = maxInt64 := by
    simp [txPriority, classRank, classTable, hc]
  have e2 : txPriority [us] ps = maxInt64 - 1 := by
    simp [txPriority, classRank, classTable, hs, nsc]
  have e3 : txPriority [ue] pe = maxInt64 - 2 := by
    simp [txPriority, classRank, classTable, he, nec, nes]
  have e4 : txPriority [uv] pv = maxInt64 - 3 := by
    simp [txPriority, classRank, classTable, hv, nvc, nvs, nve]
  have e5 : txPriority [uo] po = po := by
    simp [txPriority, ho]
  refine ⟨e1, e2, e3, e4, e5, ?_, ?_, ?_, ?_, ?_⟩
  · rw [e1, e2]; omega
  · rw [e2, e3]; omega
  · rw [e3, e4]; omega
  · rw [e4, e5]; omega
  · intro l hl
    match l, hl with
    | [], _ => rfl
    | [_], hl => simp at hl
    | _ :: _ :: _, _ => rfl

/-- **class_rank** (clause "single-message consensus-queue, scheduler, bridge-chain and
validator-set transactions rank in that order above all others", for arbitrary message lists).
`GetTxPriority` is the rank of the property's class (`classOf`, defined from the property text,
not from the code's table); a transaction of a strictly higher class gets a strictly higher
priority than one of a lower class whose CheckTx priority is below `MaxInt64 - 3`; inside the
class "all others" the priority is the CheckTx priority. -/
theorem class_rank (urls urls' : List String) (c c' : Int) :
    txPriority urls c = rankPrio (classOf urls) c ∧
    (classOf urls = 0 → txPriority urls c = c) ∧
    (classOf urls < classOf urls' → c < maxInt64 - 3 → txPriority urls c < txPriority urls' c') := by
  refine ⟨txPriority_rank urls c, ?_, ?_⟩
  · intro h0; rw [txPriority_rank, h0]; rfl
  · intro hlt hc
    rw [txPriority_rank, txPriority_rank]
    exact rankPrio_lt _ _ (classOf_le urls') hlt c c' hc

/-- **class_order_tx** (clause "between two senders whose next transactions are both available,
the one in the higher priority class goes first", on histories of the operations the
application really issues).  `Insert(ctx, tx)` is given message type URLs and a CheckTx
priority; the priority is *derived* (`TxOp.toOp` = `GetTxPriority`).  If every CheckTx priority
of the history is below `MaxInt64 - 3`, then whenever `t` is yielded while `u` is the next
transaction of another sender, `t` and `u` are the pending transactions inserted with URLs
`xt.urls`, `xu.urls` (by `insert` operations of the history), and the class of `u` is not above
the class of `t`; inside the class "all others" the CheckTx priority of `u` is not above that
of `t`.  The bound cannot be dropped: `classes_false_at_bound`. -/
theorem class_order_tx (tops : List TxOp) (h : Admissible (tops.map TxOp.toOp))
    (hc : ∀ s n urls c id, TxOp.insert s n urls c id ∈ tops → minInt64 ≤ c ∧ c < maxInt64 - 3)
    (pre mid post : List Tx) (t u : Tx)
    (hout : (run (tops.map TxOp.toOp)).select.2.1 = pre ++ t :: (mid ++ u :: post))
    (hne : t.sender ≠ u.sender) (hnext : ∀ v ∈ mid, v.sender ≠ u.sender) :
    ∃ xt ∈ tpending tops, ∃ xu ∈ tpending tops, xt.tx = t ∧ xu.tx = u ∧
      TxOp.insert t.sender t.nonce xt.urls xt.ctxPrio t.id ∈ tops ∧
      TxOp.insert u.sender u.nonce xu.urls xu.ctxPrio u.id ∈ tops ∧
      classOf xu.urls ≤ classOf xt.urls ∧
      (classOf xt.urls = 0 → xu.ctxPrio ≤ xt.ctxPrio) := by
  have h64c : Int64Ctx tops := by
    intro s n urls c id hin
    have := hc s n urls c id hin
    refine ⟨this.1, ?_⟩
    have h2 := this.2
    simp only [maxInt64] at h2 ⊢
    omega
  have h64 := int64Prios_of_ctx h64c
  have hco := class_order _ h h64 pre mid post t u hout hne hnext
  obtain ⟨_, hsub, _⟩ := select_safe _ h h64
  have htm : t ∈ pending (tops.map TxOp.toOp) := hsub t (by rw [hout]; simp)
  have hum : u ∈ pending (tops.map TxOp.toOp) := hsub u (by rw [hout]; simp)
  rw [← tpending_tx] at htm hum
  obtain ⟨xt, hxt, et⟩ := List.mem_map.mp htm
  obtain ⟨xu, hxu, eu⟩ := List.mem_map.mp hum
  obtain ⟨pt, it⟩ := tpending_prov tops xt hxt
  obtain ⟨pu, iu⟩ := tpending_prov tops xu hxu
  have hcu := (hc _ _ _ _ _ iu).2
  have hct := (hc _ _ _ _ _ it).2
  rw [et] at pt it
  rw [eu] at pu iu
  rw [pt, pu, txPriority_rank, txPriority_rank] at hco
  have hle : classOf xu.urls ≤ classOf xt.urls := by
    apply Nat.le_of_not_lt
    intro hlt
    have := rankPrio_lt _ _ (classOf_le xu.urls) hlt xt.ctxPrio xu.ctxPrio hct
    omega
  refine ⟨xt, hxt, xu, hxu, et, eu, it, iu, hle, ?_⟩
  intro h0
  have h0u : classOf xu.urls = 0 := by omega
  rw [h0, h0u] at hco
  simpa [rankPrio] using hco

/-- **mempool_app** (the whole property for the mempool as `app/app.go` wires it).  The ante
handler is built with `TxFeeChecker: TxFeeSkipper`, so `ctx.Priority()` is `appCtxPriority = 42`
for every `Insert`.  For every history of such inserts, removes and selects with (sender,
sequence) unique among pending transactions — and nothing else assumed — `CountTx` is the number
of pending transactions; `Select` does not panic and yields every pending transaction exactly
once and nothing else; each sender's transactions come in strictly increasing nonce order; and
when `t` is yielded while `u` is the next transaction of another sender, the class of `u`
(consensus 4 > scheduler 3 > evm 2 > valset 1 > others 0, by the URLs given to `Insert`) is not
above the class of `t`. -/
theorem mempool_app (tops : List TxOp) (h : Admissible (tops.map TxOp.toOp))
    (happ : ∀ s n urls c id, TxOp.insert s n urls c id ∈ tops → c = appCtxPriority) :
    (run (tops.map TxOp.toOp)).count = (tpending tops).length ∧
    (run (tops.map TxOp.toOp)).select.2.2 = false ∧
    (run (tops.map TxOp.toOp)).select.2.1.Perm ((tpending tops).map PTx.tx) ∧
    (run (tops.map TxOp.toOp)).select.2.1.Nodup ∧
    (∀ s, (((run (tops.map TxOp.toOp)).select.2.1.filter (fun t => t.sender == s)).map Tx.nonce).Pairwise
      (· < ·)) ∧
    (∀ (pre mid post : List Tx) (t u : Tx),
      (run (tops.map TxOp.toOp)).select.2.1 = pre ++ t :: (mid ++ u :: post) →
      t.sender ≠ u.sender → (∀ v ∈ mid, v.sender ≠ u.sender) →
      ∃ xt ∈ tpending tops, ∃ xu ∈ tpending tops, xt.tx = t ∧ xu.tx = u ∧
        classOf xu.urls ≤ classOf xt.urls) := by
  have hc : ∀ s n urls c id, TxOp.insert s n urls c id ∈ tops → minInt64 ≤ c ∧ c < maxInt64 - 3 := by
    intro s n urls c id hin
    rw [happ s n urls c id hin]
    decide
  have h64c : Int64Ctx tops := by
    intro s n urls c id hin
    rw [happ s n urls c id hin]
    decide
  have h64 := int64Prios_of_ctx h64c
  have hmin : NoMin (pending (tops.map TxOp.toOp)) := by
    apply noMin_of_ctx h64c
    intro s n urls c id hin
    rw [happ s n urls c id hin]
    decide
  obtain ⟨p1, p2, p3, _⟩ := select_perm _ h h64 hmin
  refine ⟨?_, p1, ?_, p3, fun s => select_sender_sorted _ h h64 s, ?_⟩
  · rw [(index_consistent _ h).2.2.2.2.2, ← tpending_tx, List.length_map]
  · rw [tpending_tx]; exact p2
  · intro pre mid post t u hout hne hnext
    obtain ⟨xt, hxt, xu, hxu, et, eu, _, _, hle, _⟩ :=
      class_order_tx tops h hc pre mid post t u hout hne hnext
    exact ⟨xt, hxt, xu, hxu, et, eu, hle⟩

/-! ### clauses that are FALSE for `app/mempool` in isolation (behaviour of /repo, reproduced on
the real `PriorityNonceMempool` by the fixed histories of `TestC19`) -/

/- Full-strength statement of "yields every pending transaction", as the property text has it
   (no condition on priorities):
     ∀ ops, Admissible ops → Int64Prios ops →
       (run ops).select.2.2 = false ∧ (run ops).select.2.1.Perm (pending ops)
   It is false; `select_perm` (with `NoMin`) is the best true statement, `select_safe` holds
   without it. -/

/-- **select_complete_false_at_minvalue.** The clause "yields every pending transaction" fails
when a pending priority equals `TxPriority.MinValue` (`math.MinInt64`): `Next` dereferences
`priorityNode.Next()` on the last element.  First witness: a single transaction.  Second
witness: the panic also loses `c:1`, an ordinary transaction (priority 9) queued behind the
`MinValue` one.  Both histories are admissible, all priorities are `int64` values. -/
theorem select_complete_false_at_minvalue :
    (Admissible [.insert "a" 0 minInt64 1] ∧ Int64Prios [.insert "a" 0 minInt64 1] ∧
      (run [.insert "a" 0 minInt64 1]).select.2 = ([], true) ∧
      pending [.insert "a" 0 minInt64 1] = [⟨"a", 0, minInt64, 1⟩]) ∧
    (Admissible [.insert "c" 0 minInt64 1, .insert "c" 1 9 2, .insert "a" 0 5 3] ∧
      Int64Prios [.insert "c" 0 minInt64 1, .insert "c" 1 9 2, .insert "a" 0 5 3] ∧
      (run [.insert "c" 0 minInt64 1, .insert "c" 1 9 2, .insert "a" 0 5 3]).select.2
        = ([⟨"a", 0, 5, 3⟩], true) ∧
      (⟨"c", 1, 9, 2⟩ : Tx) ∈ pending [.insert "c" 0 minInt64 1, .insert "c" 1 9 2, .insert "a" 0 5 3]) ∧
    ¬ (∀ ops, Admissible ops → Int64Prios ops →
        (run ops).select.2.2 = false ∧ (run ops).select.2.1.Perm (pending ops)) := by
  refine ⟨⟨?_, ?_, by decide, by decide⟩, ⟨?_, ?_, by decide, by decide⟩, ?_⟩
  · simp [Admissible, AdmFrom, OpOk]
  · intro s n p id hm
    simp only [List.mem_singleton, Op.insert.injEq] at hm
    obtain ⟨_, _, rfl, _⟩ := hm
    decide
  · simp [Admissible, AdmFrom, OpOk, pendingStep]
  · intro s n p id hm
    simp only [List.mem_cons, Op.insert.injEq, List.not_mem_nil, or_false] at hm
    rcases hm with ⟨_, _, rfl, _⟩ | ⟨_, _, rfl, _⟩ | ⟨_, _, rfl, _⟩ <;> decide
  · intro hall
    have := hall [.insert "a" 0 minInt64 1] (by simp [Admissible, AdmFrom, OpOk])
      (by
        intro s n p id hm
        simp only [List.mem_singleton, Op.insert.injEq] at hm
        obtain ⟨_, _, rfl, _⟩ := hm
        decide)
    exact absurd this.1 (by decide)

/-- **minvalue_priority_panics** (kept from the first version). -/
theorem minvalue_priority_panics :
    (run [.insert "a" 0 minInt64 1]).select.2 = ([], true) := by decide

/- Full-strength statement of "rank … above all others" (no bound on the CheckTx priority):
     ∀ us uo ps po, hasPrefix us "/palomachain.paloma.scheduler." → classRank uo = none →
       txPriority [us] ps > txPriority [uo] po
   It is false; `classes` / `class_rank` (with `po < MaxInt64 - 3`) are the best true statements. -/

/-- **classes_false_at_bound.** `GetTxPriority` returns `ctx.Priority()` unchanged for "all other"
transactions, so a bank send whose CheckTx priority is `MaxInt64 - 3` ties with a validator-set
transaction, and one with `MaxInt64` ties with the consensus class and outranks scheduler, bridge
and validator-set transactions: with the history below, `Select` proposes the bank send `a:0`
before the scheduler transaction `b:0`.  (`ctx.Priority()` can reach `MaxInt64` with the SDK's
default fee checker, `getTxPriority` caps at `MaxInt64`; Paloma's `TxFeeSkipper` always returns
42, so the application is not affected: `mempool_app`.) -/
theorem classes_false_at_bound :
    txPriority ["/cosmos.bank.v1beta1.MsgSend"] (maxInt64 - 3)
      = txPriority ["/palomachain.paloma.valset.MsgKeepAlive"] 0 ∧
    txPriority ["/cosmos.bank.v1beta1.MsgSend"] maxInt64
      > txPriority ["/palomachain.paloma.scheduler.MsgCreateJob"] 0 ∧
    classOf ["/cosmos.bank.v1beta1.MsgSend"] = 0 ∧
    classOf ["/palomachain.paloma.scheduler.MsgCreateJob"] = 3 ∧
    Admissible ([TxOp.insert "a" 0 ["/cosmos.bank.v1beta1.MsgSend"] maxInt64 1,
      TxOp.insert "b" 0 ["/palomachain.paloma.scheduler.MsgCreateJob"] 0 2].map TxOp.toOp) ∧
    (run ([TxOp.insert "a" 0 ["/cosmos.bank.v1beta1.MsgSend"] maxInt64 1,
      TxOp.insert "b" 0 ["/palomachain.paloma.scheduler.MsgCreateJob"] 0 2].map TxOp.toOp)).select.2
      = ([⟨"a", 0, maxInt64, 1⟩, ⟨"b", 0, maxInt64 - 1, 2⟩], false) ∧
    ¬ (∀ (us uo : String) (ps po : Int), hasPrefix us "/palomachain.paloma.scheduler." = true →
        classRank uo = none → txPriority [us] ps > txPriority [uo] po) := by
  refine ⟨by decide, by decide, by decide, by decide, ?_, by decide, ?_⟩
  · simp [Admissible, AdmFrom, OpOk, pendingStep, TxOp.toOp]
  · intro hall
    have := hall "/palomachain.paloma.scheduler.MsgCreateJob" "/cosmos.bank.v1beta1.MsgSend" 0 maxInt64
      (by decide) (by decide)
    exact absurd this (by decide)

/-- **replacement_changes_priority_loses_tx** (outside the precondition; behaviour of the code
as it is).  Re-inserting a pending (sender, nonce) with a *different* priority leaves the old
priority in the key of the sender-index element (`skiplist.Set` only replaces the value), and
the iterator compares that stale key priority: here `a:0` (re-inserted with priority 10) is
pending and counted, but `Select` yields only `b:0`.  The same history run against the real
`PriorityNonceMempool` gives the same result (first history of `TestC19`). -/
theorem replacement_changes_priority_loses_tx :
    pending [.insert "a" 0 1 1, .insert "a" 0 10 2, .insert "b" 0 5 3]
      = [⟨"b", 0, 5, 3⟩, ⟨"a", 0, 10, 2⟩] ∧
    (run [.insert "a" 0 1 1, .insert "a" 0 10 2, .insert "b" 0 5 3]).count = 2 ∧
    (run [.insert "a" 0 1 1, .insert "a" 0 10 2, .insert "b" 0 5 3]).select.2
      = ([⟨"b", 0, 5, 3⟩], false) ∧
    ¬ Admissible [.insert "a" 0 1 1, .insert "a" 0 10 2, .insert "b" 0 5 3] := by
  refine ⟨by decide, by decide, by decide, ?_⟩
  simp [Admissible, AdmFrom, OpOk, pendingStep]

/-! ### non-vacuity (every example goes through `run` from the empty pool) -/

/-- a history with three senders, priority ties across senders, a remove and an intermediate
    select: it is admissible, and the final select yields all five pending transactions -/
def exampleHistory : List Op :=
  [.insert "a" 0 5 1, .insert "b" 0 5 2, .insert "a" 1 9 3, .select, .insert "c" 0 7 4,
   .remove "b" 0, .insert "b" 1 5 5, .insert "c" 1 5 6, .select]

example : Admissible exampleHistory := by
  simp [exampleHistory, Admissible, AdmFrom, OpOk, pendingStep]

example : NoMin (pending exampleHistory) := by unfold NoMin; decide

example : (run exampleHistory).select.2 =
    ([⟨"c", 0, 7, 4⟩, ⟨"a", 0, 5, 1⟩, ⟨"a", 1, 9, 3⟩, ⟨"c", 1, 5, 6⟩, ⟨"b", 1, 5, 5⟩], false) := by
  decide

example : pending exampleHistory =
    [⟨"c", 1, 5, 6⟩, ⟨"b", 1, 5, 5⟩, ⟨"c", 0, 7, 4⟩, ⟨"a", 1, 9, 3⟩, ⟨"a", 0, 5, 1⟩] ∧
    (run exampleHistory).count = 5 := by decide

/-- the in-history select of `exampleHistory` (4th operation): `select_in_history` applies with
    `pre` = the first three operations, and that select yields the three transactions pending
    at that point -/
example : exampleHistory =
      [.insert "a" 0 5 1, .insert "b" 0 5 2, .insert "a" 1 9 3] ++ .select ::
        [.insert "c" 0 7 4, .remove "b" 0, .insert "b" 1 5 5, .insert "c" 1 5 6, .select] ∧
    (run [.insert "a" 0 5 1, .insert "b" 0 5 2, .insert "a" 1 9 3]).select.2
      = ([⟨"a", 0, 5, 1⟩, ⟨"a", 1, 9, 3⟩, ⟨"b", 0, 5, 2⟩], false) := ⟨rfl, by decide⟩

/-- the removed `b:0` (id 2) is not pending at the end and not yielded, although it was yielded
    by the earlier select (`removed_not_pending` with `pre` = first five operations) -/
example : (⟨"b", 0, 5, 2⟩ : Tx) ∉ pending exampleHistory ∧
    (⟨"b", 0, 5, 2⟩ : Tx) ∉ (run exampleHistory).select.2.1 := by decide

/-- `Remove` of something that is not pending is refused and changes nothing (count stays 5) -/
example : ((run exampleHistory).remove "b" 0).2 = false ∧
    ((run exampleHistory).remove "b" 0).1.count = 5 ∧
    ((run exampleHistory).remove "b" 1).2 = true ∧
    ((run exampleHistory).remove "b" 1).1.count = 4 := by decide

/-- the more general form of the precondition is satisfiable too: `a:0` is re-inserted with an
    unchanged priority (new id 3) after a select; the new transaction is the one yielded -/
example :
    Admissible [.insert "a" 0 5 1, .insert "b" 0 5 2, .insert "a" 1 7 4, .select, .insert "a" 0 5 3] ∧
    (run [.insert "a" 0 5 1, .insert "b" 0 5 2, .insert "a" 1 7 4, .select, .insert "a" 0 5 3]).select.2
      = ([⟨"a", 0, 5, 3⟩, ⟨"a", 1, 7, 4⟩, ⟨"b", 0, 5, 2⟩], false) := by
  refine ⟨?_, by decide⟩
  simp [Admissible, AdmFrom, OpOk, pendingStep]

/-- the hypotheses of `class_order` are satisfiable: `t = c:0` (priority 7) is yielded while
    `u = b:1` (priority 5) is the next transaction of `b` -/
example : (run exampleHistory).select.2.1 =
    [] ++ (⟨"c", 0, 7, 4⟩ : Tx) :: ([⟨"a", 0, 5, 1⟩, ⟨"a", 1, 9, 3⟩, ⟨"c", 1, 5, 6⟩] ++ ⟨"b", 1, 5, 5⟩ :: []) ∧
    ("c" : String) ≠ "b" ∧
    ∀ v ∈ ([⟨"a", 0, 5, 1⟩, ⟨"a", 1, 9, 3⟩, ⟨"c", 1, 5, 6⟩] : List Tx), v.sender ≠ "b" := by decide

/-- taking 2 of the 5 transactions leaves the iterator alive (standing on the third), taking 9
    exhausts it;
    the pool afterwards is the one the exhaustive select leaves -/
example :
    ((run exampleHistory).selectN 2).2.1 = [⟨"c", 0, 7, 4⟩, ⟨"a", 0, 5, 1⟩] ∧
    ((run exampleHistory).selectN 2).2.2.cur? = some ⟨"a", 1, 9, 3⟩ ∧
    ((run exampleHistory).selectN 9).2.1.length = 5 ∧
    ((run exampleHistory).selectN 9).2.2.isDone = true ∧
    ((run exampleHistory).selectN 2).1.pidx = (run exampleHistory).select.1.pidx := by decide

/-- a stopped sender: `c:0` carries the `MinValue` priority, the iterator defers `c` at the first
    element, and panics at the last one after yielding `a:0` only; `selectN 0` (Select alone) does not
    see the panic, `selectN 1` (one `Next()`) does -/
example :
    ((run [.insert "c" 0 minInt64 1, .insert "c" 1 9 2, .insert "a" 0 5 3]).selectN 1).2.2.isPanic = true ∧
    ((run [.insert "c" 0 minInt64 1, .insert "c" 1 9 2, .insert "a" 0 5 3]).selectN 1).2.1
      = [⟨"a", 0, 5, 3⟩] ∧
    ((run [.insert "c" 0 minInt64 1, .insert "c" 1 9 2, .insert "a" 0 5 3]).selectN 0).2.2.cur?
      = some ⟨"a", 0, 5, 3⟩ := by decide

/-- a `MinValue` priority does not always panic: behind a same-sender predecessor it is yielded
    (`select_safe` is the statement that covers both outcomes) -/
example : (run [.insert "a" 0 5 1, .insert "a" 1 minInt64 2]).select.2
    = ([⟨"a", 0, 5, 1⟩, ⟨"a", 1, minInt64, 2⟩], false) := by decide

/-- a `TxOp` history as the application produces it (every CheckTx priority is 42): a bank send,
    a keep-alive, an evidence message and a job, two senders with two nonces; `mempool_app`
    applies and the classes come out in order -/
def appHistory : List TxOp :=
  [.insert "a" 0 ["/cosmos.bank.v1beta1.MsgSend"] appCtxPriority 1,
   .insert "b" 0 ["/palomachain.paloma.valset.MsgKeepAlive"] appCtxPriority 2,
   .insert "a" 1 ["/palomachain.paloma.consensus.MsgAddEvidence"] appCtxPriority 3,
   .select,
   .insert "c" 0 ["/palomachain.paloma.scheduler.MsgCreateJob"] appCtxPriority 4,
   .insert "b" 1 ["/palomachain.paloma.evm.MsgA", "/palomachain.paloma.evm.MsgB"] appCtxPriority 5,
   .remove "a" 0]

example : Admissible (appHistory.map TxOp.toOp) := by
  simp [appHistory, Admissible, AdmFrom, OpOk, pendingStep, TxOp.toOp]

example : ∀ s n urls c id, TxOp.insert s n urls c id ∈ appHistory → c = appCtxPriority := by
  intro s n urls c id h
  simp only [appHistory, List.mem_cons, TxOp.insert.injEq, List.not_mem_nil, or_false, reduceCtorEq,
    false_or] at h
  rcases h with h | h | h | h | h <;> exact h.2.2.2.1

example : (run (appHistory.map TxOp.toOp)).select.2 =
    ([⟨"a", 1, maxInt64, 3⟩, ⟨"c", 0, maxInt64 - 1, 4⟩, ⟨"b", 0, maxInt64 - 3, 2⟩, ⟨"b", 1, 42, 5⟩], false) ∧
    (tpending appHistory).map (fun x => (x.tx.sender, x.tx.nonce, classOf x.urls)) =
      [("b", 1, 0), ("c", 0, 3), ("a", 1, 4), ("b", 0, 1)] := by decide

/-- the hypotheses of `classes` are satisfiable by real type URLs -/
example :
    hasPrefix "/palomachain.paloma.consensus.MsgAddEvidence" "/palomachain.paloma.consensus." = true ∧
    hasPrefix "/palomachain.paloma.scheduler.MsgCreateJob" "/palomachain.paloma.scheduler." = true ∧
    hasPrefix "/palomachain.paloma.evm.MsgRemoveSmartContractDeploymentRequest" "/palomachain.paloma.evm." = true ∧
    hasPrefix "/palomachain.paloma.valset.MsgKeepAlive" "/palomachain.paloma.valset." = true ∧
    classRank "/palomachain.paloma.skyway.MsgSendToRemote" = none ∧
    classRank "/palomachain.paloma.consensusx.MsgFoo" = none ∧
    txPriority ["/palomachain.paloma.evm.MsgRemoveSmartContractDeploymentRequest"] 7 = maxInt64 - 2 ∧
    txPriority ["/palomachain.paloma.evm.A", "/palomachain.paloma.evm.B"] 7 = 7 := by decide

end Paloma.Mempool
