/-
C19 — the application mempool yields every pending transaction exactly once, per sender in
strictly increasing nonce order, higher priority class first; count = number pending.
Helper lemmas are in the `Lemmas` section; the property theorems follow the marker line.
-/
import PalomaModel.Model.Mempool

namespace Paloma.Mempool

/-! ## helper lemmas -/
section Lemmas

instance : Std.TransCmp keyCmp := by unfold keyCmp; infer_instance
instance : Std.OrientedCmp keyCmp := by unfold keyCmp; infer_instance

theorem keyCmp_eq_iff {a b : PNode} :
    keyCmp a b = .eq ↔ a.prio = b.prio ∧ a.weight = b.weight ∧ a.sender = b.sender ∧ a.nonce = b.nonce := by
  unfold keyCmp compareLex compareOn
  simp only [Ordering.then_eq_eq, Std.compare_eq_iff_eq]

theorem keyCmp_self (a : PNode) : keyCmp a a = .eq := keyCmp_eq_iff.mpr ⟨rfl, rfl, rfl, rfl⟩

/-- what the iterator needs from the order of the priority index -/
theorem keyCmp_gt_weak {a b : PNode} (h : keyCmp a b = .gt) :
    b.prio < a.prio ∨ (a.prio = b.prio ∧ b.weight ≤ a.weight) := by
  unfold keyCmp compareLex compareOn at h
  rw [Ordering.then_eq_gt] at h
  rcases h with h | ⟨h1, h2⟩
  · exact Or.inl (Int.compare_eq_gt.mp h)
  · have hp : a.prio = b.prio := Std.compare_eq_iff_eq.mp h1
    rw [Ordering.then_eq_gt] at h2
    rcases h2 with h2 | ⟨h2, _⟩
    · have hw : b.weight < a.weight := Int.compare_eq_gt.mp h2
      exact Or.inr ⟨hp, Int.le_of_lt hw⟩
    · have hw : a.weight = b.weight := Std.compare_eq_iff_eq.mp h2
      exact Or.inr ⟨hp, by rw [hw]; exact Int.le_refl _⟩

/-- the priority index is strictly descending in the comparator -/
def Sorted (l : List PNode) : Prop := l.Pairwise (fun a b => keyCmp a b = .gt)

/-- a sender index is strictly ascending in the nonce -/
def SSorted (l : List Tx) : Prop := l.Pairwise (fun a b => a.nonce < b.nonce)

theorem pset_perm (k : PNode) (l : List PNode) (h : ∀ x ∈ l, keyCmp k x ≠ .eq) :
    (pset k l).Perm (k :: l) := by
  induction l with
  | nil => simp [pset]
  | cons x xs ih =>
    have hx := h x (by simp)
    have ih' := ih (fun y hy => h y (by simp [hy]))
    unfold pset
    split
    · exact (List.Perm.cons x ih').trans (List.Perm.swap k x xs)
    · rename_i he; exact absurd he hx
    · exact List.Perm.refl _

theorem pset_sorted (k : PNode) (l : List PNode) (hs : Sorted l) (h : ∀ x ∈ l, keyCmp k x ≠ .eq) :
    Sorted (pset k l) := by
  induction l with
  | nil => simp [pset, Sorted]
  | cons x xs ih =>
    have hx := h x (by simp)
    have hs' := List.pairwise_cons.mp hs
    have hrest : ∀ y ∈ xs, keyCmp k y ≠ .eq := fun y hy => h y (by simp [hy])
    unfold pset
    split
    · rename_i hlt
      refine List.pairwise_cons.mpr ⟨?_, ih hs'.2 hrest⟩
      intro y hy
      rcases List.mem_cons.mp ((pset_perm k xs hrest).mem_iff.mp hy) with hy | hy
      · subst hy; exact Std.OrientedCmp.gt_iff_lt.mpr hlt
      · exact hs'.1 y hy
    · rename_i he; exact absurd he hx
    · rename_i hgt
      refine List.pairwise_cons.mpr ⟨?_, hs⟩
      intro y hy
      rcases List.mem_cons.mp hy with hy | hy
      · subst hy; exact hgt
      · exact Std.TransCmp.gt_trans hgt (hs'.1 y hy)

theorem perase_sublist (k : PNode) (l : List PNode) : (perase k l).Sublist l := by
  induction l with
  | nil => simp [perase]
  | cons x xs ih =>
    unfold perase
    split
    · exact ih.cons_cons x
    · exact List.sublist_cons_self x xs
    · exact List.Sublist.refl _

theorem perase_sorted (k : PNode) (l : List PNode) (hs : Sorted l) : Sorted (perase k l) :=
  List.Pairwise.sublist (perase_sublist k l) hs

/-- `Remove` finds the element that compares equal (this uses the full order of the index) -/
theorem perase_perm (k k' : PNode) (l : List PNode) (hs : Sorted l) (hk : k' ∈ l)
    (he : keyCmp k k' = .eq) : l.Perm (k' :: perase k l) := by
  induction l with
  | nil => cases hk
  | cons x xs ih =>
    have hs' := List.pairwise_cons.mp hs
    rcases List.mem_cons.mp hk with hk | hk
    · subst hk
      unfold perase
      simp [he]
    · have hxk : keyCmp x k' = .gt := hs'.1 k' hk
      have hkx : keyCmp k x = .lt := by
        rw [Std.TransCmp.congr_left he]
        exact Std.OrientedCmp.gt_iff_lt.mp hxk
      unfold perase
      simp only [hkx]
      exact (List.Perm.cons x (ih hs'.2 hk)).trans (List.Perm.swap k' x _)

theorem sset_perm (t : Tx) (l : List Tx) (h : ∀ x ∈ l, x.nonce ≠ t.nonce) :
    (sset t l).Perm (t :: l) := by
  induction l with
  | nil => simp [sset]
  | cons x xs ih =>
    have hx := h x (by simp)
    have ih' := ih (fun y hy => h y (by simp [hy]))
    unfold sset
    split
    · exact List.Perm.refl _
    · split
      · rename_i he; exact absurd he.symm hx
      · exact (List.Perm.cons x ih').trans (List.Perm.swap t x xs)

theorem sset_sorted (t : Tx) (l : List Tx) (hs : SSorted l) (h : ∀ x ∈ l, x.nonce ≠ t.nonce) :
    SSorted (sset t l) := by
  induction l with
  | nil => simp [sset, SSorted]
  | cons x xs ih =>
    have hx := h x (by simp)
    have hs' := List.pairwise_cons.mp hs
    have hrest : ∀ y ∈ xs, y.nonce ≠ t.nonce := fun y hy => h y (by simp [hy])
    unfold sset
    split
    · rename_i hlt
      refine List.pairwise_cons.mpr ⟨?_, hs⟩
      intro y hy
      rcases List.mem_cons.mp hy with hy | hy
      · subst hy; exact hlt
      · have := hs'.1 y hy; omega
    · split
      · rename_i he; exact absurd he.symm hx
      · rename_i h1 h2
        refine List.pairwise_cons.mpr ⟨?_, ih hs'.2 hrest⟩
        intro y hy
        rcases List.mem_cons.mp ((sset_perm t xs hrest).mem_iff.mp hy) with hy | hy
        · subst hy; omega
        · exact hs'.1 y hy

theorem serase_sublist (n : Nat) (l : List Tx) : (serase n l).Sublist l := by
  induction l with
  | nil => simp [serase]
  | cons x xs ih =>
    unfold serase
    split
    · exact ih.cons_cons x
    · split
      · exact List.sublist_cons_self x xs
      · exact List.Sublist.refl _

theorem mem_serase (n : Nat) (l : List Tx) (hs : SSorted l) (y : Tx) :
    y ∈ serase n l ↔ y ∈ l ∧ y.nonce ≠ n := by
  induction l with
  | nil => simp [serase]
  | cons x xs ih =>
    have hs' := List.pairwise_cons.mp hs
    unfold serase
    split
    · rename_i hlt
      simp only [List.mem_cons, ih hs'.2]
      constructor
      · rintro (h | h)
        · subst h; exact ⟨Or.inl rfl, by omega⟩
        · exact ⟨Or.inr h.1, h.2⟩
      · rintro ⟨h | h, hn⟩
        · exact Or.inl h
        · exact Or.inr ⟨h, hn⟩
    · split
      · rename_i h1 he
        simp only [List.mem_cons]
        constructor
        · intro h; exact ⟨Or.inr h, by have := hs'.1 y h; omega⟩
        · rintro ⟨h | h, hn⟩
          · subst h; exact absurd he hn
          · exact h
      · rename_i h1 h2
        simp only [List.mem_cons]
        constructor
        · rintro (h | h)
          · subst h; exact ⟨Or.inl rfl, h2⟩
          · exact ⟨Or.inr h, by have := hs'.1 y h; omega⟩
        · rintro ⟨h, _⟩; exact h

/-! ### specification of the pending set and the precondition on histories -/

/-- the pending set after one operation (inserting an existing (sender, nonce) replaces it) -/
def pendingStep (P : List Tx) : Op → List Tx
  | .insert s n p id => ⟨s, n, p, id⟩ :: P.filter (fun t => !(t.sender == s && t.nonce == n))
  | .remove s n => P.filter (fun t => !(t.sender == s && t.nonce == n))
  | .select => P

/-- the pending set after a history -/
def pending (ops : List Op) : List Tx := ops.foldl pendingStep []

/-- the property's precondition for one operation in pending set `P`: an inserted transaction
    has a (sender, nonce) that is not pending — or, slightly more generally, it replaces a
    pending transaction of the *same* priority — and its priority is not the `MinValue`
    sentinel -/
def OpOk (P : List Tx) : Op → Prop
  | .insert s n p _ => minInt64 < p ∧ ∀ t ∈ P, t.sender = s ∧ t.nonce = n → t.prio = p
  | _ => True

def AdmFrom (P : List Tx) : List Op → Prop
  | [] => True
  | op :: ops => OpOk P op ∧ AdmFrom (pendingStep P op) ops

/-- (sender, nonce) unique among pending transactions along the whole history -/
def Admissible (ops : List Op) : Prop := AdmFrom [] ops

/-- the indices describe the pending set `P` -/
structure Inv (mp : Pool) (P : List Tx) : Prop where
  keys_nodup : (P.map Tx.skey).Nodup
  prio_gt : ∀ t ∈ P, minInt64 < t.prio
  psorted : Sorted mp.pidx
  pkeys : (mp.pidx.map PNode.skey).Nodup
  pmem : ∀ t, t ∈ mp.pidx.map PNode.tx ↔ t ∈ P
  ssorted : ∀ s, SSorted (mp.sidx s)
  smem : ∀ s t, t ∈ mp.sidx s ↔ t ∈ P ∧ t.sender = s
  score_node : ∀ k ∈ mp.pidx, mp.scores k.sender k.nonce = some ⟨k.prio, k.weight⟩
  node_score : ∀ s n sc, mp.scores s n = some sc → ∃ k ∈ mp.pidx, k.sender = s ∧ k.nonce = n
  pcount : ∀ p, mp.pcounts p = ((P.map Tx.prio).count p : Nat)

theorem nodup_map_inj {α β : Type} {f : α → β} {l : List α} (h : (l.map f).Nodup) {a b : α}
    (ha : a ∈ l) (hb : b ∈ l) (e : f a = f b) : a = b := by
  induction l with
  | nil => cases ha
  | cons x xs ih =>
    rw [List.map_cons, List.nodup_cons] at h
    rcases List.mem_cons.mp ha with ha | ha <;> rcases List.mem_cons.mp hb with hb | hb
    · rw [ha, hb]
    · have hm : f b ∈ xs.map f := List.mem_map.mpr ⟨b, hb, rfl⟩
      rw [← e, ha] at hm; exact absurd hm h.1
    · have hm : f a ∈ xs.map f := List.mem_map.mpr ⟨a, ha, rfl⟩
      rw [e, hb] at hm; exact absurd hm h.1
    · exact ih h.2 ha hb

theorem nodup_of_map {α β : Type} (f : α → β) {l : List α} (h : (l.map f).Nodup) : l.Nodup := by
  unfold List.Nodup at *
  rw [List.pairwise_map] at h
  exact h.imp (fun hne e => hne (congrArg f e))

theorem skey_tx (k : PNode) : k.tx.skey = k.skey := rfl

theorem Inv.ptx_nodup {mp : Pool} {P : List Tx} (h : Inv mp P) : (mp.pidx.map PNode.tx).Nodup := by
  have : (mp.pidx.map PNode.tx).map Tx.skey = mp.pidx.map PNode.skey := by
    rw [List.map_map]; rfl
  exact nodup_of_map _ (this ▸ h.pkeys)

theorem Inv.P_nodup {mp : Pool} {P : List Tx} (h : Inv mp P) : P.Nodup :=
  nodup_of_map _ h.keys_nodup

theorem Inv.pperm {mp : Pool} {P : List Tx} (h : Inv mp P) : (mp.pidx.map PNode.tx).Perm P :=
  (List.perm_ext_iff_of_nodup h.ptx_nodup h.P_nodup).mpr h.pmem

theorem Inv.node_of {mp : Pool} {P : List Tx} (h : Inv mp P) {t : Tx} (ht : t ∈ P) :
    ∃ k ∈ mp.pidx, k.tx = t := by
  have := (h.pmem t).mpr ht
  rcases List.mem_map.mp this with ⟨k, hk, e⟩
  exact ⟨k, hk, e⟩

theorem Inv.node_mem {mp : Pool} {P : List Tx} (h : Inv mp P) {k : PNode} (hk : k ∈ mp.pidx) :
    k.tx ∈ P := (h.pmem _).mp (List.mem_map.mpr ⟨k, hk, rfl⟩)

theorem inv_empty : Inv Pool.empty [] := by
  constructor <;> simp [Pool.empty, Sorted, SSorted]

theorem filter_key_fresh (P : List Tx) (s : String) (n : Nat)
    (h : ∀ t ∈ P, ¬ (t.sender = s ∧ t.nonce = n)) :
    P.filter (fun t => !(t.sender == s && t.nonce == n)) = P := by
  rw [List.filter_eq_self]
  intro t ht
  have := h t ht
  simp only [Bool.not_eq_true', Bool.and_eq_false_iff, beq_eq_false_iff_ne, ne_eq]
  by_cases hs : t.sender = s
  · exact Or.inr (fun hn => this ⟨hs, hn⟩)
  · exact Or.inl hs

theorem perm_filter_key (P : List Tx) (t0 : Tx) (hnd : (P.map Tx.skey).Nodup) (h0 : t0 ∈ P) :
    P.Perm (t0 :: P.filter (fun t => !(t.sender == t0.sender && t.nonce == t0.nonce))) := by
  induction P with
  | nil => cases h0
  | cons x xs ih =>
    rw [List.map_cons, List.nodup_cons] at hnd
    rcases List.mem_cons.mp h0 with h0 | h0
    · subst h0
      have : xs.filter (fun t => !(t.sender == t0.sender && t.nonce == t0.nonce)) = xs := by
        apply filter_key_fresh
        intro t ht hk
        apply hnd.1
        exact List.mem_map.mpr ⟨t, ht, by simp [Tx.skey, hk.1, hk.2]⟩
      have hdrop : (!(t0.sender == t0.sender && t0.nonce == t0.nonce)) = false := by simp
      rw [List.filter_cons, hdrop, this]
      simp
    · have hne : ¬ (x.sender = t0.sender ∧ x.nonce = t0.nonce) := by
        intro hk
        apply hnd.1
        exact List.mem_map.mpr ⟨t0, h0, by simp [Tx.skey, hk.1, hk.2]⟩
      have hkeep : (!(x.sender == t0.sender && x.nonce == t0.nonce)) = true := by
        simp only [Bool.not_eq_true', Bool.and_eq_false_iff, beq_eq_false_iff_ne, ne_eq]
        by_cases hs : x.sender = t0.sender
        · exact Or.inr (fun hn => hne ⟨hs, hn⟩)
        · exact Or.inl hs
      rw [List.filter_cons, if_pos hkeep]
      exact (List.Perm.cons x (ih hnd.2 h0)).trans (List.Perm.swap t0 x _)

theorem inv_insert_fresh {mp : Pool} {P : List Tx} (h : Inv mp P) (s : String) (n : Nat) (p : Int) (id : Nat)
    (hp : minInt64 < p) (hfresh : ∀ t ∈ P, ¬ (t.sender = s ∧ t.nonce = n)) :
    Inv (mp.insert s n p id) (pendingStep P (.insert s n p id)) := by
  have hP' : pendingStep P (.insert s n p id) = ⟨s, n, p, id⟩ :: P := by
    simp only [pendingStep]; rw [filter_key_fresh P s n hfresh]
  have hnokey : ∀ x ∈ mp.pidx, ¬ (x.sender = s ∧ x.nonce = n) := by
    intro x hx hk
    exact hfresh x.tx (h.node_mem hx) hk
  have hnone : mp.scores s n = none := by
    cases hsc : mp.scores s n with
    | none => rfl
    | some sc =>
      obtain ⟨k, hk, h1, h2⟩ := h.node_score s n sc hsc
      exact absurd ⟨h1, h2⟩ (hnokey k hk)
  have hneq : ∀ x ∈ mp.pidx, keyCmp ⟨p, 0, s, n, id⟩ x ≠ .eq := by
    intro x hx he
    have := keyCmp_eq_iff.mp he
    exact hnokey x hx ⟨this.2.2.1.symm, this.2.2.2.symm⟩
  have hperm := pset_perm ⟨p, 0, s, n, id⟩ mp.pidx hneq
  have hsn : ∀ x ∈ mp.sidx s, x.nonce ≠ (⟨s, n, p, id⟩ : Tx).nonce := by
    intro x hx hn
    have := (h.smem s x).mp hx
    exact hfresh x this.1 ⟨this.2, hn⟩
  have hsperm := sset_perm ⟨s, n, p, id⟩ (mp.sidx s) hsn
  have hins : mp.insert s n p id =
      { pidx := pset ⟨p, 0, s, n, id⟩ mp.pidx
        sidx := upd mp.sidx s (sset ⟨s, n, p, id⟩ (mp.sidx s))
        scores := upd2 mp.scores s n (some ⟨p, 0⟩)
        pcounts := bump mp.pcounts p 1 } := by
    simp only [Pool.insert, hnone]
  rw [hP', hins]
  constructor
  · -- keys_nodup
    rw [List.map_cons, List.nodup_cons]
    refine ⟨?_, h.keys_nodup⟩
    intro hm
    rcases List.mem_map.mp hm with ⟨t, ht, e⟩
    simp only [Tx.skey, Prod.mk.injEq] at e
    exact hfresh t ht e
  · -- prio_gt
    intro t ht
    rcases List.mem_cons.mp ht with ht | ht
    · subst ht; exact hp
    · exact h.prio_gt t ht
  · exact pset_sorted _ _ h.psorted hneq
  · -- pkeys
    refine ((hperm.map PNode.skey).nodup_iff).mpr ?_
    rw [List.map_cons, List.nodup_cons]
    refine ⟨?_, h.pkeys⟩
    intro hm
    rcases List.mem_map.mp hm with ⟨x, hx, e⟩
    simp only [PNode.skey, Prod.mk.injEq] at e
    exact hnokey x hx e
  · -- pmem
    intro t
    rw [(hperm.map PNode.tx).mem_iff, List.map_cons, List.mem_cons, List.mem_cons, h.pmem]
    rfl
  · -- ssorted
    intro s'
    simp only [upd]
    split
    · exact sset_sorted _ _ (h.ssorted s) hsn
    · exact h.ssorted s'
  · -- smem
    intro s' t
    simp only [upd]
    split
    · rename_i hs; subst hs
      rw [hsperm.mem_iff, List.mem_cons, List.mem_cons, h.smem]
      constructor
      · rintro (e | ⟨h1, h2⟩)
        · subst e; exact ⟨Or.inl rfl, rfl⟩
        · exact ⟨Or.inr h1, h2⟩
      · rintro ⟨e | h1, h2⟩
        · exact Or.inl e
        · exact Or.inr ⟨h1, h2⟩
    · rename_i hs
      rw [h.smem, List.mem_cons]
      constructor
      · rintro ⟨h1, h2⟩; exact ⟨Or.inr h1, h2⟩
      · rintro ⟨e | h1, h2⟩
        · subst e; exact absurd h2.symm hs
        · exact ⟨h1, h2⟩
  · -- score_node
    intro k hk
    rcases List.mem_cons.mp (hperm.mem_iff.mp hk) with hk | hk
    · subst hk; simp [upd2]
    · have := hnokey k hk
      simp only [upd2, this, if_false]
      exact h.score_node k hk
  · -- node_score
    intro s' n' sc hsc
    simp only [upd2] at hsc
    split at hsc
    · rename_i hc
      exact ⟨⟨p, 0, s, n, id⟩, hperm.mem_iff.mpr (List.mem_cons_self), hc.1.symm, hc.2.symm⟩
    · obtain ⟨k, hk, hk'⟩ := h.node_score s' n' sc hsc
      exact ⟨k, hperm.mem_iff.mpr (List.mem_cons_of_mem _ hk), hk'⟩
  · -- pcount
    intro p'
    simp only [bump, List.map_cons, List.count_cons, h.pcount]
    by_cases hpp : p' = p
    · subst hpp; simp
    · have : ¬ p = p' := fun e => hpp e.symm
      simp [hpp, this]

theorem inv_remove {mp : Pool} {P : List Tx} (h : Inv mp P) (s : String) (n : Nat) :
    Inv (mp.remove s n).1 (pendingStep P (.remove s n)) := by
  cases hsc : mp.scores s n with
  | none =>
    have hfresh : ∀ t ∈ P, ¬ (t.sender = s ∧ t.nonce = n) := by
      intro t ht hk
      obtain ⟨k, hk1, hk2⟩ := h.node_of ht
      have := h.score_node k hk1
      have e1 : k.sender = s := by rw [← hk.1, ← hk2]; rfl
      have e2 : k.nonce = n := by rw [← hk.2, ← hk2]; rfl
      rw [e1, e2, hsc] at this
      cases this
    have hP' : pendingStep P (.remove s n) = P := by
      simp only [pendingStep]; exact filter_key_fresh P s n hfresh
    have hrm : (mp.remove s n).1 = mp := by simp only [Pool.remove, hsc]
    rw [hP', hrm]; exact h
  | some sc =>
    obtain ⟨k, hk, h1, h2⟩ := h.node_score s n sc hsc
    subst h1 h2
    have hsc' := h.score_node k hk
    rw [hsc] at hsc'
    have hsce : sc = ⟨k.prio, k.weight⟩ := Option.some.inj hsc'
    subst hsce
    have hrm : (mp.remove k.sender k.nonce).1 =
        { pidx := perase ⟨k.prio, k.weight, k.sender, k.nonce, 0⟩ mp.pidx
          sidx := upd mp.sidx k.sender (serase k.nonce (mp.sidx k.sender))
          scores := upd2 mp.scores k.sender k.nonce none
          pcounts := bump mp.pcounts k.prio (-1) } := by
      simp only [Pool.remove, hsc]
    have hke : keyCmp ⟨k.prio, k.weight, k.sender, k.nonce, 0⟩ k = .eq :=
      keyCmp_eq_iff.mpr ⟨rfl, rfl, rfl, rfl⟩
    have hperm := perase_perm ⟨k.prio, k.weight, k.sender, k.nonce, 0⟩ k mp.pidx h.psorted hk hke
    have ht0 : k.tx ∈ P := h.node_mem hk
    have hPperm := perm_filter_key P k.tx h.keys_nodup ht0
    have hP' : pendingStep P (.remove k.sender k.nonce) =
        P.filter (fun t => !(t.sender == k.tx.sender && t.nonce == k.tx.nonce)) := rfl
    have hknot : k.skey ∉ (perase ⟨k.prio, k.weight, k.sender, k.nonce, 0⟩ mp.pidx).map PNode.skey := by
      have := ((hperm.map PNode.skey).nodup_iff).mp h.pkeys
      rw [List.map_cons, List.nodup_cons] at this
      exact this.1
    rw [hP', hrm]
    constructor
    · exact List.Nodup.sublist (List.Sublist.map _ List.filter_sublist) h.keys_nodup
    · intro t ht; exact h.prio_gt t (List.mem_filter.mp ht).1
    · exact perase_sorted _ _ h.psorted
    · exact List.Nodup.sublist (List.Sublist.map _ (perase_sublist _ _)) h.pkeys
    · -- pmem
      intro t
      have e1 := (hperm.map PNode.tx)
      rw [List.map_cons] at e1
      have e2 := (e1.symm.trans (h.pperm.trans hPperm)).cons_inv
      exact e2.mem_iff
    · intro s'
      simp only [upd]
      split
      · exact List.Pairwise.sublist (serase_sublist _ _) (h.ssorted _)
      · exact h.ssorted s'
    · -- smem
      intro s' t
      simp only [upd]
      have hdec : ∀ t : Tx, (!(t.sender == k.tx.sender && t.nonce == k.tx.nonce)) = true ↔
          ¬ (t.sender = k.sender ∧ t.nonce = k.nonce) := by
        intro t
        simp only [PNode.tx, Bool.not_eq_true', Bool.and_eq_false_iff, beq_eq_false_iff_ne, ne_eq]
        constructor
        · rintro (h1 | h1) hk
          · exact h1 hk.1
          · exact h1 hk.2
        · intro hk
          by_cases hs : t.sender = k.sender
          · exact Or.inr (fun hn => hk ⟨hs, hn⟩)
          · exact Or.inl hs
      split
      · rename_i hs; subst hs
        rw [mem_serase _ _ (h.ssorted _), h.smem, List.mem_filter, hdec]
        constructor
        · rintro ⟨⟨h1, h2⟩, h3⟩; exact ⟨⟨h1, fun hk => h3 hk.2⟩, h2⟩
        · rintro ⟨⟨h1, h3⟩, h2⟩; exact ⟨⟨h1, h2⟩, fun hn => h3 ⟨h2, hn⟩⟩
      · rename_i hs
        rw [h.smem, List.mem_filter, hdec]
        constructor
        · rintro ⟨h1, h2⟩; exact ⟨⟨h1, fun hk => hs (h2 ▸ hk.1)⟩, h2⟩
        · rintro ⟨⟨h1, _⟩, h2⟩; exact ⟨h1, h2⟩
    · -- score_node
      intro k' hk'
      have hk'0 : k' ∈ mp.pidx := (perase_sublist _ _).subset hk'
      have hne : ¬ (k'.sender = k.sender ∧ k'.nonce = k.nonce) := by
        intro e
        apply hknot
        exact List.mem_map.mpr ⟨k', hk', by simp [PNode.skey, e.1, e.2]⟩
      simp only [upd2, hne, if_false]
      exact h.score_node k' hk'0
    · -- node_score
      intro s' n' sc' hsc'
      simp only [upd2] at hsc'
      split at hsc'
      · cases hsc'
      · rename_i hc
        obtain ⟨k', hk', e1, e2⟩ := h.node_score s' n' sc' hsc'
        rcases List.mem_cons.mp (hperm.mem_iff.mp hk') with hkk | hkk
        · subst hkk; exact absurd ⟨e1.symm, e2.symm⟩ hc
        · exact ⟨k', hkk, e1, e2⟩
    · -- pcount
      intro p'
      have := (hPperm.map Tx.prio).count_eq p'
      simp only [bump, h.pcount, this, List.map_cons, List.count_cons]
      by_cases hpp : p' = k.prio
      · subst hpp; simp [PNode.tx]; omega
      · have : ¬ k.prio = p' := fun e => hpp e.symm
        simp [hpp, this, PNode.tx]

theorem upd_upd {α : Type} (f : String → α) (s : String) (a b : α) :
    upd (upd f s a) s b = upd f s b := by
  funext x; simp only [upd]; split <;> rfl

theorem upd2_upd2 {α : Type} (f : String → Nat → α) (s : String) (n : Nat) (a b : α) :
    upd2 (upd2 f s n a) s n b = upd2 f s n b := by
  funext x y; simp only [upd2]; split <;> rfl

/-- replacing the value of the element with the same nonce = unlinking it and linking the new one,
    provided the new entry carries the same key priority -/
theorem sset_serase (t : Tx) (l : List Tx) (hs : SSorted l) (x : Tx) (hx : x ∈ l)
    (hn : x.nonce = t.nonce) (hid : { x with id := t.id } = t) :
    sset t (serase t.nonce l) = sset t l := by
  induction l with
  | nil => cases hx
  | cons y ys ih =>
    have hs' := List.pairwise_cons.mp hs
    by_cases hlt : y.nonce < t.nonce
    · have hxy : x ∈ ys := by
        rcases List.mem_cons.mp hx with e | e
        · subst e; omega
        · exact e
      have h1 : ¬ t.nonce < y.nonce := by omega
      have h2 : ¬ t.nonce = y.nonce := by omega
      simp only [serase, hlt, if_true, sset, h1, h2, if_false]
      rw [ih hs'.2 hxy]
    · have hxy : x = y := by
        rcases List.mem_cons.mp hx with e | e
        · exact e
        · have := hs'.1 x e; omega
      subst hxy
      have hge : ∀ z ∈ ys, t.nonce < z.nonce := fun z hz => by have := hs'.1 z hz; omega
      have h0 : ¬ x.nonce < t.nonce := hlt
      have h1 : ¬ t.nonce < x.nonce := by omega
      have hL : serase t.nonce (x :: ys) = ys := by
        simp only [serase]; rw [if_neg h0, if_pos hn]
      have hR : sset t (x :: ys) = t :: ys := by
        simp only [sset]; rw [if_neg h1, if_pos hn.symm, hid]
      rw [hL, hR]
      cases ys with
      | nil => rfl
      | cons z zs =>
        simp only [sset]; rw [if_pos (hge z (by simp))]

/-- `Insert` on a pending (sender, nonce) with an unchanged priority is `Remove` then `Insert` -/
theorem insert_eq_remove_insert {mp : Pool} {P : List Tx} (h : Inv mp P) (s : String) (n : Nat)
    (p : Int) (id : Nat) (t0 : Tx) (ht0 : t0 ∈ P) (hk0 : t0.sender = s ∧ t0.nonce = n) (hp0 : t0.prio = p) :
    mp.insert s n p id = (mp.remove s n).1.insert s n p id := by
  obtain ⟨k, hk, hke⟩ := h.node_of ht0
  have e1 : k.sender = s := by rw [← hk0.1, ← hke]; rfl
  have e2 : k.nonce = n := by rw [← hk0.2, ← hke]; rfl
  have e3 : k.prio = p := by rw [← hp0, ← hke]; rfl
  have hsc := h.score_node k hk
  rw [e1, e2] at hsc
  have hmem : t0 ∈ mp.sidx s := (h.smem s t0).mpr ⟨ht0, hk0.1⟩
  have hss := sset_serase ⟨s, n, p, id⟩ (mp.sidx s) (h.ssorted s) t0 hmem hk0.2
    (by cases t0; simp only at hk0 hp0; simp [hk0.1, hk0.2, hp0])
  have hnone : upd2 mp.scores s n none s n = none := by simp [upd2]
  have hsx : upd mp.sidx s (serase n (mp.sidx s)) s = serase n (mp.sidx s) := by simp [upd]
  simp only [Pool.insert, Pool.remove, hsc, hnone, hsx, upd_upd, upd2_upd2]
  rw [hss]

theorem inv_insert {mp : Pool} {P : List Tx} (h : Inv mp P) (s : String) (n : Nat) (p : Int) (id : Nat)
    (hok : OpOk P (.insert s n p id)) :
    Inv (mp.insert s n p id) (pendingStep P (.insert s n p id)) := by
  obtain ⟨hp, hsame⟩ := hok
  by_cases hex : ∃ t ∈ P, t.sender = s ∧ t.nonce = n
  · obtain ⟨t0, ht0, hk0⟩ := hex
    rw [insert_eq_remove_insert h s n p id t0 ht0 hk0 (hsame t0 ht0 hk0)]
    have h1 := inv_remove h s n
    have hfresh : ∀ t ∈ pendingStep P (.remove s n), ¬ (t.sender = s ∧ t.nonce = n) := by
      intro t ht hk
      simp only [pendingStep, List.mem_filter] at ht
      simp [hk.1, hk.2] at ht
    have h2 := inv_insert_fresh h1 s n p id hp hfresh
    have hP : pendingStep (pendingStep P (.remove s n)) (.insert s n p id)
        = pendingStep P (.insert s n p id) := by
      simp only [pendingStep, List.filter_filter, Bool.and_self]
    rw [hP] at h2
    exact h2
  · exact inv_insert_fresh h s n p id hp (fun t ht hk => hex ⟨t, ht, hk⟩)

/-- one round of the second loop of `reorderPriorityTies` keeps the invariant, and keeps every
    other element of the priority index in place -/
theorem inv_reweigh {mp : Pool} {P : List Tx} (h : Inv mp P) (d : PNode) (w : Int) (hd : d ∈ mp.pidx) :
    Inv (mp.reweigh (d, { d with weight := w })) P ∧
    (∀ d' ∈ mp.pidx, d'.skey ≠ d.skey → d' ∈ (mp.reweigh (d, { d with weight := w })).pidx) := by
  have hperm1 := perase_perm d d mp.pidx h.psorted hd (keyCmp_self d)
  have hknot : d.skey ∉ (perase d mp.pidx).map PNode.skey := by
    have := ((hperm1.map PNode.skey).nodup_iff).mp h.pkeys
    rw [List.map_cons, List.nodup_cons] at this
    exact this.1
  have hnoeq : ∀ x ∈ perase d mp.pidx, keyCmp { d with weight := w } x ≠ .eq := by
    intro x hx he
    have e := keyCmp_eq_iff.mp he
    apply hknot
    exact List.mem_map.mpr ⟨x, hx, by simp only [PNode.skey]; rw [← e.2.2.1, ← e.2.2.2]⟩
  have hperm2 := pset_perm { d with weight := w } (perase d mp.pidx) hnoeq
  have hrw : mp.reweigh (d, { d with weight := w }) =
      { mp with
        pidx := pset { d with weight := w } (perase d mp.pidx)
        scores := upd2 mp.scores d.sender d.nonce (some ⟨d.prio, w⟩) } := rfl
  rw [hrw]
  refine ⟨?_, ?_⟩
  · constructor
    · exact h.keys_nodup
    · exact h.prio_gt
    · exact pset_sorted _ _ (perase_sorted _ _ h.psorted) hnoeq
    · -- pkeys
      have e : (pset { d with weight := w } (perase d mp.pidx)).map PNode.skey |>.Perm
          (mp.pidx.map PNode.skey) :=
        (hperm2.map PNode.skey).trans (hperm1.map PNode.skey).symm
      exact (e.nodup_iff).mpr h.pkeys
    · -- pmem
      intro t
      have e : (pset { d with weight := w } (perase d mp.pidx)).map PNode.tx |>.Perm
          (mp.pidx.map PNode.tx) :=
        (hperm2.map PNode.tx).trans (hperm1.map PNode.tx).symm
      rw [e.mem_iff]; exact h.pmem t
    · exact h.ssorted
    · exact h.smem
    · -- score_node
      intro k hk
      rcases List.mem_cons.mp (hperm2.mem_iff.mp hk) with hk | hk
      · subst hk; simp [upd2]
      · have hk0 : k ∈ mp.pidx := (perase_sublist _ _).subset hk
        have hne : ¬ (k.sender = d.sender ∧ k.nonce = d.nonce) := by
          intro e
          apply hknot
          exact List.mem_map.mpr ⟨k, hk, by simp [PNode.skey, e.1, e.2]⟩
        simp only [upd2, hne, if_false]
        exact h.score_node k hk0
    · -- node_score
      intro s' n' sc hsc
      simp only [upd2] at hsc
      split at hsc
      · rename_i hc
        exact ⟨{ d with weight := w }, hperm2.mem_iff.mpr List.mem_cons_self, hc.1.symm, hc.2.symm⟩
      · rename_i hc
        obtain ⟨k, hk, e1, e2⟩ := h.node_score s' n' sc hsc
        rcases List.mem_cons.mp (hperm1.mem_iff.mp hk) with hkk | hkk
        · subst hkk; exact absurd ⟨e1.symm, e2.symm⟩ hc
        · exact ⟨k, hperm2.mem_iff.mpr (List.mem_cons_of_mem _ hkk), e1, e2⟩
    · exact h.pcount
  · intro d' hd' hne
    rcases List.mem_cons.mp (hperm1.mem_iff.mp hd') with e | e
    · subst e; exact absurd rfl hne
    · exact hperm2.mem_iff.mpr (List.mem_cons_of_mem _ e)

theorem inv_reweigh_fold {P : List Tx} (todo : List (PNode × PNode)) :
    ∀ mp : Pool, Inv mp P →
      (∀ di ∈ todo, di.1 ∈ mp.pidx ∧ ∃ w, di.2 = { di.1 with weight := w }) →
      (todo.map (fun di => di.1.skey)).Nodup →
      Inv (todo.foldl Pool.reweigh mp) P := by
  induction todo with
  | nil => intro mp h _ _; exact h
  | cons di rest ih =>
    intro mp h hmem hnd
    rw [List.map_cons, List.nodup_cons] at hnd
    obtain ⟨hd, w, hw⟩ := hmem di (by simp)
    have hdi : di = (di.1, { di.1 with weight := w }) := by
      cases di with
      | mk a b => simp only at hw ⊢; rw [hw]
    have := inv_reweigh h di.1 w hd
    rw [← hdi] at this
    rw [List.foldl_cons]
    apply ih _ this.1
    · intro di' hdi'
      obtain ⟨hd', hw'⟩ := hmem di' (by simp [hdi'])
      refine ⟨this.2 _ hd' ?_, hw'⟩
      intro e
      apply hnd.1
      exact List.mem_map.mpr ⟨di', hdi', e⟩
    · exact hnd.2

theorem inv_reorder {mp : Pool} {P : List Tx} (h : Inv mp P) : Inv mp.reorder P := by
  unfold Pool.reorder
  apply inv_reweigh_fold _ mp h
  · intro di hdi
    simp only [Pool.reorderKeys] at hdi
    rcases List.mem_map.mp hdi with ⟨k, hk, e⟩
    subst e
    exact ⟨(List.mem_filter.mp hk).1, _, rfl⟩
  · simp only [Pool.reorderKeys, List.map_map]
    exact List.Nodup.sublist (List.Sublist.map _ List.filter_sublist) h.pkeys

theorem inv_select {mp : Pool} {P : List Tx} (h : Inv mp P) : Inv mp.select.1 P := by
  unfold Pool.select
  split
  · exact h
  · exact inv_reorder h

theorem inv_steps (ops : List Op) : ∀ (mp : Pool) (P : List Tx), Inv mp P → AdmFrom P ops →
    Inv (ops.foldl Pool.step mp) (ops.foldl pendingStep P) := by
  induction ops with
  | nil => intro mp P h _; exact h
  | cons op ops ih =>
    intro mp P h hadm
    rw [List.foldl_cons, List.foldl_cons]
    apply ih _ _ _ hadm.2
    cases op with
    | insert s n p id => exact inv_insert h s n p id hadm.1
    | remove s n => exact inv_remove h s n
    | select => exact inv_select h

theorem inv_run (ops : List Op) (h : Admissible ops) : Inv (run ops) (pending ops) :=
  inv_steps ops _ _ inv_empty h

/-! ### the iterator -/

/-- `k` is the priority-index element of the sender-index entry `e` of sender `s`
    (same nonce, same priority, and the weight recorded in `scores`) -/
def Own (scores : String → Nat → Option Score) (k : PNode) (s : String) (e : Tx) : Prop :=
  k.sender = s ∧ k.nonce = e.nonce ∧ k.prio = e.prio ∧ weightOf scores s e.nonce = k.weight

/-- `e` is not below any element of `R` (what remains true of `e` once its own element has
    been visited, because the index is sorted) -/
def Dom (scores : String → Nat → Option Score) (s : String) (e : Tx) (R : List PNode) : Prop :=
  ∀ r ∈ R, r.prio < e.prio ∨ (e.prio = r.prio ∧ r.weight ≤ weightOf scores s e.nonce)

/-- `nextPriority` as `iteratePriority` sets it -/
def nextPrio : Option PNode → Int
  | none => minInt64
  | some m => m.prio

/-- loop invariant of the iterator; `R` are the priority elements not yet visited.
    `head` is the key fact: every sender's first not yet yielded entry still has its own
    element ahead. -/
structure LI (scores : String → Nat → Option Score) (R : List PNode) (rem : String → List Tx) : Prop where
  sorted : Sorted R
  own : ∀ s, ∀ e ∈ rem s, (∃ k ∈ R, Own scores k s e) ∨ Dom scores s e R
  head : ∀ s e es, rem s = e :: es → ∃ k ∈ R, Own scores k s e
  pmin : ∀ s, ∀ e ∈ rem s, minInt64 < e.prio
  snd : ∀ s, ∀ e ∈ rem s, e.sender = s

/-- `own_node_passes`: an entry whose own element is not ahead any more passes -/
theorem passes_of_dom (scores : String → Nat → Option Score) (s : String) (e : Tx) (R : List PNode)
    (hd : Dom scores s e R) (hp : minInt64 < e.prio) : passes scores R.head? s e = .pass := by
  cases R with
  | nil =>
    simp only [List.head?_nil, passes]
    rw [if_neg (by omega), if_neg (by omega)]
  | cons m R' =>
    simp only [List.head?_cons, passes]
    rcases hd m (by simp) with h | ⟨h1, h2⟩
    · rw [if_neg (by omega), if_neg (by omega)]
    · rw [if_neg (by omega), if_neg (by omega)]

theorem passes_pass_ge (scores : String → Nat → Option Score) (next : Option PNode) (s : String) (e : Tx)
    (h : passes scores next s e = .pass) (hp : minInt64 < e.prio) : nextPrio next ≤ e.prio := by
  cases next with
  | none => simp only [nextPrio]; omega
  | some m =>
    simp only [nextPrio]
    simp only [passes] at h
    split at h
    · cases h
    · omega

theorem drain_append (scores : String → Nat → Option Score) (next : Option PNode) (s : String) (l : List Tx) :
    (drain scores next s l).1 ++ (drain scores next s l).2.1 = l := by
  induction l with
  | nil => simp [drain]
  | cons e es ih =>
    unfold drain
    split <;> simp [ih]

theorem drain_pass (scores : String → Nat → Option Score) (next : Option PNode) (s : String) (l : List Tx) :
    ∀ e ∈ (drain scores next s l).1, passes scores next s e = .pass := by
  induction l with
  | nil => simp [drain]
  | cons e es ih =>
    unfold drain
    split
    · simp
    · simp
    · rename_i hp
      intro x hx
      rcases List.mem_cons.mp hx with hx | hx
      · subst hx; exact hp
      · exact ih x hx

theorem drain_stop (scores : String → Nat → Option Score) (next : Option PNode) (s : String) (l : List Tx)
    (hnp : (drain scores next s l).2.2 = false) (e : Tx) (es : List Tx)
    (h : (drain scores next s l).2.1 = e :: es) : passes scores next s e = .stop := by
  induction l with
  | nil => simp [drain] at h
  | cons x xs ih =>
    cases hp : passes scores next s x with
    | stop =>
      simp only [drain, hp, List.cons.injEq] at h
      rw [← h.1]; exact hp
    | panic => simp [drain, hp] at hnp
    | pass =>
      simp only [drain, hp] at h hnp
      exact ih hnp h

theorem drain_nopanic (scores : String → Nat → Option Score) (next : Option PNode) (s : String) (l : List Tx)
    (hp : ∀ e ∈ l, minInt64 < e.prio) : (drain scores next s l).2.2 = false := by
  induction l with
  | nil => simp [drain]
  | cons x xs ih =>
    unfold drain
    split
    · rfl
    · rename_i hpan
      have hx := hp x (by simp)
      exfalso
      cases next with
      | none =>
        simp only [passes] at hpan
        split at hpan
        · cases hpan
        · split at hpan
          · omega
          · cases hpan
      | some m =>
        simp only [passes] at hpan
        split at hpan
        · cases hpan
        · split at hpan <;> cases hpan
    · exact ih (fun e he => hp e (by simp [he]))

/-- status of an entry after the priority element `m` has been visited -/
theorem own_step (scores : String → Nat → Option Score) (m : PNode) (R' : List PNode) (s : String) (e : Tx)
    (hs : Sorted (m :: R'))
    (h : (∃ k ∈ m :: R', Own scores k s e) ∨ Dom scores s e (m :: R')) :
    (∃ k ∈ R', Own scores k s e) ∨ Dom scores s e R' := by
  rcases h with ⟨k, hk, ho⟩ | hd
  · rcases List.mem_cons.mp hk with hk | hk
    · subst hk
      right
      intro r hr
      have := keyCmp_gt_weak ((List.pairwise_cons.mp hs).1 r hr)
      obtain ⟨_, _, h3, h4⟩ := ho
      rw [← h3, h4]
      rcases this with h | ⟨h1, h2⟩
      · exact Or.inl h
      · exact Or.inr ⟨h1, h2⟩
    · exact Or.inl ⟨k, hk, ho⟩
  · exact Or.inr (fun r hr => hd r (by simp [hr]))

theorem LI_step (scores : String → Nat → Option Score) (m : PNode) (R' : List PNode)
    (rem : String → List Tx) (h : LI scores (m :: R') rem) :
    (drain scores R'.head? m.sender (rem m.sender)).2.2 = false ∧
    LI scores R' (upd rem m.sender (drain scores R'.head? m.sender (rem m.sender)).2.1) := by
  have hnp := drain_nopanic scores R'.head? m.sender (rem m.sender) (h.pmin m.sender)
  have happ := drain_append scores R'.head? m.sender (rem m.sender)
  have hsub : ∀ s, ∀ e ∈ upd rem m.sender (drain scores R'.head? m.sender (rem m.sender)).2.1 s,
      e ∈ rem s := by
    intro s e he
    simp only [upd] at he
    split at he
    · rename_i hs; subst hs
      rw [← happ]; exact List.mem_append_right _ he
    · exact he
  refine ⟨hnp, ?_⟩
  constructor
  · exact (List.pairwise_cons.mp h.sorted).2
  · intro s e he
    exact own_step scores m R' s e h.sorted (h.own s e (hsub s e he))
  · intro s e es hrem
    have hmem : e ∈ upd rem m.sender (drain scores R'.head? m.sender (rem m.sender)).2.1 s := by
      rw [hrem]; simp
    have hst := own_step scores m R' s e h.sorted (h.own s e (hsub s e hmem))
    simp only [upd] at hrem
    split at hrem
    · rename_i hs; subst hs
      rcases hst with hk | hd
      · exact hk
      · have h1 := drain_stop scores R'.head? m.sender (rem m.sender) hnp e es hrem
        have h2 := passes_of_dom scores m.sender e R' hd (h.pmin _ e (hsub _ e hmem))
        rw [h1] at h2; cases h2
    · rename_i hs
      obtain ⟨k, hk, ho⟩ := h.head s e es hrem
      rcases List.mem_cons.mp hk with hk | hk
      · subst hk; exact absurd ho.1.symm hs
      · exact ⟨k, hk, ho⟩
  · intro s e he; exact h.pmin s e (hsub s e he)
  · intro s e he; exact h.snd s e (hsub s e he)

/-- the iterator does not panic, and what it yields for sender `s` is exactly what was left of
    `s`, in the order of the sender index -/
theorem iter_filter (scores : String → Nat → Option Score) (R : List PNode) :
    ∀ rem : String → List Tx, LI scores R rem →
      (iter scores R rem).2 = false ∧
      ∀ s, (iter scores R rem).1.filter (fun t => t.sender == s) = rem s := by
  induction R with
  | nil =>
    intro rem h
    refine ⟨rfl, ?_⟩
    intro s
    cases hr : rem s with
    | nil => simp [iter]
    | cons e es =>
      obtain ⟨k, hk, _⟩ := h.head s e es hr
      cases hk
  | cons m R' ih =>
    intro rem h
    obtain ⟨hnp, hli⟩ := LI_step scores m R' rem h
    obtain ⟨ih1, ih2⟩ := ih _ hli
    have happ := drain_append scores R'.head? m.sender (rem m.sender)
    have hsnd : ∀ e ∈ (drain scores R'.head? m.sender (rem m.sender)).1, e.sender = m.sender := by
      intro e he
      apply h.snd m.sender e
      rw [← happ]; exact List.mem_append_left _ he
    unfold iter
    simp only [hnp, Bool.false_eq_true, if_false]
    refine ⟨ih1, ?_⟩
    intro s
    rw [List.filter_append, ih2 s]
    simp only [upd]
    split
    · rename_i hs; subst hs
      have : (drain scores R'.head? m.sender (rem m.sender)).1.filter (fun t => t.sender == m.sender)
          = (drain scores R'.head? m.sender (rem m.sender)).1 := by
        rw [List.filter_eq_self]
        intro a ha; simp [hsnd a ha]
      rw [this, happ]
    · rename_i hs
      have : (drain scores R'.head? m.sender (rem m.sender)).1.filter (fun t => t.sender == s) = [] := by
        rw [List.filter_eq_nil_iff]
        intro a ha
        rw [hsnd a ha]
        simp only [beq_iff_eq]
        exact fun e => hs e.symm
      rw [this, List.nil_append]

/-- class order, recursively: when `t` is yielded, the first later transaction of any other
    sender does not have a higher priority -/
def CO : List Tx → Prop
  | [] => True
  | t :: l =>
    (∀ u, u.sender ≠ t.sender → l.find? (fun v => v.sender == u.sender) = some u → u.prio ≤ t.prio) ∧ CO l

theorem co_append (ys tail : List Tx) (z : String) (B : Int)
    (hys : ∀ t ∈ ys, t.sender = z ∧ B ≤ t.prio)
    (htail : ∀ u, u.sender ≠ z → tail.find? (fun v => v.sender == u.sender) = some u → u.prio ≤ B)
    (hco : CO tail) : CO (ys ++ tail) := by
  induction ys with
  | nil => exact hco
  | cons t ys ih =>
    have ht := hys t (by simp)
    have hys' : ∀ t ∈ ys, t.sender = z ∧ B ≤ t.prio := fun x hx => hys x (by simp [hx])
    refine ⟨?_, ih hys'⟩
    intro u hu hf
    rw [ht.1] at hu
    have hf : (ys ++ tail).find? (fun v => v.sender == u.sender) = some u := hf
    rw [List.find?_append] at hf
    have hnone : ys.find? (fun v => v.sender == u.sender) = none := by
      rw [List.find?_eq_none]
      intro x hx
      rw [(hys' x hx).1]
      simp only [beq_iff_eq]
      exact fun e => hu e.symm
    rw [hnone, Option.none_or] at hf
    have := htail u hu hf
    omega

theorem iter_co (scores : String → Nat → Option Score) (R : List PNode) :
    ∀ rem : String → List Tx, LI scores R rem → CO (iter scores R rem).1 := by
  induction R with
  | nil => intro rem _; simp [iter, CO]
  | cons m R' ih =>
    intro rem h
    obtain ⟨hnp, hli⟩ := LI_step scores m R' rem h
    have hco := ih _ hli
    obtain ⟨_, hfil⟩ := iter_filter scores R' _ hli
    have happ := drain_append scores R'.head? m.sender (rem m.sender)
    unfold iter
    simp only [hnp, Bool.false_eq_true, if_false]
    apply co_append _ _ m.sender (nextPrio R'.head?) _ _ hco
    · intro t ht
      have hmem : t ∈ rem m.sender := by rw [← happ]; exact List.mem_append_left _ ht
      exact ⟨h.snd _ t hmem,
        passes_pass_ge scores _ _ t (drain_pass scores _ _ _ t ht) (h.pmin _ t hmem)⟩
    · intro u hu hf
      rw [← List.head?_filter, hfil u.sender] at hf
      cases hr : upd rem m.sender (drain scores R'.head? m.sender (rem m.sender)).2.1 u.sender with
      | nil => rw [hr] at hf; cases hf
      | cons e es =>
        rw [hr] at hf
        simp only [List.head?_cons, Option.some.injEq] at hf
        subst hf
        obtain ⟨k, hk, ho⟩ := hli.head _ e es hr
        rw [← ho.2.2.1]
        cases R' with
        | nil => cases hk
        | cons m' R'' =>
          simp only [List.head?_cons, nextPrio]
          rcases List.mem_cons.mp hk with hk | hk
          · subst hk; exact Int.le_refl _
          · have := keyCmp_gt_weak ((List.pairwise_cons.mp hli.sorted).1 k hk)
            omega

/-- from the invariant to the iterator's loop invariant at the start of the iteration -/
theorem LI_of_inv {mp : Pool} {P : List Tx} (h : Inv mp P) : LI mp.scores mp.pidx mp.sidx := by
  have hown : ∀ s, ∀ e ∈ mp.sidx s, ∃ k ∈ mp.pidx, Own mp.scores k s e := by
    intro s e he
    obtain ⟨heP, hes⟩ := (h.smem s e).mp he
    obtain ⟨k, hk, hke⟩ := h.node_of heP
    have hsc := h.score_node k hk
    subst hke
    refine ⟨k, hk, hes, rfl, rfl, ?_⟩
    have e1 : k.sender = s := hes
    simp only [weightOf, PNode.tx]
    rw [← e1, hsc]
  constructor
  · exact h.psorted
  · intro s e he; exact Or.inl (hown s e he)
  · intro s e es hr; exact hown s e (by rw [hr]; simp)
  · intro s e he; exact h.prio_gt e ((h.smem s e).mp he).1
  · intro s e he; exact ((h.smem s e).mp he).2

theorem select_eq_iter (mp : Pool) :
    mp.select.2 = iter mp.select.1.scores mp.select.1.pidx mp.select.1.sidx := by
  unfold Pool.select
  split
  · rename_i he
    have : mp.pidx = [] := by simpa using he
    simp [this, iter]
  · rfl

theorem co_split (l : List Tx) (h : CO l) (pre mid post : List Tx) (t u : Tx)
    (hl : l = pre ++ t :: (mid ++ u :: post)) (hne : t.sender ≠ u.sender)
    (hmid : ∀ v ∈ mid, v.sender ≠ u.sender) : u.prio ≤ t.prio := by
  induction pre generalizing l with
  | nil =>
    subst hl
    apply h.1 u (fun e => hne e.symm)
    rw [List.find?_append]
    have hnone : mid.find? (fun v => v.sender == u.sender) = none := by
      rw [List.find?_eq_none]
      intro x hx
      simp only [beq_iff_eq]
      exact hmid x hx
    rw [hnone, Option.none_or, List.find?_cons]
    simp
  | cons x pre ih =>
    subst hl
    exact ih _ h.2 rfl

theorem ssorted_nodup (l : List Tx) (h : SSorted l) : l.Nodup := by
  unfold List.Nodup
  exact h.imp (fun hlt e => by subst e; omega)

/-- everything the iterator theorems need about `Select` in a state that satisfies the invariant -/
theorem select_spec {mp : Pool} {P : List Tx} (h : Inv mp P) :
    mp.select.2.2 = false ∧
    (∀ s, mp.select.2.1.filter (fun t => t.sender == s) = mp.select.1.sidx s) ∧
    CO mp.select.2.1 ∧ Inv mp.select.1 P := by
  have hi := inv_select h
  have hli := LI_of_inv hi
  have h1 := iter_filter _ _ _ hli
  have h2 := iter_co _ _ _ hli
  rw [← select_eq_iter] at h1 h2
  exact ⟨h1.1, h1.2, h2, hi⟩

theorem perm_of_filter_eq {mp : Pool} {P : List Tx} (h : Inv mp P) (out : List Tx)
    (hf : ∀ s, out.filter (fun t => t.sender == s) = mp.sidx s) : out.Perm P := by
  rw [List.perm_iff_count]
  intro a
  have h1 : List.count a out = List.count a (out.filter (fun t => t.sender == a.sender)) := by
    rw [List.count_filter]; simp
  rw [h1, hf a.sender, (ssorted_nodup _ (h.ssorted _)).count, h.P_nodup.count]
  have := h.smem a.sender a
  by_cases ha : a ∈ P
  · rw [if_pos ha, if_pos (this.mpr ⟨ha, rfl⟩)]
  · rw [if_neg ha, if_neg (fun hm => ha (this.mp hm).1)]

theorem prefix_excl {u p q : List Char} (hp : p <+: u) (hq : q <+: u) : p <+: q ∨ q <+: p := by
  rcases Nat.le_total p.length q.length with h | h
  · exact Or.inl (List.prefix_of_prefix_length_le hp hq h)
  · exact Or.inr (List.prefix_of_prefix_length_le hq hp h)

theorem hasPrefix_excl (u p q : String) (hp : hasPrefix u p = true) (hq : hasPrefix u q = true)
    (h1 : ¬ p.toList <+: q.toList) (h2 : ¬ q.toList <+: p.toList) : False := by
  unfold hasPrefix at hp hq
  rw [List.isPrefixOf_iff_prefix] at hp hq
  rcases prefix_excl hp hq with h | h
  · exact h1 h
  · exact h2 h

end Lemmas

/-! ## Property theorems (C19) -/

/-- **index_consistent.** After any history of `Insert`, `Remove` and `Select` in which an
inserted (sender, nonce) is never already pending (or is re-inserted with an unchanged priority; and no priority is the
`MinValue` sentinel), the priority index, the per-sender indices, `scores` and `priorityCounts` all
describe exactly the pending set, the priority index is sorted by the code's comparator, every
sender index by nonce, and `CountTx` is the number of pending transactions. -/
theorem index_consistent (ops : List Op) (h : Admissible ops) :
    Inv (run ops) (pending ops) ∧
    ((run ops).pidx.map PNode.tx).Perm (pending ops) ∧
    (∀ s, ((run ops).sidx s).Perm ((pending ops).filter (fun t => t.sender == s))) ∧
    (∀ s n, ((run ops).scores s n).isSome ↔ ∃ t ∈ pending ops, t.sender = s ∧ t.nonce = n) ∧
    (∀ p, (run ops).pcounts p = (((pending ops).map Tx.prio).count p : Nat)) ∧
    (run ops).count = (pending ops).length := by
  have hi := inv_run ops h
  refine ⟨hi, hi.pperm, ?_, ?_, hi.pcount, ?_⟩
  · intro s
    rw [List.perm_ext_iff_of_nodup (ssorted_nodup _ (hi.ssorted s))
      (List.Nodup.sublist List.filter_sublist hi.P_nodup)]
    intro a
    rw [hi.smem, List.mem_filter]
    simp
  · intro s n
    constructor
    · intro hs
      cases hsc : (run ops).scores s n with
      | none => rw [hsc] at hs; cases hs
      | some sc =>
        obtain ⟨k, hk, e1, e2⟩ := hi.node_score s n sc hsc
        exact ⟨k.tx, hi.node_mem hk, e1, e2⟩
    · rintro ⟨t, ht, e1, e2⟩
      obtain ⟨k, hk, hke⟩ := hi.node_of ht
      have := hi.score_node k hk
      subst hke e1 e2
      simp only [PNode.tx]
      rw [this]; rfl
  · have := hi.pperm.length_eq
    rw [List.length_map] at this
    exact this

/-- **select_perm.** After any admissible history, `Select` (iterated to exhaustion) does not
hit the nil dereference in `Next`, and yields a permutation of the pending set: every pending
transaction exactly once, and nothing else — in particular no removed transaction.  Since the
history is arbitrary and may itself contain `select`s, this covers repeated selects. -/
theorem select_perm (ops : List Op) (h : Admissible ops) :
    (run ops).select.2.2 = false ∧
    (run ops).select.2.1.Perm (pending ops) ∧
    (∀ t ∈ (run ops).select.2.1, t ∈ pending ops) := by
  have hi := inv_run ops h
  obtain ⟨h1, h2, _, h4⟩ := select_spec hi
  have hp := perm_of_filter_eq h4 _ h2
  exact ⟨h1, hp, fun t ht => hp.mem_iff.mp ht⟩

/-- **select_sender_sorted.** In the sequence `Select` yields, the transactions of any one
sender appear in strictly increasing nonce order. -/
theorem select_sender_sorted (ops : List Op) (h : Admissible ops) (s : String) :
    (((run ops).select.2.1.filter (fun t => t.sender == s)).map Tx.nonce).Pairwise (· < ·) := by
  have hi := inv_run ops h
  obtain ⟨_, h2, _, h4⟩ := select_spec hi
  rw [h2 s, List.pairwise_map]
  exact h4.ssorted s

/-- **class_order.** Whenever `t` is yielded while `u` is the next (first not yet yielded)
transaction of a different sender, `u` does not have a strictly higher priority than `t`:
of two senders whose next transactions are both available, the one with the strictly higher
priority (class) is yielded first.  Holds with priority ties across senders. -/
theorem class_order (ops : List Op) (h : Admissible ops) (pre mid post : List Tx) (t u : Tx)
    (hout : (run ops).select.2.1 = pre ++ t :: (mid ++ u :: post))
    (hne : t.sender ≠ u.sender) (hnext : ∀ v ∈ mid, v.sender ≠ u.sender) :
    u.prio ≤ t.prio := by
  have hi := inv_run ops h
  obtain ⟨_, _, h3, _⟩ := select_spec hi
  exact co_split _ h3 pre mid post t u hout hne hnext

/-- **classes.** `NewDefaultTxPriority`: a transaction with exactly one message whose type URL
starts with the consensus / scheduler / evm / valset prefix gets a priority that is ordered
consensus > scheduler > evm (bridge chains) > valset > every other transaction, whatever the
`CheckTx` priorities are, as long as the `CheckTx` priority of the other one is below
`MaxInt64 - 3`; transactions with zero or several messages, or an unlisted type URL, keep the
`CheckTx` priority. -/
theorem classes (uc us ue uv uo : String) (pc ps pe pv po : Int)
    (hc : hasPrefix uc "/palomachain.paloma.consensus." = true)
    (hs : hasPrefix us "/palomachain.paloma.scheduler." = true)
    (he : hasPrefix ue "/palomachain.paloma.evm." = true)
    (hv : hasPrefix uv "/palomachain.paloma.valset." = true)
    (ho : classRank uo = none) (hpo : po < maxInt64 - 3) :
    txPriority [uc] pc = maxInt64 ∧ txPriority [us] ps = maxInt64 - 1 ∧
    txPriority [ue] pe = maxInt64 - 2 ∧ txPriority [uv] pv = maxInt64 - 3 ∧
    txPriority [uo] po = po ∧
    txPriority [uc] pc > txPriority [us] ps ∧ txPriority [us] ps > txPriority [ue] pe ∧
    txPriority [ue] pe > txPriority [uv] pv ∧ txPriority [uv] pv > txPriority [uo] po ∧
    (∀ l, l.length ≠ 1 → txPriority l po = po) := by
  have nsc : hasPrefix us "/palomachain.paloma.consensus." = false := by
    cases hx : hasPrefix us "/palomachain.paloma.consensus." with
    | false => rfl
    | true => exact (hasPrefix_excl us _ _ hx hs (by decide) (by decide)).elim
  have nec : hasPrefix ue "/palomachain.paloma.consensus." = false := by
    cases hx : hasPrefix ue "/palomachain.paloma.consensus." with
    | false => rfl
    | true => exact (hasPrefix_excl ue _ _ hx he (by decide) (by decide)).elim
  have nes : hasPrefix ue "/palomachain.paloma.scheduler." = false := by
    cases hx : hasPrefix ue "/palomachain.paloma.scheduler." with
    | false => rfl
    | true => exact (hasPrefix_excl ue _ _ hx he (by decide) (by decide)).elim
  have nvc : hasPrefix uv "/palomachain.paloma.consensus." = false := by
    cases hx : hasPrefix uv "/palomachain.paloma.consensus." with
    | false => rfl
    | true => exact (hasPrefix_excl uv _ _ hx hv (by decide) (by decide)).elim
  have nvs : hasPrefix uv "/palomachain.paloma.scheduler." = false := by
    cases hx : hasPrefix uv "/palomachain.paloma.scheduler." with
    | false => rfl
    | true => exact (hasPrefix_excl uv _ _ hx hv (by decide) (by decide)).elim
  have nve : hasPrefix uv "/palomachain.paloma.evm." = false := by
    cases hx : hasPrefix uv "/palomachain.paloma.evm." with
    | false => rfl
    | true => exact (hasPrefix_excl uv _ _ hx hv (by decide) (by decide)).elim
  have e1 : txPriority [uc] pc = maxInt64 := by
    simp [txPriority, classRank, classTable, hc]
  have e2 : txPriority [us] ps = maxInt64 - 1 := by
    simp [txPriority, classRank, classTable, hs, nsc]
  have e3 : txPriority [ue] pe = maxInt64 - 2 := by
    simp [txPriority, classRank, classTable, he, nec, nes]
  have e4 : txPriority [uv] pv = maxInt64 - 3 := by
    simp [txPriority, classRank, classTable, hv, nvc, nvs, nve]
  have e5 : txPriority [uo] po = po := by
    simp [txPriority, ho]
  refine ⟨e1, e2, e3, e4, e5, ?_, ?_, ?_, ?_, ?_⟩
  · rw [e1, e2]; omega
  · rw [e2, e3]; omega
  · rw [e3, e4]; omega
  · rw [e4, e5]; omega
  · intro l hl
    match l, hl with
    | [], _ => rfl
    | [_], hl => simp at hl
    | _ :: _ :: _, _ => rfl

/-- **replacement_changes_priority_loses_tx** (outside the precondition; behaviour of the code
as it is).  Re-inserting a pending (sender, nonce) with a *different* priority leaves the old
priority in the key of the sender-index element (`skiplist.Set` only replaces the value), and
the iterator compares that stale key priority: here `a:0` (re-inserted with priority 10) is
pending and counted, but `Select` yields only `b:0`.  The same history run against the real
`PriorityNonceMempool` gives the same result (first history of `TestC19`). -/
theorem replacement_changes_priority_loses_tx :
    pending [.insert "a" 0 1 1, .insert "a" 0 10 2, .insert "b" 0 5 3]
      = [⟨"b", 0, 5, 3⟩, ⟨"a", 0, 10, 2⟩] ∧
    (run [.insert "a" 0 1 1, .insert "a" 0 10 2, .insert "b" 0 5 3]).count = 2 ∧
    (run [.insert "a" 0 1 1, .insert "a" 0 10 2, .insert "b" 0 5 3]).select.2
      = ([⟨"b", 0, 5, 3⟩], false) ∧
    ¬ Admissible [.insert "a" 0 1 1, .insert "a" 0 10 2, .insert "b" 0 5 3] := by
  refine ⟨by decide, by decide, by decide, ?_⟩
  simp [Admissible, AdmFrom, OpOk, pendingStep]

/-- **minvalue_priority_panics** (outside the precondition).  A transaction whose priority is
the `MinValue` sentinel makes `Next` dereference `priorityNode.Next()` on the last element. -/
theorem minvalue_priority_panics :
    (run [.insert "a" 0 minInt64 1]).select.2 = ([], true) := by decide

/-! ### non-vacuity -/

/-- a history with three senders, priority ties across senders, a remove and an intermediate
    select: it is admissible, and the final select yields all five pending transactions -/
def exampleHistory : List Op :=
  [.insert "a" 0 5 1, .insert "b" 0 5 2, .insert "a" 1 9 3, .select, .insert "c" 0 7 4,
   .remove "b" 0, .insert "b" 1 5 5, .insert "c" 1 5 6, .select]

example : Admissible exampleHistory := by
  simp [exampleHistory, Admissible, AdmFrom, OpOk, pendingStep, minInt64]

example : (run exampleHistory).select.2 =
    ([⟨"c", 0, 7, 4⟩, ⟨"a", 0, 5, 1⟩, ⟨"a", 1, 9, 3⟩, ⟨"c", 1, 5, 6⟩, ⟨"b", 1, 5, 5⟩], false) := by
  decide

example : pending exampleHistory =
    [⟨"c", 1, 5, 6⟩, ⟨"b", 1, 5, 5⟩, ⟨"c", 0, 7, 4⟩, ⟨"a", 1, 9, 3⟩, ⟨"a", 0, 5, 1⟩] ∧
    (run exampleHistory).count = 5 := by decide

/-- the more general form of the precondition is satisfiable too: `a:0` is re-inserted with an
    unchanged priority (new id 3) after a select; the new transaction is the one yielded -/
example :
    Admissible [.insert "a" 0 5 1, .insert "b" 0 5 2, .insert "a" 1 7 4, .select, .insert "a" 0 5 3] ∧
    (run [.insert "a" 0 5 1, .insert "b" 0 5 2, .insert "a" 1 7 4, .select, .insert "a" 0 5 3]).select.2
      = ([⟨"a", 0, 5, 3⟩, ⟨"a", 1, 7, 4⟩, ⟨"b", 0, 5, 2⟩], false) := by
  refine ⟨?_, by decide⟩
  simp [Admissible, AdmFrom, OpOk, pendingStep, minInt64]

/-- the hypotheses of `class_order` are satisfiable: `t = c:0` (priority 7) is yielded while
    `u = b:1` (priority 5) is the next transaction of `b` -/
example : (run exampleHistory).select.2.1 =
    [] ++ (⟨"c", 0, 7, 4⟩ : Tx) :: ([⟨"a", 0, 5, 1⟩, ⟨"a", 1, 9, 3⟩, ⟨"c", 1, 5, 6⟩] ++ ⟨"b", 1, 5, 5⟩ :: []) ∧
    ("c" : String) ≠ "b" ∧
    ∀ v ∈ ([⟨"a", 0, 5, 1⟩, ⟨"a", 1, 9, 3⟩, ⟨"c", 1, 5, 6⟩] : List Tx), v.sender ≠ "b" := by decide

/-- the hypotheses of `classes` are satisfiable by real type URLs -/
example :
    hasPrefix "/palomachain.paloma.consensus.MsgAddEvidence" "/palomachain.paloma.consensus." = true ∧
    hasPrefix "/palomachain.paloma.scheduler.MsgCreateJob" "/palomachain.paloma.scheduler." = true ∧
    hasPrefix "/palomachain.paloma.evm.MsgRemoveSmartContractDeploymentRequest" "/palomachain.paloma.evm." = true ∧
    hasPrefix "/palomachain.paloma.valset.MsgKeepAlive" "/palomachain.paloma.valset." = true ∧
    classRank "/palomachain.paloma.skyway.MsgSendToRemote" = none ∧
    classRank "/palomachain.paloma.consensusx.MsgFoo" = none ∧
    txPriority ["/palomachain.paloma.evm.MsgRemoveSmartContractDeploymentRequest"] 7 = maxInt64 - 2 ∧
    txPriority ["/palomachain.paloma.evm.A", "/palomachain.paloma.evm.B"] 7 = 7 := by decide

end Paloma.Mempool
