/-
C19 — the application mempool yields every pending transaction exactly once, per sender in
strictly increasing nonce order, higher priority class first; count = number pending.
Helper lemmas are in the `Lemmas` section; the property theorems follow the marker line.
-/
import PalomaModel.Model.Mempool
import PalomaModel.Gen.Mempool

namespace Paloma.Mempool

/-! ## helper lemmas -/
section Lemmas

instance : Std.TransCmp keyCmp := by unfold keyCmp; infer_instance
instance : Std.OrientedCmp keyCmp := by unfold keyCmp; infer_instance

theorem keyCmp_eq_iff {a b : PNode} :
    keyCmp a b = .eq ↔ a.prio = b.prio ∧ a.weight = b.weight ∧ a.sender = b.sender ∧ a.nonce = b.nonce := by
  unfold keyCmp compareLex compareOn
  simp only [Ordering.then_eq_eq, Std.compare_eq_iff_eq]

theorem keyCmp_self (a : PNode) : keyCmp a a = .eq := keyCmp_eq_iff.mpr ⟨rfl, rfl, rfl, rfl⟩

/-- what the iterator needs from the order of the priority index -/
theorem keyCmp_gt_weak {a b : PNode} (h : keyCmp a b = .gt) :
    b.prio < a.prio ∨ (a.prio = b.prio ∧ b.weight ≤ a.weight) := by
  unfold keyCmp compareLex compareOn at h
  rw [Ordering.then_eq_gt] at h
  rcases h with h | ⟨h1, h2⟩
  · exact Or.inl (Int.compare_eq_gt.mp h)
  · have hp : a.prio = b.prio := Std.compare_eq_iff_eq.mp h1
    rw [Ordering.then_eq_gt] at h2
    rcases h2 with h2 | ⟨h2, _⟩
    · have hw : b.weight < a.weight := Int.compare_eq_gt.mp h2
      exact Or.inr ⟨hp, Int.le_of_lt hw⟩
    · have hw : a.weight = b.weight := Std.compare_eq_iff_eq.mp h2
      exact Or.inr ⟨hp, by rw [hw]; exact Int.le_refl _⟩

/-- the priority index is strictly descending in the comparator -/
def Sorted (l : List PNode) : Prop := l.Pairwise (fun a b => keyCmp a b = .gt)

/-- a sender index is strictly ascending in the nonce -/
def SSorted (l : List Tx) : Prop := l.Pairwise (fun a b => a.nonce < b.nonce)

theorem pset_perm (k : PNode) (l : List PNode) (h : ∀ x ∈ l, keyCmp k x ≠ .eq) :
    (pset k l).Perm (k :: l) := by
  induction l with
  | nil => simp [pset]
  | cons x xs ih =>
    have hx := h x (by simp)
    have ih' := ih (fun y hy => h y (by simp [hy]))
    unfold pset
    split
    · exact (List.Perm.cons x ih').trans (List.Perm.swap k x xs)
    · rename_i he; exact absurd he hx
    · exact List.Perm.refl _

theorem pset_sorted (k : PNode) (l : List PNode) (hs : Sorted l) (h : ∀ x ∈ l, keyCmp k x ≠ .eq) :
    Sorted (pset k l) := by
  induction l with
  | nil => simp [pset, Sorted]
  | cons x xs ih =>
    have hx := h x (by simp)
    have hs' := List.pairwise_cons.mp hs
    have hrest : ∀ y ∈ xs, keyCmp k y ≠ .eq := fun y hy => h y (by simp [hy])
    unfold pset
    split
    · rename_i hlt
      refine List.pairwise_cons.mpr ⟨?_, ih hs'.2 hrest⟩
      intro y hy
      rcases List.mem_cons.mp ((pset_perm k xs hrest).mem_iff.mp hy) with hy | hy
      · subst hy; exact Std.OrientedCmp.gt_iff_lt.mpr hlt
      · exact hs'.1 y hy
    · rename_i he; exact absurd he hx
    · rename_i hgt
      refine List.pairwise_cons.mpr ⟨?_, hs⟩
      intro y hy
      rcases List.mem_cons.mp hy with hy | hy
      · subst hy; exact hgt
      · exact Std.TransCmp.gt_trans hgt (hs'.1 y hy)

theorem perase_sublist (k : PNode) (l : List PNode) : (perase k l).Sublist l := by
  induction l with
  | nil => simp [perase]
  | cons x xs ih =>
    unfold perase
    split
    · exact ih.cons_cons x
    · exact List.sublist_cons_self x xs
    · exact List.Sublist.refl _

theorem perase_sorted (k : PNode) (l : List PNode) (hs : Sorted l) : Sorted (perase k l) :=
  List.Pairwise.sublist (perase_sublist k l) hs

/-- `Remove` finds the element that compares equal (this uses the full order of the index) -/
theorem perase_perm (k k' : PNode) (l : List PNode) (hs : Sorted l) (hk : k' ∈ l)
    (he : keyCmp k k' = .eq) : l.Perm (k' :: perase k l) := by
  induction l with
  | nil => cases hk
  | cons x xs ih =>
    have hs' := List.pairwise_cons.mp hs
    rcases List.mem_cons.mp hk with hk | hk
    · subst hk
      unfold perase
      simp [he]
    · have hxk : keyCmp x k' = .gt := hs'.1 k' hk
      have hkx : keyCmp k x = .lt := by
        rw [Std.TransCmp.congr_left he]
        exact Std.OrientedCmp.gt_iff_lt.mp hxk
      unfold perase
      simp only [hkx]
      exact (List.Perm.cons x (ih hs'.2 hk)).trans (List.Perm.swap k' x _)

theorem sset_perm (t : Tx) (l : List Tx) (h : ∀ x ∈ l, x.nonce ≠ t.nonce) :
    (sset t l).Perm (t :: l) := by
  induction l with
  | nil => simp [sset]
  | cons x xs ih =>
    have hx := h x (by simp)
    have ih' := ih (fun y hy => h y (by simp [hy]))
    unfold sset
    split
    · exact List.Perm.refl _
    · split
      · rename_i he; exact absurd he.symm hx
      · exact (List.Perm.cons x ih').trans (List.Perm.swap t x xs)

theorem sset_sorted (t : Tx) (l : List Tx) (hs : SSorted l) (h : ∀ x ∈ l, x.nonce ≠ t.nonce) :
    SSorted (sset t l) := by
  induction l with
  | nil => simp [sset, SSorted]
  | cons x xs ih =>
    have hx := h x (by simp)
    have hs' := List.pairwise_cons.mp hs
    have hrest : ∀ y ∈ xs, y.nonce ≠ t.nonce := fun y hy => h y (by simp [hy])
    unfold sset
    split
    · rename_i hlt
      refine List.pairwise_cons.mpr ⟨?_, hs⟩
      intro y hy
      rcases List.mem_cons.mp hy with hy | hy
      · subst hy; exact hlt
      · have := hs'.1 y hy; omega
    · split
      · rename_i he; exact absurd he.symm hx
      · rename_i h1 h2
        refine List.pairwise_cons.mpr ⟨?_, ih hs'.2 hrest⟩
        intro y hy
        rcases List.mem_cons.mp ((sset_perm t xs hrest).mem_iff.mp hy) with hy | hy
        · subst hy; omega
        · exact hs'.1 y hy

theorem serase_sublist (n : Nat) (l : List Tx) : (serase n l).Sublist l := by
  induction l with
  | nil => simp [serase]
  | cons x xs ih =>
    unfold serase
    split
    · exact ih.cons_cons x
    · split
      · exact List.sublist_cons_self x xs
      · exact List.Sublist.refl _

theorem mem_serase (n : Nat) (l : List Tx) (hs : SSorted l) (y : Tx) :
    y ∈ serase n l ↔ y ∈ l ∧ y.nonce ≠ n := by
  induction l with
  | nil => simp [serase]
  | cons x xs ih =>
    have hs' := List.pairwise_cons.mp hs
    unfold serase
    split
    · rename_i hlt
      simp only [List.mem_cons, ih hs'.2]
      constructor
      · rintro (h | h)
        · subst h; exact ⟨Or.inl rfl, by omega⟩
        · exact ⟨Or.inr h.1, h.2⟩
      · rintro ⟨h | h, hn⟩
        · exact Or.inl h
        · exact Or.inr ⟨h, hn⟩
    · split
      · rename_i h1 he
        simp only [List.mem_cons]
        constructor
        · intro h; exact ⟨Or.inr h, by have := hs'.1 y h; omega⟩
        · rintro ⟨h | h, hn⟩
          · subst h; exact absurd he hn
          · exact h
      · rename_i h1 h2
        simp only [List.mem_cons]
        constructor
        · rintro (h | h)
          · subst h; exact ⟨Or.inl rfl, h2⟩
          · exact ⟨Or.inr h, by have := hs'.1 y h; omega⟩
        · rintro ⟨h, _⟩; exact h

/-! ### specification of the pending set and the precondition on histories -/

/-- the pending set after one operation (inserting an existing (sender, nonce) replaces it) -/
def pendingStep (P : List Tx) : Op → List Tx
  | .insert s n p id => ⟨s, n, p, id⟩ :: P.filter (fun t => !(t.sender == s && t.nonce == n))
  | .remove s n => P.filter (fun t => !(t.sender == s && t.nonce == n))
  | .select => P

/-- the pending set after a history -/
def pending (ops : List Op) : List Tx := ops.foldl pendingStep []

/-- the ASSUMPTION of the theorems for one operation in pending set `P` (stronger than the property's
    literal precondition, see the reading guide): an inserted transaction has a (sender, nonce) that is
    not pending — or it replaces a pending transaction of the *same* priority.  Nothing else: in
    particular no condition on the priority value (the `MinValue` sentinel is handled separately, see
    `NoMin`). -/
def OpOk (P : List Tx) : Op → Prop
  | .insert s n p _ => ∀ t ∈ P, t.sender = s ∧ t.nonce = n → t.prio = p
  | _ => True

def AdmFrom (P : List Tx) : List Op → Prop
  | [] => True
  | op :: ops => OpOk P op ∧ AdmFrom (pendingStep P op) ops

/-- no `insert` of the history hits a pending (sender, nonce) with a CHANGED priority (this is NOT the
    literal "(sender, nonce) unique among pending", which holds for every history: `KeysUnique`) -/
def Admissible (ops : List Op) : Prop := AdmFrom [] ops

/-- the indices describe the pending set `P` -/
structure Inv (mp : Pool) (P : List Tx) : Prop where
  keys_nodup : (P.map Tx.skey).Nodup
  psorted : Sorted mp.pidx
  pkeys : (mp.pidx.map PNode.skey).Nodup
  pmem : ∀ t, t ∈ mp.pidx.map PNode.tx ↔ t ∈ P
  ssorted : ∀ s, SSorted (mp.sidx s)
  smem : ∀ s t, t ∈ mp.sidx s ↔ t ∈ P ∧ t.sender = s
  score_node : ∀ k ∈ mp.pidx, mp.scores k.sender k.nonce = some ⟨k.prio, k.weight⟩
  node_score : ∀ s n sc, mp.scores s n = some sc → ∃ k ∈ mp.pidx, k.sender = s ∧ k.nonce = n
  pcount : ∀ p, mp.pcounts p = ((P.map Tx.prio).count p : Nat)

theorem nodup_map_inj {α β : Type} {f : α → β} {l : List α} (h : (l.map f).Nodup) {a b : α}
    (ha : a ∈ l) (hb : b ∈ l) (e : f a = f b) : a = b := by
  induction l with
  | nil => cases ha
  | cons x xs ih =>
    rw [List.map_cons, List.nodup_cons] at h
    rcases List.mem_cons.mp ha with ha | ha <;> rcases List.mem_cons.mp hb with hb | hb
    · rw [ha, hb]
    · have hm : f b ∈ xs.map f := List.mem_map.mpr ⟨b, hb, rfl⟩
      rw [← e, ha] at hm; exact absurd hm h.1
    · have hm : f a ∈ xs.map f := List.mem_map.mpr ⟨a, ha, rfl⟩
      rw [e, hb] at hm; exact absurd hm h.1
    · exact ih h.2 ha hb

theorem nodup_of_map {α β : Type} (f : α → β) {l : List α} (h : (l.map f).Nodup) : l.Nodup := by
  unfold List.Nodup at *
  rw [List.pairwise_map] at h
  exact h.imp (fun hne e => hne (congrArg f e))

theorem skey_tx (k : PNode) : k.tx.skey = k.skey := rfl

theorem Inv.ptx_nodup {mp : Pool} {P : List Tx} (h : Inv mp P) : (mp.pidx.map PNode.tx).Nodup := by
  have : (mp.pidx.map PNode.tx).map Tx.skey = mp.pidx.map PNode.skey := by
    rw [List.map_map]; rfl
  exact nodup_of_map _ (this ▸ h.pkeys)

theorem Inv.P_nodup {mp : Pool} {P : List Tx} (h : Inv mp P) : P.Nodup :=
  nodup_of_map _ h.keys_nodup

theorem Inv.pperm {mp : Pool} {P : List Tx} (h : Inv mp P) : (mp.pidx.map PNode.tx).Perm P :=
  (List.perm_ext_iff_of_nodup h.ptx_nodup h.P_nodup).mpr h.pmem

theorem Inv.node_of {mp : Pool} {P : List Tx} (h : Inv mp P) {t : Tx} (ht : t ∈ P) :
    ∃ k ∈ mp.pidx, k.tx = t := by
  have := (h.pmem t).mpr ht
  rcases List.mem_map.mp this with ⟨k, hk, e⟩
  exact ⟨k, hk, e⟩

theorem Inv.node_mem {mp : Pool} {P : List Tx} (h : Inv mp P) {k : PNode} (hk : k ∈ mp.pidx) :
    k.tx ∈ P := (h.pmem _).mp (List.mem_map.mpr ⟨k, hk, rfl⟩)

theorem inv_empty : Inv Pool.empty [] := by
  constructor <;> simp [Pool.empty, Sorted, SSorted]

theorem filter_key_fresh (P : List Tx) (s : String) (n : Nat)
    (h : ∀ t ∈ P, ¬ (t.sender = s ∧ t.nonce = n)) :
    P.filter (fun t => !(t.sender == s && t.nonce == n)) = P := by
  rw [List.filter_eq_self]
  intro t ht
  have := h t ht
  simp only [Bool.not_eq_true', Bool.and_eq_false_iff, beq_eq_false_iff_ne, ne_eq]
  by_cases hs : t.sender = s
  · exact Or.inr (fun hn => this ⟨hs, hn⟩)
  · exact Or.inl hs

theorem perm_filter_key (P : List Tx) (t0 : Tx) (hnd : (P.map Tx.skey).Nodup) (h0 : t0 ∈ P) :
    P.Perm (t0 :: P.filter (fun t => !(t.sender == t0.sender && t.nonce == t0.nonce))) := by
  induction P with
  | nil => cases h0
  | cons x xs ih =>
    rw [List.map_cons, List.nodup_cons] at hnd
    rcases List.mem_cons.mp h0 with h0 | h0
    · subst h0
      have : xs.filter (fun t => !(t.sender == t0.sender && t.nonce == t0.nonce)) = xs := by
        apply filter_key_fresh
        intro t ht hk
        apply hnd.1
        exact List.mem_map.mpr ⟨t, ht, by simp [Tx.skey, hk.1, hk.2]⟩
      have hdrop : (!(t0.sender == t0.sender && t0.nonce == t0.nonce)) = false := by simp
      rw [List.filter_cons, hdrop, this]
      simp
    · have hne : ¬ (x.sender = t0.sender ∧ x.nonce = t0.nonce) := by
        intro hk
        apply hnd.1
        exact List.mem_map.mpr ⟨t0, h0, by simp [Tx.skey, hk.1, hk.2]⟩
      have hkeep : (!(x.sender == t0.sender && x.nonce == t0.nonce)) = true := by
        simp only [Bool.not_eq_true', Bool.and_eq_false_iff, beq_eq_false_iff_ne, ne_eq]
        by_cases hs : x.sender = t0.sender
        · exact Or.inr (fun hn => hne ⟨hs, hn⟩)
        · exact Or.inl hs
      rw [List.filter_cons, if_pos hkeep]
      exact (List.Perm.cons x (ih hnd.2 h0)).trans (List.Perm.swap t0 x _)

theorem inv_insert_fresh {mp : Pool} {P : List Tx} (h : Inv mp P) (s : String) (n : Nat) (p : Int) (id : Nat)
    (hfresh : ∀ t ∈ P, ¬ (t.sender = s ∧ t.nonce = n)) :
    Inv (mp.insert s n p id) (pendingStep P (.insert s n p id)) := by
  have hP' : pendingStep P (.insert s n p id) = ⟨s, n, p, id⟩ :: P := by
    simp only [pendingStep]; rw [filter_key_fresh P s n hfresh]
  have hnokey : ∀ x ∈ mp.pidx, ¬ (x.sender = s ∧ x.nonce = n) := by
    intro x hx hk
    exact hfresh x.tx (h.node_mem hx) hk
  have hnone : mp.scores s n = none := by
    cases hsc : mp.scores s n with
    | none => rfl
    | some sc =>
      obtain ⟨k, hk, h1, h2⟩ := h.node_score s n sc hsc
      exact absurd ⟨h1, h2⟩ (hnokey k hk)
  have hneq : ∀ x ∈ mp.pidx, keyCmp ⟨p, 0, s, n, id⟩ x ≠ .eq := by
    intro x hx he
    have := keyCmp_eq_iff.mp he
    exact hnokey x hx ⟨this.2.2.1.symm, this.2.2.2.symm⟩
  have hperm := pset_perm ⟨p, 0, s, n, id⟩ mp.pidx hneq
  have hsn : ∀ x ∈ mp.sidx s, x.nonce ≠ (⟨s, n, p, id⟩ : Tx).nonce := by
    intro x hx hn
    have := (h.smem s x).mp hx
    exact hfresh x this.1 ⟨this.2, hn⟩
  have hsperm := sset_perm ⟨s, n, p, id⟩ (mp.sidx s) hsn
  have hins : mp.insert s n p id =
      { pidx := pset ⟨p, 0, s, n, id⟩ mp.pidx
        sidx := upd mp.sidx s (sset ⟨s, n, p, id⟩ (mp.sidx s))
        scores := upd2 mp.scores s n (some ⟨p, 0⟩)
        pcounts := bump mp.pcounts p 1 } := by
    simp only [Pool.insert, hnone]
  rw [hP', hins]
  constructor
  · -- keys_nodup
    rw [List.map_cons, List.nodup_cons]
    refine ⟨?_, h.keys_nodup⟩
    intro hm
    rcases List.mem_map.mp hm with ⟨t, ht, e⟩
    simp only [Tx.skey, Prod.mk.injEq] at e
    exact hfresh t ht e
  · exact pset_sorted _ _ h.psorted hneq
  · -- pkeys
    refine ((hperm.map PNode.skey).nodup_iff).mpr ?_
    rw [List.map_cons, List.nodup_cons]
    refine ⟨?_, h.pkeys⟩
    intro hm
    rcases List.mem_map.mp hm with ⟨x, hx, e⟩
    simp only [PNode.skey, Prod.mk.injEq] at e
    exact hnokey x hx e
  · -- pmem
    intro t
    rw [(hperm.map PNode.tx).mem_iff, List.map_cons, List.mem_cons, List.mem_cons, h.pmem]
    rfl
  · -- ssorted
    intro s'
    simp only [upd]
    split
    · exact sset_sorted _ _ (h.ssorted s) hsn
    · exact h.ssorted s'
  · -- smem
    intro s' t
    simp only [upd]
    split
    · rename_i hs; subst hs
      rw [hsperm.mem_iff, List.mem_cons, List.mem_cons, h.smem]
      constructor
      · rintro (e | ⟨h1, h2⟩)
        · subst e; exact ⟨Or.inl rfl, rfl⟩
        · exact ⟨Or.inr h1, h2⟩
      · rintro ⟨e | h1, h2⟩
        · exact Or.inl e
        · exact Or.inr ⟨h1, h2⟩
    · rename_i hs
      rw [h.smem, List.mem_cons]
      constructor
      · rintro ⟨h1, h2⟩; exact ⟨Or.inr h1, h2⟩
      · rintro ⟨e | h1, h2⟩
        · subst e; exact absurd h2.symm hs
        · exact ⟨h1, h2⟩
  · -- score_node
    intro k hk
    rcases List.mem_cons.mp (hperm.mem_iff.mp hk) with hk | hk
    · subst hk; simp [upd2]
    · have := hnokey k hk
      simp only [upd2, this, if_false]
      exact h.score_node k hk
  · -- node_score
    intro s' n' sc hsc
    simp only [upd2] at hsc
    split at hsc
    · rename_i hc
      exact ⟨⟨p, 0, s, n, id⟩, hperm.mem_iff.mpr (List.mem_cons_self), hc.1.symm, hc.2.symm⟩
    · obtain ⟨k, hk, hk'⟩ := h.node_score s' n' sc hsc
      exact ⟨k, hperm.mem_iff.mpr (List.mem_cons_of_mem _ hk), hk'⟩
  · -- pcount
    intro p'
    simp only [bump, List.map_cons, List.count_cons, h.pcount]
    by_cases hpp : p' = p
    · subst hpp; simp
    · have : ¬ p = p' := fun e => hpp e.symm
      simp [hpp, this]

theorem inv_remove {mp : Pool} {P : List Tx} (h : Inv mp P) (s : String) (n : Nat) :
    Inv (mp.remove s n).1 (pendingStep P (.remove s n)) := by
  cases hsc : mp.scores s n with
  | none =>
    have hfresh : ∀ t ∈ P, ¬ (t.sender = s ∧ t.nonce = n) := by
      intro t ht hk
      obtain ⟨k, hk1, hk2⟩ := h.node_of ht
      have := h.score_node k hk1
      have e1 : k.sender = s := by rw [← hk.1, ← hk2]; rfl
      have e2 : k.nonce = n := by rw [← hk.2, ← hk2]; rfl
      rw [e1, e2, hsc] at this
      cases this
    have hP' : pendingStep P (.remove s n) = P := by
      simp only [pendingStep]; exact filter_key_fresh P s n hfresh
    have hrm : (mp.remove s n).1 = mp := by simp only [Pool.remove, hsc]
    rw [hP', hrm]; exact h
  | some sc =>
    obtain ⟨k, hk, h1, h2⟩ := h.node_score s n sc hsc
    subst h1 h2
    have hsc' := h.score_node k hk
    rw [hsc] at hsc'
    have hsce : sc = ⟨k.prio, k.weight⟩ := Option.some.inj hsc'
    subst hsce
    have hrm : (mp.remove k.sender k.nonce).1 =
        { pidx := perase ⟨k.prio, k.weight, k.sender, k.nonce, 0⟩ mp.pidx
          sidx := upd mp.sidx k.sender (serase k.nonce (mp.sidx k.sender))
          scores := upd2 mp.scores k.sender k.nonce none
          pcounts := bump mp.pcounts k.prio (-1) } := by
      simp only [Pool.remove, hsc]
    have hke : keyCmp ⟨k.prio, k.weight, k.sender, k.nonce, 0⟩ k = .eq :=
      keyCmp_eq_iff.mpr ⟨rfl, rfl, rfl, rfl⟩
    have hperm := perase_perm ⟨k.prio, k.weight, k.sender, k.nonce, 0⟩ k mp.pidx h.psorted hk hke
    have ht0 : k.tx ∈ P := h.node_mem hk
    have hPperm := perm_filter_key P k.tx h.keys_nodup ht0
    have hP' : pendingStep P (.remove k.sender k.nonce) =
        P.filter (fun t => !(t.sender == k.tx.sender && t.nonce == k.tx.nonce)) := rfl
    have hknot : k.skey ∉ (perase ⟨k.prio, k.weight, k.sender, k.nonce, 0⟩ mp.pidx).map PNode.skey := by
      have := ((hperm.map PNode.skey).nodup_iff).mp h.pkeys
      rw [List.map_cons, List.nodup_cons] at this
      exact this.1
    rw [hP', hrm]
    constructor
    · exact List.Nodup.sublist (List.Sublist.map _ List.filter_sublist) h.keys_nodup
    · exact perase_sorted _ _ h.psorted
    · exact List.Nodup.sublist (List.Sublist.map _ (perase_sublist _ _)) h.pkeys
    · -- pmem
      intro t
      have e1 := (hperm.map PNode.tx)
      rw [List.map_cons] at e1
      have e2 := (e1.symm.trans (h.pperm.trans hPperm)).cons_inv
      exact e2.mem_iff
    · intro s'
      simp only [upd]
      split
      · exact List.Pairwise.sublist (serase_sublist _ _) (h.ssorted _)
      · exact h.ssorted s'
    · -- smem
      intro s' t
      simp only [upd]
      have hdec : ∀ t : Tx, (!(t.sender == k.tx.sender && t.nonce == k.tx.nonce)) = true ↔
          ¬ (t.sender = k.sender ∧ t.nonce = k.nonce) := by
        intro t
        simp only [PNode.tx, Bool.not_eq_true', Bool.and_eq_false_iff, beq_eq_false_iff_ne, ne_eq]
        constructor
        · rintro (h1 | h1) hk
          · exact h1 hk.1
          · exact h1 hk.2
        · intro hk
          by_cases hs : t.sender = k.sender
          · exact Or.inr (fun hn => hk ⟨hs, hn⟩)
          · exact Or.inl hs
      split
      · rename_i hs; subst hs
        rw [mem_serase _ _ (h.ssorted _), h.smem, List.mem_filter, hdec]
        constructor
        · rintro ⟨⟨h1, h2⟩, h3⟩; exact ⟨⟨h1, fun hk => h3 hk.2⟩, h2⟩
        · rintro ⟨⟨h1, h3⟩, h2⟩; exact ⟨⟨h1, h2⟩, fun hn => h3 ⟨h2, hn⟩⟩
      · rename_i hs
        rw [h.smem, List.mem_filter, hdec]
        constructor
        · rintro ⟨h1, h2⟩; exact ⟨⟨h1, fun hk => hs (h2 ▸ hk.1)⟩, h2⟩
        · rintro ⟨⟨h1, _⟩, h2⟩; exact ⟨h1, h2⟩
    · -- score_node
      intro k' hk'
      have hk'0 : k' ∈ mp.pidx := (perase_sublist _ _).subset hk'
      have hne : ¬ (k'.sender = k.sender ∧ k'.nonce = k.nonce) := by
        intro e
        apply hknot
        exact List.mem_map.mpr ⟨k', hk', by simp [PNode.skey, e.1, e.2]⟩
      simp only [upd2, hne, if_false]
      exact h.score_node k' hk'0
    · -- node_score
      intro s' n' sc' hsc'
      simp only [upd2] at hsc'
      split at hsc'
      · cases hsc'
      · rename_i hc
        obtain ⟨k', hk', e1, e2⟩ := h.node_score s' n' sc' hsc'
        rcases List.mem_cons.mp (hperm.mem_iff.mp hk') with hkk | hkk
        · subst hkk; exact absurd ⟨e1.symm, e2.symm⟩ hc
        · exact ⟨k', hkk, e1, e2⟩
    · -- pcount
      intro p'
      have := (hPperm.map Tx.prio).count_eq p'
      simp only [bump, h.pcount, this, List.map_cons, List.count_cons]
      by_cases hpp : p' = k.prio
      · subst hpp; simp [PNode.tx]; omega
      · have : ¬ k.prio = p' := fun e => hpp e.symm
        simp [hpp, this, PNode.tx]

theorem upd_upd {α : Type} (f : String → α) (s : String) (a b : α) :
    upd (upd f s a) s b = upd f s b := by
  funext x; simp only [upd]; split <;> rfl

theorem upd2_upd2 {α : Type} (f : String → Nat → α) (s : String) (n : Nat) (a b : α) :
    upd2 (upd2 f s n a) s n b = upd2 f s n b := by
  funext x y; simp only [upd2]; split <;> rfl

/-- replacing the value of the element with the same nonce = unlinking it and linking the new one,
    provided the new entry carries the same key priority -/
theorem sset_serase (t : Tx) (l : List Tx) (hs : SSorted l) (x : Tx) (hx : x ∈ l)
    (hn : x.nonce = t.nonce) (hid : { x with id := t.id } = t) :
    sset t (serase t.nonce l) = sset t l := by
  induction l with
  | nil => cases hx
  | cons y ys ih =>
    have hs' := List.pairwise_cons.mp hs
    by_cases hlt : y.nonce < t.nonce
    · have hxy : x ∈ ys := by
        rcases List.mem_cons.mp hx with e | e
        · subst e; omega
        · exact e
      have h1 : ¬ t.nonce < y.nonce := by omega
      have h2 : ¬ t.nonce = y.nonce := by omega
      simp only [serase, hlt, if_true, sset, h1, h2, if_false]
      rw [ih hs'.2 hxy]
    · have hxy : x = y := by
        rcases List.mem_cons.mp hx with e | e
        · exact e
        · have := hs'.1 x e; omega
      subst hxy
      have hge : ∀ z ∈ ys, t.nonce < z.nonce := fun z hz => by have := hs'.1 z hz; omega
      have h0 : ¬ x.nonce < t.nonce := hlt
      have h1 : ¬ t.nonce < x.nonce := by omega
      have hL : serase t.nonce (x :: ys) = ys := by
        simp only [serase]; rw [if_neg h0, if_pos hn]
      have hR : sset t (x :: ys) = t :: ys := by
        simp only [sset]; rw [if_neg h1, if_pos hn.symm, hid]
      rw [hL, hR]
      cases ys with
      | nil => rfl
      | cons z zs =>
        simp only [sset]; rw [if_pos (hge z (by simp))]

/-- `Insert` on a pending (sender, nonce) with an unchanged priority is `Remove` then `Insert` -/
theorem insert_eq_remove_insert {mp : Pool} {P : List Tx} (h : Inv mp P) (s : String) (n : Nat)
    (p : Int) (id : Nat) (t0 : Tx) (ht0 : t0 ∈ P) (hk0 : t0.sender = s ∧ t0.nonce = n) (hp0 : t0.prio = p) :
    mp.insert s n p id = (mp.remove s n).1.insert s n p id := by
  obtain ⟨k, hk, hke⟩ := h.node_of ht0
  have e1 : k.sender = s := by rw [← hk0.1, ← hke]; rfl
  have e2 : k.nonce = n := by rw [← hk0.2, ← hke]; rfl
  have e3 : k.prio = p := by rw [← hp0, ← hke]; rfl
  have hsc := h.score_node k hk
  rw [e1, e2] at hsc
  have hmem : t0 ∈ mp.sidx s := (h.smem s t0).mpr ⟨ht0, hk0.1⟩
  have hss := sset_serase ⟨s, n, p, id⟩ (mp.sidx s) (h.ssorted s) t0 hmem hk0.2
    (by cases t0; simp only at hk0 hp0; simp [hk0.1, hk0.2, hp0])
  have hnone : upd2 mp.scores s n none s n = none := by simp [upd2]
  have hsx : upd mp.sidx s (serase n (mp.sidx s)) s = serase n (mp.sidx s) := by simp [upd]
  simp only [Pool.insert, Pool.remove, hsc, hnone, hsx, upd_upd, upd2_upd2]
  rw [hss]

theorem inv_insert {mp : Pool} {P : List Tx} (h : Inv mp P) (s : String) (n : Nat) (p : Int) (id : Nat)
    (hok : OpOk P (.insert s n p id)) :
    Inv (mp.insert s n p id) (pendingStep P (.insert s n p id)) := by
  have hsame := hok
  by_cases hex : ∃ t ∈ P, t.sender = s ∧ t.nonce = n
  · obtain ⟨t0, ht0, hk0⟩ := hex
    rw [insert_eq_remove_insert h s n p id t0 ht0 hk0 (hsame t0 ht0 hk0)]
    have h1 := inv_remove h s n
    have hfresh : ∀ t ∈ pendingStep P (.remove s n), ¬ (t.sender = s ∧ t.nonce = n) := by
      intro t ht hk
      simp only [pendingStep, List.mem_filter] at ht
      simp [hk.1, hk.2] at ht
    have h2 := inv_insert_fresh h1 s n p id hfresh
    have hP : pendingStep (pendingStep P (.remove s n)) (.insert s n p id)
        = pendingStep P (.insert s n p id) := by
      simp only [pendingStep, List.filter_filter, Bool.and_self]
    rw [hP] at h2
    exact h2
  · exact inv_insert_fresh h s n p id (fun t ht hk => hex ⟨t, ht, hk⟩)

/-- one round of the second loop of `reorderPriorityTies` keeps the invariant, and keeps every
    other element of the priority index in place -/
theorem inv_reweigh {mp : Pool} {P : List Tx} (h : Inv mp P) (d : PNode) (w : Int) (hd : d ∈ mp.pidx) :
    Inv (mp.reweigh (d, { d with weight := w })) P ∧
    (∀ d' ∈ mp.pidx, d'.skey ≠ d.skey → d' ∈ (mp.reweigh (d, { d with weight := w })).pidx) := by
  have hperm1 := perase_perm d d mp.pidx h.psorted hd (keyCmp_self d)
  have hknot : d.skey ∉ (perase d mp.pidx).map PNode.skey := by
    have := ((hperm1.map PNode.skey).nodup_iff).mp h.pkeys
    rw [List.map_cons, List.nodup_cons] at this
    exact this.1
  have hnoeq : ∀ x ∈ perase d mp.pidx, keyCmp { d with weight := w } x ≠ .eq := by
    intro x hx he
    have e := keyCmp_eq_iff.mp he
    apply hknot
    exact List.mem_map.mpr ⟨x, hx, by simp only [PNode.skey]; rw [← e.2.2.1, ← e.2.2.2]⟩
  have hperm2 := pset_perm { d with weight := w } (perase d mp.pidx) hnoeq
  have hrw : mp.reweigh (d, { d with weight := w }) =
      { mp with
        pidx := pset { d with weight := w } (perase d mp.pidx)
        scores := upd2 mp.scores d.sender d.nonce (some ⟨d.prio, w⟩) } := rfl
  rw [hrw]
  refine ⟨?_, ?_⟩
  · constructor
    · exact h.keys_nodup
    · exact pset_sorted _ _ (perase_sorted _ _ h.psorted) hnoeq
    · -- pkeys
      have e : (pset { d with weight := w } (perase d mp.pidx)).map PNode.skey |>.Perm
          (mp.pidx.map PNode.skey) :=
        (hperm2.map PNode.skey).trans (hperm1.map PNode.skey).symm
      exact (e.nodup_iff).mpr h.pkeys
    · -- pmem
      intro t
      have e : (pset { d with weight := w } (perase d mp.pidx)).map PNode.tx |>.Perm
          (mp.pidx.map PNode.tx) :=
        (hperm2.map PNode.tx).trans (hperm1.map PNode.tx).symm
      rw [e.mem_iff]; exact h.pmem t
    · exact h.ssorted
    · exact h.smem
    · -- score_node
      intro k hk
      rcases List.mem_cons.mp (hperm2.mem_iff.mp hk) with hk | hk
      · subst hk; simp [upd2]
      · have hk0 : k ∈ mp.pidx := (perase_sublist _ _).subset hk
        have hne : ¬ (k.sender = d.sender ∧ k.nonce = d.nonce) := by
          intro e
          apply hknot
          exact List.mem_map.mpr ⟨k, hk, by simp [PNode.skey, e.1, e.2]⟩
        simp only [upd2, hne, if_false]
        exact h.score_node k hk0
    · -- node_score
      intro s' n' sc hsc
      simp only [upd2] at hsc
      split at hsc
      · rename_i hc
        exact ⟨{ d with weight := w }, hperm2.mem_iff.mpr List.mem_cons_self, hc.1.symm, hc.2.symm⟩
      · rename_i hc
        obtain ⟨k, hk, e1, e2⟩ := h.node_score s' n' sc hsc
        rcases List.mem_cons.mp (hperm1.mem_iff.mp hk) with hkk | hkk
        · subst hkk; exact absurd ⟨e1.symm, e2.symm⟩ hc
        · exact ⟨k, hperm2.mem_iff.mpr (List.mem_cons_of_mem _ hkk), e1, e2⟩
    · exact h.pcount
  · intro d' hd' hne
    rcases List.mem_cons.mp (hperm1.mem_iff.mp hd') with e | e
    · subst e; exact absurd rfl hne
    · exact hperm2.mem_iff.mpr (List.mem_cons_of_mem _ e)

theorem inv_reweigh_fold {P : List Tx} (todo : List (PNode × PNode)) :
    ∀ mp : Pool, Inv mp P →
      (∀ di ∈ todo, di.1 ∈ mp.pidx ∧ ∃ w, di.2 = { di.1 with weight := w }) →
      (todo.map (fun di => di.1.skey)).Nodup →
      Inv (todo.foldl Pool.reweigh mp) P := by
  induction todo with
  | nil => intro mp h _ _; exact h
  | cons di rest ih =>
    intro mp h hmem hnd
    rw [List.map_cons, List.nodup_cons] at hnd
    obtain ⟨hd, w, hw⟩ := hmem di (by simp)
    have hdi : di = (di.1, { di.1 with weight := w }) := by
      cases di with
      | mk a b => simp only at hw ⊢; rw [hw]
    have := inv_reweigh h di.1 w hd
    rw [← hdi] at this
    rw [List.foldl_cons]
    apply ih _ this.1
    · intro di' hdi'
      obtain ⟨hd', hw'⟩ := hmem di' (by simp [hdi'])
      refine ⟨this.2 _ hd' ?_, hw'⟩
      intro e
      apply hnd.1
      exact List.mem_map.mpr ⟨di', hdi', e⟩
    · exact hnd.2

theorem inv_reorder {mp : Pool} {P : List Tx} (h : Inv mp P) : Inv mp.reorder P := by
  unfold Pool.reorder
  apply inv_reweigh_fold _ mp h
  · intro di hdi
    simp only [Pool.reorderKeys] at hdi
    rcases List.mem_map.mp hdi with ⟨k, hk, e⟩
    subst e
    exact ⟨(List.mem_filter.mp hk).1, _, rfl⟩
  · simp only [Pool.reorderKeys, List.map_map]
    exact List.Nodup.sublist (List.Sublist.map _ List.filter_sublist) h.pkeys

theorem inv_select {mp : Pool} {P : List Tx} (h : Inv mp P) : Inv mp.select.1 P := by
  unfold Pool.select
  split
  · exact h
  · exact inv_reorder h

theorem inv_steps (ops : List Op) : ∀ (mp : Pool) (P : List Tx), Inv mp P → AdmFrom P ops →
    Inv (ops.foldl Pool.step mp) (ops.foldl pendingStep P) := by
  induction ops with
  | nil => intro mp P h _; exact h
  | cons op ops ih =>
    intro mp P h hadm
    rw [List.foldl_cons, List.foldl_cons]
    apply ih _ _ _ hadm.2
    cases op with
    | insert s n p id => exact inv_insert h s n p id hadm.1
    | remove s n => exact inv_remove h s n
    | select => exact inv_select h

theorem inv_run (ops : List Op) (h : Admissible ops) : Inv (run ops) (pending ops) :=
  inv_steps ops _ _ inv_empty h

/-! ### histories: prefixes, provenance of pending transactions -/

theorem run_append (a b : List Op) : run (a ++ b) = b.foldl Pool.step (run a) := by
  simp only [run, List.foldl_append]

theorem pending_append (a b : List Op) : pending (a ++ b) = b.foldl pendingStep (pending a) := by
  simp only [pending, List.foldl_append]

/-- prefix closure of the precondition -/
theorem admFrom_append (a b : List Op) : ∀ P : List Tx,
    AdmFrom P (a ++ b) ↔ AdmFrom P a ∧ AdmFrom (a.foldl pendingStep P) b := by
  induction a with
  | nil => intro P; simp [AdmFrom]
  | cons op a ih =>
    intro P
    simp only [List.cons_append, AdmFrom, List.foldl_cons, ih, and_assoc]

theorem Admissible.prefix {a b : List Op} (h : Admissible (a ++ b)) : Admissible a :=
  ((admFrom_append a b []).mp h).1

/-- a transaction that is pending after `ops` was pending before or was inserted by `ops` -/
theorem foldl_pending_mem (ops : List Op) : ∀ (P : List Tx) (t : Tx), t ∈ ops.foldl pendingStep P →
    t ∈ P ∨ Op.insert t.sender t.nonce t.prio t.id ∈ ops := by
  induction ops with
  | nil => intro P t h; exact Or.inl h
  | cons op ops ih =>
    intro P t h
    rw [List.foldl_cons] at h
    rcases ih _ t h with h | h
    · cases op with
      | insert s n p id =>
        simp only [pendingStep] at h
        rcases List.mem_cons.mp h with h | h
        · subst h; exact Or.inr List.mem_cons_self
        · exact Or.inl (List.mem_filter.mp h).1
      | remove s n => exact Or.inl (List.mem_filter.mp h).1
      | select => exact Or.inl h
    · exact Or.inr (List.mem_cons_of_mem _ h)

/-- the operation concerns the transaction key (sender, nonce) -/
def touches (s : String) (n : Nat) : Op → Prop
  | .insert s' n' _ _ => s' = s ∧ n' = n
  | .remove s' n' => s' = s ∧ n' = n
  | .select => False

/-- a pending transaction stays pending as long as no operation concerns its key -/
theorem foldl_pending_keep (ops : List Op) : ∀ (P : List Tx) (t : Tx), t ∈ P →
    (∀ op ∈ ops, ¬ touches t.sender t.nonce op) → t ∈ ops.foldl pendingStep P := by
  induction ops with
  | nil => intro P t h _; exact h
  | cons op ops ih =>
    intro P t h hno
    rw [List.foldl_cons]
    apply ih _ t _ (fun o ho => hno o (List.mem_cons_of_mem _ ho))
    have h0 := hno op List.mem_cons_self
    have hkeep : ∀ s n, ¬ (s = t.sender ∧ n = t.nonce) →
        t ∈ P.filter (fun x => !(x.sender == s && x.nonce == n)) := by
      intro s n hne
      refine List.mem_filter.mpr ⟨h, ?_⟩
      simp only [Bool.not_eq_true', Bool.and_eq_false_iff, beq_eq_false_iff_ne, ne_eq]
      by_cases hs : t.sender = s
      · exact Or.inr (fun hn => hne ⟨hs.symm, hn.symm⟩)
      · exact Or.inl hs
    cases op with
    | insert s n p id => exact List.mem_cons_of_mem _ (hkeep s n h0)
    | remove s n => exact hkeep s n h0
    | select => exact h

/-- the priorities are Go `int64` values.  This is the *type* of `Insert`'s priority, not a
    restriction: every value the implementation can be called with satisfies it. -/
def Int64Prios (ops : List Op) : Prop :=
  ∀ s n p id, Op.insert s n p id ∈ ops → minInt64 ≤ p ∧ p ≤ maxInt64

theorem Int64Prios.prefix {a b : List Op} (h : Int64Prios (a ++ b)) : Int64Prios a :=
  fun s n p id hm => h s n p id (List.mem_append_left _ hm)

theorem pending_ge {ops : List Op} (h : Int64Prios ops) : ∀ t ∈ pending ops, minInt64 ≤ t.prio := by
  intro t ht
  rcases foldl_pending_mem ops [] t ht with h0 | h0
  · cases h0
  · exact (h _ _ _ _ h0).1

/-- no pending transaction carries the `MinValue` sentinel as its priority -/
def NoMin (P : List Tx) : Prop := ∀ t ∈ P, t.prio ≠ minInt64

/-! ### the iterator -/

/-- `k` is the priority-index element of the sender-index entry `e` of sender `s`
    (same nonce, same priority, and the weight recorded in `scores`) -/
def Own (scores : String → Nat → Option Score) (k : PNode) (s : String) (e : Tx) : Prop :=
  k.sender = s ∧ k.nonce = e.nonce ∧ k.prio = e.prio ∧ weightOf scores s e.nonce = k.weight

/-- `e` is not below any element of `R` (what remains true of `e` once its own element has
    been visited, because the index is sorted) -/
def Dom (scores : String → Nat → Option Score) (s : String) (e : Tx) (R : List PNode) : Prop :=
  ∀ r ∈ R, r.prio < e.prio ∨ (e.prio = r.prio ∧ r.weight ≤ weightOf scores s e.nonce)

/-- `nextPriority` as `iteratePriority` sets it -/
def nextPrio : Option PNode → Int
  | none => minInt64
  | some m => m.prio

/-- loop invariant of the iterator; `R` are the priority elements not yet visited.
    `head` is the key fact: every sender's first not yet yielded entry still has its own
    element ahead.  `pge` is the `int64` typing of the priorities. -/
structure LI (scores : String → Nat → Option Score) (R : List PNode) (rem : String → List Tx) : Prop where
  sorted : Sorted R
  own : ∀ s, ∀ e ∈ rem s, (∃ k ∈ R, Own scores k s e) ∨ Dom scores s e R
  head : ∀ s e es, rem s = e :: es → ∃ k ∈ R, Own scores k s e
  pge : ∀ s, ∀ e ∈ rem s, minInt64 ≤ e.prio
  snd : ∀ s, ∀ e ∈ rem s, e.sender = s

/-- `own_node_passes`: an entry whose own element is not ahead any more is never deferred
    (it passes, or — only with the `MinValue` priority at the very last element — panics) -/
theorem passes_of_dom (scores : String → Nat → Option Score) (s : String) (e : Tx) (R : List PNode)
    (hd : Dom scores s e R) (hp : minInt64 ≤ e.prio) : passes scores R.head? s e ≠ .stop := by
  cases R with
  | nil =>
    simp only [List.head?_nil, passes]
    rw [if_neg (by omega)]
    split <;> (intro h; cases h)
  | cons m R' =>
    simp only [List.head?_cons, passes]
    rcases hd m (by simp) with h | ⟨h1, h2⟩
    · rw [if_neg (by omega), if_neg (by omega)]; intro h; cases h
    · rw [if_neg (by omega), if_neg (by omega)]; intro h; cases h

theorem passes_pass_ge (scores : String → Nat → Option Score) (next : Option PNode) (s : String) (e : Tx)
    (h : passes scores next s e = .pass) : nextPrio next ≤ e.prio := by
  cases next with
  | none =>
    simp only [nextPrio]
    simp only [passes] at h
    split at h
    · cases h
    · omega
  | some m =>
    simp only [nextPrio]
    simp only [passes] at h
    split at h
    · cases h
    · omega

/-- the nil dereference happens only at the last element and only for the `MinValue` priority -/
theorem passes_panic (scores : String → Nat → Option Score) (next : Option PNode) (s : String) (e : Tx)
    (h : passes scores next s e = .panic) : next = none ∧ e.prio = minInt64 := by
  cases next with
  | none =>
    simp only [passes] at h
    split at h
    · cases h
    · split at h
      · rename_i h2; exact ⟨rfl, h2⟩
      · cases h
  | some m =>
    simp only [passes] at h
    split at h
    · cases h
    · split at h <;> cases h

theorem drain_append (scores : String → Nat → Option Score) (next : Option PNode) (s : String) (l : List Tx) :
    (drain scores next s l).1 ++ (drain scores next s l).2.1 = l := by
  induction l with
  | nil => simp [drain]
  | cons e es ih =>
    unfold drain
    split <;> simp [ih]

theorem drain_pass (scores : String → Nat → Option Score) (next : Option PNode) (s : String) (l : List Tx) :
    ∀ e ∈ (drain scores next s l).1, passes scores next s e = .pass := by
  induction l with
  | nil => simp [drain]
  | cons e es ih =>
    unfold drain
    split
    · simp
    · simp
    · rename_i hp
      intro x hx
      rcases List.mem_cons.mp hx with hx | hx
      · subst hx; exact hp
      · exact ih x hx

theorem drain_stop (scores : String → Nat → Option Score) (next : Option PNode) (s : String) (l : List Tx)
    (hnp : (drain scores next s l).2.2 = false) (e : Tx) (es : List Tx)
    (h : (drain scores next s l).2.1 = e :: es) : passes scores next s e = .stop := by
  induction l with
  | nil => simp [drain] at h
  | cons x xs ih =>
    cases hp : passes scores next s x with
    | stop =>
      simp only [drain, hp, List.cons.injEq] at h
      rw [← h.1]; exact hp
    | panic => simp [drain, hp] at hnp
    | pass =>
      simp only [drain, hp] at h hnp
      exact ih hnp h

theorem drain_panic (scores : String → Nat → Option Score) (next : Option PNode) (s : String) (l : List Tx)
    (h : (drain scores next s l).2.2 = true) : ∃ e ∈ l, passes scores next s e = .panic := by
  induction l with
  | nil => simp [drain] at h
  | cons x xs ih =>
    cases hp : passes scores next s x with
    | stop => simp [drain, hp] at h
    | panic => exact ⟨x, List.mem_cons_self, hp⟩
    | pass =>
      simp only [drain, hp] at h
      obtain ⟨e, he, hpe⟩ := ih h
      exact ⟨e, List.mem_cons_of_mem _ he, hpe⟩

/-- status of an entry after the priority element `m` has been visited -/
theorem own_step (scores : String → Nat → Option Score) (m : PNode) (R' : List PNode) (s : String) (e : Tx)
    (hs : Sorted (m :: R'))
    (h : (∃ k ∈ m :: R', Own scores k s e) ∨ Dom scores s e (m :: R')) :
    (∃ k ∈ R', Own scores k s e) ∨ Dom scores s e R' := by
  rcases h with ⟨k, hk, ho⟩ | hd
  · rcases List.mem_cons.mp hk with hk | hk
    · subst hk
      right
      intro r hr
      have := keyCmp_gt_weak ((List.pairwise_cons.mp hs).1 r hr)
      obtain ⟨_, _, h3, h4⟩ := ho
      rw [← h3, h4]
      rcases this with h | ⟨h1, h2⟩
      · exact Or.inl h
      · exact Or.inr ⟨h1, h2⟩
    · exact Or.inl ⟨k, hk, ho⟩
  · exact Or.inr (fun r hr => hd r (by simp [hr]))

theorem upd_drain_sub (scores : String → Nat → Option Score) (next : Option PNode) (m : String)
    (rem : String → List Tx) :
    ∀ s, ∀ e ∈ upd rem m (drain scores next m (rem m)).2.1 s, e ∈ rem s := by
  intro s e he
  simp only [upd] at he
  split at he
  · rename_i hs; subst hs
    rw [← drain_append scores next s (rem s)]; exact List.mem_append_right _ he
  · exact he

/-- one element of the priority index visited without a panic: the loop invariant is kept -/
theorem LI_step (scores : String → Nat → Option Score) (m : PNode) (R' : List PNode)
    (rem : String → List Tx) (h : LI scores (m :: R') rem)
    (hnp : (drain scores R'.head? m.sender (rem m.sender)).2.2 = false) :
    LI scores R' (upd rem m.sender (drain scores R'.head? m.sender (rem m.sender)).2.1) := by
  have hsub := upd_drain_sub scores R'.head? m.sender rem
  constructor
  · exact (List.pairwise_cons.mp h.sorted).2
  · intro s e he
    exact own_step scores m R' s e h.sorted (h.own s e (hsub s e he))
  · intro s e es hrem
    have hmem : e ∈ upd rem m.sender (drain scores R'.head? m.sender (rem m.sender)).2.1 s := by
      rw [hrem]; simp
    have hst := own_step scores m R' s e h.sorted (h.own s e (hsub s e hmem))
    simp only [upd] at hrem
    split at hrem
    · rename_i hs; subst hs
      rcases hst with hk | hd
      · exact hk
      · have h1 := drain_stop scores R'.head? m.sender (rem m.sender) hnp e es hrem
        exact absurd h1 (passes_of_dom scores m.sender e R' hd (h.pge _ e (hsub _ e hmem)))
    · rename_i hs
      obtain ⟨k, hk, ho⟩ := h.head s e es hrem
      rcases List.mem_cons.mp hk with hk | hk
      · subst hk; exact absurd ho.1.symm hs
      · exact ⟨k, hk, ho⟩
  · intro s e he; exact h.pge s e (hsub s e he)
  · intro s e he; exact h.snd s e (hsub s e he)

theorem filter_sender_self (l : List Tx) (s : String) (h : ∀ e ∈ l, e.sender = s) :
    l.filter (fun t => t.sender == s) = l := by
  rw [List.filter_eq_self]
  intro a ha; simp [h a ha]

theorem filter_sender_other (l : List Tx) (z s : String) (h : ∀ e ∈ l, e.sender = z) (hs : ¬ s = z) :
    l.filter (fun t => t.sender == s) = [] := by
  rw [List.filter_eq_nil_iff]
  intro a ha
  rw [h a ha]
  simp only [beq_iff_eq]
  exact fun e => hs e.symm

/-- what the iterator yields for sender `s` is always a prefix of what was left of `s`, in the
    order of the sender index; it is all of it unless the iterator panics; and it panics only
    if some entry carries the `MinValue` priority -/
theorem iter_filter (scores : String → Nat → Option Score) (R : List PNode) :
    ∀ rem : String → List Tx, LI scores R rem →
      (∀ s, (iter scores R rem).1.filter (fun t => t.sender == s) <+: rem s) ∧
      ((iter scores R rem).2 = false →
        ∀ s, (iter scores R rem).1.filter (fun t => t.sender == s) = rem s) ∧
      ((iter scores R rem).2 = true → ∃ s, ∃ e ∈ rem s, e.prio = minInt64) := by
  induction R with
  | nil =>
    intro rem h
    refine ⟨fun s => List.nil_prefix, ?_, ?_⟩
    · intro _ s
      cases hr : rem s with
      | nil => simp [iter]
      | cons e es =>
        obtain ⟨k, hk, _⟩ := h.head s e es hr
        cases hk
    · intro hp; simp [iter] at hp
  | cons m R' ih =>
    intro rem h
    have happ := drain_append scores R'.head? m.sender (rem m.sender)
    have hsnd : ∀ e ∈ (drain scores R'.head? m.sender (rem m.sender)).1, e.sender = m.sender := by
      intro e he
      apply h.snd m.sender e
      rw [← happ]; exact List.mem_append_left _ he
    cases hnp : (drain scores R'.head? m.sender (rem m.sender)).2.2 with
    | true =>
      have hit : iter scores (m :: R') rem = ((drain scores R'.head? m.sender (rem m.sender)).1, true) := by
        simp only [iter, hnp, if_true]
      rw [hit]
      refine ⟨?_, ?_, ?_⟩
      · intro s
        by_cases hs : s = m.sender
        · subst hs
          rw [filter_sender_self _ _ hsnd]
          exact ⟨_, happ⟩
        · rw [filter_sender_other _ _ _ hsnd hs]; exact List.nil_prefix
      · intro hc; cases hc
      · intro _
        obtain ⟨e, he, hpe⟩ := drain_panic _ _ _ _ hnp
        exact ⟨m.sender, e, he, (passes_panic _ _ _ _ hpe).2⟩
    | false =>
      have hli := LI_step scores m R' rem h hnp
      obtain ⟨ih1, ih2, ih3⟩ := ih _ hli
      have hit : iter scores (m :: R') rem =
          ((drain scores R'.head? m.sender (rem m.sender)).1 ++
            (iter scores R' (upd rem m.sender (drain scores R'.head? m.sender (rem m.sender)).2.1)).1,
           (iter scores R' (upd rem m.sender (drain scores R'.head? m.sender (rem m.sender)).2.1)).2) := by
        simp only [iter, hnp, Bool.false_eq_true, if_false]
      rw [hit]
      refine ⟨?_, ?_, ?_⟩
      · intro s
        rw [List.filter_append]
        have := ih1 s
        simp only [upd] at this
        split at this
        · rename_i hs; subst hs
          rw [filter_sender_self _ _ hsnd]
          have h2 := (List.prefix_append_right_inj
            (drain scores R'.head? m.sender (rem m.sender)).1).mpr this
          rw [happ] at h2
          exact h2
        · rename_i hs
          rw [filter_sender_other _ _ _ hsnd hs, List.nil_append]
          exact this
      · intro hc s
        rw [List.filter_append, ih2 hc s]
        simp only [upd]
        split
        · rename_i hs; subst hs
          rw [filter_sender_self _ _ hsnd, happ]
        · rename_i hs
          rw [filter_sender_other _ _ _ hsnd hs, List.nil_append]
      · intro hc
        obtain ⟨s, e, he, hpe⟩ := ih3 hc
        exact ⟨s, e, upd_drain_sub _ _ _ _ s e he, hpe⟩

/-- class order, recursively: when `t` is yielded, the first later transaction of any other
    sender does not have a higher priority -/
def CO : List Tx → Prop
  | [] => True
  | t :: l =>
    (∀ u, u.sender ≠ t.sender → l.find? (fun v => v.sender == u.sender) = some u → u.prio ≤ t.prio) ∧ CO l

theorem co_append (ys tail : List Tx) (z : String) (B : Int)
    (hys : ∀ t ∈ ys, t.sender = z ∧ B ≤ t.prio)
    (htail : ∀ u, u.sender ≠ z → tail.find? (fun v => v.sender == u.sender) = some u → u.prio ≤ B)
    (hco : CO tail) : CO (ys ++ tail) := by
  induction ys with
  | nil => exact hco
  | cons t ys ih =>
    have ht := hys t (by simp)
    have hys' : ∀ t ∈ ys, t.sender = z ∧ B ≤ t.prio := fun x hx => hys x (by simp [hx])
    refine ⟨?_, ih hys'⟩
    intro u hu hf
    rw [ht.1] at hu
    have hf : (ys ++ tail).find? (fun v => v.sender == u.sender) = some u := hf
    rw [List.find?_append] at hf
    have hnone : ys.find? (fun v => v.sender == u.sender) = none := by
      rw [List.find?_eq_none]
      intro x hx
      rw [(hys' x hx).1]
      simp only [beq_iff_eq]
      exact fun e => hu e.symm
    rw [hnone, Option.none_or] at hf
    have := htail u hu hf
    omega

theorem iter_co (scores : String → Nat → Option Score) (R : List PNode) :
    ∀ rem : String → List Tx, LI scores R rem → CO (iter scores R rem).1 := by
  induction R with
  | nil => intro rem _; simp [iter, CO]
  | cons m R' ih =>
    intro rem h
    have happ := drain_append scores R'.head? m.sender (rem m.sender)
    have hys : ∀ t ∈ (drain scores R'.head? m.sender (rem m.sender)).1,
        t.sender = m.sender ∧ nextPrio R'.head? ≤ t.prio := by
      intro t ht
      have hmem : t ∈ rem m.sender := by rw [← happ]; exact List.mem_append_left _ ht
      exact ⟨h.snd _ t hmem, passes_pass_ge scores _ _ t (drain_pass scores _ _ _ t ht)⟩
    cases hnp : (drain scores R'.head? m.sender (rem m.sender)).2.2 with
    | true =>
      have hit : iter scores (m :: R') rem = ((drain scores R'.head? m.sender (rem m.sender)).1, true) := by
        simp only [iter, hnp, if_true]
      rw [hit]
      have := co_append _ [] m.sender (nextPrio R'.head?) hys (by intro u _ hf; simp at hf) trivial
      simpa using this
    | false =>
      have hli := LI_step scores m R' rem h hnp
      have hco := ih _ hli
      obtain ⟨hfil, _, _⟩ := iter_filter scores R' _ hli
      have hit : iter scores (m :: R') rem =
          ((drain scores R'.head? m.sender (rem m.sender)).1 ++
            (iter scores R' (upd rem m.sender (drain scores R'.head? m.sender (rem m.sender)).2.1)).1,
           (iter scores R' (upd rem m.sender (drain scores R'.head? m.sender (rem m.sender)).2.1)).2) := by
        simp only [iter, hnp, Bool.false_eq_true, if_false]
      rw [hit]
      apply co_append _ _ m.sender (nextPrio R'.head?) hys _ hco
      intro u hu hf
      rw [← List.head?_filter] at hf
      have hpre := hfil u.sender
      cases hfl : (iter scores R' (upd rem m.sender (drain scores R'.head? m.sender (rem m.sender)).2.1)).1.filter
          (fun v => v.sender == u.sender) with
      | nil => rw [hfl] at hf; cases hf
      | cons e es =>
        rw [hfl] at hf hpre
        simp only [List.head?_cons, Option.some.injEq] at hf
        subst hf
        obtain ⟨tl, htl⟩ := hpre
        obtain ⟨k, hk, ho⟩ := hli.head _ e (es ++ tl) (by rw [← htl]; rfl)
        rw [← ho.2.2.1]
        cases R' with
        | nil => cases hk
        | cons m' R'' =>
          simp only [List.head?_cons, nextPrio]
          rcases List.mem_cons.mp hk with hk | hk
          · subst hk; exact Int.le_refl _
          · have := keyCmp_gt_weak ((List.pairwise_cons.mp hli.sorted).1 k hk)
            omega

/-- from the invariant to the iterator's loop invariant at the start of the iteration -/
theorem LI_of_inv {mp : Pool} {P : List Tx} (h : Inv mp P) (hge : ∀ t ∈ P, minInt64 ≤ t.prio) :
    LI mp.scores mp.pidx mp.sidx := by
  have hown : ∀ s, ∀ e ∈ mp.sidx s, ∃ k ∈ mp.pidx, Own mp.scores k s e := by
    intro s e he
    obtain ⟨heP, hes⟩ := (h.smem s e).mp he
    obtain ⟨k, hk, hke⟩ := h.node_of heP
    have hsc := h.score_node k hk
    subst hke
    refine ⟨k, hk, hes, rfl, rfl, ?_⟩
    have e1 : k.sender = s := hes
    simp only [weightOf, PNode.tx]
    rw [← e1, hsc]
  constructor
  · exact h.psorted
  · intro s e he; exact Or.inl (hown s e he)
  · intro s e es hr; exact hown s e (by rw [hr]; simp)
  · intro s e he; exact hge e ((h.smem s e).mp he).1
  · intro s e he; exact ((h.smem s e).mp he).2

theorem select_eq_iter (mp : Pool) :
    mp.select.2 = iter mp.select.1.scores mp.select.1.pidx mp.select.1.sidx := by
  unfold Pool.select
  split
  · rename_i he
    have : mp.pidx = [] := by simpa using he
    simp [this, iter]
  · rfl

theorem co_split (l : List Tx) (h : CO l) (pre mid post : List Tx) (t u : Tx)
    (hl : l = pre ++ t :: (mid ++ u :: post)) (hne : t.sender ≠ u.sender)
    (hmid : ∀ v ∈ mid, v.sender ≠ u.sender) : u.prio ≤ t.prio := by
  induction pre generalizing l with
  | nil =>
    subst hl
    apply h.1 u (fun e => hne e.symm)
    rw [List.find?_append]
    have hnone : mid.find? (fun v => v.sender == u.sender) = none := by
      rw [List.find?_eq_none]
      intro x hx
      simp only [beq_iff_eq]
      exact hmid x hx
    rw [hnone, Option.none_or, List.find?_cons]
    simp
  | cons x pre ih =>
    subst hl
    exact ih _ h.2 rfl

theorem ssorted_nodup (l : List Tx) (h : SSorted l) : l.Nodup := by
  unfold List.Nodup
  exact h.imp (fun hlt e => by subst e; omega)

/-- everything the iterator theorems need about `Select` in a state that satisfies the invariant -/
theorem select_spec {mp : Pool} {P : List Tx} (h : Inv mp P) (hge : ∀ t ∈ P, minInt64 ≤ t.prio) :
    (∀ s, mp.select.2.1.filter (fun t => t.sender == s) <+: mp.select.1.sidx s) ∧
    (mp.select.2.2 = false → ∀ s, mp.select.2.1.filter (fun t => t.sender == s) = mp.select.1.sidx s) ∧
    (mp.select.2.2 = true → ∃ t ∈ P, t.prio = minInt64) ∧
    CO mp.select.2.1 ∧ Inv mp.select.1 P := by
  have hi := inv_select h
  have hli := LI_of_inv hi hge
  have h1 := iter_filter _ _ _ hli
  have h2 := iter_co _ _ _ hli
  rw [← select_eq_iter] at h1 h2
  refine ⟨h1.1, h1.2.1, ?_, h2, hi⟩
  intro hp
  obtain ⟨s, e, he, hpe⟩ := h1.2.2 hp
  exact ⟨e, ((hi.smem s e).mp he).1, hpe⟩

theorem perm_of_filter_eq {mp : Pool} {P : List Tx} (h : Inv mp P) (out : List Tx)
    (hf : ∀ s, out.filter (fun t => t.sender == s) = mp.sidx s) : out.Perm P := by
  rw [List.perm_iff_count]
  intro a
  have h1 : List.count a out = List.count a (out.filter (fun t => t.sender == a.sender)) := by
    rw [List.count_filter]; simp
  rw [h1, hf a.sender, (ssorted_nodup _ (h.ssorted _)).count, h.P_nodup.count]
  have := h.smem a.sender a
  by_cases ha : a ∈ P
  · rw [if_pos ha, if_pos (this.mpr ⟨ha, rfl⟩)]
  · rw [if_neg ha, if_neg (fun hm => ha (this.mp hm).1)]

/-- safety from the prefix property alone: nothing twice, nothing that is not pending -/
theorem safe_of_filter_prefix {mp : Pool} {P : List Tx} (h : Inv mp P) (out : List Tx)
    (hf : ∀ s, out.filter (fun t => t.sender == s) <+: mp.sidx s) :
    out.Nodup ∧ (∀ t ∈ out, t ∈ P) ∧
    ∀ s, ((out.filter (fun t => t.sender == s)).map Tx.nonce).Pairwise (· < ·) := by
  refine ⟨?_, ?_, ?_⟩
  · rw [List.nodup_iff_count]
    intro a
    have h1 : List.count a out = List.count a (out.filter (fun t => t.sender == a.sender)) := by
      rw [List.count_filter]; simp
    rw [h1]
    exact Nat.le_trans ((hf a.sender).sublist.count_le a)
      (List.nodup_iff_count.mp (ssorted_nodup _ (h.ssorted _)) a)
  · intro t ht
    have : t ∈ out.filter (fun x => x.sender == t.sender) := List.mem_filter.mpr ⟨ht, by simp⟩
    exact ((h.smem t.sender t).mp (List.IsPrefix.mem this (hf t.sender))).1
  · intro s
    rw [List.pairwise_map]
    exact List.Pairwise.sublist (hf s).sublist (h.ssorted s)

/-- a prefix of a nonce-sorted list is closed under "smaller nonce": what was yielded of a
    sender has no gap below it -/
theorem prefix_sorted_closed (L' L : List Tx) (hs : SSorted L) (hp : L' <+: L) (t t' : Tx)
    (ht : t ∈ L') (ht' : t' ∈ L) (hlt : t'.nonce < t.nonce) : t' ∈ L' := by
  obtain ⟨tl, rfl⟩ := hp
  rcases List.mem_append.mp ht' with h | h
  · exact h
  · have := (List.pairwise_append.mp hs).2.2 t ht t' h
    omega

/-! ### the iterator one `Next()` at a time: exhausting it is `iter` -/

theorem upd_self {α : Type} (f : String → α) (s : String) : upd f s (f s) = f := by
  funext x
  simp only [upd]
  split
  · rename_i h; rw [h]
  · rfl

theorem iter_rem_nil (scores : String → Nat → Option Score) (m : PNode) (rest : List PNode)
    (rem : String → List Tx) (h : rem m.sender = []) :
    iter scores (m :: rest) rem = iter scores rest rem := by
  have hu : upd rem m.sender [] = rem := by rw [← h]; exact upd_self rem m.sender
  simp only [iter, h, drain, Bool.false_eq_true, if_false, hu, List.nil_append]

theorem iter_rem_stop (scores : String → Nat → Option Score) (m : PNode) (rest : List PNode)
    (rem : String → List Tx) (e : Tx) (es : List Tx) (h : rem m.sender = e :: es)
    (hp : passes scores rest.head? m.sender e = .stop) :
    iter scores (m :: rest) rem = iter scores rest rem := by
  have hu : upd rem m.sender (e :: es) = rem := by rw [← h]; exact upd_self rem m.sender
  simp only [iter, h, drain, hp, Bool.false_eq_true, if_false, hu, List.nil_append]

theorem iter_rem_panic (scores : String → Nat → Option Score) (m : PNode) (rest : List PNode)
    (rem : String → List Tx) (e : Tx) (es : List Tx) (h : rem m.sender = e :: es)
    (hp : passes scores rest.head? m.sender e = .panic) :
    iter scores (m :: rest) rem = ([], true) := by
  simp only [iter, h, drain, hp, if_true]

theorem iter_rem_pass (scores : String → Nat → Option Score) (m : PNode) (rest : List PNode)
    (rem : String → List Tx) (e : Tx) (es : List Tx) (h : rem m.sender = e :: es)
    (hp : passes scores rest.head? m.sender e = .pass) :
    iter scores (m :: rest) rem =
      (e :: (iter scores (m :: rest) (upd rem m.sender es)).1,
       (iter scores (m :: rest) (upd rem m.sender es)).2) := by
  have hu : upd rem m.sender es m.sender = es := by simp [upd]
  simp only [iter, h, drain, hp, hu, upd_upd]
  cases (drain scores rest.head? m.sender es).2.2 <;> simp

/-- what `k` rounds of `Tx()`/`Next()` produce, against the exhaustive `iter` -/
def RunSpec (r : List Tx × IterResult) (I : List Tx × Bool) (k : Nat) : Prop :=
  r.1 = I.1.take k ∧
  match r.2 with
  | .panic => I.2 = true ∧ r.1 = I.1
  | .done => I.2 = false ∧ r.1 = I.1
  | .at _ => r.1.length = k

theorem runIter_done (scores : String → Nat → Option Score) (k : Nat) :
    runIter scores k .done = ([], .done) := by
  cases k <;> rfl

theorem runIter_panic (scores : String → Nat → Option Score) (k : Nat) :
    runIter scores k .panic = ([], .panic) := by
  cases k <;> rfl

theorem runSpec_cons (r : List Tx × IterResult) (I : List Tx × Bool) (k : Nat) (e : Tx)
    (h : RunSpec r I k) : RunSpec (e :: r.1, r.2) (e :: I.1, I.2) (k + 1) := by
  obtain ⟨h1, h2⟩ := h
  refine ⟨by simp [h1], ?_⟩
  revert h2
  cases r.2 with
  | panic => intro h2; exact ⟨h2.1, by simp [h2.2]⟩
  | done => intro h2; exact ⟨h2.1, by simp [h2.2]⟩
  | «at» it => intro h2; simp only [List.length_cons]; omega

theorem runIter_advance (scores : String → Nat → Option Score) (R : List PNode) :
    ∀ (rem : String → List Tx) (k : Nat),
      RunSpec (runIter scores k (advance scores R rem)) (iter scores R rem) k := by
  induction R with
  | nil =>
    intro rem k
    simp only [advance, runIter_done, iter]
    exact ⟨by simp, rfl, rfl⟩
  | cons m rest ih =>
    have inner : ∀ (l : List Tx) (rem : String → List Tx), rem m.sender = l → ∀ k,
        RunSpec (runIter scores k (advance scores (m :: rest) rem)) (iter scores (m :: rest) rem) k := by
      intro l
      induction l with
      | nil =>
        intro rem hl k
        have : advance scores (m :: rest) rem = advance scores rest rem := by
          simp only [advance, hl]
        rw [this, iter_rem_nil scores m rest rem hl]
        exact ih rem k
      | cons e es ihl =>
        intro rem hl k
        cases hp : passes scores rest.head? m.sender e with
        | stop =>
          have : advance scores (m :: rest) rem = advance scores rest rem := by
            simp only [advance, hl, hp]
          rw [this, iter_rem_stop scores m rest rem e es hl hp]
          exact ih rem k
        | panic =>
          have : advance scores (m :: rest) rem = .panic := by
            simp only [advance, hl, hp]
          rw [this, iter_rem_panic scores m rest rem e es hl hp, runIter_panic]
          exact ⟨by simp, rfl, rfl⟩
        | pass =>
          have : advance scores (m :: rest) rem = .at ⟨m :: rest, upd rem m.sender es, e⟩ := by
            simp only [advance, hl, hp]
          rw [this, iter_rem_pass scores m rest rem e es hl hp]
          cases k with
          | zero => exact ⟨by simp [runIter], by simp [runIter]⟩
          | succ k =>
            have hrec := ihl (upd rem m.sender es) (by simp [upd]) k
            have := runSpec_cons _ _ k e hrec
            simpa only [runIter, Iter.next] using this
    intro rem k
    exact inner (rem m.sender) rem rfl k

theorem selectN_spec (mp : Pool) (k : Nat) :
    (mp.selectN k).1 = mp.select.1 ∧ RunSpec (mp.selectN k).2 mp.select.2 k := by
  unfold Pool.selectN Pool.selectStart Pool.select
  split
  · refine ⟨rfl, ?_⟩
    simp only [runIter_done]
    exact ⟨by simp, rfl, rfl⟩
  · exact ⟨rfl, runIter_advance _ _ _ k⟩

/-! ### `NewDefaultTxPriority` -/

theorem prefix_excl {u p q : List Char} (hp : p <+: u) (hq : q <+: u) : p <+: q ∨ q <+: p := by
  rcases Nat.le_total p.length q.length with h | h
  · exact Or.inl (List.prefix_of_prefix_length_le hp hq h)
  · exact Or.inr (List.prefix_of_prefix_length_le hq hp h)

theorem hasPrefix_excl (u p q : String) (hp : hasPrefix u p = true) (hq : hasPrefix u q = true)
    (h1 : ¬ p.toList <+: q.toList) (h2 : ¬ q.toList <+: p.toList) : False := by
  unfold hasPrefix at hp hq
  rw [List.isPrefixOf_iff_prefix] at hp hq
  rcases prefix_excl hp hq with h | h
  · exact h1 h
  · exact h2 h


/-- the priority class of a transaction as the property text defines it — 4 consensus queue,
    3 scheduler, 2 bridge chain (evm), 1 validator set, for single-message transactions; 0 for
    everything else.  Defined without reference to `classTable` or to any priority value. -/
def classOf : List String → Nat
  | [u] =>
    if hasPrefix u "/palomachain.paloma.consensus." then 4
    else if hasPrefix u "/palomachain.paloma.scheduler." then 3
    else if hasPrefix u "/palomachain.paloma.evm." then 2
    else if hasPrefix u "/palomachain.paloma.valset." then 1
    else 0
  | _ => 0

/-- the priority `GetTxPriority` must return for a class and a CheckTx priority -/
def rankPrio (cl : Nat) (c : Int) : Int :=
  if cl = 0 then c
  else if cl = 1 then maxInt64 - 3
  else if cl = 2 then maxInt64 - 2
  else if cl = 3 then maxInt64 - 1
  else maxInt64

theorem classOf_le (urls : List String) : classOf urls ≤ 4 := by
  unfold classOf
  split
  · repeat' split
    all_goals omega
  · omega

/-- `GetTxPriority` computes the class rank of the property text -/
theorem txPriority_rank (urls : List String) (c : Int) :
    txPriority urls c = rankPrio (classOf urls) c := by
  match urls with
  | [] => rfl
  | _ :: _ :: _ => rfl
  | [u] =>
    simp only [txPriority, classOf, classRank, classTable]
    by_cases h1 : hasPrefix u "/palomachain.paloma.consensus." = true
    · simp [List.find?, h1, rankPrio]
    · by_cases h2 : hasPrefix u "/palomachain.paloma.scheduler." = true
      · simp [List.find?, h1, h2, rankPrio]
      · by_cases h3 : hasPrefix u "/palomachain.paloma.evm." = true
        · simp [List.find?, h1, h2, h3, rankPrio]
        · by_cases h4 : hasPrefix u "/palomachain.paloma.valset." = true
          · simp [List.find?, h1, h2, h3, h4, rankPrio]
          · simp [List.find?, h1, h2, h3, h4, rankPrio]

theorem rankPrio_lt (a b : Nat) (hb : b ≤ 4) (hab : a < b) (c1 c2 : Int)
    (h1 : c1 < maxInt64 - 3) : rankPrio a c1 < rankPrio b c2 := by
  have ha : a = 0 ∨ a = 1 ∨ a = 2 ∨ a = 3 := by omega
  have hb' : b = 1 ∨ b = 2 ∨ b = 3 ∨ b = 4 := by omega
  rcases ha with rfl | rfl | rfl | rfl <;> rcases hb' with rfl | rfl | rfl | rfl <;>
    first
    | omega
    | (simp [rankPrio, maxInt64] at h1 ⊢ <;> omega)

/-- the bound on the CheckTx priority matters only for the class "all others" -/
theorem rankPrio_lt' (a b : Nat) (hb : b ≤ 4) (hab : a < b) (c1 c2 : Int)
    (h1 : a = 0 → c1 < maxInt64 - 3) : rankPrio a c1 < rankPrio b c2 := by
  have ha : a = 0 ∨ a = 1 ∨ a = 2 ∨ a = 3 := by omega
  have hb' : b = 1 ∨ b = 2 ∨ b = 3 ∨ b = 4 := by omega
  rcases ha with rfl | rfl | rfl | rfl <;> rcases hb' with rfl | rfl | rfl | rfl <;>
    first
    | omega
    | (have h1 := h1 rfl; simp [rankPrio, maxInt64] at h1 ⊢ <;> omega)
    | (simp [rankPrio, maxInt64])

theorem rankPrio_bounds (a : Nat) (c : Int) (hc : minInt64 ≤ c ∧ c ≤ maxInt64) :
    minInt64 ≤ rankPrio a c ∧ rankPrio a c ≤ maxInt64 ∧ (minInt64 < c → minInt64 < rankPrio a c) := by
  unfold rankPrio
  simp only [minInt64, maxInt64] at *
  repeat' split
  all_goals omega

/-! ### histories of application-level operations (`TxOp`) -/

/-- a pending transaction together with what `Insert` was given: the type URLs of its messages
    and the CheckTx priority of the context -/
structure PTx where
  tx : Tx
  urls : List String
  ctxPrio : Int

/-- the pending set of a `TxOp` history, with URLs and CheckTx priorities: defined from the
    history alone, like `pending` -/
def tpendingStep (P : List PTx) : TxOp → List PTx
  | .insert s n urls c id =>
    ⟨⟨s, n, txPriority urls c, id⟩, urls, c⟩ :: P.filter (fun x => !(x.tx.sender == s && x.tx.nonce == n))
  | .remove s n => P.filter (fun x => !(x.tx.sender == s && x.tx.nonce == n))
  | .select => P

def tpending (tops : List TxOp) : List PTx := tops.foldl tpendingStep []

theorem tpendingStep_tx (P : List PTx) (op : TxOp) :
    (tpendingStep P op).map PTx.tx = pendingStep (P.map PTx.tx) op.toOp := by
  cases op with
  | insert s n urls c id =>
    simp only [tpendingStep, TxOp.toOp, pendingStep, List.map_cons, List.filter_map]
    rfl
  | remove s n =>
    simp only [tpendingStep, TxOp.toOp, pendingStep, List.filter_map]
    rfl
  | select => rfl

theorem tpending_fold_tx (tops : List TxOp) : ∀ P : List PTx,
    (tops.foldl tpendingStep P).map PTx.tx = (tops.map TxOp.toOp).foldl pendingStep (P.map PTx.tx) := by
  induction tops with
  | nil => intro P; rfl
  | cons op tops ih =>
    intro P
    rw [List.foldl_cons, List.map_cons, List.foldl_cons, ih, tpendingStep_tx]

/-- the model's pending set is the `TxOp` pending set with the URLs forgotten -/
theorem tpending_tx (tops : List TxOp) :
    (tpending tops).map PTx.tx = pending (tops.map TxOp.toOp) :=
  tpending_fold_tx tops []

/-- every pending transaction was inserted by an operation of the history, with the recorded
    URLs and CheckTx priority, and its priority is what `GetTxPriority` computes from them -/
theorem tpending_fold_prov (tops : List TxOp) : ∀ P : List PTx, ∀ x ∈ tops.foldl tpendingStep P,
    x ∈ P ∨ (x.tx.prio = txPriority x.urls x.ctxPrio ∧
      TxOp.insert x.tx.sender x.tx.nonce x.urls x.ctxPrio x.tx.id ∈ tops) := by
  induction tops with
  | nil => intro P x h; exact Or.inl h
  | cons op tops ih =>
    intro P x h
    rw [List.foldl_cons] at h
    rcases ih _ x h with h | h
    · cases op with
      | insert s n urls c id =>
        simp only [tpendingStep] at h
        rcases List.mem_cons.mp h with h | h
        · subst h; exact Or.inr ⟨rfl, List.mem_cons_self⟩
        · exact Or.inl (List.mem_filter.mp h).1
      | remove s n => exact Or.inl (List.mem_filter.mp h).1
      | select => exact Or.inl h
    · exact Or.inr ⟨h.1, List.mem_cons_of_mem _ h.2⟩

theorem tpending_prov (tops : List TxOp) : ∀ x ∈ tpending tops,
    x.tx.prio = txPriority x.urls x.ctxPrio ∧
    TxOp.insert x.tx.sender x.tx.nonce x.urls x.ctxPrio x.tx.id ∈ tops := by
  intro x hx
  rcases tpending_fold_prov tops [] x hx with h | h
  · cases h
  · exact h

theorem mem_map_toOp_insert (tops : List TxOp) (s : String) (n : Nat) (p : Int) (id : Nat)
    (h : Op.insert s n p id ∈ tops.map TxOp.toOp) :
    ∃ urls c, TxOp.insert s n urls c id ∈ tops ∧ p = txPriority urls c := by
  rcases List.mem_map.mp h with ⟨op, hop, e⟩
  cases op with
  | insert s' n' urls c id' =>
    simp only [TxOp.toOp, Op.insert.injEq] at e
    obtain ⟨rfl, rfl, rfl, rfl⟩ := e
    exact ⟨urls, c, hop, rfl⟩
  | remove s' n' => simp [TxOp.toOp] at e
  | select => simp [TxOp.toOp] at e

/-- the CheckTx priorities of a `TxOp` history are Go `int64` values (typing, not a restriction) -/
def Int64Ctx (tops : List TxOp) : Prop :=
  ∀ s n urls c id, TxOp.insert s n urls c id ∈ tops → minInt64 ≤ c ∧ c ≤ maxInt64

theorem int64Prios_of_ctx {tops : List TxOp} (h : Int64Ctx tops) : Int64Prios (tops.map TxOp.toOp) := by
  intro s n p id hm
  obtain ⟨urls, c, hin, rfl⟩ := mem_map_toOp_insert tops s n p id hm
  have := rankPrio_bounds (classOf urls) c (h _ _ _ _ _ hin)
  rw [txPriority_rank]
  exact ⟨this.1, this.2.1⟩

/-- if no CheckTx priority is the `MinValue` sentinel, no pending priority is -/
theorem noMin_of_ctx {tops : List TxOp} (h : Int64Ctx tops)
    (hmin : ∀ s n urls c id, TxOp.insert s n urls c id ∈ tops → c ≠ minInt64) :
    NoMin (pending (tops.map TxOp.toOp)) := by
  intro t ht
  rw [← tpending_tx] at ht
  rcases List.mem_map.mp ht with ⟨x, hx, rfl⟩
  obtain ⟨hp, hin⟩ := tpending_prov tops x hx
  have hb := h _ _ _ _ _ hin
  have := (rankPrio_bounds (classOf x.urls) x.ctxPrio hb).2.2
    (by have := hmin _ _ _ _ _ hin; omega)
  rw [hp, txPriority_rank]
  omega

/-! ### the literal precondition, and the two honest ones -/

theorem step_keys_nodup (P : List Tx) (op : Op) (h : (P.map Tx.skey).Nodup) :
    ((pendingStep P op).map Tx.skey).Nodup := by
  cases op with
  | insert s n p id =>
    simp only [pendingStep, List.map_cons, List.nodup_cons]
    refine ⟨?_, List.Nodup.sublist (List.Sublist.map _ List.filter_sublist) h⟩
    intro hm
    obtain ⟨t, ht, e⟩ := List.mem_map.mp hm
    have := (List.mem_filter.mp ht).2
    simp only [Tx.skey, Prod.mk.injEq] at e
    simp [e.1, e.2] at this
  | remove s n =>
    exact List.Nodup.sublist (List.Sublist.map _ List.filter_sublist) h
  | select => exact h

theorem fold_keys_nodup (ops : List Op) : ∀ P : List Tx, (P.map Tx.skey).Nodup →
    ((ops.foldl pendingStep P).map Tx.skey).Nodup := by
  induction ops with
  | nil => intro P h; exact h
  | cons op ops ih => intro P h; exact ih _ (step_keys_nodup P op h)

/-- the LITERAL precondition of the property text: at every point of the history (every prefix),
    (sender, sequence) is unique among the pending transactions -/
def KeysUnique (ops : List Op) : Prop :=
  ∀ pre, pre <+: ops → ((pending pre).map Tx.skey).Nodup

/-- an operation never inserts on a pending (sender, nonce) at all -/
def OpFresh (P : List Tx) : Op → Prop
  | .insert s n _ _ => ∀ t ∈ P, ¬ (t.sender = s ∧ t.nonce = n)
  | _ => True

def FreshFrom (P : List Tx) : List Op → Prop
  | [] => True
  | op :: ops => OpFresh P op ∧ FreshFrom (pendingStep P op) ops

/-- no `insert` of the history hits a (sender, nonce) that is pending at that moment -/
def Fresh (ops : List Op) : Prop := FreshFrom [] ops

theorem freshFrom_adm (ops : List Op) : ∀ P, FreshFrom P ops → AdmFrom P ops := by
  induction ops with
  | nil => intro _ _; trivial
  | cons op ops ih =>
    intro P h
    refine ⟨?_, ih _ h.2⟩
    cases op with
    | insert s n p id => intro t ht hk; exact absurd hk (h.1 t ht)
    | remove s n => trivial
    | select => trivial

theorem freshFrom_append (a b : List Op) : ∀ P : List Tx,
    FreshFrom P (a ++ b) ↔ FreshFrom P a ∧ FreshFrom (a.foldl pendingStep P) b := by
  induction a with
  | nil => intro P; simp [FreshFrom]
  | cons op a ih => intro P; simp only [List.cons_append, FreshFrom, List.foldl_cons, ih, and_assoc]

/-- `Admissible`, said on the prefixes of the history instead of recursively: whenever the
    history inserts (s, n) with priority `p` after the operations `pre`, a transaction with that
    (sender, nonce) that is pending after `pre` has the same priority `p` -/
theorem admFrom_iff_prefix (ops : List Op) : ∀ P : List Tx,
    AdmFrom P ops ↔ ∀ pre s n p id post, ops = pre ++ .insert s n p id :: post →
      ∀ t ∈ pre.foldl pendingStep P, t.sender = s ∧ t.nonce = n → t.prio = p := by
  induction ops with
  | nil =>
    intro P
    refine ⟨fun _ pre s n p id post e => ?_, fun _ => trivial⟩
    cases pre <;> cases e
  | cons op ops ih =>
    intro P
    simp only [AdmFrom, ih]
    constructor
    · rintro ⟨h1, h2⟩ pre s n p id post e
      cases pre with
      | nil =>
        simp only [List.nil_append, List.cons.injEq] at e
        obtain ⟨rfl, rfl⟩ := e
        exact h1
      | cons o pre' =>
        simp only [List.cons_append, List.cons.injEq] at e
        obtain ⟨rfl, rfl⟩ := e
        exact h2 pre' s n p id post rfl
    · intro h
      refine ⟨?_, fun pre s n p id post e => h (op :: pre) s n p id post (by rw [e]; rfl)⟩
      cases op with
      | insert s n p id => exact h [] s n p id ops rfl
      | remove s n => trivial
      | select => trivial

/-! ### admission: why no `Insert` on a pending key with a changed priority reaches the pool -/

/-- what the application does on its mempool connection (SDK `baseapp` v0.50.13 `runTx`, read,
    not part of /repo):
* `checkTx s n urls id ok` — `CheckTx(New)` of a transaction whose first signer is `s` with
  sequence `n`: the ante chain (`ok` = everything but the sequence check) and
  `SigVerificationDecorator`'s `sig.Sequence != acc.GetSequence()` against the check state;
  on success `IncrementSequenceDecorator` bumps the check-state sequence and `runTx` calls
  `mempool.Insert(ctx, tx)` with `ctx.Priority() = TxFeeSkipper = 42`;
* `finalizeTx s n` — `FinalizeBlock` executes a transaction of the block: `mempool.Remove(tx)`;
* `commit c rc` — `Commit` resets the check state to the committed state (account sequences
  `c`), then CometBFT re-checks the content `rc` of ITS mempool (`CheckTx(Recheck)`, in its
  order; the flag is the outcome of the rest of the ante chain): a transaction that fails the
  ante handler is removed from the application pool, one that passes bumps the sequence again;
* `select` — `PrepareProposal`. -/
inductive AOp where
  | checkTx (s : String) (n : Nat) (urls : List String) (id : Nat) (ok : Bool)
  | finalizeTx (s : String) (n : Nat)
  | commit (c : String → Nat) (rc : List (String × Nat × Bool))
  | select

/-- one `CheckTx(Recheck)`: new check-state sequences and the pool operation it causes -/
def recheckStep (acc : (String → Nat) × List TxOp) (e : String × Nat × Bool) :
    (String → Nat) × List TxOp :=
  if e.2.2 = true ∧ e.2.1 = acc.1 e.1 then (upd acc.1 e.1 (e.2.1 + 1), acc.2)
  else (acc.1, acc.2 ++ [.remove e.1 e.2.1])

/-- the pool operations one application-level event causes, and the check-state sequences after it -/
def aemit (seq : String → Nat) : AOp → (String → Nat) × List TxOp
  | .checkTx s n urls id ok =>
    if ok = true ∧ n = seq s then (upd seq s (n + 1), [.insert s n urls appCtxPriority id]) else (seq, [])
  | .finalizeTx s n => (seq, [.remove s n])
  | .commit c rc => rc.foldl recheckStep (c, [])
  | .select => (seq, [.select])

/-- the history of pool operations an application-level history causes -/
def acompile (seq : String → Nat) : List AOp → List TxOp
  | [] => []
  | op :: rest => (aemit seq op).2 ++ acompile (aemit seq op).1 rest

/-- CometBFT re-checks everything the application pool holds: at every `commit`, each pending
    transaction occurs in the recheck list.  EXTERNAL ASSUMPTION about the node (`recheck = true`,
    the default, and CometBFT's mempool ⊇ the application's). -/
def ACovered (seq : String → Nat) (P : List Tx) : List AOp → Prop
  | [] => True
  | op :: rest =>
    (match op with
      | .commit _ rc => ∀ t ∈ P, ∃ ok, (t.sender, t.nonce, ok) ∈ rc
      | _ => True) ∧
    ACovered (aemit seq op).1 (((aemit seq op).2.map TxOp.toOp).foldl pendingStep P) rest

/-- every pending sequence number is below the check-state sequence of its sender -/
def Below (seq : String → Nat) (P : List Tx) : Prop := ∀ t ∈ P, t.nonce < seq t.sender

theorem recheck_fold_acc (rc : List (String × Nat × Bool)) : ∀ acc : (String → Nat) × List TxOp,
    (∀ s, acc.1 s ≤ (rc.foldl recheckStep acc).1 s) ∧
    (∃ R, (rc.foldl recheckStep acc).2 = acc.2 ++ R ∧
      (∀ op ∈ R, ∃ s n, op = TxOp.remove s n) ∧
      ∀ e ∈ rc, e.2.1 < (rc.foldl recheckStep acc).1 e.1 ∨ TxOp.remove e.1 e.2.1 ∈ R) := by
  induction rc with
  | nil => intro acc; exact ⟨fun _ => Nat.le_refl _, [], by simp, by simp, by simp⟩
  | cons e rc ih =>
    intro acc
    obtain ⟨m1, R, hR, hrm, hcov⟩ := ih (recheckStep acc e)
    simp only [List.foldl_cons]
    by_cases hc : e.2.2 = true ∧ e.2.1 = acc.1 e.1
    · have hs : recheckStep acc e = (upd acc.1 e.1 (e.2.1 + 1), acc.2) := by
        simp only [recheckStep, hc, and_self, if_true]
      rw [hs] at m1 hR hcov ⊢
      refine ⟨?_, R, hR, hrm, ?_⟩
      · intro s
        refine Nat.le_trans ?_ (m1 s)
        simp only [upd]
        split
        · rename_i h; subst h; omega
        · exact Nat.le_refl _
      · intro x hx
        rcases List.mem_cons.mp hx with rfl | hx
        · left
          have := m1 x.1
          simp only [upd, if_true] at this
          omega
        · exact hcov x hx
    · have hs : recheckStep acc e = (acc.1, acc.2 ++ [.remove e.1 e.2.1]) := by
        simp only [recheckStep, hc, if_false]
      rw [hs] at m1 hR hcov ⊢
      refine ⟨m1, TxOp.remove e.1 e.2.1 :: R, by rw [hR]; simp, ?_, ?_⟩
      · intro op hop
        rcases List.mem_cons.mp hop with rfl | hop
        · exact ⟨_, _, rfl⟩
        · exact hrm op hop
      · intro x hx
        rcases List.mem_cons.mp hx with rfl | hx
        · exact Or.inr List.mem_cons_self
        · rcases hcov x hx with h | h
          · exact Or.inl h
          · exact Or.inr (List.mem_cons_of_mem _ h)

/-- folding a list of removes: what remains was there before and is none of the removed keys -/
theorem fold_removes (R : List TxOp) (hR : ∀ op ∈ R, ∃ s n, op = TxOp.remove s n) :
    ∀ P : List Tx, ∀ t ∈ (R.map TxOp.toOp).foldl pendingStep P,
      t ∈ P ∧ TxOp.remove t.sender t.nonce ∉ R := by
  induction R with
  | nil => intro P t ht; exact ⟨ht, by simp⟩
  | cons op R ih =>
    intro P t ht
    obtain ⟨s, n, rfl⟩ := hR _ List.mem_cons_self
    simp only [List.map_cons, List.foldl_cons, TxOp.toOp, pendingStep] at ht
    obtain ⟨h1, h2⟩ := ih (fun o ho => hR o (List.mem_cons_of_mem _ ho)) _ t ht
    have hf := List.mem_filter.mp h1
    refine ⟨hf.1, ?_⟩
    intro hm
    rcases List.mem_cons.mp hm with e | hm
    · simp only [TxOp.remove.injEq] at e
      have := hf.2
      simp [e.1, e.2] at this
    · exact h2 hm

theorem freshFrom_removes (R : List TxOp) (hR : ∀ op ∈ R, ∃ s n, op = TxOp.remove s n) :
    ∀ P : List Tx, FreshFrom P (R.map TxOp.toOp) := by
  induction R with
  | nil => intro _; trivial
  | cons op R ih =>
    intro P
    obtain ⟨s, n, rfl⟩ := hR _ List.mem_cons_self
    exact ⟨trivial, ih (fun o ho => hR o (List.mem_cons_of_mem _ ho)) _⟩

/-- one application-level event keeps `Below`, and what it emits is fresh -/
theorem aemit_step (seq : String → Nat) (P : List Tx) (op : AOp) (hb : Below seq P)
    (hcov : match op with
      | .commit _ rc => ∀ t ∈ P, ∃ ok, (t.sender, t.nonce, ok) ∈ rc
      | _ => True) :
    FreshFrom P ((aemit seq op).2.map TxOp.toOp) ∧
    Below (aemit seq op).1 (((aemit seq op).2.map TxOp.toOp).foldl pendingStep P) := by
  cases op with
  | checkTx s n urls id ok =>
    by_cases hc : ok = true ∧ n = seq s
    · have he : aemit seq (.checkTx s n urls id ok)
          = (upd seq s (n + 1), [.insert s n urls appCtxPriority id]) := by
        simp only [aemit, hc, and_self, if_true]
      rw [he]
      refine ⟨⟨?_, trivial⟩, ?_⟩
      · intro t ht hk
        have := hb t ht
        rw [hk.1, hk.2, hc.2] at this
        omega
      · intro t ht
        simp only [List.map_cons, List.map_nil, List.foldl_cons, List.foldl_nil, TxOp.toOp,
          pendingStep] at ht
        rcases List.mem_cons.mp ht with rfl | ht
        · simp [upd]
        · have := hb t (List.mem_filter.mp ht).1
          simp only [upd]
          split
          · rename_i h; rw [h, ← hc.2] at this; omega
          · exact this
    · have he : aemit seq (.checkTx s n urls id ok) = (seq, []) := by
        simp only [aemit, hc, if_false]
      rw [he]
      exact ⟨trivial, hb⟩
  | finalizeTx s n =>
    refine ⟨⟨trivial, trivial⟩, ?_⟩
    intro t ht
    simp only [aemit, List.map_cons, List.map_nil, List.foldl_cons, List.foldl_nil, TxOp.toOp,
      pendingStep] at ht
    exact hb t (List.mem_filter.mp ht).1
  | commit c rc =>
    obtain ⟨_, R, hR, hrm, hcv⟩ := recheck_fold_acc rc (c, [])
    simp only [List.nil_append] at hR
    simp only [aemit]
    rw [hR]
    refine ⟨freshFrom_removes R hrm P, ?_⟩
    intro t ht
    obtain ⟨htP, hnr⟩ := fold_removes R hrm P t ht
    obtain ⟨ok, hin⟩ := hcov t htP
    rcases hcv _ hin with h | h
    · exact h
    · exact absurd h hnr
  | select => exact ⟨⟨trivial, trivial⟩, hb⟩

theorem acompile_freshFrom (aops : List AOp) : ∀ (seq : String → Nat) (P : List Tx),
    Below seq P → ACovered seq P aops → FreshFrom P ((acompile seq aops).map TxOp.toOp) := by
  induction aops with
  | nil => intro _ _ _ _; trivial
  | cons op rest ih =>
    intro seq P hb hc
    obtain ⟨h1, h2⟩ := aemit_step seq P op hb hc.1
    simp only [acompile, List.map_append]
    rw [freshFrom_append]
    exact ⟨h1, ih _ _ h2 hc.2⟩

theorem acompile_ctx (aops : List AOp) : ∀ (seq : String → Nat) s n urls c id,
    TxOp.insert s n urls c id ∈ acompile seq aops → c = appCtxPriority := by
  induction aops with
  | nil => intro _ _ _ _ _ _ h; cases h
  | cons op rest ih =>
    intro seq s n urls c id h
    simp only [acompile] at h
    rcases List.mem_append.mp h with h | h
    · cases op with
      | checkTx s' n' urls' id' ok =>
        simp only [aemit] at h
        split at h
        · simp only [List.mem_singleton, TxOp.insert.injEq] at h
          exact h.2.2.2.1
        · cases h
      | finalizeTx s' n' => simp [aemit] at h
      | commit c' rc =>
        obtain ⟨_, R, hR, hrm, _⟩ := recheck_fold_acc rc (c', [])
        simp only [List.nil_append] at hR
        simp only [aemit] at h
        rw [hR] at h
        obtain ⟨_, _, e⟩ := hrm _ h
        cases e
      | select => simp [aemit] at h
    · exact ih _ s n urls c id h

/-! ### the iterator state between two `Next()` calls -/

/-- invariant of a live iterator standing inside the run of a sender (`R` = `priorityNode` and
    the elements behind it): as `LI`, but the sender of the current element may already have
    passed its own element -/
structure LIm (scores : String → Nat → Option Score) (R : List PNode) (rem : String → List Tx) : Prop where
  sorted : Sorted R
  own : ∀ s, ∀ e ∈ rem s, (∃ k ∈ R, Own scores k s e) ∨ Dom scores s e R
  head : ∀ s e es, rem s = e :: es → R.head?.map (·.sender) ≠ some s → ∃ k ∈ R, Own scores k s e
  pge : ∀ s, ∀ e ∈ rem s, minInt64 ≤ e.prio
  snd : ∀ s, ∀ e ∈ rem s, e.sender = s

theorem LIm_of_LI {scores : String → Nat → Option Score} {R : List PNode} {rem : String → List Tx}
    (h : LI scores R rem) : LIm scores R rem :=
  ⟨h.sorted, h.own, fun s e es hr _ => h.head s e es hr, h.pge, h.snd⟩

/-- leaving the element `m` (its sender has nothing left, or is deferred): `LI` for the rest -/
theorem LI_of_LIm_leave (scores : String → Nat → Option Score) (m : PNode) (rest : List PNode)
    (rem : String → List Tx) (h : LIm scores (m :: rest) rem)
    (hleave : rem m.sender = [] ∨ ∃ e es, rem m.sender = e :: es ∧ passes scores rest.head? m.sender e = .stop) :
    LI scores rest rem := by
  constructor
  · exact (List.pairwise_cons.mp h.sorted).2
  · intro s e he; exact own_step scores m rest s e h.sorted (h.own s e he)
  · intro s e es hr
    have hmem : e ∈ rem s := by rw [hr]; simp
    by_cases hs : s = m.sender
    · subst hs
      rcases hleave with hn | ⟨e', es', hr', hp⟩
      · rw [hn] at hr; cases hr
      · rw [hr'] at hr
        simp only [List.cons.injEq] at hr
        obtain ⟨rfl, rfl⟩ := hr
        rcases own_step scores m rest m.sender e' h.sorted (h.own _ e' hmem) with hk | hd
        · exact hk
        · exact absurd hp (passes_of_dom scores m.sender e' rest hd (h.pge _ e' hmem))
    · obtain ⟨k, hk, ho⟩ := h.head s e es hr (by simp only [List.head?_cons, Option.map_some]; intro e'; exact hs (Option.some.inj e').symm)
      rcases List.mem_cons.mp hk with hk | hk
      · subst hk; exact absurd ho.1.symm hs
      · exact ⟨k, hk, ho⟩
  · exact h.pge
  · exact h.snd

/-- "both next transactions are available", on the iterator state: the iterator stands on
    `it.cur`; `u` is the first not yet yielded transaction of another sender -/
def Avail (it : Iter) : Prop :=
  ∀ z, z ≠ it.cur.sender → ∀ u us, it.rem z = u :: us → u.prio ≤ it.cur.prio

theorem advance_spec_m (scores : String → Nat → Option Score) (m : PNode) (rest : List PNode)
    (ih : ∀ rem, LI scores rest rem → ∀ it, advance scores rest rem = .at it →
      LIm scores it.nodes it.rem ∧ Avail it ∧ it.nodes ≠ []) :
    ∀ (l : List Tx) (rem : String → List Tx), rem m.sender = l → LIm scores (m :: rest) rem →
      ∀ it, advance scores (m :: rest) rem = .at it →
        LIm scores it.nodes it.rem ∧ Avail it ∧ it.nodes ≠ [] := by
  intro l rem hl h it hit
  cases l with
  | nil =>
    have : advance scores (m :: rest) rem = advance scores rest rem := by simp only [advance, hl]
    rw [this] at hit
    exact ih rem (LI_of_LIm_leave scores m rest rem h (Or.inl hl)) it hit
  | cons e es =>
    cases hp : passes scores rest.head? m.sender e with
    | stop =>
      have : advance scores (m :: rest) rem = advance scores rest rem := by simp only [advance, hl, hp]
      rw [this] at hit
      exact ih rem (LI_of_LIm_leave scores m rest rem h (Or.inr ⟨e, es, hl, hp⟩)) it hit
    | panic =>
      have : advance scores (m :: rest) rem = .panic := by simp only [advance, hl, hp]
      rw [this] at hit; cases hit
    | pass =>
      have : advance scores (m :: rest) rem = .at ⟨m :: rest, upd rem m.sender es, e⟩ := by
        simp only [advance, hl, hp]
      rw [this] at hit
      cases hit
      have hsub : ∀ s, ∀ x ∈ upd rem m.sender es s, x ∈ rem s := by
        intro s x hx
        simp only [upd] at hx
        split at hx
        · rename_i hs; subst hs; rw [hl]; exact List.mem_cons_of_mem _ hx
        · exact hx
      have hes : e.sender = m.sender := h.snd _ e (by rw [hl]; simp)
      refine ⟨⟨h.sorted, fun s x hx => h.own s x (hsub s x hx), ?_, fun s x hx => h.pge s x (hsub s x hx),
        fun s x hx => h.snd s x (hsub s x hx)⟩, ?_, by simp⟩
      · intro s x xs hr hne
        have hs : ¬ s = m.sender := by
          intro e'; apply hne; simp [e']
        have hr' : rem s = x :: xs := by simpa only [upd, hs, if_false] using hr
        exact h.head s x xs hr' hne
      · intro z hz u us hr
        show u.prio ≤ e.prio
        simp only at hz hr
        rw [hes] at hz
        have hr' : rem z = u :: us := by simpa only [upd, hz, if_false] using hr
        obtain ⟨k, hk, ho⟩ := h.head z u us hr' (by
          simp only [List.head?_cons, Option.map_some]; intro e'; exact hz (Option.some.inj e').symm)
        have hge := passes_pass_ge scores _ _ e hp
        rcases List.mem_cons.mp hk with hk | hk
        · subst hk; exact absurd ho.1.symm hz
        · rw [← ho.2.2.1]
          cases rest with
          | nil => cases hk
          | cons m' rest' =>
            simp only [List.head?_cons, nextPrio] at hge
            rcases List.mem_cons.mp hk with hk | hk
            · subst hk; exact hge
            · have := keyCmp_gt_weak ((List.pairwise_cons.mp (List.pairwise_cons.mp h.sorted).2).1 k hk)
              omega

theorem advance_spec (scores : String → Nat → Option Score) (R : List PNode) :
    ∀ rem, LI scores R rem → ∀ it, advance scores R rem = .at it →
      LIm scores it.nodes it.rem ∧ Avail it ∧ it.nodes ≠ [] := by
  induction R with
  | nil => intro rem _ it hit; simp [advance] at hit
  | cons m rest ih =>
    intro rem h it hit
    exact advance_spec_m scores m rest ih (rem m.sender) rem rfl (LIm_of_LI h) it hit

theorem iter_next_spec (scores : String → Nat → Option Score) (it : Iter)
    (h : LIm scores it.nodes it.rem) (hne : it.nodes ≠ []) :
    ∀ it', it.next scores = .at it' → LIm scores it'.nodes it'.rem ∧ Avail it' ∧ it'.nodes ≠ [] := by
  intro it' hit
  unfold Iter.next at hit
  cases hn : it.nodes with
  | nil => exact absurd hn hne
  | cons m rest =>
    rw [hn] at hit h
    exact advance_spec_m scores m rest (advance_spec scores rest) (it.rem m.sender) it.rem rfl h it' hit

theorem runIter_state (scores : String → Nat → Option Score) (k : Nat) :
    ∀ it, LIm scores it.nodes it.rem → Avail it → it.nodes ≠ [] →
      ∀ it', (runIter scores k (.at it)).2 = .at it' →
        LIm scores it'.nodes it'.rem ∧ Avail it' ∧ it'.nodes ≠ [] := by
  induction k with
  | zero => intro it h ha hne it' hr; simp only [runIter] at hr; cases hr; exact ⟨h, ha, hne⟩
  | succ k ih =>
    intro it h ha hne it' hr
    simp only [runIter] at hr
    cases hn : it.next scores with
    | done => rw [hn, runIter_done] at hr; cases hr
    | panic => rw [hn, runIter_panic] at hr; cases hr
    | «at» it2 =>
      rw [hn] at hr
      obtain ⟨h2, ha2, hne2⟩ := iter_next_spec scores it h hne it2 hn
      exact ih it2 h2 ha2 hne2 it' hr

/-- what is left for a sender in a live iterator after `selectN k` is a suffix of its sender index -/
theorem selectN_state {mp : Pool} {P : List Tx} (h : Inv mp P) (hge : ∀ t ∈ P, minInt64 ≤ t.prio)
    (k : Nat) (it : Iter) (hit : (mp.selectN k).2.2 = .at it) :
    LIm mp.select.1.scores it.nodes it.rem ∧ Avail it := by
  have hi := inv_select h
  have hli := LI_of_inv hi hge
  unfold Pool.selectN Pool.selectStart at hit
  split at hit
  · simp only [runIter_done] at hit; cases hit
  · rename_i hne
    have hsel : mp.select.1 = mp.reorder := by
      unfold Pool.select; rw [if_neg hne]
    rw [hsel] at hli ⊢
    simp only at hit
    cases ha : advance mp.reorder.scores mp.reorder.pidx mp.reorder.sidx with
    | done => rw [ha, runIter_done] at hit; cases hit
    | panic => rw [ha, runIter_panic] at hit; cases hit
    | «at» it0 =>
      rw [ha] at hit
      obtain ⟨h0, a0, n0⟩ := advance_spec _ _ _ hli it0 ha
      have := runIter_state _ k it0 h0 a0 n0 it hit
      exact ⟨this.1, this.2.1⟩

/-- `senderCursors` of a live iterator: what is left for sender `s` (for the examples) -/
def IterResult.remOf : IterResult → String → List Tx
  | .at it, s => it.rem s
  | _, _ => []

theorem advance_rem (scores : String → Nat → Option Score) (R : List PNode) :
    ∀ (rem : String → List Tx) (it : Iter), advance scores R rem = .at it →
      (∀ s, it.rem s <:+ rem s) ∧ ∃ s, it.cur ∈ rem s := by
  induction R with
  | nil => intro rem it h; simp [advance] at h
  | cons m rest ih =>
    intro rem it h
    cases hl : rem m.sender with
    | nil =>
      have : advance scores (m :: rest) rem = advance scores rest rem := by simp only [advance, hl]
      rw [this] at h; exact ih rem it h
    | cons e es =>
      cases hp : passes scores rest.head? m.sender e with
      | stop =>
        have : advance scores (m :: rest) rem = advance scores rest rem := by simp only [advance, hl, hp]
        rw [this] at h; exact ih rem it h
      | panic =>
        have : advance scores (m :: rest) rem = .panic := by simp only [advance, hl, hp]
        rw [this] at h; cases h
      | pass =>
        have : advance scores (m :: rest) rem = .at ⟨m :: rest, upd rem m.sender es, e⟩ := by
          simp only [advance, hl, hp]
        rw [this] at h
        cases h
        refine ⟨?_, m.sender, by rw [hl]; simp⟩
        intro s
        simp only [upd]
        split
        · rename_i hs; subst hs; rw [hl]; exact List.suffix_cons e es
        · exact List.suffix_refl _

theorem runIter_rem (scores : String → Nat → Option Score) (base : String → List Tx) (k : Nat) :
    ∀ it, (∀ s, it.rem s <:+ base s) → (∃ s, it.cur ∈ base s) →
      ∀ it', (runIter scores k (.at it)).2 = .at it' →
        (∀ s, it'.rem s <:+ base s) ∧ ∃ s, it'.cur ∈ base s := by
  induction k with
  | zero => intro it h1 h2 it' hr; simp only [runIter] at hr; cases hr; exact ⟨h1, h2⟩
  | succ k ih =>
    intro it h1 h2 it' hr
    simp only [runIter] at hr
    cases hn : it.next scores with
    | done => rw [hn, runIter_done] at hr; cases hr
    | panic => rw [hn, runIter_panic] at hr; cases hr
    | «at» it2 =>
      rw [hn] at hr
      obtain ⟨a1, s0, a2⟩ := advance_rem scores it.nodes it.rem it2 hn
      refine ih it2 (fun s => List.IsSuffix.trans (a1 s) (h1 s)) ⟨s0, ?_⟩ it' hr
      exact (h1 s0).subset a2

theorem selectN_rem (mp : Pool) (k : Nat) (it : Iter) (hit : (mp.selectN k).2.2 = .at it) :
    (∀ s, it.rem s <:+ mp.select.1.sidx s) ∧ ∃ s, it.cur ∈ mp.select.1.sidx s := by
  unfold Pool.selectN Pool.selectStart at hit
  split at hit
  · simp only [runIter_done] at hit; cases hit
  · rename_i hne
    have hsel : mp.select.1 = mp.reorder := by
      unfold Pool.select; rw [if_neg hne]
    rw [hsel]
    simp only at hit
    cases ha : advance mp.reorder.scores mp.reorder.pidx mp.reorder.sidx with
    | done => rw [ha, runIter_done] at hit; cases hit
    | panic => rw [ha, runIter_panic] at hit; cases hit
    | «at» it0 =>
      rw [ha] at hit
      obtain ⟨a1, a2⟩ := advance_rem _ _ _ it0 ha
      exact runIter_rem _ _ k it0 a1 a2 it hit

/-! ### what holds for EVERY history: the priority index and `scores` describe the pending set -/

/-- the part of `Inv` that does not mention the sender indices and `priorityCounts`; it survives a
    priority-changing replacement -/
structure CInv (mp : Pool) (P : List Tx) : Prop where
  keys_nodup : (P.map Tx.skey).Nodup
  psorted : Sorted mp.pidx
  pkeys : (mp.pidx.map PNode.skey).Nodup
  pmem : ∀ t, t ∈ mp.pidx.map PNode.tx ↔ t ∈ P
  score_node : ∀ k ∈ mp.pidx, mp.scores k.sender k.nonce = some ⟨k.prio, k.weight⟩
  node_score : ∀ s n sc, mp.scores s n = some sc → ∃ k ∈ mp.pidx, k.sender = s ∧ k.nonce = n

theorem CInv.congr {mp mp' : Pool} {P : List Tx} (h : CInv mp P) (e1 : mp'.pidx = mp.pidx)
    (e2 : mp'.scores = mp.scores) : CInv mp' P := by
  constructor
  · exact h.keys_nodup
  · rw [e1]; exact h.psorted
  · rw [e1]; exact h.pkeys
  · rw [e1]; exact h.pmem
  · rw [e1, e2]; exact h.score_node
  · rw [e1, e2]; exact h.node_score

theorem CInv.ptx_nodup {mp : Pool} {P : List Tx} (h : CInv mp P) : (mp.pidx.map PNode.tx).Nodup := by
  have : (mp.pidx.map PNode.tx).map Tx.skey = mp.pidx.map PNode.skey := by
    rw [List.map_map]; rfl
  exact nodup_of_map _ (this ▸ h.pkeys)

theorem CInv.pperm {mp : Pool} {P : List Tx} (h : CInv mp P) : (mp.pidx.map PNode.tx).Perm P :=
  (List.perm_ext_iff_of_nodup h.ptx_nodup (nodup_of_map _ h.keys_nodup)).mpr h.pmem

theorem CInv.node_mem {mp : Pool} {P : List Tx} (h : CInv mp P) {k : PNode} (hk : k ∈ mp.pidx) :
    k.tx ∈ P := (h.pmem _).mp (List.mem_map.mpr ⟨k, hk, rfl⟩)

theorem CInv.node_of {mp : Pool} {P : List Tx} (h : CInv mp P) {t : Tx} (ht : t ∈ P) :
    ∃ k ∈ mp.pidx, k.tx = t := by
  rcases List.mem_map.mp ((h.pmem t).mpr ht) with ⟨k, hk, e⟩
  exact ⟨k, hk, e⟩

theorem cinv_empty : CInv Pool.empty [] := by
  constructor <;> simp [Pool.empty, Sorted]

theorem cinv_insert_fresh {mp : Pool} {P : List Tx} (h : CInv mp P) (s : String) (n : Nat) (p : Int) (id : Nat)
    (hfresh : ∀ t ∈ P, ¬ (t.sender = s ∧ t.nonce = n)) :
    CInv (mp.insert s n p id) (pendingStep P (.insert s n p id)) := by
  have hP' : pendingStep P (.insert s n p id) = ⟨s, n, p, id⟩ :: P := by
    simp only [pendingStep]; rw [filter_key_fresh P s n hfresh]
  have hnokey : ∀ x ∈ mp.pidx, ¬ (x.sender = s ∧ x.nonce = n) := by
    intro x hx hk
    exact hfresh x.tx (h.node_mem hx) hk
  have hnone : mp.scores s n = none := by
    cases hsc : mp.scores s n with
    | none => rfl
    | some sc =>
      obtain ⟨k, hk, h1, h2⟩ := h.node_score s n sc hsc
      exact absurd ⟨h1, h2⟩ (hnokey k hk)
  have hneq : ∀ x ∈ mp.pidx, keyCmp ⟨p, 0, s, n, id⟩ x ≠ .eq := by
    intro x hx he
    have := keyCmp_eq_iff.mp he
    exact hnokey x hx ⟨this.2.2.1.symm, this.2.2.2.symm⟩
  have hperm := pset_perm ⟨p, 0, s, n, id⟩ mp.pidx hneq
  have hpi : (mp.insert s n p id).pidx = pset ⟨p, 0, s, n, id⟩ mp.pidx := by
    simp only [Pool.insert, hnone]
  have hsi : (mp.insert s n p id).scores = upd2 mp.scores s n (some ⟨p, 0⟩) := by
    simp only [Pool.insert]
  rw [hP']
  constructor
  · rw [List.map_cons, List.nodup_cons]
    refine ⟨?_, h.keys_nodup⟩
    intro hm
    rcases List.mem_map.mp hm with ⟨t, ht, e⟩
    simp only [Tx.skey, Prod.mk.injEq] at e
    exact hfresh t ht e
  · rw [hpi]; exact pset_sorted _ _ h.psorted hneq
  · rw [hpi]
    refine ((hperm.map PNode.skey).nodup_iff).mpr ?_
    rw [List.map_cons, List.nodup_cons]
    refine ⟨?_, h.pkeys⟩
    intro hm
    rcases List.mem_map.mp hm with ⟨x, hx, e⟩
    simp only [PNode.skey, Prod.mk.injEq] at e
    exact hnokey x hx e
  · intro t
    rw [hpi, (hperm.map PNode.tx).mem_iff, List.map_cons, List.mem_cons, List.mem_cons, h.pmem]
    rfl
  · intro k hk
    rw [hpi] at hk
    rw [hsi]
    rcases List.mem_cons.mp (hperm.mem_iff.mp hk) with hk | hk
    · subst hk; simp [upd2]
    · have := hnokey k hk
      simp only [upd2, this, if_false]
      exact h.score_node k hk
  · intro s' n' sc hsc
    rw [hsi] at hsc
    rw [hpi]
    simp only [upd2] at hsc
    split at hsc
    · rename_i hc
      exact ⟨⟨p, 0, s, n, id⟩, hperm.mem_iff.mpr (List.mem_cons_self), hc.1.symm, hc.2.symm⟩
    · obtain ⟨k, hk, hk'⟩ := h.node_score s' n' sc hsc
      exact ⟨k, hperm.mem_iff.mpr (List.mem_cons_of_mem _ hk), hk'⟩

theorem cinv_remove {mp : Pool} {P : List Tx} (h : CInv mp P) (s : String) (n : Nat) :
    CInv (mp.remove s n).1 (pendingStep P (.remove s n)) := by
  cases hsc : mp.scores s n with
  | none =>
    have hfresh : ∀ t ∈ P, ¬ (t.sender = s ∧ t.nonce = n) := by
      intro t ht hk
      obtain ⟨k, hk1, hk2⟩ := h.node_of ht
      have := h.score_node k hk1
      have e1 : k.sender = s := by rw [← hk.1, ← hk2]; rfl
      have e2 : k.nonce = n := by rw [← hk.2, ← hk2]; rfl
      rw [e1, e2, hsc] at this
      cases this
    have hP' : pendingStep P (.remove s n) = P := by
      simp only [pendingStep]; exact filter_key_fresh P s n hfresh
    have hrm : (mp.remove s n).1 = mp := by simp only [Pool.remove, hsc]
    rw [hP', hrm]; exact h
  | some sc =>
    obtain ⟨k, hk, h1, h2⟩ := h.node_score s n sc hsc
    subst h1 h2
    have hsc' := h.score_node k hk
    rw [hsc] at hsc'
    have hsce : sc = ⟨k.prio, k.weight⟩ := Option.some.inj hsc'
    subst hsce
    have hpi : (mp.remove k.sender k.nonce).1.pidx = perase ⟨k.prio, k.weight, k.sender, k.nonce, 0⟩ mp.pidx := by
      simp only [Pool.remove, hsc]
    have hsi : (mp.remove k.sender k.nonce).1.scores = upd2 mp.scores k.sender k.nonce none := by
      simp only [Pool.remove, hsc]
    have hke : keyCmp ⟨k.prio, k.weight, k.sender, k.nonce, 0⟩ k = .eq :=
      keyCmp_eq_iff.mpr ⟨rfl, rfl, rfl, rfl⟩
    have hperm := perase_perm ⟨k.prio, k.weight, k.sender, k.nonce, 0⟩ k mp.pidx h.psorted hk hke
    have ht0 : k.tx ∈ P := h.node_mem hk
    have hPperm := perm_filter_key P k.tx h.keys_nodup ht0
    have hP' : pendingStep P (.remove k.sender k.nonce) =
        P.filter (fun t => !(t.sender == k.tx.sender && t.nonce == k.tx.nonce)) := rfl
    have hknot : k.skey ∉ (perase ⟨k.prio, k.weight, k.sender, k.nonce, 0⟩ mp.pidx).map PNode.skey := by
      have := ((hperm.map PNode.skey).nodup_iff).mp h.pkeys
      rw [List.map_cons, List.nodup_cons] at this
      exact this.1
    rw [hP']
    constructor
    · exact List.Nodup.sublist (List.Sublist.map _ List.filter_sublist) h.keys_nodup
    · rw [hpi]; exact perase_sorted _ _ h.psorted
    · rw [hpi]; exact List.Nodup.sublist (List.Sublist.map _ (perase_sublist _ _)) h.pkeys
    · intro t
      rw [hpi]
      have e1 := (hperm.map PNode.tx)
      rw [List.map_cons] at e1
      have e2 := (e1.symm.trans (h.pperm.trans hPperm)).cons_inv
      exact e2.mem_iff
    · intro k' hk'
      rw [hpi] at hk'
      rw [hsi]
      have hk'0 : k' ∈ mp.pidx := (perase_sublist _ _).subset hk'
      have hne : ¬ (k'.sender = k.sender ∧ k'.nonce = k.nonce) := by
        intro e
        apply hknot
        exact List.mem_map.mpr ⟨k', hk', by simp [PNode.skey, e.1, e.2]⟩
      simp only [upd2, hne, if_false]
      exact h.score_node k' hk'0
    · intro s' n' sc' hsc'
      rw [hsi] at hsc'
      rw [hpi]
      simp only [upd2] at hsc'
      split at hsc'
      · cases hsc'
      · rename_i hc
        obtain ⟨k', hk', e1, e2⟩ := h.node_score s' n' sc' hsc'
        rcases List.mem_cons.mp (hperm.mem_iff.mp hk') with hkk | hkk
        · subst hkk; exact absurd ⟨e1.symm, e2.symm⟩ hc
        · exact ⟨k', hkk, e1, e2⟩

/-- `Insert` on a pending key — with ANY priority — changes the priority index and `scores` like
    `Remove` followed by `Insert` -/
theorem insert_pidx_scores (mp : Pool) (s : String) (n : Nat) (p : Int) (id : Nat) (sc : Score)
    (hsc : mp.scores s n = some sc) :
    (mp.insert s n p id).pidx = ((mp.remove s n).1.insert s n p id).pidx ∧
    (mp.insert s n p id).scores = ((mp.remove s n).1.insert s n p id).scores := by
  have hnone : upd2 mp.scores s n none s n = none := by simp [upd2]
  simp only [Pool.insert, Pool.remove, hsc, hnone, upd2_upd2, and_self]

theorem cinv_insert {mp : Pool} {P : List Tx} (h : CInv mp P) (s : String) (n : Nat) (p : Int) (id : Nat) :
    CInv (mp.insert s n p id) (pendingStep P (.insert s n p id)) := by
  cases hsc : mp.scores s n with
  | none =>
    apply cinv_insert_fresh h
    intro t ht hk
    obtain ⟨k, hk1, hk2⟩ := h.node_of ht
    have := h.score_node k hk1
    have e1 : k.sender = s := by rw [← hk.1, ← hk2]; rfl
    have e2 : k.nonce = n := by rw [← hk.2, ← hk2]; rfl
    rw [e1, e2, hsc] at this
    cases this
  | some sc =>
    have h1 := cinv_remove h s n
    have hfresh : ∀ t ∈ pendingStep P (.remove s n), ¬ (t.sender = s ∧ t.nonce = n) := by
      intro t ht hk
      simp only [pendingStep, List.mem_filter] at ht
      simp [hk.1, hk.2] at ht
    have h2 := cinv_insert_fresh h1 s n p id hfresh
    have hP : pendingStep (pendingStep P (.remove s n)) (.insert s n p id)
        = pendingStep P (.insert s n p id) := by
      simp only [pendingStep, List.filter_filter, Bool.and_self]
    rw [hP] at h2
    obtain ⟨e1, e2⟩ := insert_pidx_scores mp s n p id sc hsc
    exact h2.congr e1 e2

theorem cinv_reweigh {mp : Pool} {P : List Tx} (h : CInv mp P) (d : PNode) (w : Int) (hd : d ∈ mp.pidx) :
    CInv (mp.reweigh (d, { d with weight := w })) P ∧
    (∀ d' ∈ mp.pidx, d'.skey ≠ d.skey → d' ∈ (mp.reweigh (d, { d with weight := w })).pidx) := by
  have hperm1 := perase_perm d d mp.pidx h.psorted hd (keyCmp_self d)
  have hknot : d.skey ∉ (perase d mp.pidx).map PNode.skey := by
    have := ((hperm1.map PNode.skey).nodup_iff).mp h.pkeys
    rw [List.map_cons, List.nodup_cons] at this
    exact this.1
  have hnoeq : ∀ x ∈ perase d mp.pidx, keyCmp { d with weight := w } x ≠ .eq := by
    intro x hx he
    have e := keyCmp_eq_iff.mp he
    apply hknot
    exact List.mem_map.mpr ⟨x, hx, by simp only [PNode.skey]; rw [← e.2.2.1, ← e.2.2.2]⟩
  have hperm2 := pset_perm { d with weight := w } (perase d mp.pidx) hnoeq
  have hrw : mp.reweigh (d, { d with weight := w }) =
      { mp with
        pidx := pset { d with weight := w } (perase d mp.pidx)
        scores := upd2 mp.scores d.sender d.nonce (some ⟨d.prio, w⟩) } := rfl
  rw [hrw]
  refine ⟨?_, ?_⟩
  · constructor
    · exact h.keys_nodup
    · exact pset_sorted _ _ (perase_sorted _ _ h.psorted) hnoeq
    · have e : (pset { d with weight := w } (perase d mp.pidx)).map PNode.skey |>.Perm
          (mp.pidx.map PNode.skey) :=
        (hperm2.map PNode.skey).trans (hperm1.map PNode.skey).symm
      exact (e.nodup_iff).mpr h.pkeys
    · intro t
      have e : (pset { d with weight := w } (perase d mp.pidx)).map PNode.tx |>.Perm
          (mp.pidx.map PNode.tx) :=
        (hperm2.map PNode.tx).trans (hperm1.map PNode.tx).symm
      rw [e.mem_iff]; exact h.pmem t
    · intro k hk
      rcases List.mem_cons.mp (hperm2.mem_iff.mp hk) with hk | hk
      · subst hk; simp [upd2]
      · have hk0 : k ∈ mp.pidx := (perase_sublist _ _).subset hk
        have hne : ¬ (k.sender = d.sender ∧ k.nonce = d.nonce) := by
          intro e
          apply hknot
          exact List.mem_map.mpr ⟨k, hk, by simp [PNode.skey, e.1, e.2]⟩
        simp only [upd2, hne, if_false]
        exact h.score_node k hk0
    · intro s' n' sc hsc
      simp only [upd2] at hsc
      split at hsc
      · rename_i hc
        exact ⟨{ d with weight := w }, hperm2.mem_iff.mpr List.mem_cons_self, hc.1.symm, hc.2.symm⟩
      · rename_i hc
        obtain ⟨k, hk, e1, e2⟩ := h.node_score s' n' sc hsc
        rcases List.mem_cons.mp (hperm1.mem_iff.mp hk) with hkk | hkk
        · subst hkk; exact absurd ⟨e1.symm, e2.symm⟩ hc
        · exact ⟨k, hperm2.mem_iff.mpr (List.mem_cons_of_mem _ hkk), e1, e2⟩
  · intro d' hd' hne
    rcases List.mem_cons.mp (hperm1.mem_iff.mp hd') with e | e
    · subst e; exact absurd rfl hne
    · exact hperm2.mem_iff.mpr (List.mem_cons_of_mem _ e)

theorem cinv_reweigh_fold {P : List Tx} (todo : List (PNode × PNode)) :
    ∀ mp : Pool, CInv mp P →
      (∀ di ∈ todo, di.1 ∈ mp.pidx ∧ ∃ w, di.2 = { di.1 with weight := w }) →
      (todo.map (fun di => di.1.skey)).Nodup →
      CInv (todo.foldl Pool.reweigh mp) P := by
  induction todo with
  | nil => intro mp h _ _; exact h
  | cons di rest ih =>
    intro mp h hmem hnd
    rw [List.map_cons, List.nodup_cons] at hnd
    obtain ⟨hd, w, hw⟩ := hmem di (by simp)
    have hdi : di = (di.1, { di.1 with weight := w }) := by
      cases di with
      | mk a b => simp only at hw ⊢; rw [hw]
    have := cinv_reweigh h di.1 w hd
    rw [← hdi] at this
    rw [List.foldl_cons]
    apply ih _ this.1
    · intro di' hdi'
      obtain ⟨hd', hw'⟩ := hmem di' (by simp [hdi'])
      refine ⟨this.2 _ hd' ?_, hw'⟩
      intro e
      apply hnd.1
      exact List.mem_map.mpr ⟨di', hdi', e⟩
    · exact hnd.2

theorem cinv_select {mp : Pool} {P : List Tx} (h : CInv mp P) : CInv mp.select.1 P := by
  unfold Pool.select
  split
  · exact h
  · unfold Pool.reorder
    apply cinv_reweigh_fold _ mp h
    · intro di hdi
      simp only [Pool.reorderKeys] at hdi
      rcases List.mem_map.mp hdi with ⟨k, hk, e⟩
      subst e
      exact ⟨(List.mem_filter.mp hk).1, _, rfl⟩
    · simp only [Pool.reorderKeys, List.map_map]
      exact List.Nodup.sublist (List.Sublist.map _ List.filter_sublist) h.pkeys

theorem cinv_steps (ops : List Op) : ∀ (mp : Pool) (P : List Tx), CInv mp P →
    CInv (ops.foldl Pool.step mp) (ops.foldl pendingStep P) := by
  induction ops with
  | nil => intro mp P h; exact h
  | cons op ops ih =>
    intro mp P h
    rw [List.foldl_cons, List.foldl_cons]
    apply ih
    cases op with
    | insert s n p id => exact cinv_insert h s n p id
    | remove s n => exact cinv_remove h s n
    | select => exact cinv_select h

theorem cinv_run (ops : List Op) : CInv (run ops) (pending ops) :=
  cinv_steps ops _ _ cinv_empty

/-! ### an iterator in use while the pool changes (`LState`, `LOp`) -/

/-- the pool operations of an interleaved history (`iopen` is a `Select`, `inext` touches nothing) -/
def lpoolOps : List LOp → List Op
  | [] => []
  | .pool op :: rest => op :: lpoolOps rest
  | .iopen :: rest => .select :: lpoolOps rest
  | .inext :: rest => lpoolOps rest

theorem lpoolOps_append (a b : List LOp) : lpoolOps (a ++ b) = lpoolOps a ++ lpoolOps b := by
  induction a with
  | nil => rfl
  | cons op a ih =>
    cases op with
    | pool o => simp [lpoolOps, ih]
    | iopen => simp [lpoolOps, ih]
    | inext => simp [lpoolOps, ih]

theorem selectStart_fst (mp : Pool) : mp.selectStart.1 = mp.select.1 := by
  unfold Pool.selectStart Pool.select
  split <;> rfl

/-- the pool component of an interleaved run is the run of its pool operations -/
theorem lstep_pool (st : LState) (op : LOp) :
    (st.step op).1.pool = (lpoolOps [op]).foldl Pool.step st.pool := by
  cases op with
  | pool o =>
    cases o with
    | insert s n p id => rfl
    | remove s n => rfl
    | select => rfl
  | iopen => simp only [LState.step, Pool.liveOpen, selectStart_fst, lpoolOps, List.foldl_cons, List.foldl_nil, Pool.step]
  | inext =>
    simp only [LState.step, lpoolOps, List.foldl_nil]
    split <;> rfl

theorem lrunFrom_pool (ops : List LOp) : ∀ st : LState,
    (lrunFrom st ops).1.pool = (lpoolOps ops).foldl Pool.step st.pool := by
  induction ops with
  | nil => intro st; rfl
  | cons op rest ih =>
    intro st
    simp only [lrunFrom]
    rw [ih, lstep_pool]
    have : lpoolOps (op :: rest) = lpoolOps [op] ++ lpoolOps rest := lpoolOps_append [op] rest
    rw [this, List.foldl_append]

theorem lrun_pool (ops : List LOp) : (lrun ops).1.pool = run (lpoolOps ops) :=
  lrunFrom_pool ops LState.init

theorem lrunFrom_append (a b : List LOp) : ∀ st : LState,
    (lrunFrom st (a ++ b)).1 = (lrunFrom (lrunFrom st a).1 b).1 := by
  induction a with
  | nil => intro st; rfl
  | cons op a ih => intro st; simp only [List.cons_append, lrunFrom, ih]

theorem cursorOf_setCursor_self (cs : List (String × Cursor)) (s : String) (c : Cursor) :
    cursorOf (setCursor cs s c) s = some c := by
  simp [cursorOf, setCursor]

theorem cursorOf_setCursor_other (cs : List (String × Cursor)) (s z : String) (c : Cursor) (h : z ≠ s) :
    cursorOf (setCursor cs s c) z = cursorOf cs z := by
  have hsz : (s == z) = false := by simp; exact fun e => h e.symm
  simp only [cursorOf, setCursor, List.find?_cons, hsz]
  congr 1
  induction cs with
  | nil => rfl
  | cons p cs ih =>
    by_cases hp : p.1 = s
    · have h1 : (p.1 != s) = false := by simp [hp]
      have h2 : (p.1 == z) = false := by simp [hp]; exact fun e => h e.symm
      rw [List.filter_cons, if_neg (by simp [h1]), List.find?_cons, h2]
      exact ih
    · have h1 : (p.1 != s) = true := by simp [hp]
      rw [List.filter_cons, if_pos h1, List.find?_cons, List.find?_cons]
      cases hz : (p.1 == z) with
      | true => rfl
      | false => exact ih

theorem liveRem_sub (sidx : String → List Tx) (cs : List (String × Cursor)) (s : String) :
    ∀ e ∈ liveRem sidx cs s, e ∈ sidx s := by
  intro e he
  unfold liveRem at he
  split at he
  · exact he
  · split at he
    · cases he
    · exact (List.dropWhile_sublist _).subset he

/-- the head of what is left for a sender lies strictly behind its cursor -/
theorem liveRem_head_gt (sidx : String → List Tx) (cs : List (String × Cursor)) (s : String)
    (e : Tx) (es : List Tx) (h : liveRem sidx cs s = e :: es) (c : Cursor) (hc : cursorOf cs s = some c) :
    c.tx.nonce < e.nonce := by
  unfold liveRem at h
  rw [hc] at h
  simp only at h
  split at h
  · cases h
  · have hne : List.dropWhile (fun x : Tx => decide (x.nonce ≤ c.tx.nonce)) (sidx s) ≠ [] := by
      rw [h]; simp
    have := List.head_dropWhile_not (fun x : Tx => decide (x.nonce ≤ c.tx.nonce)) hne
    simp only [h, List.head_cons, decide_eq_false_iff_not] at this
    omega

/-- `advance` stops at the head of what is left for the sender of the element it stops on -/
theorem advance_head (scores : String → Nat → Option Score) (R : List PNode) :
    ∀ (rem : String → List Tx) (x : Iter), advance scores R rem = .at x →
      ∃ m rest es, x.nodes = m :: rest ∧ rem m.sender = x.cur :: es := by
  induction R with
  | nil => intro rem x h; simp [advance] at h
  | cons m rest ih =>
    intro rem x h
    cases hl : rem m.sender with
    | nil =>
      have : advance scores (m :: rest) rem = advance scores rest rem := by simp only [advance, hl]
      rw [this] at h; exact ih rem x h
    | cons e es =>
      cases hp : passes scores rest.head? m.sender e with
      | stop =>
        have : advance scores (m :: rest) rem = advance scores rest rem := by simp only [advance, hl, hp]
        rw [this] at h; exact ih rem x h
      | panic =>
        have : advance scores (m :: rest) rem = .panic := by simp only [advance, hl, hp]
        rw [this] at h; cases h
      | pass =>
        have : advance scores (m :: rest) rem = .at ⟨m :: rest, upd rem m.sender es, e⟩ := by
          simp only [advance, hl, hp]
        rw [this] at h
        cases h
        exact ⟨m, rest, es, rfl, hl⟩

/-- what a non-nil result of `liveOfAdvance` is: it stands on the head `e` of what was left for some
    sender `z`, `e` becomes `z`'s cursor and no other cursor moves -/
theorem liveOfAdvance_at (cs : List (String × Cursor)) (scores : String → Nat → Option Score)
    (R : List PNode) (rem : String → List Tx) (it' : LiveIter)
    (h : liveOfAdvance cs (advance scores R rem) = .at it') :
    ∃ z e es, rem z = e :: es ∧ it'.cursors = setCursor cs z ⟨e, false⟩ ∧ it'.pnode.sender = z := by
  cases ha : advance scores R rem with
  | done => rw [ha] at h; simp [liveOfAdvance] at h
  | panic => rw [ha] at h; simp [liveOfAdvance] at h
  | «at» x =>
    obtain ⟨m, rest, es, hn, hr⟩ := advance_head scores R rem x ha
    rw [ha] at h
    simp only [liveOfAdvance, hn, LiveResult.at.injEq] at h
    subst h
    exact ⟨m.sender, x.cur, es, hr, rfl, rfl⟩

/-- one `Next()` on the live pool that does not end the iteration: the iterator now stands on the
    head `e` of what was left for some sender `z` (so `e` is in `z`'s sender index and strictly behind
    `z`'s cursor), `e` becomes `z`'s cursor, and no other cursor moves -/
theorem next_at (mp : Pool) (it it' : LiveIter) (h : it.next mp = .at it') :
    ∃ z e es, liveRem mp.sidx it.cursors z = e :: es ∧ it'.cursors = setCursor it.cursors z ⟨e, false⟩ ∧
      it'.pnode.sender = z := by
  unfold LiveIter.next at h
  cases hl : liveRem mp.sidx it.cursors it.pnode.sender with
  | nil =>
    simp only [hl] at h
    exact liveOfAdvance_at _ _ _ _ it' h
  | cons e es =>
    simp only [hl] at h
    cases hp : passesLive mp.scores it.nextPrio (liveSucc mp.pidx it).head? it.pnode.sender e with
    | stop =>
      simp only [hp] at h
      exact liveOfAdvance_at _ _ _ _ it' h
    | panic => simp [hp] at h
    | pass =>
      simp only [hp, LiveResult.at.injEq] at h
      subst h
      exact ⟨it.pnode.sender, e, es, hl, rfl, rfl⟩

theorem liveOpen_at (mp : Pool) (it' : LiveIter) (h : mp.liveOpen.2 = .at it') :
    ∃ z e es, mp.select.1.sidx z = e :: es ∧ it'.cursors = setCursor [] z ⟨e, false⟩ ∧
      it'.pnode.sender = z := by
  unfold Pool.liveOpen at h
  simp only at h
  have hs : mp.selectStart = if mp.pidx.isEmpty then (mp, .done)
      else (mp.reorder, advance mp.reorder.scores mp.reorder.pidx mp.reorder.sidx) := rfl
  by_cases he : mp.pidx.isEmpty = true
  · rw [hs, if_pos he] at h
    simp [liveOfAdvance] at h
  · have hsel : mp.select.1 = mp.reorder := by unfold Pool.select; rw [if_neg he]
    rw [hs, if_neg he] at h
    simp only at h
    obtain ⟨z, e, es, h1, h2, h3⟩ := liveOfAdvance_at [] _ _ _ it' h
    exact ⟨z, e, es, by rw [hsel]; exact h1, h2, h3⟩

/-- a non-nil iterator whose cursor for its own sender is `e` yields `e` -/
theorem yield_at (it' : LiveIter) (z : String) (e : Tx) (cs : List (String × Cursor))
    (h2 : it'.cursors = setCursor cs z ⟨e, false⟩) (h3 : it'.pnode.sender = z) :
    (LiveResult.at it').yield = .tx e := by
  simp only [LiveResult.yield, LiveIter.cur?, h2, h3, cursorOf_setCursor_self, Option.map_some]

/-- every sender index holds transactions of that sender only (true of every reachable pool) -/
def SidxSender (mp : Pool) : Prop := ∀ s, ∀ e ∈ mp.sidx s, e.sender = s

theorem sset_sender (t : Tx) (s : String) (ht : t.sender = s) (l : List Tx) (h : ∀ e ∈ l, e.sender = s) :
    ∀ e ∈ sset t l, e.sender = s := by
  induction l with
  | nil => intro e he; simp only [sset, List.mem_singleton] at he; rw [he]; exact ht
  | cons x xs ih =>
    have hx := h x (by simp)
    have hxs : ∀ e ∈ xs, e.sender = s := fun e he => h e (by simp [he])
    intro e he
    unfold sset at he
    split at he
    · rcases List.mem_cons.mp he with rfl | he
      · exact ht
      · exact h e he
    · split at he
      · rcases List.mem_cons.mp he with rfl | he
        · exact hx
        · exact hxs e he
      · rcases List.mem_cons.mp he with rfl | he
        · exact hx
        · exact ih hxs e he

theorem reweigh_fold_sidx (todo : List (PNode × PNode)) : ∀ mp : Pool,
    (todo.foldl Pool.reweigh mp).sidx = mp.sidx := by
  induction todo with
  | nil => intro mp; rfl
  | cons d todo ih => intro mp; rw [List.foldl_cons, ih]; rfl

theorem select_sidx (mp : Pool) : mp.select.1.sidx = mp.sidx := by
  unfold Pool.select
  split
  · rfl
  · exact reweigh_fold_sidx _ mp

theorem sidxSender_step (mp : Pool) (op : Op) (h : SidxSender mp) : SidxSender (mp.step op) := by
  cases op with
  | insert s n p id =>
    intro z e he
    simp only [Pool.step, Pool.insert, upd] at he
    split at he
    · rename_i hz; subst hz
      exact sset_sender ⟨z, n, p, id⟩ z rfl _ (h z) e he
    · exact h z e he
  | remove s n =>
    intro z e he
    simp only [Pool.step, Pool.remove] at he
    split at he
    · exact h z e he
    · simp only [upd] at he
      split at he
      · rename_i hz; subst hz
        exact h z e ((serase_sublist _ _).subset he)
      · exact h z e he
  | select =>
    intro z e he
    simp only [Pool.step, select_sidx] at he
    exact h z e he

theorem sidxSender_fold (ops : List Op) : ∀ mp, SidxSender mp → SidxSender (ops.foldl Pool.step mp) := by
  induction ops with
  | nil => intro mp h; exact h
  | cons op ops ih => intro mp h; exact ih _ (sidxSender_step mp op h)

theorem sidxSender_lrunFrom (ops : List LOp) (st : LState) (h : SidxSender st.pool) :
    SidxSender (lrunFrom st ops).1.pool := by
  rw [lrunFrom_pool]; exact sidxSender_fold _ _ h

/-- the yields of an interleaved history, each tagged with the number of the `iopen` (generation of
    the iterator) it came from -/
def ltrace (st : LState) (g : Nat) : List LOp → List (Nat × Tx)
  | [] => []
  | op :: rest =>
    (match (st.step op).2 with
      | .tx t => [(if op = .iopen then g + 1 else g, t)]
      | _ => []) ++ ltrace (st.step op).1 (if op = .iopen then g + 1 else g) rest

theorem ltrace_gen_ge (ops : List LOp) : ∀ (st : LState) (g : Nat), ∀ b ∈ ltrace st g ops, g ≤ b.1 := by
  induction ops with
  | nil => intro st g b hb; cases hb
  | cons op rest ih =>
    intro st g b hb
    simp only [ltrace] at hb
    rcases List.mem_append.mp hb with hb | hb
    · split at hb
      · simp only [List.mem_singleton] at hb; subst hb; simp only; split <;> omega
      · cases hb
    · have := ih _ _ b hb
      split at this <;> omega

/-- cursors: a map over the entries that keeps sender and nonce keeps every cursor's nonce -/
theorem cursorOf_map (cs : List (String × Cursor)) (f : String × Cursor → String × Cursor)
    (hf1 : ∀ p, (f p).1 = p.1) (hf2 : ∀ p, (f p).2.tx.nonce = p.2.tx.nonce) (z : String) (c : Cursor)
    (h : cursorOf cs z = some c) : ∃ c', cursorOf (cs.map f) z = some c' ∧ c'.tx.nonce = c.tx.nonce := by
  induction cs with
  | nil => simp [cursorOf] at h
  | cons p cs ih =>
    simp only [cursorOf, List.find?_cons, List.map_cons] at h ⊢
    rw [hf1 p]
    cases hz : (p.1 == z) with
    | true =>
      rw [hz] at h
      simp only [Option.map_some, Option.some.injEq] at h ⊢
      exact ⟨_, rfl, by rw [hf2 p, h]⟩
    | false =>
      rw [hz] at h
      exact ih h

/-- "the cursor of sender `s`, if the iterator is in use, is at nonce `n` or behind it" -/
def CurGe (st : LState) (s : String) (n : Nat) : Prop :=
  ∀ it, st.it = some it → ∃ c, cursorOf it.cursors s = some c ∧ n ≤ c.tx.nonce

theorem pErased_cursors (it : LiveIter) (pidx : List PNode) (key : PNode) :
    (it.pErased pidx key).cursors = it.cursors := rfl

theorem liveReweigh_fold_cursors (todo : List (PNode × PNode)) : ∀ st : Pool × LiveIter,
    (todo.foldl liveReweigh st).2.cursors = st.2.cursors := by
  induction todo with
  | nil => intro st; rfl
  | cons d todo ih => intro st; rw [List.foldl_cons, ih]; rfl

theorem onSelect_cursors (it : LiveIter) (mp : Pool) : (it.onSelect mp).cursors = it.cursors := by
  unfold LiveIter.onSelect
  split
  · rfl
  · exact liveReweigh_fold_cursors _ _

/-- pool operations never move a cursor -/
theorem curGe_pool (st : LState) (op : Op) (s : String) (n : Nat) (h : CurGe st s n) :
    CurGe (st.step (.pool op)).1 s n := by
  intro it' hit'
  cases op with
  | insert z k p id =>
    simp only [LState.step, Option.map_eq_some_iff] at hit'
    obtain ⟨it, hit, rfl⟩ := hit'
    obtain ⟨c, hc, hn⟩ := h it hit
    have : (it.onInsert st.pool z k id).cursors = it.cursors.map (revalueCursor z k id) := rfl
    rw [this]
    obtain ⟨c', h1, h2⟩ := cursorOf_map it.cursors (revalueCursor z k id)
      (by intro p; unfold revalueCursor; split <;> rfl) (by intro p; unfold revalueCursor; split <;> rfl) s c hc
    exact ⟨c', h1, by omega⟩
  | remove z k =>
    simp only [LState.step, Option.map_eq_some_iff] at hit'
    obtain ⟨it, hit, rfl⟩ := hit'
    obtain ⟨c, hc, hn⟩ := h it hit
    unfold LiveIter.onRemove
    split
    · exact ⟨c, hc, hn⟩
    · obtain ⟨c', h1, h2⟩ := cursorOf_map it.cursors
        (killCursor z k ((st.pool.sidx z).any (fun x => x.nonce == k)))
        (by intro p; unfold killCursor; split <;> rfl) (by intro p; unfold killCursor; split <;> rfl) s c hc
      exact ⟨c', h1, by omega⟩
  | select =>
    simp only [LState.step, Option.map_eq_some_iff] at hit'
    obtain ⟨it, hit, rfl⟩ := hit'
    obtain ⟨c, hc, hn⟩ := h it hit
    rw [onSelect_cursors]
    exact ⟨c, hc, hn⟩

/-- forward: once sender `s`'s cursor is at nonce `n`, everything the SAME iterator yields for `s`
    later has a larger nonce — whatever pool operations come in between -/
theorem ltrace_forward (s : String) (n : Nat) (ops : List LOp) : ∀ (st : LState) (g : Nat),
    SidxSender st.pool → CurGe st s n →
    ∀ b ∈ ltrace st g ops, b.1 = g → b.2.sender = s → n < b.2.nonce := by
  induction ops with
  | nil => intro st g _ _ b hb; cases hb
  | cons op rest ih =>
    intro st g hss hcur b hb hg hs
    have hss' : SidxSender (st.step op).1.pool := by
      have := sidxSender_lrunFrom [op] st hss
      simpa [lrunFrom] using this
    simp only [ltrace] at hb
    cases op with
    | pool o =>
      have hne : (LOp.pool o = LOp.iopen) = False := by simp
      simp only [hne, if_false] at hb
      have hy : (st.step (.pool o)).2 = .none := by cases o <;> rfl
      rw [hy] at hb
      simp only [List.nil_append] at hb
      exact ih _ g hss' (curGe_pool st o s n hcur) b hb hg hs
    | iopen =>
      simp only [if_true] at hb
      rcases List.mem_append.mp hb with hb | hb
      · split at hb
        · simp only [List.mem_singleton] at hb; subst hb; simp only at hg; omega
        · cases hb
      · have := ltrace_gen_ge rest _ (g + 1) b hb
        omega
    | inext =>
      have hne : (LOp.inext = LOp.iopen) = False := by simp
      simp only [hne, if_false] at hb
      cases hit : st.it with
      | none =>
        have hst : st.step .inext = (st, .none) := by simp only [LState.step, hit]
        rw [hst] at hb
        simp only [List.nil_append] at hb
        exact ih st g hss hcur b hb hg hs
      | some it =>
        have hst : st.step .inext = (⟨st.pool, (it.next st.pool).iter?⟩, (it.next st.pool).yield) := by
          simp only [LState.step, hit]
        rw [hst] at hb
        simp only at hb
        obtain ⟨c, hc, hn⟩ := hcur it hit
        cases hr : it.next st.pool with
        | done =>
          rw [hr] at hb
          simp only [LiveResult.yield, LiveResult.iter?, List.nil_append] at hb
          exact ih ⟨st.pool, none⟩ g hss (by intro it' h'; cases h') b hb hg hs
        | panic =>
          rw [hr] at hb
          simp only [LiveResult.yield, LiveResult.iter?, List.nil_append] at hb
          exact ih ⟨st.pool, none⟩ g hss (by intro it' h'; cases h') b hb hg hs
        | «at» it' =>
          obtain ⟨z, e, es, h1, h2, h3⟩ := next_at st.pool it it' hr
          rw [hr] at hb
          rw [yield_at it' z e it.cursors h2 h3] at hb
          simp only [LiveResult.iter?] at hb
          have hez : e.sender = z := hss z e (liveRem_sub _ _ _ e (by rw [h1]; simp))
          have hcur' : CurGe ⟨st.pool, some it'⟩ s n := by
            intro it'' h''
            simp only [Option.some.injEq] at h''
            subst h''
            rw [h2]
            by_cases hzs : s = z
            · subst hzs
              rw [cursorOf_setCursor_self]
              have := liveRem_head_gt _ _ _ e es h1 c hc
              exact ⟨_, rfl, by simp only; omega⟩
            · rw [cursorOf_setCursor_other _ _ _ _ hzs]
              exact ⟨c, hc, hn⟩
          rcases List.mem_append.mp hb with hb | hb
          · simp only [List.mem_singleton] at hb
            subst hb
            simp only at hs
            have hzs : z = s := by rw [← hez, hs]
            subst hzs
            have := liveRem_head_gt _ _ _ e es h1 c hc
            simp only; omega
          · exact ih ⟨st.pool, some it'⟩ g hss hcur' b hb hg hs

theorem sidxSender_empty : SidxSender Pool.empty := by intro s e he; cases he

theorem ltrace_pairwise (ops : List LOp) : ∀ (st : LState) (g : Nat), SidxSender st.pool →
    (ltrace st g ops).Pairwise (fun a b => a.1 = b.1 → a.2.sender = b.2.sender → a.2.nonce < b.2.nonce) := by
  induction ops with
  | nil => intro _ _ _; exact List.Pairwise.nil
  | cons op rest ih =>
    intro st g hss
    have hss' : SidxSender (st.step op).1.pool := by
      have := sidxSender_lrunFrom [op] st hss
      simpa [lrunFrom] using this
    simp only [ltrace]
    rw [List.pairwise_append]
    refine ⟨?_, ih _ _ hss', ?_⟩
    · split
      · exact List.pairwise_singleton _ _
      · exact List.Pairwise.nil
    · intro a ha b hb hg hs
      split at ha
      · rename_i t hy
        simp only [List.mem_singleton] at ha
        subst ha
        simp only at hg hs ⊢
        -- after the step the cursor of `t.sender` is `t`
        have hcur : CurGe (st.step op).1 t.sender t.nonce := by
          cases op with
          | pool o => have : (st.step (.pool o)).2 = .none := by cases o <;> rfl
                      rw [this] at hy; cases hy
          | iopen =>
            simp only [LState.step] at hy ⊢
            cases hr : st.pool.liveOpen.2 with
            | done => rw [hr] at hy; cases hy
            | panic => rw [hr] at hy; cases hy
            | «at» it' =>
              obtain ⟨z, e, es, h1, h2, h3⟩ := liveOpen_at st.pool it' hr
              rw [hr, yield_at it' z e [] h2 h3] at hy
              cases hy
              have hez : t.sender = z := by
                have : SidxSender st.pool.select.1 := by
                  have := hss'
                  simp only [LState.step, Pool.liveOpen, selectStart_fst] at this
                  exact this
                exact this z t (by rw [h1]; simp)
              intro it'' h''
              simp only [LiveResult.iter?, Option.some.injEq] at h''
              subst h''
              rw [h2, hez, cursorOf_setCursor_self]
              exact ⟨_, rfl, Nat.le_refl _⟩
          | inext =>
            cases hit : st.it with
            | none => simp only [LState.step, hit] at hy; cases hy
            | some it =>
              simp only [LState.step, hit] at hy ⊢
              cases hr : it.next st.pool with
              | done => rw [hr] at hy; cases hy
              | panic => rw [hr] at hy; cases hy
              | «at» it' =>
                obtain ⟨z, e, es, h1, h2, h3⟩ := next_at st.pool it it' hr
                rw [hr, yield_at it' z e it.cursors h2 h3] at hy
                cases hy
                have hez : t.sender = z := hss z t (liveRem_sub _ _ _ t (by rw [h1]; simp))
                intro it'' h''
                simp only [LiveResult.iter?, Option.some.injEq] at h''
                subst h''
                rw [h2, hez, cursorOf_setCursor_self]
                exact ⟨_, rfl, Nat.le_refl _⟩
        exact ltrace_forward t.sender t.nonce rest _ _ hss' hcur b hb hg.symm hs.symm
      · cases ha


/-! ### an undisturbed live iterator is the snapshot iterator -/

theorem passes_eq_live (scores : String → Nat → Option Score) (next : Option PNode) (s : String) (e : Tx) :
    passesLive scores (nextPriority next) next s e = passes scores next s e := by
  cases next with
  | none =>
    simp only [passesLive, passes, nextPriority]
    by_cases h1 : e.prio < minInt64 <;> by_cases h2 : e.prio = minInt64 <;> simp [h1, h2]
  | some m =>
    simp only [passesLive, passes, nextPriority]
    by_cases h1 : e.prio < m.prio <;> by_cases h2 : e.prio = m.prio <;>
      by_cases h3 : weightOf scores s e.nonce < m.weight <;> simp [h1, h2, h3]

theorem dropWhile_nonce_sorted (pre es : List Tx) (e : Tx) (h : SSorted (pre ++ e :: es)) :
    (pre ++ e :: es).dropWhile (fun x => decide (x.nonce ≤ e.nonce)) = es := by
  induction pre with
  | nil =>
    simp only [List.nil_append, List.dropWhile_cons, Nat.le_refl, decide_true, if_true]
    cases es with
    | nil => rfl
    | cons y ys =>
      have := (List.pairwise_cons.mp h).1 y (by simp)
      simp only [List.dropWhile_cons]
      rw [if_neg (by simp only [decide_eq_true_eq]; omega)]
  | cons x pre ih =>
    have hs := List.pairwise_cons.mp h
    have hx := hs.1 e (by simp)
    simp only [List.cons_append, List.dropWhile_cons]
    rw [if_pos (by simp only [decide_eq_true_eq]; omega)]
    exact ih hs.2

theorem liveRem_suffix (sidx : String → List Tx) (cs : List (String × Cursor)) (s : String) :
    liveRem sidx cs s <:+ sidx s := by
  unfold liveRem
  split
  · exact List.suffix_refl _
  · split
    · exact List.nil_suffix
    · exact List.dropWhile_suffix _

/-- moving `s`'s cursor onto the head of what was left for `s` leaves the tail -/
theorem liveRem_setCursor (sidx : String → List Tx) (cs : List (String × Cursor)) (s : String)
    (e : Tx) (es : List Tx) (hs : SSorted (sidx s)) (h : liveRem sidx cs s = e :: es) :
    liveRem sidx (setCursor cs s ⟨e, false⟩) = upd (liveRem sidx cs) s es := by
  funext z
  simp only [upd]
  split
  · rename_i hz; subst hz
    obtain ⟨pre, hp⟩ := liveRem_suffix sidx cs z
    rw [h] at hp
    unfold liveRem
    rw [cursorOf_setCursor_self]
    simp only [Bool.false_eq_true, if_false]
    rw [← hp]
    rw [← hp] at hs
    exact dropWhile_nonce_sorted pre es e hs
  · rename_i hz
    unfold liveRem
    rw [cursorOf_setCursor_other _ _ _ _ hz]

theorem dropWhile_key_sorted (pre rest : List PNode) (m : PNode) (h : Sorted (pre ++ m :: rest)) :
    ((pre ++ m :: rest).dropWhile (fun k => keyCmp k m != .eq)).drop 1 = rest := by
  induction pre with
  | nil =>
    simp only [List.nil_append, List.dropWhile_cons, keyCmp_self]
    rfl
  | cons x pre ih =>
    have hs := List.pairwise_cons.mp h
    have hx : keyCmp x m = .gt := hs.1 m (by simp)
    simp only [List.cons_append, List.dropWhile_cons, hx]
    exact ih hs.2

/-- `advance` returns a suffix of the elements it was given -/
theorem advance_nodes_suffix (scores : String → Nat → Option Score) (R : List PNode) :
    ∀ (rem : String → List Tx) (x : Iter), advance scores R rem = .at x → x.nodes <:+ R := by
  induction R with
  | nil => intro rem x h; simp [advance] at h
  | cons m rest ih =>
    intro rem x h
    cases hl : rem m.sender with
    | nil =>
      have : advance scores (m :: rest) rem = advance scores rest rem := by simp only [advance, hl]
      rw [this] at h
      exact List.IsSuffix.trans (ih rem x h) (List.suffix_cons m rest)
    | cons e es =>
      cases hp : passes scores rest.head? m.sender e with
      | stop =>
        have : advance scores (m :: rest) rem = advance scores rest rem := by simp only [advance, hl, hp]
        rw [this] at h
        exact List.IsSuffix.trans (ih rem x h) (List.suffix_cons m rest)
      | panic =>
        have : advance scores (m :: rest) rem = .panic := by simp only [advance, hl, hp]
        rw [this] at h; cases h
      | pass =>
        have : advance scores (m :: rest) rem = .at ⟨m :: rest, upd rem m.sender es, e⟩ := by
          simp only [advance, hl, hp]
        rw [this] at h
        cases h
        exact List.suffix_refl _

/-- and the `rem` it returns is the given one with the tail for the sender it stopped on -/
theorem advance_rem_eq (scores : String → Nat → Option Score) (R : List PNode) :
    ∀ (rem : String → List Tx) (x : Iter), advance scores R rem = .at x →
      ∃ m rest es, x.nodes = m :: rest ∧ rem m.sender = x.cur :: es ∧ x.rem = upd rem m.sender es := by
  induction R with
  | nil => intro rem x h; simp [advance] at h
  | cons m rest ih =>
    intro rem x h
    cases hl : rem m.sender with
    | nil =>
      have : advance scores (m :: rest) rem = advance scores rest rem := by simp only [advance, hl]
      rw [this] at h; exact ih rem x h
    | cons e es =>
      cases hp : passes scores rest.head? m.sender e with
      | stop =>
        have : advance scores (m :: rest) rem = advance scores rest rem := by simp only [advance, hl, hp]
        rw [this] at h; exact ih rem x h
      | panic =>
        have : advance scores (m :: rest) rem = .panic := by simp only [advance, hl, hp]
        rw [this] at h; cases h
      | pass =>
        have : advance scores (m :: rest) rem = .at ⟨m :: rest, upd rem m.sender es, e⟩ := by
          simp only [advance, hl, hp]
        rw [this] at h
        cases h
        exact ⟨m, rest, es, rfl, hl, rfl⟩

/-- the live iterator `lit` and the snapshot iterator `sit` describe the same position of an
    iteration over the (unchanged) pool `mp` -/
structure Same (mp : Pool) (lit : LiveIter) (sit : Iter) : Prop where
  alive : lit.pdead = false
  nodes : ∃ pre, mp.pidx = pre ++ sit.nodes ∧ ∃ rest, sit.nodes = lit.pnode :: rest
  rem : liveRem mp.sidx lit.cursors = sit.rem
  nextp : lit.nextPrio = nextPriority sit.nodes.tail.head?
  cur : lit.cur? = some sit.cur

theorem liveSucc_of_same {mp : Pool} {lit : LiveIter} {sit : Iter} (hs : Sorted mp.pidx)
    (h : Same mp lit sit) : sit.nodes = lit.pnode :: liveSucc mp.pidx lit := by
  obtain ⟨pre, hp, rest, hn⟩ := h.nodes
  rw [hn]
  congr 1
  unfold liveSucc
  rw [h.alive]
  simp only [Bool.false_eq_true, if_false]
  rw [hp, hn]
  rw [hp, hn] at hs
  exact (dropWhile_key_sorted pre rest lit.pnode hs).symm

/-- what `liveOfAdvance` makes of an `advance` over a suffix of the priority index -/
theorem liveOfAdvance_same (mp : Pool) (hss : ∀ s, SSorted (mp.sidx s))
    (cs : List (String × Cursor)) (R : List PNode) (hR : R <:+ mp.pidx) :
    match advance mp.scores R (liveRem mp.sidx cs) with
    | .done => liveOfAdvance cs (advance mp.scores R (liveRem mp.sidx cs)) = .done
    | .panic => liveOfAdvance cs (advance mp.scores R (liveRem mp.sidx cs)) = .panic
    | .at sit => ∃ lit, liveOfAdvance cs (advance mp.scores R (liveRem mp.sidx cs)) = .at lit ∧ Same mp lit sit := by
  cases ha : advance mp.scores R (liveRem mp.sidx cs) with
  | done => rfl
  | panic => rfl
  | «at» sit =>
    obtain ⟨m, rest, es, hn, hr, hrem⟩ := advance_rem_eq _ _ _ sit ha
    have hsuf := advance_nodes_suffix _ _ _ sit ha
    simp only [liveOfAdvance, hn]
    refine ⟨_, rfl, ⟨rfl, ?_, ?_, ?_, ?_⟩⟩
    · obtain ⟨pre, hp⟩ := List.IsSuffix.trans hsuf hR
      exact ⟨pre, hp.symm, rest, hn⟩
    · simp only
      rw [hrem]
      exact liveRem_setCursor _ _ _ _ _ (hss _) hr
    · simp only [hn, List.tail_cons]
    · simp only [LiveIter.cur?, cursorOf_setCursor_self, Option.map_some]

/-- one `Next()`: the live iterator on the unchanged pool does what the snapshot iterator does -/
theorem next_same (mp : Pool) (hs : Sorted mp.pidx) (hss : ∀ s, SSorted (mp.sidx s))
    (lit : LiveIter) (sit : Iter) (h : Same mp lit sit) :
    match sit.next mp.scores with
    | .done => lit.next mp = .done
    | .panic => lit.next mp = .panic
    | .at sit' => ∃ lit', lit.next mp = .at lit' ∧ Same mp lit' sit' := by
  have hnodes := liveSucc_of_same hs h
  have hsufR : liveSucc mp.pidx lit <:+ mp.pidx := by
    obtain ⟨pre, hp, _⟩ := h.nodes
    rw [hnodes] at hp
    exact ⟨pre ++ [lit.pnode], by simp only [List.append_assoc, List.singleton_append]; exact hp.symm⟩
  unfold Iter.next LiveIter.next
  rw [hnodes, ← h.rem]
  cases hl : liveRem mp.sidx lit.cursors lit.pnode.sender with
  | nil =>
    have : advance mp.scores (lit.pnode :: liveSucc mp.pidx lit) (liveRem mp.sidx lit.cursors)
        = advance mp.scores (liveSucc mp.pidx lit) (liveRem mp.sidx lit.cursors) := by
      simp only [advance, hl]
    rw [this]
    exact liveOfAdvance_same mp hss lit.cursors _ hsufR
  | cons e es =>
    have hnp : lit.nextPrio = nextPriority (liveSucc mp.pidx lit).head? := by
      rw [h.nextp, hnodes]; rfl
    simp only []
    rw [hnp, passes_eq_live]
    cases hp : passes mp.scores (liveSucc mp.pidx lit).head? lit.pnode.sender e with
    | stop =>
      have : advance mp.scores (lit.pnode :: liveSucc mp.pidx lit) (liveRem mp.sidx lit.cursors)
          = advance mp.scores (liveSucc mp.pidx lit) (liveRem mp.sidx lit.cursors) := by
        simp only [advance, hl, hp]
      rw [this]
      exact liveOfAdvance_same mp hss lit.cursors _ hsufR
    | panic =>
      have : advance mp.scores (lit.pnode :: liveSucc mp.pidx lit) (liveRem mp.sidx lit.cursors)
          = .panic := by
        simp only [advance, hl, hp]
      rw [this]
    | pass =>
      have : advance mp.scores (lit.pnode :: liveSucc mp.pidx lit) (liveRem mp.sidx lit.cursors)
          = .at ⟨lit.pnode :: liveSucc mp.pidx lit, upd (liveRem mp.sidx lit.cursors) lit.pnode.sender es, e⟩ := by
        simp only [advance, hl, hp]
      rw [this]
      refine ⟨_, rfl, ⟨h.alive, ?_, ?_, ?_, ?_⟩⟩
      · obtain ⟨pre, hp', _⟩ := h.nodes
        rw [hnodes] at hp'
        exact ⟨pre, hp', _, rfl⟩
      · exact liveRem_setCursor _ _ _ _ _ (hss _) hl
      · simp only [List.tail_cons] <;> exact hnp
      · simp only [LiveIter.cur?, cursorOf_setCursor_self, Option.map_some]

/-- the caller's loop on the live iterator over an unchanged pool -/
def liveRunIter (mp : Pool) : Nat → LiveResult → List Tx × LiveResult
  | _, .done => ([], .done)
  | _, .panic => ([], .panic)
  | 0, .at it => ([], .at it)
  | k + 1, .at it =>
    ((it.cur?.toList) ++ (liveRunIter mp k (it.next mp)).1, (liveRunIter mp k (it.next mp)).2)

/-- how a live result corresponds to a snapshot result -/
def SameRes (mp : Pool) : LiveResult → IterResult → Prop
  | .done, .done => True
  | .panic, .panic => True
  | .at lit, .at sit => Same mp lit sit
  | _, _ => False

theorem liveRunIter_same (mp : Pool) (hs : Sorted mp.pidx) (hss : ∀ s, SSorted (mp.sidx s)) (k : Nat) :
    ∀ (lr : LiveResult) (sr : IterResult), SameRes mp lr sr →
      (liveRunIter mp k lr).1 = (runIter mp.scores k sr).1 ∧
      SameRes mp (liveRunIter mp k lr).2 (runIter mp.scores k sr).2 := by
  induction k with
  | zero =>
    intro lr sr h
    cases lr <;> cases sr <;> simp only [SameRes] at h <;> simp [liveRunIter, runIter, SameRes, h]
  | succ k ih =>
    intro lr sr h
    cases lr with
    | done => cases sr <;> simp only [SameRes] at h; simp [liveRunIter, runIter, SameRes]
    | panic => cases sr <;> simp only [SameRes] at h; simp [liveRunIter, runIter, SameRes]
    | «at» lit =>
      cases sr with
      | done => simp only [SameRes] at h
      | panic => simp only [SameRes] at h
      | «at» sit =>
        simp only [SameRes] at h
        have hn := next_same mp hs hss lit sit h
        have hres : SameRes mp (lit.next mp) (sit.next mp.scores) := by
          revert hn
          cases sit.next mp.scores with
          | done => intro hn; rw [hn]; trivial
          | panic => intro hn; rw [hn]; trivial
          | «at» sit' => rintro ⟨lit', e, hsame⟩; rw [e]; exact hsame
        obtain ⟨i1, i2⟩ := ih _ _ hres
        simp only [liveRunIter, runIter, h.cur, Option.toList_some, List.singleton_append]
        exact ⟨by rw [i1], i2⟩

theorem liveRem_nil (sidx : String → List Tx) : liveRem sidx [] = sidx := by
  funext s; simp [liveRem, cursorOf]


end Lemmas

/-! ## Property theorems (C19)

Reading guide — the three preconditions, from weakest to strongest.

* `KeysUnique ops` — the property text LITERALLY: "(sender, sequence) unique among pending
  transactions", at every prefix of the history.  It is no restriction at all: it holds for
  EVERY history (`keys_unique_always`), because `Insert` on a pending (sender, nonce) replaces the
  pending transaction.  Under this precondition alone the clause "yields every pending
  transaction" is FALSE (`literal_precondition_insufficient`, behaviour of /repo reproduced by
  the harness).
* `Admissible ops` — what the theorems really assume, STRONGER than the text: **no `insert` on a
  pending (sender, nonce) with a CHANGED priority** (`admissible_iff`).  An insert on a pending key
  with the same priority (re-submission) is allowed.  ASSUMPTION, justified for the wired
  application by `admission_admissible` below; it fails exactly when a priority-changing
  replacement reaches `Insert` (`replacement_changes_priority_loses_tx`,
  `admission_uncovered_replaces`).
* `Fresh ops` — no `insert` on a pending key at all.  This is what transaction admission gives
  (`admission_admissible`): the SDK ante handler accepts sequence `n` only if it equals the
  check-state sequence, which is above every pending sequence of that sender as long as CometBFT
  re-checks everything the application pool holds after each commit (`ACovered`, an EXTERNAL
  assumption about the node: `recheck = true` and CometBFT's mempool ⊇ the application's).

`pending ops` is the specification of the pending set, a function of the history alone.
`Int64Prios ops` is the Go type of the priorities (`int64`), not a restriction.
`NoMin (pending ops)` — "no pending priority is the `MinValue` sentinel" — is a SIDE CONDITION that
is **not** in the property statement.  It is sufficient, not necessary (a `MinValue` priority behind
a same-sender predecessor is yielded without a panic: see the examples); it is needed for exactly
one clause ("every pending transaction is yielded"), that clause is false without it
(`select_complete_false_at_minvalue`, a behaviour of /repo reproduced by the harness), and it holds
in the application (`mempool_app`: `TxFeeSkipper` makes every CheckTx priority 42).

The constants of `Model/Mempool.lean` (`classTable`, `minInt64`, `appCtxPriority`, the
single-message guard, the mempool configuration) are compared with facts extracted from the Go
source on every run: `model_constants_from_source`. -/

/-- **model_constants_from_source.** The hand-written constants of the model are the ones in the
source tree (facts regenerated by `extract/mempool.go` on every `./check`):
* `classTable` = the `case strings.HasPrefix(msgTypeStr, p): return v` clauses of
  `NewDefaultTxPriority.GetTxPriority`, in source order (4 clauses + the default = 5 `return`s);
* the switch is guarded by `len(msgs) == 1` and classifies `sdk.MsgTypeURL(msgs[0])`
  (`txPriority` matches on `[u]`); the default is `ctx.Priority()`;
* `MinValue` = `math.MinInt64` = `minInt64`;
* `TxFeeSkipper` has a single `return` whose priority is `appCtxPriority` (42), and `app/app.go`
  sets `TxFeeChecker: palomamodule.TxFeeSkipper`;
* `app/app.go` builds the pool with `DefaultPriorityMempool()` =
  `NewPriorityMempool(DefaultPriorityNonceMempoolConfig())`, whose configuration sets only
  `TxPriority` (no `TxReplacement`, `MaxTx = 0`), and hands the same pool to `SetMempool` and to
  the proposal handler. -/
theorem model_constants_from_source :
    classTable = Gen.Mempool.txPriorityCases ∧
    Gen.Mempool.txPriorityReturnCount = classTable.length + 1 ∧
    Gen.Mempool.txPriorityGuard = "len(msgs) == 1" ∧
    Gen.Mempool.txPriorityClassifiedBy = "msgTypeStr := sdk.MsgTypeURL(msgs[0])" ∧
    Gen.Mempool.txPriorityDefault = "sdk.UnwrapSDKContext(goCtx).Priority()" ∧
    minInt64 = Gen.Mempool.txPriorityMinValue ∧
    appCtxPriority = Gen.Mempool.txFeeSkipperPriority ∧
    Gen.Mempool.txFeeSkipperReturnCount = 1 ∧
    Gen.Mempool.appTxFeeChecker = "palomamodule.TxFeeSkipper" ∧
    Gen.Mempool.appMempoolCtor = "palomamempool.DefaultPriorityMempool()" ∧
    Gen.Mempool.defaultPriorityMempool = "NewPriorityMempool(DefaultPriorityNonceMempoolConfig())" ∧
    Gen.Mempool.mempoolConfigFields = ["TxPriority = NewDefaultTxPriority()"] ∧
    Gen.Mempool.appSetMempoolArg = Gen.Mempool.appProposalHandlerMempool := by
  decide

/-- **keys_unique_always.** The literal precondition of the property text — (sender, sequence)
unique among the pending transactions at every point of the history — holds for EVERY history of
inserts, removes and selects, admissible or not: `Insert` replaces.  So it cannot be the hypothesis
that makes the clauses true; see `literal_precondition_insufficient`. -/
theorem keys_unique_always (ops : List Op) : KeysUnique ops :=
  fun pre _ => fold_keys_nodup pre [] (by simp)

/-- **admissible_iff.** What `Admissible` says, on the history itself: whenever the history
inserts (s, n) with priority `p` after the operations `pre`, any transaction with that (sender,
nonce) pending after `pre` has the same priority `p`.  I.e. "no insert on a pending key with a
changed priority". -/
theorem admissible_iff (ops : List Op) :
    Admissible ops ↔ ∀ pre s n p id post, ops = pre ++ .insert s n p id :: post →
      ∀ t ∈ pending pre, t.sender = s ∧ t.nonce = n → t.prio = p :=
  admFrom_iff_prefix ops []

/-- **fresh_admissible.** A history that never inserts on a pending key is admissible. -/
theorem fresh_admissible (ops : List Op) (h : Fresh ops) : Admissible ops :=
  freshFrom_adm ops [] h

/-- **admission_admissible** (the reason `Admissible` holds in the wired application; "which
transaction admission guarantees").  Model of what SDK `baseapp` (v0.50.13, read) does on the
mempool connection, see `AOp`: `CheckTx(New)` inserts only a transaction whose sequence equals the
check-state sequence of its first signer and then bumps it; `FinalizeBlock` removes; `Commit`
resets the check state and CometBFT re-checks its mempool, a failing re-check removes the
transaction from the application pool.  From ANY initial check-state sequences `seq0` and the empty
pool: if at every commit each transaction pending in the application pool is among the re-checked
ones (`ACovered` — EXTERNAL ASSUMPTION: `recheck = true` in CometBFT's config, which is the
default, and CometBFT's mempool holds everything the application's does), then the pool operations
the application issues never insert on a pending (sender, nonce) — `Fresh`, hence `Admissible` —
and every CheckTx priority is `appCtxPriority` (`TxFeeSkipper`).  Without coverage the conclusion
is false: `admission_uncovered_replaces`. -/
theorem admission_admissible (seq0 : String → Nat) (aops : List AOp) (hcov : ACovered seq0 [] aops) :
    Fresh ((acompile seq0 aops).map TxOp.toOp) ∧
    Admissible ((acompile seq0 aops).map TxOp.toOp) ∧
    (∀ s n urls c id, TxOp.insert s n urls c id ∈ acompile seq0 aops → c = appCtxPriority) := by
  have hf := acompile_freshFrom aops seq0 [] (by intro t ht; cases ht) hcov
  exact ⟨hf, freshFrom_adm _ [] hf, acompile_ctx aops seq0⟩

/-- **index_consistent** (clause "the pool's count always equals the number of pending
transactions", and the mechanism "indices kept in step").  After any history of `Insert`,
`Remove` and `Select` in which no insert hits a pending (sender, nonce) with a changed priority
(`Admissible`) — *whatever the priorities are, `MinValue` included* —
the priority index, the per-sender indices, `scores` and `priorityCounts` all describe exactly
the pending set, the priority index is sorted by the code's comparator, every sender index by
nonce, and `CountTx` is the number of pending transactions. -/
theorem index_consistent (ops : List Op) (h : Admissible ops) :
    Inv (run ops) (pending ops) ∧
    ((run ops).pidx.map PNode.tx).Perm (pending ops) ∧
    (∀ s, ((run ops).sidx s).Perm ((pending ops).filter (fun t => t.sender == s))) ∧
    (∀ s n, ((run ops).scores s n).isSome ↔ ∃ t ∈ pending ops, t.sender = s ∧ t.nonce = n) ∧
    (∀ p, (run ops).pcounts p = (((pending ops).map Tx.prio).count p : Nat)) ∧
    (run ops).count = (pending ops).length := by
  have hi := inv_run ops h
  refine ⟨hi, hi.pperm, ?_, ?_, hi.pcount, ?_⟩
  · intro s
    rw [List.perm_ext_iff_of_nodup (ssorted_nodup _ (hi.ssorted s))
      (List.Nodup.sublist List.filter_sublist hi.P_nodup)]
    intro a
    rw [hi.smem, List.mem_filter]
    simp
  · intro s n
    constructor
    · intro hs
      cases hsc : (run ops).scores s n with
      | none => rw [hsc] at hs; cases hs
      | some sc =>
        obtain ⟨k, hk, e1, e2⟩ := hi.node_score s n sc hsc
        exact ⟨k.tx, hi.node_mem hk, e1, e2⟩
    · rintro ⟨t, ht, e1, e2⟩
      obtain ⟨k, hk, hke⟩ := hi.node_of ht
      have := hi.score_node k hk
      subst hke e1 e2
      simp only [PNode.tx]
      rw [this]; rfl
  · have := hi.pperm.length_eq
    rw [List.length_map] at this
    exact this

/-- **count_always.** "Always": at every point of an admissible history (every prefix `pre`),
`CountTx` equals the number of pending transactions.  (`Admissible` is prefix-closed:
`Admissible.prefix`.)  `Admissible` is sufficient here, not necessary: the count is right for
EVERY history, `count_always_unconditional`. -/
theorem count_always (pre post : List Op) (h : Admissible (pre ++ post)) :
    (run pre).count = (pending pre).length :=
  (index_consistent pre h.prefix).2.2.2.2.2

/-- **count_always_unconditional** (clause "the pool's count always equals the number of pending
transactions" — for EVERY history).  No precondition at all, not even `Admissible`: after any
sequence of inserts (replacements with changed priority included), removes and selects, the
priority index holds exactly the pending transactions (with the priority and id of the latest
insert), it is sorted, `scores` has exactly the pending keys, `CountTx` is the number of pending
transactions, and `Remove` succeeds exactly for a pending key.  What a priority-changing
replacement breaks is only the sender index (its element keeps the old key priority), hence the
ITERATION (`replacement_changes_priority_loses_tx`), never the count. -/
theorem count_always_unconditional (ops : List Op) :
    ((run ops).pidx.map PNode.tx).Perm (pending ops) ∧
    Sorted (run ops).pidx ∧
    (∀ s n, ((run ops).scores s n).isSome ↔ ∃ t ∈ pending ops, t.sender = s ∧ t.nonce = n) ∧
    (run ops).count = (pending ops).length ∧
    (∀ s n, ((run ops).remove s n).2 = true ↔ ∃ t ∈ pending ops, t.sender = s ∧ t.nonce = n) := by
  have hi := cinv_run ops
  have hsome : ∀ s n, ((run ops).scores s n).isSome ↔ ∃ t ∈ pending ops, t.sender = s ∧ t.nonce = n := by
    intro s n
    constructor
    · intro hs
      cases hsc : (run ops).scores s n with
      | none => rw [hsc] at hs; cases hs
      | some sc =>
        obtain ⟨k, hk, e1, e2⟩ := hi.node_score s n sc hsc
        exact ⟨k.tx, hi.node_mem hk, e1, e2⟩
    · rintro ⟨t, ht, e1, e2⟩
      obtain ⟨k, hk, hke⟩ := hi.node_of ht
      have := hi.score_node k hk
      subst hke e1 e2
      simp only [PNode.tx]
      rw [this]; rfl
  refine ⟨hi.pperm, hi.psorted, hsome, ?_, ?_⟩
  · have := hi.pperm.length_eq
    rw [List.length_map] at this
    exact this
  · intro s n
    rw [← hsome s n]
    unfold Pool.remove
    cases (run ops).scores s n <;> simp

/-- **remove_found_iff** (the rejected branch of `Remove`).  `Remove` succeeds exactly for a
pending (sender, nonce) and answers `ErrTxNotFound` — leaving the pool as it is — otherwise. -/
theorem remove_found_iff (ops : List Op) (h : Admissible ops) (s : String) (n : Nat) :
    (((run ops).remove s n).2 = true ↔ ∃ t ∈ pending ops, t.sender = s ∧ t.nonce = n) ∧
    (((run ops).remove s n).2 = false → ((run ops).remove s n).1 = run ops) := by
  have hs := (index_consistent ops h).2.2.2.1 s n
  rw [← hs]
  unfold Pool.remove
  cases (run ops).scores s n <;> simp

/-- **pending_provenance.** The specification set is tied to the history: a pending transaction
is the argument of an `insert` operation of the history (same sender, nonce, priority, id). -/
theorem pending_provenance (ops : List Op) (t : Tx) (ht : t ∈ pending ops) :
    Op.insert t.sender t.nonce t.prio t.id ∈ ops := by
  rcases foldl_pending_mem ops [] t ht with h | h
  · cases h
  · exact h

/-- **inserted_pending.** Conversely, a transaction inserted by the history is pending at the end
unless a later operation concerns its (sender, nonce) — so `pending` is neither too small nor too
large, and "every pending transaction is yielded" speaks about exactly the inserted, not yet
removed or replaced transactions. -/
theorem inserted_pending (pre post : List Op) (s : String) (n : Nat) (p : Int) (id : Nat)
    (hpost : ∀ op ∈ post, ¬ touches s n op) :
    (⟨s, n, p, id⟩ : Tx) ∈ pending (pre ++ .insert s n p id :: post) := by
  rw [pending_append, List.foldl_cons]
  exact foldl_pending_keep post _ ⟨s, n, p, id⟩ (by simp [pendingStep]) hpost

/-- **removed_not_pending** (clause "never a removed one", on the history).  After
`remove s n`, as long as (s, n) is not inserted again, no transaction with that sender and
nonce is pending — hence, by `select_safe`, none is ever yielded. -/
theorem removed_not_pending (pre post : List Op) (s : String) (n : Nat)
    (hpost : ∀ p id, Op.insert s n p id ∉ post) :
    ∀ t ∈ pending (pre ++ .remove s n :: post), ¬ (t.sender = s ∧ t.nonce = n) := by
  intro t ht hk
  rw [pending_append, List.foldl_cons] at ht
  rcases foldl_pending_mem post _ t ht with h | h
  · simp only [pendingStep, List.mem_filter] at h
    simp [hk.1, hk.2] at h
  · rw [hk.1, hk.2] at h
    exact hpost _ _ h

/-- **select_safe** (clauses "exactly once" — at most once —, "never a removed one", "each
sender's transactions in strictly increasing sequence-number order"), with **no** condition on
priority values: after any admissible history, whether or not `Next` hits its nil dereference,
what `Select` has yielded up to that point
* contains no transaction twice,
* contains only pending transactions (so nothing removed or replaced),
* lists every sender's transactions in strictly increasing nonce order, without skipping a
  pending transaction of that sender with a smaller nonce;
and the iterator panics only if some pending priority is the `MinValue` sentinel; if it does
not panic the result is a permutation of the pending set. -/
theorem select_safe (ops : List Op) (h : Admissible ops) (h64 : Int64Prios ops) :
    (run ops).select.2.1.Nodup ∧
    (∀ t ∈ (run ops).select.2.1, t ∈ pending ops) ∧
    (∀ s, (((run ops).select.2.1.filter (fun t => t.sender == s)).map Tx.nonce).Pairwise (· < ·)) ∧
    (∀ t ∈ (run ops).select.2.1, ∀ t' ∈ pending ops, t'.sender = t.sender → t'.nonce < t.nonce →
      t' ∈ (run ops).select.2.1) ∧
    ((run ops).select.2.2 = true → ∃ t ∈ pending ops, t.prio = minInt64) ∧
    ((run ops).select.2.2 = false → (run ops).select.2.1.Perm (pending ops)) := by
  have hi := inv_run ops h
  obtain ⟨h1, h2, h3, _, h5⟩ := select_spec hi (pending_ge h64)
  obtain ⟨s1, s2, s3⟩ := safe_of_filter_prefix h5 _ h1
  refine ⟨s1, s2, s3, ?_, h3, fun hnp => perm_of_filter_eq h5 _ (h2 hnp)⟩
  intro t ht t' ht' hs hlt
  have htf : t ∈ (run ops).select.2.1.filter (fun x => x.sender == t.sender) :=
    List.mem_filter.mpr ⟨ht, by simp⟩
  have ht'm : t' ∈ (run ops).select.1.sidx t.sender := (h5.smem _ _).mpr ⟨ht', hs⟩
  exact (List.mem_filter.mp
    (prefix_sorted_closed _ _ (h5.ssorted _) (h1 t.sender) t t' htf ht'm hlt)).1

/-- **removed_never_yielded** (clause "never a removed one", in one statement).  In an admissible
history: after `remove s n`, as long as (s, n) is not inserted again, no `Select` — exhaustive,
and hence (`selectN_prefix`) none that is abandoned early — yields a transaction with that sender
and sequence number; and a transaction that was replaced by a later insert on its key (same
sender and nonce, different id) is not yielded either: everything yielded is the CURRENT pending
transaction of its key. -/
theorem removed_never_yielded (pre post : List Op) (s : String) (n : Nat)
    (h : Admissible (pre ++ .remove s n :: post)) (h64 : Int64Prios (pre ++ .remove s n :: post))
    (hpost : ∀ p id, Op.insert s n p id ∉ post) :
    (∀ t ∈ (run (pre ++ .remove s n :: post)).select.2.1, ¬ (t.sender = s ∧ t.nonce = n)) ∧
    (∀ t ∈ (run (pre ++ .remove s n :: post)).select.2.1,
      ∀ t' ∈ pending (pre ++ .remove s n :: post), t'.sender = t.sender → t'.nonce = t.nonce → t' = t) := by
  obtain ⟨_, hsub, _⟩ := select_safe _ h h64
  refine ⟨fun t ht => removed_not_pending pre post s n hpost t (hsub t ht), ?_⟩
  intro t ht t' ht' hs hn
  have hnd := (inv_run _ h).keys_nodup
  exact nodup_map_inj hnd ht' (hsub t ht) (by simp [Tx.skey, hs, hn])

/-- **select_perm** (clause "yields every pending transaction exactly once, never a removed
one").  After any admissible history in which no pending priority is the `MinValue` sentinel,
`Select` (iterated to exhaustion) does not hit the nil dereference in `Next`, and yields a
permutation of the pending set without repetition: every pending transaction exactly once, and
nothing else.  Since the history is arbitrary and may itself contain `select`s, this covers
repeated selects.  The side condition `NoMin` cannot be dropped:
`select_complete_false_at_minvalue`. -/
theorem select_perm (ops : List Op) (h : Admissible ops) (h64 : Int64Prios ops)
    (hmin : NoMin (pending ops)) :
    (run ops).select.2.2 = false ∧
    (run ops).select.2.1.Perm (pending ops) ∧
    (run ops).select.2.1.Nodup ∧
    (∀ t, t ∈ (run ops).select.2.1 ↔ t ∈ pending ops) := by
  obtain ⟨s1, _, _, _, s5, s6⟩ := select_safe ops h h64
  have hnp : (run ops).select.2.2 = false := by
    cases hp : (run ops).select.2.2 with
    | false => rfl
    | true =>
      obtain ⟨t, ht, hpt⟩ := s5 hp
      exact absurd hpt (hmin t ht)
  exact ⟨hnp, s6 hnp, s1, fun t => (s6 hnp).mem_iff⟩

/-- **select_sender_sorted.** In the sequence `Select` yields, the transactions of any one
sender appear in strictly increasing nonce order (no condition on priority values). -/
theorem select_sender_sorted (ops : List Op) (h : Admissible ops) (h64 : Int64Prios ops) (s : String) :
    (((run ops).select.2.1.filter (fun t => t.sender == s)).map Tx.nonce).Pairwise (· < ·) :=
  (select_safe ops h h64).2.2.1 s

/-- **class_order.** Whenever `t` is yielded while `u` is the next (first not yet yielded)
transaction of a different sender, `u` does not have a strictly higher priority than `t`:
of two senders whose next transactions are both available, the one with the strictly higher
priority (class) is yielded first.  Holds with priority ties across senders, and for whatever
was yielded before a panic (no condition on priority values). -/
theorem class_order (ops : List Op) (h : Admissible ops) (h64 : Int64Prios ops)
    (pre mid post : List Tx) (t u : Tx)
    (hout : (run ops).select.2.1 = pre ++ t :: (mid ++ u :: post))
    (hne : t.sender ≠ u.sender) (hnext : ∀ v ∈ mid, v.sender ≠ u.sender) :
    u.prio ≤ t.prio := by
  have hi := inv_run ops h
  obtain ⟨_, _, _, h3, _⟩ := select_spec hi (pending_ge h64)
  exact co_split _ h3 pre mid post t u hout hne hnext

/-- **select_in_history** (quantifier "including repeated selects between inserts").  A `select`
anywhere inside an admissible history — with arbitrary operations, other selects included,
before and after it — is the `Select` of the pool `run pre` the history has built up to that
point, it leaves the pool `(run pre).select.1` to the rest of the history (this first conjunct is
the definition of `run` unfolded, stated for the reader), and it satisfies
every clause: no panic, permutation of the transactions pending at that point, no repetition,
per sender increasing nonces, class order. -/
theorem select_in_history (pre post : List Op) (h : Admissible (pre ++ .select :: post))
    (h64 : Int64Prios (pre ++ .select :: post)) (hmin : NoMin (pending pre)) :
    run (pre ++ .select :: post) = post.foldl Pool.step (run pre).select.1 ∧
    (run pre).select.2.2 = false ∧
    (run pre).select.2.1.Perm (pending pre) ∧
    (run pre).select.2.1.Nodup ∧
    (∀ s, (((run pre).select.2.1.filter (fun t => t.sender == s)).map Tx.nonce).Pairwise (· < ·)) ∧
    (∀ (p mid q : List Tx) (t u : Tx), (run pre).select.2.1 = p ++ t :: (mid ++ u :: q) →
      t.sender ≠ u.sender → (∀ v ∈ mid, v.sender ≠ u.sender) → u.prio ≤ t.prio) := by
  have ha := h.prefix
  have hb := h64.prefix
  obtain ⟨p1, p2, p3, _⟩ := select_perm pre ha hb hmin
  refine ⟨?_, p1, p2, p3, fun s => select_sender_sorted pre ha hb s,
    fun p mid q t u => class_order pre ha hb p mid q t u⟩
  rw [run_append, List.foldl_cons]
  rfl

/-- **selectN_prefix** (the iterator need not be exhausted).  `Select` followed by any number
`k` of `Tx()`/`Next()` rounds — what `PrepareProposal` does until the block is full — yields
exactly the first `k` transactions of the exhaustive sequence, and leaves the pool exactly as
the exhaustive `Select` does.  Hence every safety clause of `select_safe` / `class_order` holds
for the part that was taken; the loop ends with a nil iterator only after the whole sequence
has been yielded; it ends with a panic only if the exhaustive run panics.  No hypotheses.  (The
first conjunct holds by definition — `selectN` and `select` share `reorder`; the content is the
second and third, `runIter_advance`.)  What the iterator STATE looks like after `k` rounds:
`available_class_order`. -/
theorem selectN_prefix (mp : Pool) (k : Nat) :
    (mp.selectN k).1 = mp.select.1 ∧
    (mp.selectN k).2.1 = mp.select.2.1.take k ∧
    (match (mp.selectN k).2.2 with
     | .panic => mp.select.2.2 = true ∧ (mp.selectN k).2.1 = mp.select.2.1
     | .done => mp.select.2.2 = false ∧ (mp.selectN k).2.1 = mp.select.2.1
     | .at _ => (mp.selectN k).2.1.length = k) := by
  obtain ⟨h1, h2, h3⟩ := selectN_spec mp k
  exact ⟨h1, h2, h3⟩

/-- **selectN_complete.** After an admissible history without the `MinValue` priority, taking
`k` transactions from the iterator yields `min k |pending|` distinct pending transactions (the
first `k` of the exhaustive order), never panics, and if the iterator ends it has yielded a
permutation of the pending set. -/
theorem selectN_complete (ops : List Op) (h : Admissible ops) (h64 : Int64Prios ops)
    (hmin : NoMin (pending ops)) (k : Nat) :
    ((run ops).selectN k).2.1 = (run ops).select.2.1.take k ∧
    ((run ops).selectN k).2.1.length = min k (pending ops).length ∧
    ((run ops).selectN k).2.1.Nodup ∧
    (∀ t ∈ ((run ops).selectN k).2.1, t ∈ pending ops) ∧
    (match ((run ops).selectN k).2.2 with
     | .panic => False
     | .done => ((run ops).selectN k).2.1.Perm (pending ops)
     | .at _ => ((run ops).selectN k).2.1.length = k) := by
  obtain ⟨p1, p2, p3, p4⟩ := select_perm ops h h64 hmin
  obtain ⟨_, q2, q3⟩ := selectN_prefix (run ops) k
  refine ⟨q2, ?_, ?_, ?_, ?_⟩
  · rw [q2, List.length_take, p2.length_eq]
  · rw [q2]; exact List.Nodup.sublist (List.take_sublist _ _) p3
  · intro t ht
    rw [q2] at ht
    exact (p4 t).mp (List.mem_of_mem_take ht)
  · revert q3
    cases ((run ops).selectN k).2.2 with
    | panic => intro q3; rw [p1] at q3; cases q3.1
    | done => intro q3; rw [q3.2]; exact p2
    | «at» it => intro q3; exact q3

/-- **available_class_order** (clause "between two senders whose next transactions are both
available, the one in the higher priority class goes first", as a statement about the ITERATOR
STATE).  After any admissible history, `Select` and any number `k` of `Tx()`/`Next()` rounds:
if the iterator is alive it stands on a pending transaction `it.cur`, what it still holds for
each sender (`senderCursors`, `it.rem z`) is a tail of that sender's index — so its head `u` is the
next available transaction of `z` —, and for every OTHER sender `z` with a next available
transaction `u`: `u` is pending, belongs to `z`, and its priority (class) is not above that of
`it.cur`. -/
theorem available_class_order (ops : List Op) (h : Admissible ops) (h64 : Int64Prios ops)
    (k : Nat) (it : Iter) (hit : ((run ops).selectN k).2.2 = .at it) :
    it.cur ∈ pending ops ∧
    (∀ z, it.rem z <:+ (run ops).select.1.sidx z) ∧
    (∀ z, z ≠ it.cur.sender → ∀ u us, it.rem z = u :: us →
      u ∈ pending ops ∧ u.sender = z ∧ u.prio ≤ it.cur.prio) := by
  have hi := inv_run ops h
  have hsel := inv_select hi
  obtain ⟨_, hav⟩ := selectN_state hi (pending_ge h64) k it hit
  obtain ⟨hsuf, s0, hcur⟩ := selectN_rem (run ops) k it hit
  refine ⟨((hsel.smem s0 it.cur).mp hcur).1, hsuf, ?_⟩
  intro z hz u us hr
  have hu : u ∈ (run ops).select.1.sidx z := (hsuf z).subset (by rw [hr]; simp)
  have := (hsel.smem z u).mp hu
  exact ⟨this.1, this.2, hav z hz u us hr⟩

/-! ### an iterator that is in use while the pool changes (`LState`, `LOp`: `iopen`, `inext`)

The property quantifies over sequences of insert, remove and select, `select` being the whole "ask
for transactions to propose"; `baseapp` v0.50.13 (`mempool.SelectBy`) indeed touches the pool only
after its loop.  The Go iterator, however, points into the live skip lists, and nothing in
`app/mempool` stops a caller from interleaving.  `Model/Mempool.lean` therefore also has the iterator
against the live pool (`LiveIter`: pointers with a "unlinked" flag, the stored `nextPriority`), the
harness drives it with Insert / Remove / Select between two `Next()` calls.  What holds:
* undisturbed, it IS the snapshot iterator: `live_quiet_eq_selectN`;
* disturbed in any way: safety survives (`live_yields_pending`, `live_sender_increasing`);
* completeness does not, and `Next()` may panic: `live_remove_current_ends_iteration`,
  `live_reinsert_current_panics` (both reproduced on /repo). -/

/-- **live_quiet_eq_selectN** (the live iterator refines the snapshot iterator).  After any
admissible history: `Select` and `k` rounds of `Tx()`/`Next()` on the LIVE iterator, with no pool
operation in between, yield exactly what the snapshot model `selectN k` yields, end the same way
(nil / panic / still alive at the same position), and leave the same pool.  Hence every clause
proved for `select` / `selectN` (`select_perm`, `select_safe`, `class_order`,
`available_class_order`, `mempool_app`) holds for an undisturbed live iterator; what remains true
when it IS disturbed: `live_yields_pending`, `live_sender_increasing`. -/
theorem live_quiet_eq_selectN (ops : List Op) (h : Admissible ops) (k : Nat) :
    (run ops).liveOpen.1 = ((run ops).selectN k).1 ∧
    (liveRunIter (run ops).select.1 k (run ops).liveOpen.2).1 = ((run ops).selectN k).2.1 ∧
    SameRes (run ops).select.1 (liveRunIter (run ops).select.1 k (run ops).liveOpen.2).2
      ((run ops).selectN k).2.2 := by
  have hi := inv_select (inv_run ops h)
  have hsel := selectStart_fst (run ops)
  have hopen : SameRes (run ops).select.1 (run ops).liveOpen.2 (run ops).selectStart.2 := by
    unfold Pool.liveOpen
    simp only
    by_cases he : (run ops).pidx.isEmpty = true
    · have : (run ops).selectStart.2 = .done := by unfold Pool.selectStart; rw [if_pos he]
      rw [this]; trivial
    · have h2 : (run ops).selectStart.2
          = advance (run ops).select.1.scores (run ops).select.1.pidx (run ops).select.1.sidx := by
        rw [← hsel]; unfold Pool.selectStart; rw [if_neg he]
      rw [h2]
      have := liveOfAdvance_same (run ops).select.1 hi.ssorted [] (run ops).select.1.pidx (List.suffix_refl _)
      rw [liveRem_nil] at this
      revert this
      cases advance (run ops).select.1.scores (run ops).select.1.pidx (run ops).select.1.sidx with
      | done => intro this; rw [this]; trivial
      | panic => intro this; rw [this]; trivial
      | «at» sit => rintro ⟨lit, e, hs⟩; rw [e]; exact hs
  have := liveRunIter_same (run ops).select.1 hi.psorted hi.ssorted k _ _ hopen
  unfold Pool.selectN
  simp only [hsel]
  exact ⟨by unfold Pool.liveOpen; exact hsel, this.1, this.2⟩

/-- **live_sender_increasing** (clauses "exactly once" — at most once — and "each sender's
transactions in strictly increasing sequence-number order", for an iterator that is USED WHILE THE
POOL CHANGES).  For every interleaving of `Insert`, `Remove`, `Select` with `Select`/`Next()` calls
on one iterator — no precondition at all, not even `Admissible` —: among the transactions one
iterator (one `iopen` generation) yields, those of the same sender come with strictly increasing
sequence numbers; hence no (sender, sequence) is yielded twice by the same iterator, whatever was
inserted, removed, replaced or re-weighed in between. -/
theorem live_sender_increasing (lops : List LOp) :
    (ltrace LState.init 0 lops).Pairwise
      (fun a b => a.1 = b.1 → a.2.sender = b.2.sender → a.2.nonce < b.2.nonce) :=
  ltrace_pairwise lops LState.init 0 sidxSender_empty

/-- **live_yields_pending** (clause "never a removed one", for an iterator that is used while the
pool changes).  In every interleaved history whose pool operations are admissible: whatever
`Select` or `Next()` yields is, AT THAT MOMENT, a pending transaction — the current one of its
(sender, sequence): not one that has been removed, and not one that has been replaced. -/
theorem live_yields_pending (lops : List LOp) (h : Admissible (lpoolOps lops))
    (pre post : List LOp) (op : LOp) (t : Tx) (hsplit : lops = pre ++ op :: post)
    (hy : ((lrun pre).1.step op).2 = .tx t) :
    t ∈ pending (lpoolOps (pre ++ [op])) ∧
    (∀ t' ∈ pending (lpoolOps (pre ++ [op])), t'.sender = t.sender → t'.nonce = t.nonce → t' = t) := by
  have hadm : Admissible (lpoolOps (pre ++ [op])) := by
    have : lpoolOps lops = lpoolOps (pre ++ [op]) ++ lpoolOps post := by
      rw [hsplit, ← lpoolOps_append]; simp
    rw [this] at h
    exact h.prefix
  have hpre : Admissible (lpoolOps pre) := by
    rw [lpoolOps_append] at hadm; exact hadm.prefix
  have hi := inv_run _ hpre
  have hpool := lrun_pool pre
  have hmem : t ∈ pending (lpoolOps (pre ++ [op])) := by
    cases op with
    | pool o =>
      have : ((lrun pre).1.step (.pool o)).2 = .none := by cases o <;> rfl
      rw [this] at hy; cases hy
    | iopen =>
      have hp : pending (lpoolOps (pre ++ [.iopen])) = pending (lpoolOps pre) := by
        rw [lpoolOps_append, pending_append]; rfl
      rw [hp]
      simp only [LState.step] at hy
      cases hr : (lrun pre).1.pool.liveOpen.2 with
      | done => rw [hr] at hy; cases hy
      | panic => rw [hr] at hy; cases hy
      | «at» it' =>
        obtain ⟨z, e, es, h1, h2, h3⟩ := liveOpen_at _ it' hr
        rw [hr, yield_at it' z e [] h2 h3] at hy
        cases hy
        rw [hpool] at h1
        exact (((inv_select hi).smem z t).mp (by rw [h1]; simp)).1
    | inext =>
      have hp : pending (lpoolOps (pre ++ [.inext])) = pending (lpoolOps pre) := by
        rw [lpoolOps_append]; simp [lpoolOps]
      rw [hp]
      cases hit : (lrun pre).1.it with
      | none => simp only [LState.step, hit] at hy; cases hy
      | some it =>
        simp only [LState.step, hit] at hy
        cases hr : it.next (lrun pre).1.pool with
        | done => rw [hr] at hy; cases hy
        | panic => rw [hr] at hy; cases hy
        | «at» it' =>
          obtain ⟨z, e, es, h1, h2, h3⟩ := next_at _ it it' hr
          rw [hr, yield_at it' z e it.cursors h2 h3] at hy
          cases hy
          have := liveRem_sub _ _ _ t (by rw [h1]; simp)
          rw [hpool] at this
          exact ((hi.smem z t).mp this).1
  refine ⟨hmem, ?_⟩
  intro t' ht' hs hn
  exact nodup_map_inj (inv_run _ hadm).keys_nodup ht' hmem (by simp [Tx.skey, hs, hn])


/-- **classes.** `NewDefaultTxPriority`: a transaction with exactly one message whose type URL
starts with the consensus / scheduler / evm / valset prefix gets a priority that is ordered
consensus > scheduler > evm (bridge chains) > valset > every other transaction, whatever the
`CheckTx` priorities are, as long as the `CheckTx` priority of the other one is below
`MaxInt64 - 3`; transactions with zero or several messages, or an unlisted type URL, keep the
`CheckTx` priority.  The bound is exact: `classes_false_at_bound`. -/
theorem classes (uc us ue uv uo : String) (pc ps pe pv po : Int)
    (hc : hasPrefix uc "/palomachain.paloma.consensus." = true)
    (hs : hasPrefix us "/palomachain.paloma.scheduler." = true)
    (he : hasPrefix ue "/palomachain.paloma.evm." = true)
    (hv : hasPrefix uv "/palomachain.paloma.valset." = true)
    (ho : classRank uo = none) (hpo : po < maxInt64 - 3) :
    txPriority [uc] pc = maxInt64 ∧ txPriority [us] ps = maxInt64 - 1 ∧
    txPriority [ue] pe = maxInt64 - 2 ∧ txPriority [uv] pv = maxInt64 - 3 ∧
    txPriority [uo] po = po ∧
    txPriority [uc] pc > txPriority [us] ps ∧ txPriority [us] ps > txPriority [ue] pe ∧
    txPriority [ue] pe > txPriority [uv] pv ∧ txPriority [uv] pv > txPriority [uo] po ∧
    (∀ l, l.length ≠ 1 → txPriority l po = po) := by
  have nsc : hasPrefix us "/palomachain.paloma.consensus." = false := by
    cases hx : hasPrefix us "/palomachain.paloma.consensus." with
    | false => rfl
    | true => exact (hasPrefix_excl us _ _ hx hs (by decide) (by decide)).elim
  have nec : hasPrefix ue "/palomachain.paloma.consensus." = false := by
    cases hx : hasPrefix ue "/palomachain.paloma.consensus." with
    | false => rfl
    | true => exact (hasPrefix_excl ue _ _ hx he (by decide) (by decide)).elim
  have nes : hasPrefix ue "/palomachain.paloma.scheduler." = false := by
    cases hx : hasPrefix ue "/palomachain.paloma.scheduler." with
    | false => rfl
    | true => exact (hasPrefix_excl ue _ _ hx he (by decide) (by decide)).elim
  have nvc : hasPrefix uv "/palomachain.paloma.consensus." = false := by
    cases hx : hasPrefix uv "/palomachain.paloma.consensus." with
    | false => rfl
    | true => exact (hasPrefix_excl uv _ _ hx hv (by decide) (by decide)).elim
  have nvs : hasPrefix uv "/palomachain.paloma.scheduler." = false := by
    cases hx : hasPrefix uv "/palomachain.paloma.scheduler." with
    | false => rfl
    | true => exact (hasPrefix_excl uv _ _ hx hv (by decide) (by decide)).elim
  have nve : hasPrefix uv "/palomachain.paloma.evm." = false := by
    cases hx : hasPrefix uv "/palomachain.paloma.evm." with
    | false => rfl
    | true => exact (hasPrefix_excl uv _ _ hx hv (by decide) (by decide)).elim
  have e1 : txPriority [uc] pc = maxInt64 := by
    simp [txPriority, classRank, classTable, hc]
  have e2 : txPriority [us] ps = maxInt64 - 1 := by
    simp [txPriority, classRank, classTable, hs, nsc]
  have e3 : txPriority [ue] pe = maxInt64 - 2 := by
    simp [txPriority, classRank, classTable, he, nec, nes]
  have e4 : txPriority [uv] pv = maxInt64 - 3 := by
    simp [txPriority, classRank, classTable, hv, nvc, nvs, nve]
  have e5 : txPriority [uo] po = po := by
    simp [txPriority, ho]
  refine ⟨e1, e2, e3, e4, e5, ?_, ?_, ?_, ?_, ?_⟩
  · rw [e1, e2]; omega
  · rw [e2, e3]; omega
  · rw [e3, e4]; omega
  · rw [e4, e5]; omega
  · intro l hl
    match l, hl with
    | [], _ => rfl
    | [_], hl => simp at hl
    | _ :: _ :: _, _ => rfl

/-- **class_rank** (clause "single-message consensus-queue, scheduler, bridge-chain and
validator-set transactions rank in that order above all others", for arbitrary message lists).
`GetTxPriority` is the rank of the property's class (`classOf`, defined from the property text,
not from the code's table); a transaction of a strictly higher class gets a strictly higher
priority than one of a lower class whose CheckTx priority is below `MaxInt64 - 3`; inside the
class "all others" the priority is the CheckTx priority. -/
theorem class_rank (urls urls' : List String) (c c' : Int) :
    txPriority urls c = rankPrio (classOf urls) c ∧
    (classOf urls = 0 → txPriority urls c = c) ∧
    (classOf urls < classOf urls' → c < maxInt64 - 3 → txPriority urls c < txPriority urls' c') := by
  refine ⟨txPriority_rank urls c, ?_, ?_⟩
  · intro h0; rw [txPriority_rank, h0]; rfl
  · intro hlt hc
    rw [txPriority_rank, txPriority_rank]
    exact rankPrio_lt _ _ (classOf_le urls') hlt c c' hc

/-- **class_order_tx** (clause "between two senders whose next transactions are both available,
the one in the higher priority class goes first", on histories of the operations the
application really issues).  `Insert(ctx, tx)` is given message type URLs and a CheckTx
priority; the priority is *derived* (`TxOp.toOp` = `GetTxPriority`).  If the CheckTx priority of
every PENDING transaction of the class "all others" is below `MaxInt64 - 3` (nothing is asked of
removed or replaced transactions, nor of transactions in one of the four classes; `Int64Ctx` is
the Go type `int64`), then whenever `t` is yielded while `u` is the next
transaction of another sender, `t` and `u` are the pending transactions inserted with URLs
`xt.urls`, `xu.urls` (by `insert` operations of the history), and the class of `u` is not above
the class of `t`; inside the class "all others" the CheckTx priority of `u` is not above that
of `t`.  The bound cannot be dropped: `classes_false_at_bound`. -/
theorem class_order_tx (tops : List TxOp) (h : Admissible (tops.map TxOp.toOp))
    (h64c : Int64Ctx tops)
    (hc : ∀ x ∈ tpending tops, classOf x.urls = 0 → x.ctxPrio < maxInt64 - 3)
    (pre mid post : List Tx) (t u : Tx)
    (hout : (run (tops.map TxOp.toOp)).select.2.1 = pre ++ t :: (mid ++ u :: post))
    (hne : t.sender ≠ u.sender) (hnext : ∀ v ∈ mid, v.sender ≠ u.sender) :
    ∃ xt ∈ tpending tops, ∃ xu ∈ tpending tops, xt.tx = t ∧ xu.tx = u ∧
      TxOp.insert t.sender t.nonce xt.urls xt.ctxPrio t.id ∈ tops ∧
      TxOp.insert u.sender u.nonce xu.urls xu.ctxPrio u.id ∈ tops ∧
      classOf xu.urls ≤ classOf xt.urls ∧
      (classOf xt.urls = 0 → xu.ctxPrio ≤ xt.ctxPrio) := by
  have h64 := int64Prios_of_ctx h64c
  have hco := class_order _ h h64 pre mid post t u hout hne hnext
  obtain ⟨_, hsub, _⟩ := select_safe _ h h64
  have htm : t ∈ pending (tops.map TxOp.toOp) := hsub t (by rw [hout]; simp)
  have hum : u ∈ pending (tops.map TxOp.toOp) := hsub u (by rw [hout]; simp)
  rw [← tpending_tx] at htm hum
  obtain ⟨xt, hxt, et⟩ := List.mem_map.mp htm
  obtain ⟨xu, hxu, eu⟩ := List.mem_map.mp hum
  obtain ⟨pt, it⟩ := tpending_prov tops xt hxt
  obtain ⟨pu, iu⟩ := tpending_prov tops xu hxu
  have hct := hc xt hxt
  rw [et] at pt it
  rw [eu] at pu iu
  rw [pt, pu, txPriority_rank, txPriority_rank] at hco
  have hle : classOf xu.urls ≤ classOf xt.urls := by
    apply Nat.le_of_not_lt
    intro hlt
    have := rankPrio_lt' _ _ (classOf_le xu.urls) hlt xt.ctxPrio xu.ctxPrio hct
    omega
  refine ⟨xt, hxt, xu, hxu, et, eu, it, iu, hle, ?_⟩
  intro h0
  have h0u : classOf xu.urls = 0 := by omega
  rw [h0, h0u] at hco
  simpa [rankPrio] using hco

/-- **mempool_app** (the whole property for the mempool as `app/app.go` wires it).  The ante
handler is built with `TxFeeChecker: TxFeeSkipper`, so `ctx.Priority()` is `appCtxPriority = 42`
for every `Insert` (`model_constants_from_source`).  For every history of such inserts, removes and
selects without a priority-changing insert on a pending key (`Admissible`; for the wired
application see `mempool_wired`) — and nothing else assumed:
1. `CountTx` is the number of pending transactions;
2. `Select` does not panic and yields every pending transaction exactly once and nothing else
   (in particular nothing removed or replaced);
3. each sender's transactions come in strictly increasing nonce order, and none is yielded before
   a pending transaction of the same sender with a smaller nonce;
4. when `t` is yielded while `u` is the next transaction of another sender, both are the pending
   transactions some `insert` of the history put there, and the class of `u` (consensus 4 >
   scheduler 3 > evm 2 > valset 1 > others 0, by the URLs given to `Insert`) is not above the
   class of `t`;
5. a proposer that stops after `k` transactions got the first `k` of that sequence, without a
   panic. -/
theorem mempool_app (tops : List TxOp) (h : Admissible (tops.map TxOp.toOp))
    (happ : ∀ s n urls c id, TxOp.insert s n urls c id ∈ tops → c = appCtxPriority) :
    (run (tops.map TxOp.toOp)).count = (tpending tops).length ∧
    (run (tops.map TxOp.toOp)).select.2.2 = false ∧
    (run (tops.map TxOp.toOp)).select.2.1.Perm ((tpending tops).map PTx.tx) ∧
    (run (tops.map TxOp.toOp)).select.2.1.Nodup ∧
    (∀ s, (((run (tops.map TxOp.toOp)).select.2.1.filter (fun t => t.sender == s)).map Tx.nonce).Pairwise
      (· < ·)) ∧
    (∀ (pre post : List Tx) (t t' : Tx),
      (run (tops.map TxOp.toOp)).select.2.1 = pre ++ t :: post → t' ∈ (tpending tops).map PTx.tx →
      t'.sender = t.sender → t'.nonce < t.nonce → t' ∈ pre) ∧
    (∀ (pre mid post : List Tx) (t u : Tx),
      (run (tops.map TxOp.toOp)).select.2.1 = pre ++ t :: (mid ++ u :: post) →
      t.sender ≠ u.sender → (∀ v ∈ mid, v.sender ≠ u.sender) →
      ∃ xt ∈ tpending tops, ∃ xu ∈ tpending tops, xt.tx = t ∧ xu.tx = u ∧
        TxOp.insert t.sender t.nonce xt.urls xt.ctxPrio t.id ∈ tops ∧
        TxOp.insert u.sender u.nonce xu.urls xu.ctxPrio u.id ∈ tops ∧
        classOf xu.urls ≤ classOf xt.urls) ∧
    (∀ k, ((run (tops.map TxOp.toOp)).selectN k).2.1 = (run (tops.map TxOp.toOp)).select.2.1.take k ∧
      ((run (tops.map TxOp.toOp)).selectN k).2.2.isPanic = false) := by
  have h64c : Int64Ctx tops := by
    intro s n urls c id hin
    rw [happ s n urls c id hin]
    decide
  have hc : ∀ x ∈ tpending tops, classOf x.urls = 0 → x.ctxPrio < maxInt64 - 3 := by
    intro x hx _
    rw [happ _ _ _ _ _ (tpending_prov tops x hx).2]
    decide
  have h64 := int64Prios_of_ctx h64c
  have hmin : NoMin (pending (tops.map TxOp.toOp)) := by
    apply noMin_of_ctx h64c
    intro s n urls c id hin
    rw [happ s n urls c id hin]
    decide
  obtain ⟨p1, p2, p3, _⟩ := select_perm _ h h64 hmin
  obtain ⟨_, _, _, s4, _, _⟩ := select_safe _ h h64
  refine ⟨?_, p1, ?_, p3, fun s => select_sender_sorted _ h h64 s, ?_, ?_, ?_⟩
  · rw [(index_consistent _ h).2.2.2.2.2, ← tpending_tx, List.length_map]
  · rw [tpending_tx]; exact p2
  · intro pre post t t' hout ht' hs hlt
    rw [tpending_tx] at ht'
    have hin := s4 t (by rw [hout]; simp) t' ht' hs hlt
    rw [hout] at hin p3
    rcases List.mem_append.mp hin with hin | hin
    · exact hin
    · -- `t'` is `t` or behind it: impossible, the sender's nonces increase along the output
      exfalso
      have hsort := select_sender_sorted _ h h64 t.sender
      rw [hout, List.filter_append, List.map_append, List.pairwise_append] at hsort
      rcases List.mem_cons.mp hin with e | hin
      · rw [e] at hlt; omega
      · have h2 := hsort.2.1
        rw [List.filter_cons, if_pos (by simp), List.map_cons, List.pairwise_cons] at h2
        have := h2.1 t'.nonce (List.mem_map.mpr ⟨t', List.mem_filter.mpr ⟨hin, by simp [hs]⟩, rfl⟩)
        omega
  · intro pre mid post t u hout hne hnext
    obtain ⟨xt, hxt, xu, hxu, et, eu, it, iu, hle, _⟩ :=
      class_order_tx tops h h64c hc pre mid post t u hout hne hnext
    exact ⟨xt, hxt, xu, hxu, et, eu, it, iu, hle⟩
  · intro k
    obtain ⟨q1, _, _, _, q5⟩ := selectN_complete _ h h64 hmin k
    refine ⟨q1, ?_⟩
    revert q5
    cases ((run (tops.map TxOp.toOp)).selectN k).2.2 with
    | panic => intro q5; exact q5.elim
    | done => intro _; rfl
    | «at» it => intro _; rfl

/-- **mempool_wired** (the property for the application: admission + mempool).  Whatever the
application receives on its mempool connection — `CheckTx`, `FinalizeBlock`, `Commit` with
CometBFT's re-check, `PrepareProposal`, see `AOp` — as long as every commit re-checks what the
application pool holds (`ACovered`, the external assumption of `admission_admissible`): the pool
operations it issues satisfy every conclusion of `mempool_app`.  No assumption on the pool
operations themselves is left. -/
theorem mempool_wired (seq0 : String → Nat) (aops : List AOp) (hcov : ACovered seq0 [] aops) :
    Fresh ((acompile seq0 aops).map TxOp.toOp) ∧
    (run ((acompile seq0 aops).map TxOp.toOp)).count = (tpending (acompile seq0 aops)).length ∧
    (run ((acompile seq0 aops).map TxOp.toOp)).select.2.2 = false ∧
    (run ((acompile seq0 aops).map TxOp.toOp)).select.2.1.Perm ((tpending (acompile seq0 aops)).map PTx.tx) ∧
    (∀ s, (((run ((acompile seq0 aops).map TxOp.toOp)).select.2.1.filter
      (fun t => t.sender == s)).map Tx.nonce).Pairwise (· < ·)) ∧
    (∀ (pre mid post : List Tx) (t u : Tx),
      (run ((acompile seq0 aops).map TxOp.toOp)).select.2.1 = pre ++ t :: (mid ++ u :: post) →
      t.sender ≠ u.sender → (∀ v ∈ mid, v.sender ≠ u.sender) →
      ∃ xt ∈ tpending (acompile seq0 aops), ∃ xu ∈ tpending (acompile seq0 aops), xt.tx = t ∧ xu.tx = u ∧
        classOf xu.urls ≤ classOf xt.urls) := by
  obtain ⟨hf, hadm, hctx⟩ := admission_admissible seq0 aops hcov
  obtain ⟨m1, m2, m3, _, m5, _, m7, _⟩ := mempool_app (acompile seq0 aops) hadm hctx
  refine ⟨hf, m1, m2, m3, m5, ?_⟩
  intro pre mid post t u hout hne hnext
  obtain ⟨xt, hxt, xu, hxu, et, eu, _, _, hle⟩ := m7 pre mid post t u hout hne hnext
  exact ⟨xt, hxt, xu, hxu, et, eu, hle⟩

/-! ### clauses that are FALSE for `app/mempool` in isolation (behaviour of /repo, reproduced on
the real `PriorityNonceMempool` by the fixed histories of `TestC19`) -/

/- Full-strength statement of "yields every pending transaction", as the property text has it
   (no condition on priorities):
     ∀ ops, Admissible ops → Int64Prios ops →
       (run ops).select.2.2 = false ∧ (run ops).select.2.1.Perm (pending ops)
   It is false; `select_perm` (with `NoMin`) is the best true statement, `select_safe` holds
   without it. -/

/-- **select_complete_false_at_minvalue.** The clause "yields every pending transaction" fails
when a pending priority equals `TxPriority.MinValue` (`math.MinInt64`): `Next` dereferences
`priorityNode.Next()` on the last element.  First witness: a single transaction.  Second
witness: the panic also loses `c:1`, an ordinary transaction (priority 9) queued behind the
`MinValue` one.  Both histories are admissible, all priorities are `int64` values. -/
theorem select_complete_false_at_minvalue :
    (Admissible [.insert "a" 0 minInt64 1] ∧ Int64Prios [.insert "a" 0 minInt64 1] ∧
      (run [.insert "a" 0 minInt64 1]).select.2 = ([], true) ∧
      pending [.insert "a" 0 minInt64 1] = [⟨"a", 0, minInt64, 1⟩]) ∧
    (Admissible [.insert "c" 0 minInt64 1, .insert "c" 1 9 2, .insert "a" 0 5 3] ∧
      Int64Prios [.insert "c" 0 minInt64 1, .insert "c" 1 9 2, .insert "a" 0 5 3] ∧
      (run [.insert "c" 0 minInt64 1, .insert "c" 1 9 2, .insert "a" 0 5 3]).select.2
        = ([⟨"a", 0, 5, 3⟩], true) ∧
      (⟨"c", 1, 9, 2⟩ : Tx) ∈ pending [.insert "c" 0 minInt64 1, .insert "c" 1 9 2, .insert "a" 0 5 3]) ∧
    ¬ (∀ ops, Admissible ops → Int64Prios ops →
        (run ops).select.2.2 = false ∧ (run ops).select.2.1.Perm (pending ops)) := by
  refine ⟨⟨?_, ?_, by decide, by decide⟩, ⟨?_, ?_, by decide, by decide⟩, ?_⟩
  · simp [Admissible, AdmFrom, OpOk]
  · intro s n p id hm
    simp only [List.mem_singleton, Op.insert.injEq] at hm
    obtain ⟨_, _, rfl, _⟩ := hm
    decide
  · simp [Admissible, AdmFrom, OpOk, pendingStep]
  · intro s n p id hm
    simp only [List.mem_cons, Op.insert.injEq, List.not_mem_nil, or_false] at hm
    rcases hm with ⟨_, _, rfl, _⟩ | ⟨_, _, rfl, _⟩ | ⟨_, _, rfl, _⟩ <;> decide
  · intro hall
    have := hall [.insert "a" 0 minInt64 1] (by simp [Admissible, AdmFrom, OpOk])
      (by
        intro s n p id hm
        simp only [List.mem_singleton, Op.insert.injEq] at hm
        obtain ⟨_, _, rfl, _⟩ := hm
        decide)
    exact absurd this.1 (by decide)

/-- **minvalue_priority_panics** (kept from the first version). -/
theorem minvalue_priority_panics :
    (run [.insert "a" 0 minInt64 1]).select.2 = ([], true) := by decide

/- Full-strength statement of "rank … above all others" (no bound on the CheckTx priority):
     ∀ us uo ps po, hasPrefix us "/palomachain.paloma.scheduler." → classRank uo = none →
       txPriority [us] ps > txPriority [uo] po
   It is false; `classes` / `class_rank` (with `po < MaxInt64 - 3`) are the best true statements. -/

/-- **classes_false_at_bound.** `GetTxPriority` returns `ctx.Priority()` unchanged for "all other"
transactions, so a bank send whose CheckTx priority is `MaxInt64 - 3` ties with a validator-set
transaction, and one with `MaxInt64` ties with the consensus class and outranks scheduler, bridge
and validator-set transactions: with the history below, `Select` proposes the bank send `a:0`
before the scheduler transaction `b:0`.  (`ctx.Priority()` can reach `MaxInt64` with the SDK's
default fee checker, `getTxPriority` caps at `MaxInt64`; Paloma's `TxFeeSkipper` always returns
42, so the application is not affected: `mempool_app`.) -/
theorem classes_false_at_bound :
    txPriority ["/cosmos.bank.v1beta1.MsgSend"] (maxInt64 - 3)
      = txPriority ["/palomachain.paloma.valset.MsgKeepAlive"] 0 ∧
    txPriority ["/cosmos.bank.v1beta1.MsgSend"] maxInt64
      > txPriority ["/palomachain.paloma.scheduler.MsgCreateJob"] 0 ∧
    classOf ["/cosmos.bank.v1beta1.MsgSend"] = 0 ∧
    classOf ["/palomachain.paloma.scheduler.MsgCreateJob"] = 3 ∧
    Admissible ([TxOp.insert "a" 0 ["/cosmos.bank.v1beta1.MsgSend"] maxInt64 1,
      TxOp.insert "b" 0 ["/palomachain.paloma.scheduler.MsgCreateJob"] 0 2].map TxOp.toOp) ∧
    (run ([TxOp.insert "a" 0 ["/cosmos.bank.v1beta1.MsgSend"] maxInt64 1,
      TxOp.insert "b" 0 ["/palomachain.paloma.scheduler.MsgCreateJob"] 0 2].map TxOp.toOp)).select.2
      = ([⟨"a", 0, maxInt64, 1⟩, ⟨"b", 0, maxInt64 - 1, 2⟩], false) ∧
    ¬ (∀ (us uo : String) (ps po : Int), hasPrefix us "/palomachain.paloma.scheduler." = true →
        classRank uo = none → txPriority [us] ps > txPriority [uo] po) := by
  refine ⟨by decide, by decide, by decide, by decide, ?_, by decide, ?_⟩
  · simp [Admissible, AdmFrom, OpOk, pendingStep, TxOp.toOp]
  · intro hall
    have := hall "/palomachain.paloma.scheduler.MsgCreateJob" "/cosmos.bank.v1beta1.MsgSend" 0 maxInt64
      (by decide) (by decide)
    exact absurd this (by decide)

/- Full-strength statement of "yields every pending transaction" under the LITERAL precondition
   of the property text (unique pending keys; `Int64Prios` typing, and even `NoMin`):
     ∀ ops, KeysUnique ops → Int64Prios ops → NoMin (pending ops) →
       (run ops).select.2.1.Perm (pending ops)
   It is false (next theorem); `select_perm` under `Admissible` is the true statement. -/

/-- **replacement_changes_priority_loses_tx** (the behaviour of the code that makes `Admissible`
necessary).  Re-inserting a pending (sender, nonce) with a *different* priority leaves the old
priority in the key of the sender-index element (`skiplist.Set` only replaces the value), and
the iterator compares that stale key priority: here `a:0` (re-inserted with priority 10) is
pending and counted, but `Select` yields only `b:0`, without a panic.  The same history run against
the real `PriorityNonceMempool` gives the same result (first fixed history of `TestC19`, stat
`finding.replacement_with_changed_priority_loses_tx`). -/
theorem replacement_changes_priority_loses_tx :
    pending [.insert "a" 0 1 1, .insert "a" 0 10 2, .insert "b" 0 5 3]
      = [⟨"b", 0, 5, 3⟩, ⟨"a", 0, 10, 2⟩] ∧
    (run [.insert "a" 0 1 1, .insert "a" 0 10 2, .insert "b" 0 5 3]).count = 2 ∧
    (run [.insert "a" 0 1 1, .insert "a" 0 10 2, .insert "b" 0 5 3]).select.2
      = ([⟨"b", 0, 5, 3⟩], false) ∧
    ¬ Admissible [.insert "a" 0 1 1, .insert "a" 0 10 2, .insert "b" 0 5 3] := by
  refine ⟨by decide, by decide, by decide, ?_⟩
  simp [Admissible, AdmFrom, OpOk, pendingStep]

/-- **literal_precondition_insufficient.** Under the precondition exactly as the property text
words it — at most one pending transaction per (sender, sequence), at every point of the history —
the clause "yields every pending transaction" is FALSE: the history of
`replacement_changes_priority_loses_tx` has unique pending keys at every prefix (every history
has), `int64` priorities, no `MinValue` priority, and still a pending transaction is not yielded.
This is why the theorems assume `Admissible` (no insert on a pending key with a changed priority),
which is strictly stronger than the text and is discharged for the application by
`admission_admissible`. -/
theorem literal_precondition_insufficient :
    ¬ (∀ ops, KeysUnique ops → Int64Prios ops → NoMin (pending ops) →
        (run ops).select.2.1.Perm (pending ops)) := by
  intro hall
  have := hall [.insert "a" 0 1 1, .insert "a" 0 10 2, .insert "b" 0 5 3] (keys_unique_always _)
    (by
      intro s n p id hm
      simp only [List.mem_cons, Op.insert.injEq, List.not_mem_nil, or_false] at hm
      rcases hm with ⟨_, _, rfl, _⟩ | ⟨_, _, rfl, _⟩ | ⟨_, _, rfl, _⟩ <;> decide)
    (by unfold NoMin; decide)
  have hl := this.length_eq
  rw [replacement_changes_priority_loses_tx.2.2.1, replacement_changes_priority_loses_tx.1] at hl
  cases hl

/-- **admission_uncovered_replaces** (the assumption `ACovered` of `admission_admissible` cannot be
dropped; reachability of the replacement through admission).  If a commit does not re-check a
transaction the application pool still holds (CometBFT configured with `recheck = false`, or a
transaction CometBFT dropped after the application had accepted it — `resCbFirstTime` re-tests
`isFull` after `CheckTx` returned), the check state forgets its sequence bump and a second
transaction with the same (sender, sequence) passes the ante handler.  Here: a bank send `a:0`
(priority 42), a commit that re-checks nothing, then a consensus message `a:0` (priority
`MaxInt64`) and a scheduler message `b:0`.  The compiled pool history is not admissible, and
`Select` proposes `b:0` only — the pending consensus message `a:0` is lost for this proposer. -/
theorem admission_uncovered_replaces :
    acompile (fun _ => 0)
      [.checkTx "a" 0 ["/cosmos.bank.v1beta1.MsgSend"] 1 true, .commit (fun _ => 0) [],
       .checkTx "a" 0 ["/palomachain.paloma.consensus.MsgAddEvidence"] 2 true,
       .checkTx "b" 0 ["/palomachain.paloma.scheduler.MsgCreateJob"] 3 true]
      = [.insert "a" 0 ["/cosmos.bank.v1beta1.MsgSend"] 42 1,
         .insert "a" 0 ["/palomachain.paloma.consensus.MsgAddEvidence"] 42 2,
         .insert "b" 0 ["/palomachain.paloma.scheduler.MsgCreateJob"] 42 3] ∧
    ¬ ACovered (fun _ => 0) []
      [.checkTx "a" 0 ["/cosmos.bank.v1beta1.MsgSend"] 1 true, .commit (fun _ => 0) [],
       .checkTx "a" 0 ["/palomachain.paloma.consensus.MsgAddEvidence"] 2 true,
       .checkTx "b" 0 ["/palomachain.paloma.scheduler.MsgCreateJob"] 3 true] ∧
    ¬ Admissible ([TxOp.insert "a" 0 ["/cosmos.bank.v1beta1.MsgSend"] 42 1,
         .insert "a" 0 ["/palomachain.paloma.consensus.MsgAddEvidence"] 42 2,
         .insert "b" 0 ["/palomachain.paloma.scheduler.MsgCreateJob"] 42 3].map TxOp.toOp) ∧
    pending ([TxOp.insert "a" 0 ["/cosmos.bank.v1beta1.MsgSend"] 42 1,
         .insert "a" 0 ["/palomachain.paloma.consensus.MsgAddEvidence"] 42 2,
         .insert "b" 0 ["/palomachain.paloma.scheduler.MsgCreateJob"] 42 3].map TxOp.toOp)
      = [⟨"b", 0, maxInt64 - 1, 3⟩, ⟨"a", 0, maxInt64, 2⟩] ∧
    (run ([TxOp.insert "a" 0 ["/cosmos.bank.v1beta1.MsgSend"] 42 1,
         .insert "a" 0 ["/palomachain.paloma.consensus.MsgAddEvidence"] 42 2,
         .insert "b" 0 ["/palomachain.paloma.scheduler.MsgCreateJob"] 42 3].map TxOp.toOp)).select.2
      = ([⟨"b", 0, maxInt64 - 1, 3⟩], false) := by
  refine ⟨by decide, ?_, ?_, by decide, by decide⟩
  · simp [ACovered, aemit, pendingStep, TxOp.toOp]
  · simp [Admissible, AdmFrom, OpOk, pendingStep, TxOp.toOp, txPriority, classRank, classTable,
      hasPrefix, maxInt64]

/- Full-strength statement of "yields every pending transaction" for an iterator that is used while
   the pool changes (say: every transaction that is pending from the `iopen` until the iterator
   turns nil is yielded) is FALSE, and `Next()` may even panic inside the precondition: -/

/-- **live_remove_current_ends_iteration** (behaviour of /repo; first fixed live history of
`TestC19`, stat `finding.live_remove_of_current_tx_ends_iteration`).  The iterator stands on `a:0`;
`Remove(a:0)` unlinks the sender element AND the priority element it points to, both answer
`Next() = nil` from then on, and the next `Next()` returns nil: `b:0` and `c:0`, pending all the
time, are not yielded by this iterator.  (`baseapp` v0.50.13 removes invalid transactions only after
its loop — `SelectBy` — for exactly this reason.) -/
theorem live_remove_current_ends_iteration :
    (lrun [.pool (.insert "a" 0 9 1), .pool (.insert "b" 0 5 2), .pool (.insert "c" 0 3 3), .iopen,
      .pool (.remove "a" 0), .inext]).2
      = [.none, .none, .none, .tx ⟨"a", 0, 9, 1⟩, .none, .nil] ∧
    pending (lpoolOps [.pool (.insert "a" 0 9 1), .pool (.insert "b" 0 5 2), .pool (.insert "c" 0 3 3),
      .iopen, .pool (.remove "a" 0), .inext]) = [⟨"c", 0, 3, 3⟩, ⟨"b", 0, 5, 2⟩] := by
  decide

/-- **live_reinsert_current_panics** (behaviour of /repo; second fixed live history of `TestC19`,
stat `finding.live_reinsert_of_current_tx_panics`).  INSIDE the precondition: the iterator stands on
`a:0`; the same transaction is submitted again with the SAME priority (`Insert` unlinks the old
priority element and links a new one; the sender element survives).  The next `Next()` moves the
cursor to `a:1`, whose priority equals the stored `nextPriority`, and dereferences
`priorityNode.Next()` of the unlinked element: nil — panic.  Not reachable through `baseapp`'s
sequential loop; reachable only if `CheckTx` runs concurrently with `PrepareProposal` (this copy of
the mempool has no mutex, upstream v0.50.13 has). -/
theorem live_reinsert_current_panics :
    Admissible (lpoolOps [.pool (.insert "a" 0 9 1), .pool (.insert "a" 1 5 2), .pool (.insert "b" 0 5 3),
      .iopen, .pool (.insert "a" 0 9 4), .inext]) ∧
    (lrun [.pool (.insert "a" 0 9 1), .pool (.insert "a" 1 5 2), .pool (.insert "b" 0 5 3), .iopen,
      .pool (.insert "a" 0 9 4), .inext]).2
      = [.none, .none, .none, .tx ⟨"a", 0, 9, 1⟩, .none, .panic] := by
  refine ⟨?_, by decide⟩
  simp [lpoolOps, Admissible, AdmFrom, OpOk, pendingStep]

/-! ### non-vacuity (every example goes through `run` from the empty pool) -/

/-- a history with three senders, priority ties across senders, a remove and an intermediate
    select: it is admissible, and the final select yields all five pending transactions -/
def exampleHistory : List Op :=
  [.insert "a" 0 5 1, .insert "b" 0 5 2, .insert "a" 1 9 3, .select, .insert "c" 0 7 4,
   .remove "b" 0, .insert "b" 1 5 5, .insert "c" 1 5 6, .select]

example : Admissible exampleHistory := by
  simp [exampleHistory, Admissible, AdmFrom, OpOk, pendingStep]

example : NoMin (pending exampleHistory) := by unfold NoMin; decide

example : (run exampleHistory).select.2 =
    ([⟨"c", 0, 7, 4⟩, ⟨"a", 0, 5, 1⟩, ⟨"a", 1, 9, 3⟩, ⟨"c", 1, 5, 6⟩, ⟨"b", 1, 5, 5⟩], false) := by
  decide

example : pending exampleHistory =
    [⟨"c", 1, 5, 6⟩, ⟨"b", 1, 5, 5⟩, ⟨"c", 0, 7, 4⟩, ⟨"a", 1, 9, 3⟩, ⟨"a", 0, 5, 1⟩] ∧
    (run exampleHistory).count = 5 := by decide

/-- the in-history select of `exampleHistory` (4th operation): `select_in_history` applies with
    `pre` = the first three operations, and that select yields the three transactions pending
    at that point -/
example : exampleHistory =
      [.insert "a" 0 5 1, .insert "b" 0 5 2, .insert "a" 1 9 3] ++ .select ::
        [.insert "c" 0 7 4, .remove "b" 0, .insert "b" 1 5 5, .insert "c" 1 5 6, .select] ∧
    (run [.insert "a" 0 5 1, .insert "b" 0 5 2, .insert "a" 1 9 3]).select.2
      = ([⟨"a", 0, 5, 1⟩, ⟨"a", 1, 9, 3⟩, ⟨"b", 0, 5, 2⟩], false) := ⟨rfl, by decide⟩

/-- the removed `b:0` (id 2) is not pending at the end and not yielded, although it was yielded
    by the earlier select (`removed_not_pending` with `pre` = first five operations) -/
example : (⟨"b", 0, 5, 2⟩ : Tx) ∉ pending exampleHistory ∧
    (⟨"b", 0, 5, 2⟩ : Tx) ∉ (run exampleHistory).select.2.1 := by decide

/-- `Remove` of something that is not pending is refused and changes nothing (count stays 5) -/
example : ((run exampleHistory).remove "b" 0).2 = false ∧
    ((run exampleHistory).remove "b" 0).1.count = 5 ∧
    ((run exampleHistory).remove "b" 1).2 = true ∧
    ((run exampleHistory).remove "b" 1).1.count = 4 := by decide

/-- the more general form of the precondition is satisfiable too: `a:0` is re-inserted with an
    unchanged priority (new id 3) after a select; the new transaction is the one yielded -/
example :
    Admissible [.insert "a" 0 5 1, .insert "b" 0 5 2, .insert "a" 1 7 4, .select, .insert "a" 0 5 3] ∧
    (run [.insert "a" 0 5 1, .insert "b" 0 5 2, .insert "a" 1 7 4, .select, .insert "a" 0 5 3]).select.2
      = ([⟨"a", 0, 5, 3⟩, ⟨"a", 1, 7, 4⟩, ⟨"b", 0, 5, 2⟩], false) := by
  refine ⟨?_, by decide⟩
  simp [Admissible, AdmFrom, OpOk, pendingStep]

/-- the hypotheses of `class_order` are satisfiable: `t = c:0` (priority 7) is yielded while
    `u = b:1` (priority 5) is the next transaction of `b` -/
example : (run exampleHistory).select.2.1 =
    [] ++ (⟨"c", 0, 7, 4⟩ : Tx) :: ([⟨"a", 0, 5, 1⟩, ⟨"a", 1, 9, 3⟩, ⟨"c", 1, 5, 6⟩] ++ ⟨"b", 1, 5, 5⟩ :: []) ∧
    ("c" : String) ≠ "b" ∧
    ∀ v ∈ ([⟨"a", 0, 5, 1⟩, ⟨"a", 1, 9, 3⟩, ⟨"c", 1, 5, 6⟩] : List Tx), v.sender ≠ "b" := by decide

/-- taking 2 of the 5 transactions leaves the iterator alive (standing on the third), taking 9
    exhausts it;
    the pool afterwards is the one the exhaustive select leaves -/
example :
    ((run exampleHistory).selectN 2).2.1 = [⟨"c", 0, 7, 4⟩, ⟨"a", 0, 5, 1⟩] ∧
    ((run exampleHistory).selectN 2).2.2.cur? = some ⟨"a", 1, 9, 3⟩ ∧
    ((run exampleHistory).selectN 9).2.1.length = 5 ∧
    ((run exampleHistory).selectN 9).2.2.isDone = true ∧
    ((run exampleHistory).selectN 2).1.pidx = (run exampleHistory).select.1.pidx := by decide

/-- a stopped sender: `c:0` carries the `MinValue` priority, the iterator defers `c` at the first
    element, and panics at the last one after yielding `a:0` only; `selectN 0` (Select alone) does not
    see the panic, `selectN 1` (one `Next()`) does -/
example :
    ((run [.insert "c" 0 minInt64 1, .insert "c" 1 9 2, .insert "a" 0 5 3]).selectN 1).2.2.isPanic = true ∧
    ((run [.insert "c" 0 minInt64 1, .insert "c" 1 9 2, .insert "a" 0 5 3]).selectN 1).2.1
      = [⟨"a", 0, 5, 3⟩] ∧
    ((run [.insert "c" 0 minInt64 1, .insert "c" 1 9 2, .insert "a" 0 5 3]).selectN 0).2.2.cur?
      = some ⟨"a", 0, 5, 3⟩ := by decide

/-- a `MinValue` priority does not always panic: behind a same-sender predecessor it is yielded
    (`select_safe` is the statement that covers both outcomes) -/
example : (run [.insert "a" 0 5 1, .insert "a" 1 minInt64 2]).select.2
    = ([⟨"a", 0, 5, 1⟩, ⟨"a", 1, minInt64, 2⟩], false) := by decide

/-- a `TxOp` history as the application produces it (every CheckTx priority is 42): a bank send,
    a keep-alive, an evidence message and a job, two senders with two nonces; `mempool_app`
    applies and the classes come out in order -/
def appHistory : List TxOp :=
  [.insert "a" 0 ["/cosmos.bank.v1beta1.MsgSend"] appCtxPriority 1,
   .insert "b" 0 ["/palomachain.paloma.valset.MsgKeepAlive"] appCtxPriority 2,
   .insert "a" 1 ["/palomachain.paloma.consensus.MsgAddEvidence"] appCtxPriority 3,
   .select,
   .insert "c" 0 ["/palomachain.paloma.scheduler.MsgCreateJob"] appCtxPriority 4,
   .insert "b" 1 ["/palomachain.paloma.evm.MsgA", "/palomachain.paloma.evm.MsgB"] appCtxPriority 5,
   .remove "a" 0]

example : Admissible (appHistory.map TxOp.toOp) := by
  simp [appHistory, Admissible, AdmFrom, OpOk, pendingStep, TxOp.toOp]

example : ∀ s n urls c id, TxOp.insert s n urls c id ∈ appHistory → c = appCtxPriority := by
  intro s n urls c id h
  simp only [appHistory, List.mem_cons, TxOp.insert.injEq, List.not_mem_nil, or_false, reduceCtorEq,
    false_or] at h
  rcases h with h | h | h | h | h <;> exact h.2.2.2.1

example : (run (appHistory.map TxOp.toOp)).select.2 =
    ([⟨"a", 1, maxInt64, 3⟩, ⟨"c", 0, maxInt64 - 1, 4⟩, ⟨"b", 0, maxInt64 - 3, 2⟩, ⟨"b", 1, 42, 5⟩], false) ∧
    (tpending appHistory).map (fun x => (x.tx.sender, x.tx.nonce, classOf x.urls)) =
      [("b", 1, 0), ("c", 0, 3), ("a", 1, 4), ("b", 0, 1)] := by decide

/-- the hypotheses of `classes` are satisfiable by real type URLs -/
example :
    hasPrefix "/palomachain.paloma.consensus.MsgAddEvidence" "/palomachain.paloma.consensus." = true ∧
    hasPrefix "/palomachain.paloma.scheduler.MsgCreateJob" "/palomachain.paloma.scheduler." = true ∧
    hasPrefix "/palomachain.paloma.evm.MsgRemoveSmartContractDeploymentRequest" "/palomachain.paloma.evm." = true ∧
    hasPrefix "/palomachain.paloma.valset.MsgKeepAlive" "/palomachain.paloma.valset." = true ∧
    classRank "/palomachain.paloma.skyway.MsgSendToRemote" = none ∧
    classRank "/palomachain.paloma.consensusx.MsgFoo" = none ∧
    txPriority ["/palomachain.paloma.evm.MsgRemoveSmartContractDeploymentRequest"] 7 = maxInt64 - 2 ∧
    txPriority ["/palomachain.paloma.evm.A", "/palomachain.paloma.evm.B"] 7 = 7 := by decide

/-- the iterator STATE after two `Next()` rounds on `exampleHistory` (`available_class_order`):
    it stands on `a:1` (priority 9); the next available transactions of the other senders are
    `c:1` (5) and `b:1` (5), both not above 9; `c:0` and `a:0` are behind the cursors -/
example :
    ((run exampleHistory).selectN 2).2.2.cur? = some ⟨"a", 1, 9, 3⟩ ∧
    ((run exampleHistory).selectN 2).2.2.remOf "c" = [⟨"c", 1, 5, 6⟩] ∧
    ((run exampleHistory).selectN 2).2.2.remOf "b" = [⟨"b", 1, 5, 5⟩] ∧
    ((run exampleHistory).selectN 2).2.2.remOf "a" = [] := by decide

/-- an application-level history (`AOp`) that meets `ACovered`, through `acompile` from check-state
    sequences 0: two accepted transactions of `a`, a third with an already used sequence number is
    refused by the ante handler (nothing reaches the pool), `b:0`, a proposal, `a:0` is executed in a
    block, the commit re-checks the two transactions still pending (`a:1` passes with committed
    sequence 1, `b:0` passes), then `a:2`.  `admission_admissible` / `mempool_wired` apply. -/
def appAdmission : List AOp :=
  [.checkTx "a" 0 ["/cosmos.bank.v1beta1.MsgSend"] 1 true,
   .checkTx "a" 1 ["/palomachain.paloma.consensus.MsgAddEvidence"] 2 true,
   .checkTx "a" 1 ["/palomachain.paloma.valset.MsgKeepAlive"] 9 true,
   .checkTx "b" 0 ["/palomachain.paloma.scheduler.MsgCreateJob"] 3 true,
   .select,
   .finalizeTx "a" 0,
   .commit (fun s => if s = "a" then 1 else 0) [("a", 1, true), ("b", 0, true)],
   .checkTx "a" 2 ["/palomachain.paloma.evm.MsgX"] 4 true,
   .checkTx "b" 0 ["/cosmos.bank.v1beta1.MsgSend"] 5 true]

example : acompile (fun _ => 0) appAdmission =
    [.insert "a" 0 ["/cosmos.bank.v1beta1.MsgSend"] 42 1,
     .insert "a" 1 ["/palomachain.paloma.consensus.MsgAddEvidence"] 42 2,
     .insert "b" 0 ["/palomachain.paloma.scheduler.MsgCreateJob"] 42 3,
     .select, .remove "a" 0,
     .insert "a" 2 ["/palomachain.paloma.evm.MsgX"] 42 4] := by decide

example : ACovered (fun _ => 0) [] appAdmission := by
  simp [appAdmission, ACovered, aemit, pendingStep, TxOp.toOp, upd]

example : (run ((acompile (fun _ => 0) appAdmission).map TxOp.toOp)).select.2 =
    ([⟨"a", 1, maxInt64, 2⟩, ⟨"b", 0, maxInt64 - 1, 3⟩, ⟨"a", 2, maxInt64 - 2, 4⟩], false) := by decide

/-- a commit whose re-check FAILS for a pending transaction (its sequence was used up by a block
    from another proposer: committed sequence of `a` is 1 while `a:0` is pending) removes it from
    the application pool, and the sequence number becomes free again without a replacement -/
example : acompile (fun _ => 0)
      [.checkTx "a" 0 ["/cosmos.bank.v1beta1.MsgSend"] 1 true,
       .commit (fun s => if s = "a" then 1 else 0) [("a", 0, true)],
       .checkTx "a" 1 ["/cosmos.bank.v1beta1.MsgSend"] 2 true]
    = [.insert "a" 0 ["/cosmos.bank.v1beta1.MsgSend"] 42 1, .remove "a" 0,
       .insert "a" 1 ["/cosmos.bank.v1beta1.MsgSend"] 42 2] := by decide

/-- an interleaved history through `lrun` from the empty pool (all priorities tied at 5): the
    iterator opens on `b:0`; `a:0` and `a:2` are inserted while it is in use — `a` has no cursor yet,
    so both are picked up, in nonce order; `b:0`, already yielded, is removed (only `b`'s cursor dies);
    a second `iopen` starts generation 2 on `a:0`; another `Select` re-weighs the tied elements, which
    unlinks the priority element the iterator stands on, and its next `Next()` panics.
    `live_yields_pending` and `live_sender_increasing` speak about exactly these yields. -/
def liveExample : List LOp :=
  [.pool (.insert "a" 1 5 1), .pool (.insert "b" 0 5 2), .iopen, .pool (.insert "a" 0 5 3),
   .pool (.insert "a" 2 5 4), .inext, .pool (.remove "b" 0), .inext, .inext, .iopen, .pool .select,
   .inext, .inext]

example : (lrun liveExample).2 =
    [.none, .none, .tx ⟨"b", 0, 5, 2⟩, .none, .none, .tx ⟨"a", 0, 5, 3⟩, .none, .tx ⟨"a", 1, 5, 1⟩,
     .tx ⟨"a", 2, 5, 4⟩, .tx ⟨"a", 0, 5, 3⟩, .none, .panic, .none] ∧
    ltrace LState.init 0 liveExample =
      [(1, ⟨"b", 0, 5, 2⟩), (1, ⟨"a", 0, 5, 3⟩), (1, ⟨"a", 1, 5, 1⟩), (1, ⟨"a", 2, 5, 4⟩),
       (2, ⟨"a", 0, 5, 3⟩)] := by decide

example : Admissible (lpoolOps liveExample) := by
  simp [liveExample, lpoolOps, Admissible, AdmFrom, OpOk, pendingStep]

/-- `live_quiet_eq_selectN` on `exampleHistory`: three undisturbed rounds of the live iterator give
    the first three transactions of the snapshot model -/
example : (liveRunIter (run exampleHistory).select.1 3 (run exampleHistory).liveOpen.2).1
      = [⟨"c", 0, 7, 4⟩, ⟨"a", 0, 5, 1⟩, ⟨"a", 1, 9, 3⟩] ∧
    ((run exampleHistory).selectN 3).2.1 = [⟨"c", 0, 7, 4⟩, ⟨"a", 0, 5, 1⟩, ⟨"a", 1, 9, 3⟩] := by decide

end Paloma.Mempool
