/-
C17 — scheduled jobs are immutable and every successful execution request enqueues exactly one
contract call (job's contract, chosen payload ++ 32-byte left-padded caller) on the job's chain; a failed
request enqueues none.

Model: `Model/Scheduler.lean` (`create`, `exec`/`execRaw`, wasm wrappers, environment changes, `endBlock`).
A history is an arbitrary list of `Ev`: delivered messages (create / execute by accounts and contracts,
duplicates, failing ones, relayer outages, new snapshots, valset publication) interleaved with block ends.

History-level layer (audit 1): `every_enqueued_call_is_the_jobs`, `pending_calls_are_job_calls`,
`stored_job_is_created_request`, `id_unique_from_init` (from `State.init`), the exact effect of the accompanying
validator-set update (`sendValset_spec`, `accompanying_valset_characterised`) and the requester-address clauses
(`requester_address_cases`, `requester_address_entry_points`, `anonymous_caller_gets_zero_suffix`).
-/
import PalomaModel.Model.Scheduler

namespace Paloma.Scheduler
open List

/-! ## helper lemmas -/
section Lemmas

/-! ### queues -/

theorem calls_append (a b : List QMsg) : calls (a ++ b) = calls a ++ calls b := by
  induction a with
  | nil => rfl
  | cons m ms ih => cases m <;> simp [calls, ih]

theorem calls_clearValsets (snap : Nat) (q : List QMsg) : calls (clearValsets snap q).1 = calls q := by
  induction q with
  | nil => rfl
  | cons m ms ih =>
    cases m with
    | valset id =>
      simp only [clearValsets]
      split
      · rfl
      · simpa [calls] using ih
    | call c => simp [clearValsets, calls, ih]

theorem calls_sendValset (snap : Nat) (q : List QMsg) : calls (sendValset snap q) = calls q := by
  unfold sendValset
  dsimp only
  split
  · exact calls_clearValsets snap q
  · simp [calls_append, calls_clearValsets, calls]

theorem jit_calls (snap : Nat) (c : Chain) : calls (jit snap c).1.queue = calls c.queue := by
  unfold jit
  split
  · rfl
  · split
    · rfl
    · split
      · rfl
      · split
        · rfl
        · split
          · rfl
          · exact calls_sendValset snap c.queue

/-- `justInTimeValsetUpdate` touches nothing but the queue -/
theorem jit_env (snap : Nat) (c : Chain) :
    (jit snap c).1.active = c.active ∧ (jit snap c).1.relay = c.relay ∧ (jit snap c).1.mev = c.mev ∧
    (jit snap c).1.onChain = c.onChain := by
  unfold jit
  split
  · simp
  · split
    · simp
    · split
      · simp
      · split
        · simp
        · split <;> simp

theorem callsOf_upd (f : Env) (k : String) (c : Chain) (x : String) :
    callsOf (upd f k c) x = if x = k then calls c.queue else callsOf f x := by
  unfold callsOf upd
  by_cases h : x = k <;> simp [h]

/-- replacing a chain record by one with the same calls changes nobody's calls -/
theorem callsOf_upd_same (f : Env) (k : String) (c c' : Chain) (x : String)
    (hk : f k = some c) (hc : calls c'.queue = calls c.queue) : callsOf (upd f k c') x = callsOf f x := by
  rw [callsOf_upd]
  by_cases h : x = k
  · subst h; simp [callsOf, hk, hc]
  · simp [h]

theorem endBlockGo_calls (snap : Nat) (ns : List String) (f : Env) (x : String) :
    callsOf (endBlockGo snap ns f) x = callsOf f x := by
  induction ns generalizing f with
  | nil => rfl
  | cons n ns ih =>
    unfold endBlockGo
    split
    · exact ih f
    · rename_i c hc
      split
      · split
        · rw [ih]; exact callsOf_upd_same f n c _ x hc (jit_calls snap c)
        · rfl
      · exact ih f

theorem publishAll_calls (snap : Nat) (ns : List String) (f : Env) (x : String) :
    callsOf (publishAll snap ns f) x = callsOf f x := by
  induction ns generalizing f with
  | nil => rfl
  | cons n ns ih =>
    unfold publishAll
    split
    · exact ih f
    · rename_i c hc
      split
      · rw [ih]; exact callsOf_upd_same f n c _ x hc (by simpa using calls_sendValset snap c.queue)
      · exact ih f

theorem setMev_calls (f : Env) (k : String) (b : Bool) (x : String) :
    callsOf (setMev f k b) x = callsOf f x := by
  unfold setMev
  split
  · rfl
  · rename_i c hc; exact callsOf_upd_same f k c _ x hc rfl

theorem setRelay_calls (f : Env) (k : String) (b : Bool) (x : String) :
    callsOf (setRelay f k b) x = callsOf f x := by
  unfold setRelay
  split
  · rfl
  · rename_i c hc; exact callsOf_upd_same f k c _ x hc rfl

theorem setOnChain_calls (f : Env) (k : String) (n : Nat) (x : String) :
    callsOf (setOnChain f k n) x = callsOf f x := by
  unfold setOnChain
  split
  · rfl
  · rename_i c hc; exact callsOf_upd_same f k c _ x hc rfl

theorem preJob_calls (s : State) (ch x : String) : callsOn (preJob s ch) x = callsOn s x := by
  unfold preJob callsOn
  split
  · rfl
  · rename_i c hc; exact callsOf_upd_same s.chain ch c _ x hc (jit_calls s.snap c)

theorem preJob_jobs (s : State) (ch : String) : (preJob s ch).jobs = s.jobs := by
  unfold preJob; split <;> rfl

theorem preJob_snap (s : State) (ch : String) : (preJob s ch).snap = s.snap := by
  unfold preJob; split <;> rfl

theorem preJob_chain_self (s : State) (ch : String) (c : Chain) (h : s.chain ch = some c) :
    (preJob s ch).chain ch = some (jit s.snap c).1 := by
  unfold preJob; simp [h, upd]

theorem preJob_chain_none (s : State) (ch : String) (h : s.chain ch = none) : preJob s ch = s := by
  unfold preJob; simp [h]

theorem preJob_chain_other (s : State) (ch x : String) (h : x ≠ ch) : (preJob s ch).chain x = s.chain x := by
  unfold preJob; split
  · rfl
  · simp [upd, h]

theorem endBlock_calls (s : State) (x : String) : callsOn (endBlock s) x = callsOn s x :=
  endBlockGo_calls s.snap s.order s.chain x

/-! ### jobs -/

theorem findJob_append_some (a b : List Job) (id : Bytes) (j : Job) (h : findJob a id = some j) :
    findJob (a ++ b) id = some j := by
  unfold findJob at *
  rw [List.find?_append, h]; rfl

theorem findJob_none_iff (jobs : List Job) (id : Bytes) :
    findJob jobs id = none ↔ id ∉ jobs.map (·.id) := by
  unfold findJob
  rw [List.find?_eq_none]
  constructor
  · intro h hm
    obtain ⟨j, hj, rfl⟩ := List.mem_map.mp hm
    exact h j hj (by simp)
  · intro h j hj heq
    exact h (List.mem_map.mpr ⟨j, hj, by simpa using heq⟩)

theorem findJob_some_id (jobs : List Job) (id : Bytes) (j : Job) (h : findJob jobs id = some j) :
    j ∈ jobs ∧ j.id = id := by
  unfold findJob at h
  exact ⟨List.mem_of_find?_eq_some h, by simpa using List.find?_some h⟩

/-- everything `vetJob` checked, and the stored record is the request -/
theorem vetJob_some (jobs : List Job) (i : CreateIn) (j : Job) (h : vetJob jobs i = some j) :
    findJob jobs i.id = none ∧ i.owner ≠ [] ∧ idValid i.id = true ∧ i.chainType = "evm" ∧ i.chain ≠ "" ∧
    (i.mev = true → mevChain i.chain = true) ∧
    i.defn = some (j.contract, j.abi) ∧ i.payload = some j.payload ∧
    j.id = i.id ∧ j.owner = i.owner ∧ j.chain = i.chain ∧ j.modifiable = i.modifiable ∧ j.mev = i.mev := by
  unfold vetJob at h
  split at h
  · simp at h
  · rename_i h1
    split at h
    · simp at h
    · rename_i h2
      split at h
      · simp at h
      · rename_i h3
        split at h
        · simp at h
        · rename_i h4
          split at h
          · simp at h
          · split at h
            · simp at h
            · rename_i h6
              split at h
              · simp at h
              · rename_i h7
                split at h
                · simp at h
                · rename_i h8
                  split at h
                  · simp at h
                  · rename_i h9
                    simp only [Option.some.injEq] at h
                    subst h
                    cases hd : i.defn with
                    | none => simp [hd] at h4
                    | some d =>
                      cases hp : i.payload with
                      | none => simp [hp] at h9
                      | some p =>
                        refine ⟨by simpa using h1, ?_, by simpa using h3, by simpa using h8, ?_, ?_, ?_⟩
                        · intro he; simp [he] at h2
                        · intro he; simp [he] at h6
                        · intro hm; simpa [hm] using h7
                        · simp

/-! ### execution -/

theorem buildCall_some (s : State) (j : Job) (sup : Supplied) (caller : Caller) (call : Call)
    (h : buildCall s j sup caller = some call) :
    cannotModify j sup = false ∧
    ∃ p c, effective j sup = some p ∧ s.chain j.chain = some c ∧ caller.bytes.length ≤ 32 ∧
      pick s.snap c j.mev = true ∧
      call = { chain := j.chain, contract := j.contract, abi := j.abi, payload := p ++ leftPad32 caller.bytes,
               sender := caller.sender, contractAddr := caller.contract, mev := j.mev } := by
  unfold buildCall at h
  split at h
  · simp at h
  · rename_i h1
    split at h
    · rename_i p c hp hc
      split at h
      · rename_i full hfull
        split at h
        · rename_i hpick
          unfold inject at hfull
          split at hfull
          · simp at hfull
          · rename_i hlen
            simp only [Option.some.injEq] at hfull h
            exact ⟨by simpa using h1, p, c, hp, hc, by omega, hpick, by rw [← h, ← hfull]⟩
        · simp at h
      · simp at h
    · simp at h

theorem execRaw_some (s : State) (id : Bytes) (sup : Supplied) (caller : Caller) (call : Call)
    (h : (execRaw s id sup caller).2 = some call) :
    ∃ j, findJob s.jobs id = some j ∧ buildCall (preJob s j.chain) j sup caller = some call ∧
      (execRaw s id sup caller).1 = enqueue (preJob s j.chain) call := by
  unfold execRaw at h ⊢
  split at h
  · simp at h
  · rename_i j hj
    split at h
    · simp at h
    · rename_i call' hb
      simp only [Option.some.injEq] at h
      subst h
      exact ⟨j, by simp [hj], hb, by simp⟩

theorem execRaw_none (s : State) (id : Bytes) (sup : Supplied) (caller : Caller)
    (h : (execRaw s id sup caller).2 = none) :
    (execRaw s id sup caller).1 = s ∨ ∃ j, findJob s.jobs id = some j ∧ (execRaw s id sup caller).1 = preJob s j.chain := by
  cases hj : findJob s.jobs id with
  | none => left; simp [execRaw, hj]
  | some j =>
    cases hb : buildCall (preJob s j.chain) j sup caller with
    | none => right; exact ⟨j, rfl, by simp [execRaw, hj, hb]⟩
    | some call => simp [execRaw, hj, hb] at h

theorem enqueue_known (s : State) (call : Call) (c : Chain) (h : s.chain call.chain = some c) :
    enqueue s call = { s with chain := upd s.chain call.chain (pushCall c call) } := by
  unfold enqueue; simp [h]

theorem enqueue_jobs (s : State) (call : Call) : (enqueue s call).jobs = s.jobs := by
  unfold enqueue; split <;> rfl

/-- the shape of a successful execution: the job exists, the hook ran on the job's chain, the call was appended -/
theorem exec_some (s : State) (id : Bytes) (sup : Supplied) (caller : Caller) (call : Call)
    (h : (exec s id sup caller).2 = some call) :
    ∃ j c p, findJob s.jobs id = some j ∧ s.chain j.chain = some c ∧
      cannotModify j sup = false ∧ effective j sup = some p ∧ caller.bytes.length ≤ 32 ∧
      pick s.snap c j.mev = true ∧
      call = { chain := j.chain, contract := j.contract, abi := j.abi, payload := p ++ leftPad32 caller.bytes,
               sender := caller.sender, contractAddr := caller.contract, mev := j.mev } ∧
      (exec s id sup caller).1 =
        { s with chain := upd s.chain j.chain (pushCall (jit s.snap c).1 call) } := by
  unfold exec at h ⊢
  split at h
  · rename_i hsome
    obtain ⟨j, hj, hb, hst⟩ := execRaw_some s id sup caller call h
    obtain ⟨hcm, p, c', hp, hc', hlen, hpick, hcall⟩ := buildCall_some _ j sup caller call hb
    cases hc : s.chain j.chain with
    | none => rw [preJob_chain_none s j.chain hc] at hc'; simp [hc] at hc'
    | some c =>
      have hpre := preJob_chain_self s j.chain c hc
      rw [hpre] at hc'
      simp only [Option.some.injEq] at hc'
      subst hc'
      have hchain : call.chain = j.chain := by rw [hcall]
      refine ⟨j, c, p, hj, hc, hcm, hp, hlen, ?_, hcall, ?_⟩
      · have := jit_env s.snap c
        simpa [pick, preJob_snap, this.2.1, this.2.2.1] using hpick
      · simp only [hsome, if_true]
        rw [hst, enqueue_known _ call (jit s.snap c).1 (by rw [hchain]; exact hpre)]
        rw [hchain]
        unfold preJob
        simp only [hc]
        congr 1
        unfold upd
        congr 1
        funext x
        by_cases hx : x = j.chain <;> simp [hx]
  · simp at h

theorem exec_none (s : State) (id : Bytes) (sup : Supplied) (caller : Caller)
    (h : (exec s id sup caller).2 = none) : (exec s id sup caller).1 = s := by
  unfold exec at h ⊢
  split
  · rename_i hs; simp [hs] at h; simp [h] at hs
  · rfl

theorem enqueuedOn_cons (c : String) (r : Res) (rs : List Res) :
    enqueuedOn c (r :: rs) = enqueuedOn c [r] ++ enqueuedOn c rs := by
  cases r with
  | ok => rfl
  | rejected => rfl
  | enqueued call =>
    simp only [enqueuedOn]
    split <;> simp

/-- one atomic execution changes a chain's calls by exactly what its result reports -/
theorem exec_calls (s : State) (id : Bytes) (sup : Supplied) (caller : Caller) (x : String) :
    callsOn (exec s id sup caller).1 x = callsOn s x ++ enqueuedOn x [Res.ofCall (exec s id sup caller).2] := by
  cases h : (exec s id sup caller).2 with
  | none => rw [exec_none s id sup caller h]; simp [Res.ofCall, enqueuedOn]
  | some call =>
    obtain ⟨j, c, p, _, hc, _, _, _, _, hcall, hst⟩ := exec_some s id sup caller call h
    have hchain : call.chain = j.chain := by rw [hcall]
    rw [hst]
    simp only [callsOn, Res.ofCall, enqueuedOn, callsOf_upd, hchain]
    by_cases hx : x = j.chain
    · subst hx
      simp [pushCall, calls_append, calls, jit_calls, callsOf, hc]
    · have : ¬ (j.chain = x) := fun e => hx e.symm
      simp [hx, this]

theorem exec_jobs (s : State) (id : Bytes) (sup : Supplied) (caller : Caller) :
    (exec s id sup caller).1.jobs = s.jobs := by
  cases h : (exec s id sup caller).2 with
  | none => rw [exec_none s id sup caller h]
  | some call =>
    obtain ⟨j, c, p, _, _, _, _, _, _, _, hst⟩ := exec_some s id sup caller call h
    rw [hst]

theorem create_calls (s : State) (i : CreateIn) (x : String) : callsOn (create s i).1 x = callsOn s x := by
  unfold create; split <;> rfl

/-- a delivered message or a block end changes a chain's calls by exactly what its result reports -/
theorem stepEv_calls (s : State) (e : Ev) (x : String) :
    callsOn (stepEv s e).1 x = callsOn s x ++ enqueuedOn x [(stepEv s e).2] := by
  cases e with
  | endBlock => simp [stepEv, endBlock_calls, enqueuedOn]
  | op o =>
    cases o with
    | create i =>
      simp only [stepEv, txStep, create_calls]
      split <;> simp [enqueuedOn]
    | exec id sup caller => exact exec_calls s id sup caller x
    | execWasm addr id b =>
      simp only [stepEv, txStep]
      split
      · simp [enqueuedOn]
      · exact exec_calls s id _ _ x
    | execLegacy addr id b =>
      simp only [stepEv, txStep]
      split
      · simp [enqueuedOn]
      · exact exec_calls s id _ _ x
    | relay ch on => simp [stepEv, txStep, callsOn, setRelay_calls, enqueuedOn]
    | bump ch mev => simp [stepEv, txStep, callsOn, publishAll_calls, setMev_calls, enqueuedOn]
    | publish ch => simp [stepEv, txStep, callsOn, setOnChain_calls, enqueuedOn]

/-- the job list only ever grows at the end, and only by a vetted job -/
theorem stepEv_jobs (s : State) (e : Ev) :
    (stepEv s e).1.jobs = s.jobs ∨
    ∃ i j, e = .op (.create i) ∧ vetJob s.jobs i = some j ∧ (stepEv s e).1.jobs = s.jobs ++ [j] := by
  cases e with
  | endBlock => exact Or.inl rfl
  | op o =>
    cases o with
    | create i =>
      cases h : vetJob s.jobs i with
      | none => left; simp [stepEv, txStep, create, h]
      | some j => right; exact ⟨i, j, rfl, h, by simp [stepEv, txStep, create, h]⟩
    | exec id sup caller => exact Or.inl (exec_jobs s id sup caller)
    | execWasm addr id b =>
      left; simp only [stepEv, txStep]; split
      · rfl
      · exact exec_jobs s id _ _
    | execLegacy addr id b =>
      left; simp only [stepEv, txStep]; split
      · rfl
      · exact exec_jobs s id _ _
    | relay ch on => exact Or.inl rfl
    | bump ch mev => exact Or.inl rfl
    | publish ch => exact Or.inl rfl

theorem run_jobs_prefix (s : State) (evs : List Ev) : ∃ extra, (run s evs).jobs = s.jobs ++ extra := by
  induction evs generalizing s with
  | nil => exact ⟨[], by simp [run]⟩
  | cons e es ih =>
    obtain ⟨extra, h⟩ := ih (stepEv s e).1
    rcases stepEv_jobs s e with h1 | ⟨i, j, _, _, h1⟩
    · exact ⟨extra, by simp [run, h, h1]⟩
    · exact ⟨j :: extra, by simp [run, h, h1]⟩

theorem leftPad32_length (b : Bytes) (h : b.length ≤ 32) : (leftPad32 b).length = 32 := by
  unfold leftPad32; simp; omega

/-! ### histories -/

theorem run_append (s : State) (a b : List Ev) : run s (a ++ b) = run (run s a) b := by
  induction a generalizing s with
  | nil => rfl
  | cons x xs ih => simp only [List.cons_append, run]; exact ih _

/-- a result of a history = the result of some event, run on the state its prefix leads to -/
theorem mem_results {s : State} {evs : List Ev} {r : Res} :
    r ∈ results s evs ↔ ∃ pre e post, evs = pre ++ e :: post ∧ (stepEv (run s pre) e).2 = r := by
  induction evs generalizing s with
  | nil => simp [results]
  | cons x xs ih =>
    simp only [results, List.mem_cons]
    constructor
    · rintro (h | h)
      · exact ⟨[], x, xs, rfl, h.symm⟩
      · obtain ⟨pre, e, post, rfl, h1⟩ := ih.mp h
        exact ⟨x :: pre, e, post, rfl, h1⟩
    · rintro ⟨pre, e, post, heq, h1⟩
      cases pre with
      | nil =>
        simp only [List.nil_append, List.cons.injEq] at heq
        obtain ⟨rfl, rfl⟩ := heq
        exact Or.inl h1.symm
      | cons p ps =>
        simp only [List.cons_append, List.cons.injEq] at heq
        obtain ⟨rfl, rfl⟩ := heq
        exact Or.inr (ih.mpr ⟨ps, e, post, rfl, h1⟩)

theorem mem_enqueuedOn {x : String} {rs : List Res} {c : Call} :
    c ∈ enqueuedOn x rs ↔ Res.enqueued c ∈ rs ∧ c.chain = x := by
  induction rs with
  | nil => simp [enqueuedOn]
  | cons r rs ih =>
    cases r with
    | ok => simp [enqueuedOn, ih]
    | rejected => simp [enqueuedOn, ih]
    | enqueued c' =>
      simp only [enqueuedOn]
      split
      · rename_i hx
        simp only [List.mem_cons, ih, Res.enqueued.injEq]
        constructor
        · rintro (h | h)
          · subst h; exact ⟨Or.inl rfl, hx⟩
          · exact ⟨Or.inr h.1, h.2⟩
        · rintro ⟨h | h, h2⟩
          · exact Or.inl h
          · exact Or.inr ⟨h, h2⟩
      · rename_i hx
        simp only [List.mem_cons, ih, Res.enqueued.injEq]
        constructor
        · rintro ⟨h, h2⟩; exact ⟨Or.inr h, h2⟩
        · rintro ⟨h | h, h2⟩
          · subst h; exact absurd h2 hx
          · exact ⟨h, h2⟩

theorem ofCall_enqueued {o : Option Call} {c : Call} (h : Res.ofCall o = .enqueued c) : o = some c := by
  cases o with
  | none => simp [Res.ofCall] at h
  | some c' => simp only [Res.ofCall, Res.enqueued.injEq] at h; rw [h]

/-- only execution requests report `enqueued`, and they are `exec` on the request they carry -/
theorem stepEv_enqueued {s : State} {e : Ev} {call : Call} (h : (stepEv s e).2 = .enqueued call) :
    ∃ o id sup caller, e = .op o ∧ o.request = some (id, sup, caller) ∧
      (exec s id sup caller).2 = some call ∧ (stepEv s e).1 = (exec s id sup caller).1 := by
  cases e with
  | endBlock => simp [stepEv] at h
  | op o =>
    cases o with
    | create i =>
      simp only [stepEv, txStep] at h
      split at h <;> simp at h
    | exec id sup caller =>
      exact ⟨_, id, sup, caller, rfl, rfl, ofCall_enqueued h, rfl⟩
    | execWasm addr id b =>
      simp only [stepEv, txStep] at h ⊢
      split at h
      · simp at h
      · rename_i hc
        refine ⟨_, id, .bytes b, Caller.wasm addr, rfl, rfl, ofCall_enqueued h, ?_⟩
        rw [if_neg hc]
    | execLegacy addr id b =>
      simp only [stepEv, txStep] at h ⊢
      split at h
      · simp at h
      · rename_i hc
        refine ⟨_, id, .bytes b, Caller.wasm addr, rfl, rfl, ofCall_enqueued h, ?_⟩
        rw [if_neg hc]
    | relay ch on => simp [stepEv, txStep] at h
    | bump ch mev => simp [stepEv, txStep] at h
    | publish ch => simp [stepEv, txStep] at h

theorem effective_chosen {j : Job} {sup : Supplied} {p : Bytes}
    (hc : cannotModify j sup = false) (hp : effective j sup = some p) : p = chosen j sup := by
  cases hm : j.modifiable <;> cases sup <;> simp_all [chosen, effective, cannotModify]

/-! ### the validator-set scan -/

@[simp] theorem isCall_call (c : Call) : QMsg.isCall (.call c) = true := rfl
@[simp] theorem isCall_valset (k : Nat) : QMsg.isCall (.valset k) = false := rfl

theorem clearValsets_spec (snap : Nat) (q : List QMsg) :
    ((clearValsets snap q).2 = false ∧ QMsg.valset snap ∉ q ∧ (clearValsets snap q).1 = q.filter QMsg.isCall) ∨
    ((clearValsets snap q).2 = true ∧ ∃ a b, q = a ++ QMsg.valset snap :: b ∧ QMsg.valset snap ∉ a ∧
        (clearValsets snap q).1 = a.filter QMsg.isCall ++ QMsg.valset snap :: b) := by
  induction q with
  | nil => left; simp [clearValsets]
  | cons m ms ih =>
    cases m with
    | valset id =>
      by_cases hid : id = snap
      · subst hid
        right
        exact ⟨by simp [clearValsets], [], ms, rfl, by simp, by simp [clearValsets]⟩
      · rcases ih with ⟨h1, h2, h3⟩ | ⟨h1, a, b, h2, h3, h4⟩
        · left
          refine ⟨by simp [clearValsets, hid, h1], ?_, by simp [clearValsets, hid, h3]⟩
          simp only [List.mem_cons, QMsg.valset.injEq, not_or]
          exact ⟨fun h => hid h.symm, h2⟩
        · right
          refine ⟨by simp [clearValsets, hid, h1], .valset id :: a, b, by rw [h2]; rfl, ?_, ?_⟩
          · simp only [List.mem_cons, QMsg.valset.injEq, not_or]
            exact ⟨fun h => hid h.symm, h3⟩
          · simp [clearValsets, hid, h4]
    | call c =>
      rcases ih with ⟨h1, h2, h3⟩ | ⟨h1, a, b, h2, h3, h4⟩
      · left
        exact ⟨by simp [clearValsets, h1], by simp [h2], by simp [clearValsets, h3, List.filter_cons]⟩
      · right
        refine ⟨by simp [clearValsets, h1], .call c :: a, b, by rw [h2]; rfl, by simp [h3], ?_⟩
        simp [clearValsets, h4, List.filter_cons]

/-- when `justInTimeValsetUpdate` rewrites the queue, and to what -/
theorem jit_queue (snap : Nat) (c : Chain) :
    (jit snap c).1.queue =
      if snap ≠ 0 ∧ (∃ k, c.onChain = some k ∧ k ≠ snap) ∧ c.active = true ∧ pick snap c false = true
      then sendValset snap c.queue else c.queue := by
  by_cases h0 : snap = 0
  · simp [jit, h0]
  · cases hoc : c.onChain with
    | none => simp [jit, h0, hoc]
    | some k =>
      by_cases hk : k = snap
      · subst hk; simp [jit, h0, hoc]
      · by_cases ha : c.active = true
        · by_cases hp : pick snap c false = true
          · simp [jit, h0, hoc, hk, ha, hp]
          · simp [jit, h0, hoc, hk, ha, hp]
        · simp [jit, h0, hoc, hk, ha]

theorem sendValset_exact (snap : Nat) (q : List QMsg) :
    (QMsg.valset snap ∉ q → sendValset snap q = q.filter QMsg.isCall ++ [.valset snap]) ∧
    (QMsg.valset snap ∈ q → ∃ a b, q = a ++ QMsg.valset snap :: b ∧ QMsg.valset snap ∉ a ∧
        sendValset snap q = a.filter QMsg.isCall ++ QMsg.valset snap :: b) := by
  rcases clearValsets_spec snap q with ⟨h1, h2, h3⟩ | ⟨h1, a, b, h2, h3, h4⟩
  · refine ⟨fun _ => ?_, fun hm => absurd hm h2⟩
    simp [sendValset, h1, h3]
  · refine ⟨fun hn => absurd (by rw [h2]; simp) hn, fun _ => ⟨a, b, h2, h3, ?_⟩⟩
    simp [sendValset, h1, h4]

theorem sendValset_mem (snap : Nat) (q : List QMsg) :
    QMsg.valset snap ∈ sendValset snap q ∧
    (∀ m ∈ sendValset snap q, m ∈ q ∨ m = .valset snap) ∧
    (∀ m ∈ q, m ∈ sendValset snap q ∨ ∃ k, m = .valset k ∧ k ≠ snap) := by
  by_cases hin : QMsg.valset snap ∈ q
  · obtain ⟨a, b, hq, hna, hs⟩ := (sendValset_exact snap q).2 hin
    rw [hs]
    refine ⟨by simp, ?_, ?_⟩
    · intro m hm
      rw [List.mem_append, List.mem_cons] at hm
      rw [hq]
      rcases hm with hm | hm | hm
      · exact Or.inl (by simp [(List.mem_filter.mp hm).1])
      · exact Or.inr hm
      · exact Or.inl (by simp [hm])
    · intro m hm
      rw [hq, List.mem_append, List.mem_cons] at hm
      rcases hm with hm | hm | hm
      · cases m with
        | call c => left; simp [List.mem_filter, hm]
        | valset k =>
          right
          exact ⟨k, rfl, fun hk => hna (hk ▸ hm)⟩
      · left; simp [hm]
      · left; simp [hm]
  · have hs := (sendValset_exact snap q).1 hin
    rw [hs]
    refine ⟨by simp, ?_, ?_⟩
    · intro m hm
      rw [List.mem_append, List.mem_singleton] at hm
      rcases hm with hm | hm
      · exact Or.inl (List.mem_filter.mp hm).1
      · exact Or.inr hm
    · intro m hm
      cases m with
      | call c => left; simp [List.mem_filter, hm]
      | valset k =>
        right
        exact ⟨k, rfl, fun hk => hin (hk ▸ hm)⟩

/-- a successful execution, in the vocabulary of the property -/
theorem exec_fromJob (s : State) (id : Bytes) (sup : Supplied) (caller : Caller) (call : Call)
    (h : (exec s id sup caller).2 = some call) :
    ∃ j, findJob s.jobs id = some j ∧ call.fromJob j ∧
      call.sender = caller.sender ∧ call.contractAddr = caller.contract ∧
      call.payload = chosen j sup ++ leftPad32 caller.bytes ∧ caller.bytes.length ≤ 32 ∧
      cannotModify j sup = false ∧ effective j sup = some (chosen j sup) := by
  obtain ⟨j, c, p, hj, _, hcm, hp, hlen, _, hcall, _⟩ := exec_some s id sup caller call h
  have hpc := effective_chosen hcm hp
  subst hpc
  subst hcall
  refine ⟨j, hj, ⟨rfl, rfl, rfl, rfl, chosen j sup, caller.bytes, rfl, hlen, rfl, leftPad32_length _ hlen, ?_⟩,
    rfl, rfl, rfl, hlen, hcm, hp⟩
  intro hm
  simp [chosen, hm]

theorem job_from_create (s : State) (evs : List Ev) (j : Job) (h : j ∈ (run s evs).jobs) :
    j ∈ s.jobs ∨ ∃ pre i post, evs = pre ++ Ev.op (.create i) :: post ∧ vetJob (run s pre).jobs i = some j := by
  induction evs generalizing s with
  | nil => exact Or.inl h
  | cons e es ih =>
    rcases ih (stepEv s e).1 h with h1 | ⟨pre, i, post, rfl, hv⟩
    · rcases stepEv_jobs s e with h2 | ⟨i, j', rfl, hv, h2⟩
      · left; rw [← h2]; exact h1
      · rw [h2, List.mem_append, List.mem_singleton] at h1
        rcases h1 with h1 | rfl
        · exact Or.inl h1
        · exact Or.inr ⟨[], i, es, rfl, hv⟩
    · exact Or.inr ⟨e :: pre, i, post, rfl, hv⟩

end Lemmas

/-! ## Property theorems (C17) -/

/-- **job_fields_immutable** ("owner, target chain, contract definition, payload and flags never change after
creation"): whatever happens afterwards — creations (also with the same id), executions by anybody, failing
requests, environment changes, block ends — a stored job is still stored under its id with every field as it was. -/
theorem job_fields_immutable (s : State) (evs : List Ev) (id : Bytes) (j : Job)
    (h : findJob s.jobs id = some j) : findJob (run s evs).jobs id = some j := by
  obtain ⟨extra, he⟩ := run_jobs_prefix s evs
  rw [he]; exact findJob_append_some _ _ _ _ h

/-- **create_existing_id_fails** ("a scheduled job's id is unique", first half): creating a job under an id
that is already taken is rejected and changes nothing, whoever asks and whatever the new definition is. -/
theorem create_existing_id_fails (s : State) (i : CreateIn) (j : Job) (h : findJob s.jobs i.id = some j) :
    txStep s (.create i) = (s, .rejected) := by
  simp [txStep, create, vetJob, h]

/-- **create_stores_request**: a successful creation stores exactly the submitted fields (owner = creator) under
a fresh, well-formed id, and touches nothing else. -/
theorem create_stores_request (s : State) (i : CreateIn) (h : (txStep s (.create i)).2 = .ok) :
    ∃ j, (txStep s (.create i)).1 = { s with jobs := s.jobs ++ [j] } ∧ findJob s.jobs i.id = none ∧
      j.id = i.id ∧ j.owner = i.owner ∧ j.chain = i.chain ∧ i.defn = some (j.contract, j.abi) ∧
      i.payload = some j.payload ∧ j.modifiable = i.modifiable ∧ j.mev = i.mev ∧ idValid j.id = true := by
  cases ha : vetJob s.jobs i with
  | none => simp [txStep, create, ha] at h
  | some j =>
    obtain ⟨h1, _, h3, _, _, _, h7, h8, h9, h10, h11, h12, h13⟩ := vetJob_some s.jobs i j ha
    exact ⟨j, by simp [txStep, create, ha], h1, h9, h10, h11, h7, h8, h12, h13, by rw [h9]; exact h3⟩

/-- **id_unique** ("a scheduled job's id is unique"): over every history the stored ids are pairwise distinct. -/
theorem id_unique (s : State) (evs : List Ev) (h : (s.jobs.map (·.id)).Nodup) :
    ((run s evs).jobs.map (·.id)).Nodup := by
  induction evs generalizing s with
  | nil => exact h
  | cons e es ih =>
    apply ih
    rcases stepEv_jobs s e with h1 | ⟨i, j, _, ha, h1⟩
    · rw [h1]; exact h
    · rw [h1]
      obtain ⟨hnone, _, _, _, _, _, _, _, hid, _⟩ := vetJob_some s.jobs i j ha
      rw [List.map_append, List.nodup_append]
      refine ⟨h, by simp, ?_⟩
      intro a ha' b hb
      simp only [List.map_cons, List.map_nil, List.mem_singleton] at hb
      subst hb
      rw [hid]
      intro heq; subst heq
      exact (findJob_none_iff s.jobs i.id).mp hnone ha'

/-- **success_enqueues_exactly_one_call** ("each successful execution request enqueues exactly one contract-call
message on the job's target chain (possibly accompanied by a validator-set update for that chain) that calls
the job's contract with [the chosen payload] followed by the 32-byte left-padded address of the requester"):
if an execution request succeeds then the job exists; the message's contract, ABI and MEV flag are the job's,
its sender / contract address are the caller's, its payload is the chosen payload followed by exactly 32 bytes,
the left-padded caller; the job chain's queue is the queue after the `justInTimeValsetUpdate` hook plus this
one message at the end, so its contract calls are the old ones plus this one; every other chain record, the job
store and the snapshot are untouched. -/
theorem success_enqueues_exactly_one_call (s : State) (id : Bytes) (sup : Supplied) (caller : Caller) (call : Call)
    (h : (exec s id sup caller).2 = some call) :
    ∃ j c p, findJob s.jobs id = some j ∧ s.chain j.chain = some c ∧ effective j sup = some p ∧
      call.chain = j.chain ∧ call.contract = j.contract ∧ call.abi = j.abi ∧ call.mev = j.mev ∧
      call.sender = caller.sender ∧ call.contractAddr = caller.contract ∧
      call.payload = p ++ leftPad32 caller.bytes ∧ (leftPad32 caller.bytes).length = 32 ∧
      (∃ c', (exec s id sup caller).1.chain j.chain = some c' ∧
        c'.queue = (jit s.snap c).1.queue ++ [.call call] ∧
        calls c'.queue = calls c.queue ++ [call]) ∧
      (∀ x, x ≠ j.chain → (exec s id sup caller).1.chain x = s.chain x) ∧
      (exec s id sup caller).1.jobs = s.jobs ∧ (exec s id sup caller).1.snap = s.snap := by
  obtain ⟨j, c, p, hj, hc, _, hp, hlen, _, hcall, hst⟩ := exec_some s id sup caller call h
  subst hcall
  refine ⟨j, c, p, hj, hc, hp, rfl, rfl, rfl, rfl, rfl, rfl, rfl, leftPad32_length _ hlen, ?_, ?_, ?_, ?_⟩
  · refine ⟨pushCall (jit s.snap c).1 _, by rw [hst]; simp [upd], rfl, ?_⟩
    simp [pushCall, calls_append, calls, jit_calls]
  · intro x hx; rw [hst]; simp [upd, hx]
  · rw [hst]
  · rw [hst]

/-- **caller_payload_iff_modifiable** ("the job's stored payload — or the caller-supplied payload if and only if
the job was created as payload-modifiable"): in a successful execution the payload in front of the caller is
the supplied one exactly when the job is modifiable and something was supplied; a fixed job only succeeds when
nothing (non-empty) was supplied and then uses its stored payload; a modifiable job without a supplied payload
uses its stored payload. -/
theorem caller_payload_iff_modifiable (s : State) (id : Bytes) (sup : Supplied) (caller : Caller) (call : Call)
    (h : (exec s id sup caller).2 = some call) :
    ∃ j, findJob s.jobs id = some j ∧
      (j.modifiable = true → ∀ b, sup = .bytes b → call.payload = b ++ leftPad32 caller.bytes) ∧
      (j.modifiable = true → sup = .absent → call.payload = j.payload ++ leftPad32 caller.bytes) ∧
      (j.modifiable = true → sup ≠ .empty ∧ sup ≠ .bad) ∧
      (j.modifiable = false → (sup = .absent ∨ sup = .empty) ∧ call.payload = j.payload ++ leftPad32 caller.bytes) := by
  obtain ⟨j, c, p, hj, _, hcm, hp, _, _, hcall, _⟩ := exec_some s id sup caller call h
  refine ⟨j, hj, ?_, ?_, ?_, ?_⟩
  · intro hm b hb
    subst hb
    simp [effective, hm] at hp
    rw [hcall, hp]
  · intro hm hb
    subst hb
    simp [effective, hm] at hp
    rw [hcall, hp]
  · intro hm
    constructor <;> (intro hb; subst hb; simp [effective, hm] at hp)
  · intro hm
    simp [effective, hm] at hp
    rw [hcall, hp]
    refine ⟨?_, rfl⟩
    cases sup with
    | absent => exact Or.inl rfl
    | empty => exact Or.inr rfl
    | bad => simp [cannotModify, hm] at hcm
    | bytes b => simp [cannotModify, hm] at hcm

/-- **failure_enqueues_no_call** ("a failed request enqueues no contract call"): a failed execution request —
unknown job, payload not allowed or unparsable, unknown chain, caller longer than 32 bytes, no relayer — leaves
the whole state as it was (the message is atomic). -/
theorem failure_enqueues_no_call (s : State) (id : Bytes) (sup : Supplied) (caller : Caller)
    (h : (exec s id sup caller).2 = none) : (exec s id sup caller).1 = s :=
  exec_none s id sup caller h

/-- **failure_enqueues_no_call_raw**: even without the rollback of the enclosing message, the keeper function
leaves every chain's contract calls and the job store as they were when it fails (it may have enqueued a
validator-set update in its PreJobExecution hook). -/
theorem failure_enqueues_no_call_raw (s : State) (id : Bytes) (sup : Supplied) (caller : Caller)
    (h : (execRaw s id sup caller).2 = none) :
    (∀ x, callsOn (execRaw s id sup caller).1 x = callsOn s x) ∧ (execRaw s id sup caller).1.jobs = s.jobs := by
  rcases execRaw_none s id sup caller h with h1 | ⟨j, _, h1⟩
  · rw [h1]; exact ⟨fun _ => rfl, rfl⟩
  · rw [h1]; exact ⟨fun x => preJob_calls s j.chain x, preJob_jobs s j.chain⟩

/-- **exec_fails_iff**: an execution request is rejected exactly when the job is unknown, a payload was supplied
for a fixed job, the supplied document does not parse, the job's chain is unknown, the caller is longer than 32
bytes, or no relayer can be picked. -/
theorem exec_fails_iff (s : State) (id : Bytes) (sup : Supplied) (caller : Caller) :
    (exec s id sup caller).2 = none ↔
      (findJob s.jobs id = none ∨ ∃ j, findJob s.jobs id = some j ∧
        (cannotModify j sup = true ∨ effective j sup = none ∨ s.chain j.chain = none ∨ caller.bytes.length > 32 ∨
         ∃ c, s.chain j.chain = some c ∧ pick s.snap c j.mev = false)) := by
  constructor
  · intro h
    cases hj : findJob s.jobs id with
    | none => exact Or.inl rfl
    | some j =>
      right; refine ⟨j, rfl, ?_⟩
      by_cases h1 : cannotModify j sup = true
      · exact Or.inl h1
      · cases h2 : effective j sup with
        | none => exact Or.inr (Or.inl rfl)
        | some p =>
          cases h3 : s.chain j.chain with
          | none => exact Or.inr (Or.inr (Or.inl rfl))
          | some c =>
            by_cases h4 : caller.bytes.length > 32
            · exact Or.inr (Or.inr (Or.inr (Or.inl h4)))
            · by_cases h5 : pick s.snap c j.mev = true
              · exfalso
                have hpre := preJob_chain_self s j.chain c h3
                have henv := jit_env s.snap c
                have : (execRaw s id sup caller).2.isSome = true := by
                  unfold execRaw
                  simp only [hj]
                  unfold buildCall
                  simp only [h1, h2, hpre, inject, h4, preJob_snap]
                  have : pick s.snap (jit s.snap c).1 j.mev = true := by
                    simpa [pick, henv.2.1, henv.2.2.1] using h5
                  simp [this]
                unfold exec at h
                simp [this] at h
                simp [h] at this
              · exact Or.inr (Or.inr (Or.inr (Or.inr ⟨c, rfl, by simpa using h5⟩)))
  · intro h
    cases hres : (exec s id sup caller).2 with
    | none => rfl
    | some call =>
      exfalso
      obtain ⟨j, c, p, hj, hc, hcm, hp, hlen, hpick, _, _⟩ := exec_some s id sup caller call hres
      rcases h with h | ⟨j', hj', h⟩
      · simp [hj] at h
      · rw [hj] at hj'; simp only [Option.some.injEq] at hj'; subst hj'
        rcases h with h | h | h | h | ⟨c', hc', h⟩
        · simp [hcm] at h
        · simp [hp] at h
        · simp [hc] at h
        · omega
        · rw [hc] at hc'; simp only [Option.some.injEq] at hc'; subst hc'; simp [hpick] at h

/-- **contract_execute**: the wasm binding (`scheduler_msg.execute_job`, and the legacy message) is an execution
by caller = sender = contract with the raw bytes as supplied payload; the new-style message is rejected outright
for an empty job id or empty payload, the legacy one for an empty job id. -/
theorem contract_execute (s : State) (addr id b : Bytes) :
    (id ≠ [] → b ≠ [] → txStep s (.execWasm addr id b) =
        ((exec s id (.bytes b) (Caller.wasm addr)).1, Res.ofCall (exec s id (.bytes b) (Caller.wasm addr)).2)) ∧
    ((id = [] ∨ b = []) → txStep s (.execWasm addr id b) = (s, .rejected)) ∧
    (id ≠ [] → txStep s (.execLegacy addr id b) =
        ((exec s id (.bytes b) (Caller.wasm addr)).1, Res.ofCall (exec s id (.bytes b) (Caller.wasm addr)).2)) ∧
    (id = [] → txStep s (.execLegacy addr id b) = (s, .rejected)) ∧
    (Caller.wasm addr).bytes = addr ∧ (Caller.account addr).bytes = addr := by
  refine ⟨?_, ?_, ?_, ?_, rfl, rfl⟩
  · intro h1 h2
    have : (id.length == 0 || b.length == 0) = false := by
      cases id <;> cases b <;> simp_all
    simp [txStep, this]
  · intro h
    have : (id.length == 0 || b.length == 0) = true := by
      rcases h with h | h <;> simp [h]
    simp [txStep, this]
  · intro h1
    have : (id.length == 0) = false := by cases id <;> simp_all
    simp [txStep, this]
  · intro h; simp [txStep, h]

/-- **calls_track_results** (history form of "exactly one per successful request, none per failed one"): over
every history, the contract calls pending on a chain are the ones that were there plus, in order, exactly the
calls reported by the successful execution requests for that chain — creations, failed requests, environment
changes, valset updates and block ends add none and remove none. -/
theorem calls_track_results (s : State) (evs : List Ev) (x : String) :
    callsOn (run s evs) x = callsOn s x ++ enqueuedOn x (results s evs) := by
  induction evs generalizing s with
  | nil => simp [run, results, enqueuedOn]
  | cons e es ih =>
    simp only [run, results]
    rw [ih, stepEv_calls, List.append_assoc, ← enqueuedOn_cons]

/-- **inject_suffix**: the enqueued payload is the chosen payload (its prefix) followed by exactly 32 bytes whose
tail is the caller and whose head is zero padding; it fails precisely for callers longer than 32 bytes. -/
theorem inject_suffix (p caller r : Bytes) (h : inject p caller = some r) :
    caller.length ≤ 32 ∧ r.length = p.length + 32 ∧ r.take p.length = p ∧ r.drop p.length = leftPad32 caller ∧
    (r.drop p.length).drop (32 - caller.length) = caller ∧
    (r.drop p.length).take (32 - caller.length) = List.replicate (32 - caller.length) 0 := by
  unfold inject at h
  split at h
  · simp at h
  · rename_i hl
    simp only [Option.some.injEq] at h
    subst h
    have hlen : caller.length ≤ 32 := by omega
    refine ⟨hlen, ?_, ?_, ?_, ?_, ?_⟩
    · simp [leftPad32]; omega
    · simp
    · simp
    · simp [leftPad32]
    · simp [leftPad32]

theorem inject_none_iff (p caller : Bytes) : inject p caller = none ↔ caller.length > 32 := by
  unfold inject; split <;> simp_all

/-- **inject_injective**: for callers of one length (accounts: 20 bytes, contracts: 32 bytes) the enqueued
payload determines both the chosen payload and the caller. -/
theorem inject_injective (p₁ p₂ c₁ c₂ r : Bytes) (hlen : c₁.length = c₂.length)
    (h₁ : inject p₁ c₁ = some r) (h₂ : inject p₂ c₂ = some r) : p₁ = p₂ ∧ c₁ = c₂ := by
  obtain ⟨hl1, hr1, ht1, _, hd1, _⟩ := inject_suffix p₁ c₁ r h₁
  obtain ⟨hl2, hr2, ht2, _, hd2, _⟩ := inject_suffix p₂ c₂ r h₂
  have hp : p₁.length = p₂.length := by omega
  constructor
  · rw [← ht1, ← ht2, hp]
  · rw [← hd1, ← hd2, hp, hlen]

/-! ### history level -/

/-- **id_unique** without a hypothesis: from a chain start (`State.init`: no jobs, arbitrary environment) the
stored job ids are pairwise distinct after every history. -/
theorem id_unique_from_init (order : List String) (chain : Env) (snap : Nat) (evs : List Ev) :
    ((run (State.init order chain snap) evs).jobs.map (·.id)).Nodup :=
  id_unique _ evs (by simp [State.init])

/-- **job_fields_immutable**, provenance: every job in the store after a history from a chain start was put
there by a successful create event of that history, with exactly the fields of that request (`vetJob` /
`create_stores_request`: owner = creator, chain, definition, payload, flags), and is found under its id. -/
theorem stored_job_is_created_request (order : List String) (chain : Env) (snap : Nat) (evs : List Ev) (j : Job)
    (h : j ∈ (run (State.init order chain snap) evs).jobs) :
    (∃ pre i post, evs = pre ++ Ev.op (.create i) :: post ∧
      vetJob (run (State.init order chain snap) pre).jobs i = some j ∧
      j.id = i.id ∧ j.owner = i.owner ∧ j.chain = i.chain ∧ i.defn = some (j.contract, j.abi) ∧
      i.payload = some j.payload ∧ j.modifiable = i.modifiable ∧ j.mev = i.mev) ∧
    findJob (run (State.init order chain snap) evs).jobs j.id = some j := by
  constructor
  · rcases job_from_create _ evs j h with h1 | ⟨pre, i, post, heq, hv⟩
    · simp [State.init] at h1
    · obtain ⟨_, _, _, _, _, _, h7, h8, h9, h10, h11, h12, h13⟩ := vetJob_some _ i j hv
      exact ⟨pre, i, post, heq, hv, h9, h10, h11, h7, h8, h12, h13⟩
  · have hnd := id_unique_from_init order chain snap evs
    generalize (run (State.init order chain snap) evs).jobs = jobs at h hnd
    induction jobs with
    | nil => cases h
    | cons x xs ih =>
      simp only [List.map_cons, List.nodup_cons] at hnd
      rcases List.mem_cons.mp h with rfl | hx
      · simp [findJob]
      · have hne : x.id ≠ j.id := fun he => hnd.1 (he ▸ List.mem_map.mpr ⟨j, hx, rfl⟩)
        have : findJob (x :: xs) j.id = findJob xs j.id := by
          simp [findJob, hne]
        rw [this]
        exact ih hx hnd.2

/-- **every_enqueued_call_is_the_jobs** (history form of "each successful execution request enqueues exactly one
contract-call message on the job's target chain … that calls the job's contract with the job's stored payload —
or the caller-supplied payload if and only if the job was created as payload-modifiable — followed by the 32-byte
left-padded address of the account or contract that requested the execution").  Cut ANY history anywhere; if the
next event reports `enqueued call`, then

* the event is an execution request (`MsgExecuteJob` / keeper call, wasm binding, legacy binding) for a job `j`
  stored under the requested id at that moment — and still stored, unchanged, at the end of the history;
* `call` is on `j`'s chain, for `j`'s contract with `j`'s ABI and MEV flag, names the requester in
  `SenderAddress` / `ContractAddress`, and its payload is `chosen j sup` (the stored payload for a fixed job,
  the supplied bytes for a modifiable job that was handed bytes, the stored payload for a modifiable job that
  was handed nothing) followed by exactly 32 bytes: the left-padded requester address;
* a fixed job was handed nothing (`cannotModify = false`); a modifiable one was not handed an unparsable document;
* the pending contract calls of `j`'s chain grow by exactly this one call at the end, those of every other
  chain do not change. -/
theorem every_enqueued_call_is_the_jobs (s : State) (pre : List Ev) (e : Ev) (post : List Ev) (call : Call)
    (h : (stepEv (run s pre) e).2 = .enqueued call) :
    ∃ o id sup caller j, e = .op o ∧ o.request = some (id, sup, caller) ∧
      findJob (run s pre).jobs id = some j ∧ findJob (run s (pre ++ e :: post)).jobs id = some j ∧
      call.fromJob j ∧ call.sender = caller.sender ∧ call.contractAddr = caller.contract ∧
      call.payload = chosen j sup ++ leftPad32 caller.bytes ∧ (leftPad32 caller.bytes).length = 32 ∧
      cannotModify j sup = false ∧ (j.modifiable = true → sup ≠ .empty ∧ sup ≠ .bad) ∧
      callsOn (stepEv (run s pre) e).1 j.chain = callsOn (run s pre) j.chain ++ [call] ∧
      ∀ x, x ≠ j.chain → callsOn (stepEv (run s pre) e).1 x = callsOn (run s pre) x := by
  obtain ⟨o, id, sup, caller, he, hreq, hex, _⟩ := stepEv_enqueued h
  obtain ⟨j, hj, hfrom, hs, hc, hpay, hlen, hcm, heff⟩ := exec_fromJob _ id sup caller call hex
  refine ⟨o, id, sup, caller, j, he, hreq, hj, ?_, hfrom, hs, hc, hpay, leftPad32_length _ hlen, hcm, ?_, ?_, ?_⟩
  · rw [run_append]
    exact job_fields_immutable _ _ _ _ hj
  · intro hm
    constructor <;> (intro hb; subst hb; simp [effective, hm] at heff)
  · rw [stepEv_calls, h]
    simp [enqueuedOn, hfrom.1]
  · intro x hx
    rw [stepEv_calls, h]
    have : ¬ call.chain = x := by rw [hfrom.1]; exact fun he => hx he.symm
    simp [enqueuedOn, this]

/-- **pending_calls_are_job_calls** (the queue after any history): every contract call pending on chain `x`
after a history was pending before it, or it is on `x` and calls a job that is in the store at the end of the
history — that job's chain, contract, ABI, MEV flag, and (for a fixed job) that job's stored payload, followed
by the 32-byte left-padded address the message itself names as requester (`Call.fromJob`). -/
theorem pending_calls_are_job_calls (s : State) (evs : List Ev) (x : String) (c : Call)
    (h : c ∈ callsOn (run s evs) x) :
    c ∈ callsOn s x ∨ (c.chain = x ∧ ∃ j, j ∈ (run s evs).jobs ∧ c.fromJob j) := by
  rw [calls_track_results, List.mem_append] at h
  rcases h with h | h
  · exact Or.inl h
  · right
    obtain ⟨hmem, hx⟩ := mem_enqueuedOn.mp h
    obtain ⟨pre, e, post, rfl, hr⟩ := mem_results.mp hmem
    obtain ⟨_, id, _, _, j, _, _, _, hj, hfrom, _⟩ := every_enqueued_call_is_the_jobs s pre e post c hr
    exact ⟨hx, j, (findJob_some_id _ _ _ hj).1, hfrom⟩

/-- **rejected_event_is_noop** ("a failed request enqueues no contract call", all entry points): an event whose
result is `rejected` — a refused creation, an execution request that fails anywhere (unknown job, payload not
allowed or unparsable, unknown chain, requester longer than 32 bytes, no relayer / no MEV relayer), a binding
call with an empty id or payload — leaves the whole state unchanged.
ASSUMPTION (baseapp / wasmd): a failing message's store branch is discarded; what the keeper did inside the
branch before failing is characterised by `failure_enqueues_no_call_raw` (never a contract call). -/
theorem rejected_event_is_noop (s : State) (e : Ev) (h : (stepEv s e).2 = .rejected) : (stepEv s e).1 = s := by
  have ofCall_rej : ∀ o : Option Call, Res.ofCall o = .rejected → o = none := by
    intro o ho; cases o <;> simp_all [Res.ofCall]
  cases e with
  | endBlock => simp [stepEv] at h
  | op o =>
    cases o with
    | create i =>
      simp only [stepEv, txStep] at h ⊢
      cases hv : vetJob s.jobs i with
      | none => simp [create, hv]
      | some j => simp [create, hv] at h
    | exec id sup caller => exact exec_none s id sup caller (ofCall_rej _ h)
    | execWasm addr id b =>
      simp only [stepEv, txStep] at h ⊢
      split
      · rfl
      · rename_i hc
        rw [if_neg hc] at h
        exact exec_none s id _ _ (ofCall_rej _ h)
    | execLegacy addr id b =>
      simp only [stepEv, txStep] at h ⊢
      split
      · rfl
      · rename_i hc
        rw [if_neg hc] at h
        exact exec_none s id _ _ (ofCall_rej _ h)
    | relay ch on => simp [stepEv, txStep] at h
    | bump ch mev => simp [stepEv, txStep] at h
    | publish ch => simp [stepEv, txStep] at h

/-! ### the requester address -/

/-- **requester_address** ("the 32-byte left-padded address of the account or contract that requested the
execution"), every kind of caller explicitly.  `evm.ExecuteJob` pads `SenderAddress` if it is non-nil, else
`ContractAddress` if it is non-nil, else NOTHING (an empty byte string, i.e. 32 zero bytes — no error). -/
theorem requester_address_cases (c : Caller) :
    (∀ a, c.sender = some a → c.addr = some a ∧ c.bytes = a) ∧
    (∀ a, c.sender = none → c.contract = some a → c.addr = some a ∧ c.bytes = a) ∧
    (c.sender = none → c.contract = none →
      c.addr = none ∧ c.bytes = [] ∧ leftPad32 c.bytes = List.replicate 32 0) := by
  refine ⟨?_, ?_, ?_⟩
  · intro a h; simp [Caller.addr, Caller.bytes, h]
  · intro a h1 h2; simp [Caller.addr, Caller.bytes, h1, h2]
  · intro h1 h2; simp [Caller.addr, Caller.bytes, h1, h2, leftPad32]

/-- **requester_address**, the message-level entry points.  The callers that `MsgExecuteJob` (account) and the
two wasm bindings (contract) build — `Caller.entryPoint`: a non-empty SDK address of at most 32 bytes, as sender
(and, for contracts, as contract address too) — always HAVE a requester address `a`; the padding never fails for
them; and the 32 injected bytes are `32 − |a|` zero bytes followed by `a`.  The bindings' caller is the contract
address (`contract_execute`).
ASSUMPTION (SDK / wasmd): a transaction signer's `GetAccount(creator).GetAddress()` and a contract's address are
non-empty and at most 32 bytes long. -/
theorem requester_address_entry_points (c : Caller) (h : c.entryPoint) (p : Bytes) :
    ∃ a, c.addr = some a ∧ c.bytes = a ∧ c.sender = some a ∧ a ≠ [] ∧ a.length ≤ 32 ∧
      inject p c.bytes = some (p ++ leftPad32 a) ∧ (leftPad32 a).length = 32 ∧
      (leftPad32 a).drop (32 - a.length) = a ∧
      (leftPad32 a).take (32 - a.length) = List.replicate (32 - a.length) 0 := by
  obtain ⟨a, hne, hlen, hc⟩ := h
  have hb : c.bytes = a ∧ c.addr = some a ∧ c.sender = some a := by
    rcases hc with rfl | rfl <;> exact ⟨rfl, rfl, rfl⟩
  refine ⟨a, hb.2.1, hb.1, hb.2.2, hne, hlen, ?_, leftPad32_length a hlen, ?_, ?_⟩
  · rw [hb.1]; unfold inject; rw [if_neg (by omega)]
  · simp [leftPad32]
  · simp [leftPad32]

/-- **requester_address**, the keeper-level corner.  A successful execution for a caller WITHOUT a requester
address (both `nil`), or with an empty one, carries 32 zero bytes after the chosen payload: the keeper API does
not refuse it.  (`anonymous_caller_reachable` below: it does succeed, from a chain start.)  No transaction or
contract message builds such a caller (`requester_address_entry_points`). -/
theorem anonymous_caller_gets_zero_suffix (s : State) (id : Bytes) (sup : Supplied) (caller : Caller) (call : Call)
    (h : (exec s id sup caller).2 = some call) (hanon : caller.addr = none ∨ caller.addr = some []) :
    ∃ j, findJob s.jobs id = some j ∧ call.payload = chosen j sup ++ List.replicate 32 0 := by
  obtain ⟨j, hj, _, _, _, hpay, _⟩ := exec_fromJob s id sup caller call h
  refine ⟨j, hj, ?_⟩
  have hb : caller.bytes = [] := by
    unfold Caller.bytes
    unfold Caller.addr at hanon
    rcases hanon with h1 | h1 <;> rw [h1] <;> rfl
  rw [hpay, hb]
  simp [leftPad32]

/-- a left-padded address is 32 zero bytes only if the address itself consists of zero bytes -/
theorem leftPad32_zero (a : Bytes) (h : leftPad32 a = List.replicate 32 0) : a = List.replicate a.length 0 := by
  unfold leftPad32 at h
  exact (List.append_eq_replicate_iff.mp h).2.2

/-- **requester_address** over histories, for everything a transaction or a contract can cause.  Cut ANY history
anywhere; let the next event be an operation at MESSAGE level (`Op.messageLevel`: `MsgExecuteJob` by an account,
or one of the two bindings called by wasmd for a contract — requester address `a` non-empty, at most 32 bytes)
that reports `enqueued call`.  Then the message names `a` as `SenderAddress` (and, for a contract, as
`ContractAddress` too; for an account there is no contract address), its payload is the chosen payload followed by
`32 − |a|` zero bytes and then `a`, and those 32 bytes are all zero only if `a` itself is all zero bytes.  In
particular the "no requester" suffix of `anonymous_caller_gets_zero_suffix` never comes from a message.

ASSUMPTION (SDK / wasmd), carried by `Op.messageLevel`: the signer's account address and the address wasmd
passes as `contractAddr` are non-empty and at most 32 bytes long.  The op alphabet admits more (an `execWasm`
with an empty or over-long address): `exec_wasm_outside_message_level`. -/
theorem message_level_request_names_requester (s : State) (pre : List Ev) (o : Op) (call : Call)
    (h : (stepEv (run s pre) (.op o)).2 = .enqueued call) (hm : o.messageLevel) :
    ∃ a id sup caller j, a ≠ [] ∧ a.length ≤ 32 ∧ o.request = some (id, sup, caller) ∧
      (caller = Caller.account a ∨ caller = Caller.wasm a) ∧
      findJob (run s pre).jobs id = some j ∧ call.fromJob j ∧
      call.sender = some a ∧ call.contractAddr = caller.contract ∧
      call.payload = chosen j sup ++ (List.replicate (32 - a.length) 0 ++ a) ∧
      (List.replicate (32 - a.length) (0 : UInt8) ++ a).length = 32 ∧
      (List.replicate (32 - a.length) (0 : UInt8) ++ a = List.replicate 32 0 → a = List.replicate a.length 0) := by
  obtain ⟨o', id, sup, caller, he, hreq, hex, _⟩ := stepEv_enqueued h
  cases he
  obtain ⟨j, hj, hfrom, hs, hc, hpay, _, _, _⟩ := exec_fromJob _ id sup caller call hex
  have key : ∀ a : Bytes, sdkAddr a → (caller = Caller.account a ∨ caller = Caller.wasm a) →
      ∃ a id' sup' caller' j, a ≠ [] ∧ a.length ≤ 32 ∧ some (id, sup, caller) = some (id', sup', caller') ∧
      (caller' = Caller.account a ∨ caller' = Caller.wasm a) ∧
      findJob (run s pre).jobs id' = some j ∧ call.fromJob j ∧
      call.sender = some a ∧ call.contractAddr = caller'.contract ∧
      call.payload = chosen j sup' ++ (List.replicate (32 - a.length) 0 ++ a) ∧
      (List.replicate (32 - a.length) (0 : UInt8) ++ a).length = 32 ∧
      (List.replicate (32 - a.length) (0 : UInt8) ++ a = List.replicate 32 0 → a = List.replicate a.length 0) := by
    intro a ha hca
    have hb : caller.bytes = a ∧ caller.sender = some a := by
      rcases hca with rfl | rfl <;> exact ⟨rfl, rfl⟩
    refine ⟨a, id, sup, caller, j, ha.1, ha.2, rfl, hca, hj, hfrom, by rw [hs, hb.2], hc, ?_, ?_, ?_⟩
    · rw [hpay, hb.1]; rfl
    · have := leftPad32_length a ha.2
      simpa [leftPad32] using this
    · intro hz
      exact leftPad32_zero a hz
  cases o with
  | exec id0 sup0 caller0 =>
    simp only [Op.request, Option.some.injEq, Prod.mk.injEq] at hreq
    obtain ⟨rfl, rfl, rfl⟩ := hreq
    obtain ⟨a, ha, hca⟩ := hm
    exact key a ha (Or.inl hca)
  | execWasm addr id0 b =>
    simp only [Op.request, Option.some.injEq, Prod.mk.injEq] at hreq
    obtain ⟨rfl, rfl, rfl⟩ := hreq
    exact key addr hm (Or.inr rfl)
  | execLegacy addr id0 b =>
    simp only [Op.request, Option.some.injEq, Prod.mk.injEq] at hreq
    obtain ⟨rfl, rfl, rfl⟩ := hreq
    exact key addr hm (Or.inr rfl)
  | create i => simp [Op.request] at hreq
  | relay _ _ => simp [Op.request] at hreq
  | bump _ _ => simp [Op.request] at hreq
  | publish _ => simp [Op.request] at hreq

/-- **requester_address**, the wasm bindings outside message level.  The model's `execWasm` / `execLegacy`
take any byte string as contract address.  With an address longer than 32 bytes the request is REJECTED without
effect ("Can not zero pad byte array"); with the EMPTY address it can succeed and then carries 32 zero bytes —
the same corner as `anonymous_caller_gets_zero_suffix`.  wasmd never passes either (contract addresses are 32
bytes): the restriction is `Op.messageLevel`, an assumption on the environment, not something the keeper checks. -/
theorem exec_wasm_outside_message_level (s : State) (addr id b : Bytes) :
    (addr.length > 32 →
      stepEv s (.op (.execWasm addr id b)) = (s, .rejected) ∧ stepEv s (.op (.execLegacy addr id b)) = (s, .rejected)) ∧
    (addr = [] → ∀ call, (stepEv s (.op (.execWasm addr id b))).2 = .enqueued call →
      ∃ j, findJob s.jobs id = some j ∧ call.payload = chosen j (.bytes b) ++ List.replicate 32 0) := by
  constructor
  · intro hlen
    have hnone : (exec s id (.bytes b) (Caller.wasm addr)).2 = none := by
      rw [exec_fails_iff]
      cases hj : findJob s.jobs id with
      | none => exact Or.inl rfl
      | some j => exact Or.inr ⟨j, rfl, Or.inr (Or.inr (Or.inr (Or.inl hlen)))⟩
    have hst := exec_none s id (.bytes b) (Caller.wasm addr) hnone
    constructor
    · simp only [stepEv, txStep]
      split
      · rfl
      · rw [hnone, hst]; rfl
    · simp only [stepEv, txStep]
      split
      · rfl
      · rw [hnone, hst]; rfl
  · intro ha call h
    subst ha
    obtain ⟨o', id', sup, caller, he, hreq, hex, _⟩ := stepEv_enqueued h
    cases he
    simp only [Op.request, Option.some.injEq, Prod.mk.injEq] at hreq
    obtain ⟨rfl, rfl, rfl⟩ := hreq
    exact anonymous_caller_gets_zero_suffix s id _ _ call hex (Or.inr rfl)

/-- **requester_address**, what the 32 bytes do NOT tell.  Left-padding is idempotent, so the payload suffix
of a request by a requester `a` and of a request by the 32-byte address `0…0‖a` (`leftPad32 a`) are the same:
`inject p a = inject p (leftPad32 a)`.  The realistic instance: a 20-byte ACCOUNT `a` and the 32-byte CONTRACT
address `0¹²‖a`.  Two successful requests for the same job with the same supplied payload, one by the account
and one by that contract, enqueue messages with identical chain, contract, ABI and payload; they differ only in
the `SenderAddress` / `ContractAddress` fields next to the payload.  The target contract, which sees the
payload only, cannot tell the two requesters apart. -/
theorem account_and_padded_contract_same_payload (s : State) (id : Bytes) (sup : Supplied) (a : Bytes)
    (c1 c2 : Call) (hlen : a.length = 20)
    (h1 : (exec s id sup (Caller.account a)).2 = some c1)
    (h2 : (exec s id sup (Caller.wasm (List.replicate 12 0 ++ a))).2 = some c2) :
    (∀ p, inject p a = inject p (List.replicate 12 0 ++ a)) ∧
    c1.payload = c2.payload ∧ c1.chain = c2.chain ∧ c1.contract = c2.contract ∧ c1.abi = c2.abi ∧
    c1.mev = c2.mev ∧ c1.sender = some a ∧ c2.sender = some (List.replicate 12 0 ++ a) ∧
    c1.contractAddr = none ∧ c2.contractAddr = some (List.replicate 12 0 ++ a) ∧ c1 ≠ c2 := by
  have hpad : leftPad32 (List.replicate 12 0 ++ a) = leftPad32 a := by
    simp [leftPad32, hlen]
  obtain ⟨j1, hj1, hf1, hs1, hc1, hp1, _⟩ := exec_fromJob s id sup _ c1 h1
  obtain ⟨j2, hj2, hf2, hs2, hc2, hp2, _⟩ := exec_fromJob s id sup _ c2 h2
  rw [hj1] at hj2
  simp only [Option.some.injEq] at hj2
  subst hj2
  have hb1 : (Caller.account a).bytes = a := rfl
  have hb2 : (Caller.wasm (List.replicate 12 0 ++ a)).bytes = List.replicate 12 0 ++ a := rfl
  refine ⟨?_, ?_, by rw [hf1.1, hf2.1], by rw [hf1.2.1, hf2.2.1], by rw [hf1.2.2.1, hf2.2.2.1],
    by rw [hf1.2.2.2.1, hf2.2.2.2.1], hs1, hs2, hc1, hc2, ?_⟩
  · intro p
    unfold inject
    have l1 : ¬ a.length > 32 := by omega
    have l2 : ¬ (List.replicate 12 (0 : UInt8) ++ a).length > 32 := by simp; omega
    rw [if_neg l1, if_neg l2, hpad]
  · rw [hp1, hp2, hb1, hb2, hpad]
  · intro heq
    have : c1.contractAddr = c2.contractAddr := by rw [heq]
    rw [hc1, hc2] at this
    cases this

/-- **pending_call_provenance** (queue level, the chosen payload included).  Every contract call pending on
chain `x` after a history was pending before it, or it was put there by an execution-request operation `o` of
the history: `o` asked for job id `id` with supplied payload `sup` for requester `caller`, reported exactly this
call, the job `j` stored under `id` at that moment is still stored unchanged at the end, the call is on `x` =
`j`'s chain for `j`'s contract / ABI / MEV flag, and its payload is `chosen j sup` — `j`'s stored payload for a
fixed job (which was handed nothing), THE BYTES THAT OPERATION SUPPLIED for a modifiable job handed bytes —
followed by the left-padded requester of that operation. -/
theorem pending_call_provenance (s : State) (evs : List Ev) (x : String) (c : Call)
    (h : c ∈ callsOn (run s evs) x) :
    c ∈ callsOn s x ∨
    ∃ pre o post id sup caller j, evs = pre ++ Ev.op o :: post ∧ o.request = some (id, sup, caller) ∧
      (stepEv (run s pre) (.op o)).2 = .enqueued c ∧ c.chain = x ∧
      findJob (run s pre).jobs id = some j ∧ findJob (run s evs).jobs id = some j ∧ c.fromJob j ∧
      c.sender = caller.sender ∧ c.contractAddr = caller.contract ∧
      c.payload = chosen j sup ++ leftPad32 caller.bytes ∧ (leftPad32 caller.bytes).length = 32 ∧
      cannotModify j sup = false ∧ (j.modifiable = true → sup ≠ .empty ∧ sup ≠ .bad) := by
  rw [calls_track_results, List.mem_append] at h
  rcases h with h | h
  · exact Or.inl h
  · right
    obtain ⟨hmem, hx⟩ := mem_enqueuedOn.mp h
    obtain ⟨pre, e, post, rfl, hr⟩ := mem_results.mp hmem
    obtain ⟨o, id, sup, caller, j, he, hreq, hj, hj', hfrom, hs, hc, hpay, hlen, hcm, hmod, _⟩ :=
      every_enqueued_call_is_the_jobs s pre e post c hr
    subst he
    exact ⟨pre, o, post, id, sup, caller, j, rfl, hreq, hr, hx, hj, hj', hfrom, hs, hc, hpay, hlen, hcm, hmod⟩

/-! ### "(possibly accompanied by a validator-set update for that chain)" -/

/-- **sendValset_spec**: what `SendValsetMsgForChain` does to a queue, exactly.  If no update for the current
snapshot is queued: every `UpdateValset` message (all of them older) is deleted, the contract calls stay in
order, and one `UpdateValset` for the current snapshot is appended.  If one is queued: the `UpdateValset`
messages in front of the first such message are deleted, nothing is appended, the rest of the queue is as it was. -/
theorem sendValset_spec (snap : Nat) (q : List QMsg) :
    (QMsg.valset snap ∉ q → sendValset snap q = q.filter QMsg.isCall ++ [.valset snap]) ∧
    (QMsg.valset snap ∈ q → ∃ a b, q = a ++ QMsg.valset snap :: b ∧ QMsg.valset snap ∉ a ∧
        sendValset snap q = a.filter QMsg.isCall ++ QMsg.valset snap :: b) ∧
    calls (sendValset snap q) = calls q :=
  ⟨(sendValset_exact snap q).1, (sendValset_exact snap q).2, calls_sendValset snap q⟩

/-- **accompanying_valset_characterised** ("enqueues exactly one contract-call message on the job's target chain
(possibly accompanied by a validator-set update for that chain)").  A successful execution request changes the
queue of the job's chain — and of no other chain (`success_enqueues_exactly_one_call`) — as follows.

* If the chain is not stale (the snapshot published on it is the current one, or none was ever published, or the
  chain is not active): the queue is the old queue plus the one call at the end.  Nothing else.
* If the chain is stale (active, a snapshot `k ≠` current is published on it): the queue is
  `sendValset current old` (see `sendValset_spec`) plus the one call at the end.  So an `UpdateValset` for the
  CURRENT snapshot is in the queue in front of the call; every message of the new queue is an old message, that
  update, or the call; and the only messages that disappeared are `UpdateValset`s for OTHER (superseded)
  snapshots — the accompaniment may DELETE older validator-set updates, never a contract call.
* In both cases the contract calls are the old ones, in order, plus the new one. -/
theorem accompanying_valset_characterised (s : State) (id : Bytes) (sup : Supplied) (caller : Caller) (call : Call)
    (h : (exec s id sup caller).2 = some call) :
    ∃ j c c', findJob s.jobs id = some j ∧ s.chain j.chain = some c ∧
      (exec s id sup caller).1.chain j.chain = some c' ∧ s.snap ≠ 0 ∧ c.relay = true ∧
      (¬ ((∃ k, c.onChain = some k ∧ k ≠ s.snap) ∧ c.active = true) → c'.queue = c.queue ++ [.call call]) ∧
      (((∃ k, c.onChain = some k ∧ k ≠ s.snap) ∧ c.active = true) →
        c'.queue = sendValset s.snap c.queue ++ [.call call] ∧
        QMsg.valset s.snap ∈ c'.queue ∧
        (∀ m ∈ c'.queue, m ∈ c.queue ∨ m = .valset s.snap ∨ m = .call call) ∧
        (∀ m ∈ c.queue, m ∈ c'.queue ∨ ∃ k, m = .valset k ∧ k ≠ s.snap)) ∧
      calls c'.queue = calls c.queue ++ [call] := by
  obtain ⟨j, c, p, hj, hc, _, _, _, hpick, _, hst⟩ := exec_some s id sup caller call h
  have hpk : s.snap ≠ 0 ∧ c.relay = true := by
    simp only [pick, Bool.and_eq_true, bne_iff_ne, ne_eq] at hpick
    exact ⟨hpick.1.1, hpick.1.2⟩
  have hpf : pick s.snap c false = true := by simp [pick, hpk.1, hpk.2]
  refine ⟨j, c, pushCall (jit s.snap c).1 call, hj, hc, by rw [hst]; simp [upd], hpk.1, hpk.2, ?_, ?_, ?_⟩
  · intro hns
    have : (jit s.snap c).1.queue = c.queue := by
      rw [jit_queue, if_neg]
      intro hh; exact hns ⟨hh.2.1, hh.2.2.1⟩
    simp [pushCall, this]
  · intro hst'
    have hq : (jit s.snap c).1.queue = sendValset s.snap c.queue := by
      rw [jit_queue, if_pos ⟨hpk.1, hst'.1, hst'.2, hpf⟩]
    obtain ⟨m1, m2, m3⟩ := sendValset_mem s.snap c.queue
    refine ⟨by simp [pushCall, hq], by simp [pushCall, hq, m1], ?_, ?_⟩
    · intro m hm
      simp only [pushCall, hq, List.mem_append, List.mem_singleton] at hm
      rcases hm with hm | hm
      · rcases m2 m hm with h1 | h1
        · exact Or.inl h1
        · exact Or.inr (Or.inl h1)
      · exact Or.inr (Or.inr hm)
    · intro m hm
      rcases m3 m hm with h1 | h1
      · left; simp [pushCall, hq, h1]
      · exact Or.inr h1
  · simp [pushCall, calls_append, calls, jit_calls]

/-! ### non-vacuity -/

def exJob : Job :=
  { id := [106, 49], owner := [1, 2], chain := "test-chain", contract := [48, 120], abi := [0xab],
    payload := [1, 2], modifiable := true, mev := false }

def exChain : Chain := { active := true, relay := true, mev := false, onChain := some 3, queue := [.valset 3] }

def exState : State :=
  { jobs := [exJob], order := ["test-chain"], chain := ⟨fun n => if n = "test-chain" then some exChain else none⟩,
    snap := 4 }

/-- a modifiable job, executed by a 2-byte "account" with a supplied payload while the chain's valset is stale:
the old valset update is replaced by the current one and exactly one call follows -/
example : (exec exState [106, 49] (.bytes [0xff]) (Caller.account [0xaa, 0xbb])).2.map (·.payload) =
    some ([0xff] ++ List.replicate 30 0 ++ [0xaa, 0xbb]) := by decide
example : ((exec exState [106, 49] (.bytes [0xff]) (Caller.account [0xaa, 0xbb])).1.chain "test-chain").map
    (fun c => c.queue.map QMsg.isCall) = some [false, true] := by decide
example : (exec exState [106, 49] .bad (Caller.account [0xaa])).2 = none := by decide
example : (exec exState [106, 50] .absent (Caller.account [0xaa])).2 = none := by decide
example : (exec exState [106, 49] .absent (Caller.account (List.replicate 33 1))).2 = none := by decide
def exCreate (id : Bytes) : CreateIn :=
  { owner := [9], id := id, chainType := "evm", chain := "eth-main", defn := some ([], []), payload := some [],
    modifiable := false, mev := true }
example : (txStep exState (.create (exCreate [106, 49]))).2 = .rejected := by decide
example : (txStep exState (.create (exCreate [106, 50]))).2 = .ok := by decide
example : (txStep exState (.create { exCreate [106, 50] with chain := "test-chain" })).2 = .rejected := by decide
example : idValid [112, 97, 108, 111, 109, 97] = false ∧ idValid [74] = false ∧ idValid [] = false ∧
    idValid (List.replicate 32 97) = true ∧ idValid (List.replicate 33 97) = false := by decide
/-- left padding is *not* injective across caller lengths -/
example : inject [] [0, 1] = inject [] [1] := by decide
example : sendValset 4 [.valset 2, .valset 3] = [.valset 4] ∧ sendValset 4 [.valset 2, .valset 4, .valset 3] =
    [.valset 4, .valset 3] := by decide

/-! ### non-vacuity through `run` from a chain start -/

/-- chain start: one active chain with relayers, snapshot 3 published, current snapshot 4, an old valset update
and nothing else queued -/
def exInit : State :=
  State.init ["test-chain"] ⟨fun n => if n = "test-chain" then some exChain else none⟩ 4

def exFixed : CreateIn :=
  { owner := [7], id := [102], chainType := "evm", chain := "test-chain", defn := some ([0xc0], [0xab]),
    payload := some [1, 2], modifiable := false, mev := false }

def exMod : CreateIn := { exFixed with id := [109], modifiable := true }

def exAcct : Caller := Caller.account (List.replicate 20 0xaa)

/-- 0 = ok, 1 = enqueued, 2 = rejected -/
def Res.tag : Res → Nat
  | .ok => 0
  | .enqueued _ => 1
  | .rejected => 2

def exHistory : List Ev :=
  [ .op (.create exFixed), .op (.create exMod),
    .op (.create { exFixed with owner := [8], payload := some [9] }),   -- duplicate id: rejected
    .op (.exec [102] .absent exAcct),                                   -- fixed job, nothing supplied: stored payload
    .op (.exec [102] (.bytes [5]) exAcct),                              -- fixed job, payload supplied: cannotModify
    .op (.exec [109] (.bytes [5]) exAcct),                              -- modifiable job: supplied payload
    .op (.execWasm (List.replicate 32 0xcc) [109] [6]),                 -- a contract
    .op (.execWasm (List.replicate 32 0xcc) [102] [6]),                 -- a contract can never run a fixed job
    .endBlock,
    .op (.relay "test-chain" false),
    .op (.exec [102] .absent exAcct),                                   -- fails at relayer selection
    .op (.relay "test-chain" true),
    .op (.exec [102] .absent exAcct),
    .op (.exec [77] .absent exAcct) ]                                   -- unknown job

example : (results exInit exHistory).map Res.tag = [0, 0, 2, 1, 2, 1, 1, 2, 0, 0, 2, 0, 1, 2] := by decide
example : (findJob (run exInit (exHistory.take 2)).jobs [102]).map (fun j => cannotModify j (.bytes [5])) = some true := by
  decide
/-- the queue at the end: the stale valset update was replaced by the current one at the first execution, then
four calls; payloads = chosen payload ++ 12 zero bytes ++ 20-byte account, resp. ++ 32-byte contract -/
example : ((run exInit exHistory).chain "test-chain").map (fun c => c.queue.map QMsg.isCall) =
    some [false, true, true, true, true] := by decide
example : (callsOn (run exInit exHistory) "test-chain").map (·.payload) =
    [ [1, 2] ++ List.replicate 12 0 ++ List.replicate 20 0xaa,
      [5] ++ List.replicate 12 0 ++ List.replicate 20 0xaa,
      [6] ++ List.replicate 32 0xcc,
      [1, 2] ++ List.replicate 12 0 ++ List.replicate 20 0xaa ] := by decide
example : ((run exInit exHistory).chain "test-chain").map (fun c => c.queue.head?) = some (some (.valset 4)) := by
  decide
example : (run exInit exHistory).jobs.map (·.owner) = [[7], [7]] := by decide
example : exAcct.entryPoint := ⟨List.replicate 20 0xaa, by decide, by decide, Or.inl rfl⟩
/-- the STALE branch of `accompanying_valset_characterised` is reachable: at `exInit` snapshot 3 is published on
the chain while 4 is current; the first execution (event 4 of `exHistory`) replaces the queued `UpdateValset 3`
by `UpdateValset 4` and appends the call (queue length 1 → 2), the next successful one finds the current update
queued and only appends (2 → 3; the chain is still stale, `sendValset` is a no-op on the valset part) -/
example : ((∃ k, exChain.onChain = some k ∧ k ≠ exInit.snap) ∧ exChain.active = true) :=
  ⟨⟨3, rfl, by decide⟩, rfl⟩
example : (((run exInit (exHistory.take 4)).chain "test-chain").map (·.onChain)) = some (some 3) ∧
    (((run exInit (exHistory.take 4)).chain "test-chain").map (·.queue)) = some [.valset 4, .call
      { chain := "test-chain", contract := [0xc0], abi := [0xab],
        payload := [1, 2] ++ List.replicate 12 0 ++ List.replicate 20 0xaa,
        sender := some (List.replicate 20 0xaa), contractAddr := none, mev := false }] ∧
    (((run exInit (exHistory.take 6)).chain "test-chain").map (·.queue.length)) = some 3 := by decide

/-- the NON-STALE branch is reachable too: after `publish` the current snapshot 4 is the one published on the
chain; the execution leaves the old `UpdateValset 3` where it was and appends exactly the call -/
def exFresh : State := run exInit [.op (.create exFixed), .op (.publish "test-chain")]
example : (exFresh.chain "test-chain").map (fun c => (c.onChain, c.queue)) = some (some 4, [.valset 3]) ∧
    ¬ ((∃ k, (exFresh.chain "test-chain").map (·.onChain) = some (some k) ∧ k ≠ exFresh.snap)) := by
  refine ⟨by decide, ?_⟩
  rintro ⟨k, hk, hne⟩
  have h4 : (exFresh.chain "test-chain").map (·.onChain) = some (some 4) := by decide
  rw [h4] at hk
  simp only [Option.some.injEq] at hk
  exact hne hk.symm
example : ((stepEv exFresh (.op (.exec [102] .absent exAcct))).1.chain "test-chain").map (fun c => c.queue.map QMsg.isCall) =
    some [false, true] ∧
    ((stepEv exFresh (.op (.exec [102] .absent exAcct))).1.chain "test-chain").map (fun c => c.queue.head?) =
    some (some (.valset 3)) := by decide
/-- … and so is the "never published" case (`onChain = none`): no valset update accompanies the call -/
example :
    let s0 := State.init ["test-chain"]
      ⟨fun n => if n = "test-chain" then some { exChain with onChain := none, queue := [] } else none⟩ 4
    ((run s0 [.op (.create exFixed), .op (.exec [102] .absent exAcct)]).chain "test-chain").map
      (fun c => c.queue.map QMsg.isCall) = some [true] := by decide

/-- `message_level_request_names_requester`: its hypotheses are met in `exHistory` (events 4 and 7), and the
32-byte contract / 20-byte account collision of `account_and_padded_contract_same_payload` through `run` -/
example : (Op.exec [102] .absent exAcct).messageLevel ∧ (Op.execWasm (List.replicate 32 0xcc) [109] [6]).messageLevel :=
  ⟨⟨List.replicate 20 0xaa, ⟨by decide, by decide⟩, rfl⟩, ⟨by decide, by decide⟩⟩
example :
    let s1 := run exInit [.op (.create exMod)]
    let acct : Bytes := List.replicate 20 0xaa
    ((exec s1 [109] (.bytes [5]) (Caller.account acct)).2.map (·.payload)) =
      ((exec s1 [109] (.bytes [5]) (Caller.wasm (List.replicate 12 0 ++ acct))).2.map (·.payload)) ∧
    ((exec s1 [109] (.bytes [5]) (Caller.account acct)).2.map (·.payload)) =
      some ([5] ++ List.replicate 12 0 ++ acct) ∧
    (exec s1 [109] (.bytes [5]) (Caller.account acct)).2 ≠
      (exec s1 [109] (.bytes [5]) (Caller.wasm (List.replicate 12 0 ++ acct))).2 := by decide
/-- outside message level: a binding call with the empty contract address reaches the 32-zero-byte suffix from
a chain start (`exec_wasm_outside_message_level`) -/
example : ((stepEv (run exInit [.op (.create exMod)]) (.op (.execWasm [] [109] [6]))).2) =
    .enqueued { chain := "test-chain", contract := [0xc0], abi := [0xab], payload := [6] ++ List.replicate 32 0,
                sender := some [], contractAddr := some [], mev := false } := by decide

/-- **requester_address**, the keeper-level corner is reachable: from a chain start, after creating the fixed job,
`Keeper.ExecuteJob` with `senderAddress = nil`, `contractAddr = nil` (and likewise with an empty non-nil sender)
SUCCEEDS and enqueues the stored payload followed by 32 zero bytes. -/
theorem anonymous_caller_reachable :
    ((exec (run exInit [.op (.create exFixed)]) [102] .absent ⟨none, none⟩).2.map (·.payload)) =
      some ([1, 2] ++ List.replicate 32 0) ∧
    ((exec (run exInit [.op (.create exFixed)]) [102] .absent ⟨some [], none⟩).2.map (·.payload)) =
      some ([1, 2] ++ List.replicate 32 0) := by decide

end Paloma.Scheduler
