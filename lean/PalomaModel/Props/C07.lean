/-
C07 — a remote transaction is accepted as proof of delivery only if its call data is the compass
encoding of exactly that message and its receipt reports success; a transaction is used at most
once; success effects are applied at most once.

Model: `Model/Attest.lean` (`verifyAgainstTx`, `attest`, `step`, `run`) on top of
`Model/SignBytes.lean` and `Model/Abi.lean`; encoder facts from `Props/Abi.lean`
(`calldata_injective`), field-level facts from `Props/C05.lean`.
-/
import PalomaModel.Model.Attest
import PalomaModel.Props.C05
import PalomaModel.Props.C04

namespace Paloma.Attest
open Paloma.Abi Paloma.SignBytes

/-- `data` is the call data `VerifyAgainstTX` computes for `m` with a non-empty prefix of the
collected signatures (for a compass upload: bytecode followed by the constructor input). -/
def ExactFor (m : QMsg) (data : Bytes) : Prop :=
  (isUp m.action = true ∧ data = upData m.action) ∨
  (isUp m.action = false ∧ ∃ d i, m.action.delivered = some d ∧ 1 ≤ i ∧ i ≤ m.sigs.length ∧
      data = calldata d.1 d.2.1 d.2.2 (consensusV m.valset (m.sigs.take i)))

/-- one success effect per (message, kind) -/
def Effect.key : Effect → Nat × Nat
  | .snapshotLive m _ => (m, 0)
  | .deploymentRecorded m _ => (m, 1)
  | .activated m _ => (m, 2)
  | .handoverScheduled m _ => (m, 3)
  | .userActive m _ => (m, 4)

/-! ## helper lemmas -/
section Lemmas

theorem tryPrefixes_spec (vs : GoValset) (sigs : List SignData) (sel : Bytes) (tys : List Ty)
    (vals : List V) (data : Bytes) : ∀ n,
    tryPrefixes vs sigs sel tys vals data n = true ↔
      ∃ i, 1 ≤ i ∧ i ≤ n ∧ data = calldata sel tys vals (consensusV vs (sigs.take i))
  | 0 => by
    simp only [tryPrefixes, Bool.false_eq_true, false_iff]
    rintro ⟨i, h1, h2, -⟩
    omega
  | n + 1 => by
    unfold tryPrefixes
    split
    · rename_i h
      simp only [true_iff]
      exact ⟨n + 1, by omega, Nat.le_refl _, h⟩
    · rename_i h
      rw [tryPrefixes_spec vs sigs sel tys vals data n]
      constructor
      · rintro ⟨i, h1, h2, h3⟩
        exact ⟨i, h1, by omega, h3⟩
      · rintro ⟨i, h1, h2, h3⟩
        by_cases hi : i = n + 1
        · subst hi
          exact absurd h3 h
        · exact ⟨i, h1, by omega, h3⟩

theorem verify_ok_exact (m : QMsg) (data : Bytes) (h : verifyAgainstTx m data = .ok) :
    ExactFor m data := by
  unfold verifyAgainstTx at h
  split at h
  · rename_i hu
    split at h
    · rename_i hd
      exact .inl ⟨hu, hd⟩
    · cases h
  · rename_i hu
    split at h
    · cases h
    · rename_i d hd
      split at h
      · rename_i ht
        obtain ⟨i, h1, h2, h3⟩ := (tryPrefixes_spec _ _ _ _ _ _ _).1 ht
        exact .inr ⟨by simpa using hu, d, i, hd, h1, h2, h3⟩
      · cases h

theorem exact_verify_ok (m : QMsg) (data : Bytes) (h : ExactFor m data) :
    verifyAgainstTx m data = .ok := by
  unfold verifyAgainstTx
  rcases h with ⟨hu, hd⟩ | ⟨hu, d, i, hd, h1, h2, h3⟩
  · simp [hu, hd]
  · simp only [hu, Bool.false_eq_true, ↓reduceIte, hd]
    have := (tryPrefixes_spec m.valset m.sigs d.1 d.2.1 d.2.2 data m.sigs.length).2 ⟨i, h1, h2, h3⟩
    simp [this]

theorem findMsg_some {q : List QMsg} {id : Nat} {m : QMsg} (h : findMsg q id = some m) :
    m ∈ q ∧ m.id = id := by
  unfold findMsg at h
  have h1 := List.mem_of_find?_eq_some h
  have h2 := List.find?_some h
  exact ⟨h1, by simpa using h2⟩

theorem removeMsg_sublist (q : List QMsg) (id : Nat) : (removeMsg q id).Sublist q :=
  List.filter_sublist

theorem removeOlderUv_sublist (q : List QMsg) (id : Nat) : (removeOlderUv q id).Sublist q :=
  List.filter_sublist

theorem not_mem_removeMsg (q : List QMsg) (id : Nat) : id ∉ (removeMsg q id).map (·.id) := by
  intro h
  rw [List.mem_map] at h
  obtain ⟨m, hm, e⟩ := h
  unfold removeMsg at hm
  rw [List.mem_filter] at hm
  have : m.id = id := e
  simp [this] at hm

/-- the shape of every outcome of `attest` -/
inductive Outcome (s : St) (id : Nat) (w : Winner) : St × Res → Prop where
  | unchanged (r : Res) (hr : r ≠ .ok ∧ r ≠ .txFailed ∧ r ≠ .notVerified) : Outcome s id w (s, r)
  | errorHandled : Outcome s id w ({ s with queue := removeMsg s.queue id }, .errorHandled)
  | rejected (p : TxProof) (r : Res) (hw : w = .tx p) (hr : r = .txFailed ∨ r = .notVerified) :
      Outcome s id w (commitReject s id p.hash, r)
  | accepted (m : QMsg) (p : TxProof) (ce : Chain × List Effect)
      (hm : findMsg s.queue id = some m) (hw : w = .tx p) (hrc : p.receipt = some 1)
      (hproc : s.processed.contains p.hash = false) (hv : verifyAgainstTx m p.data = .ok)
      (hs : applySuccess s.chain m p = some ce) :
      Outcome s id w
        ({ s with
            queue := removeMsg (if isUv m.action then removeOlderUv s.queue id else s.queue) id
            processed := p.hash :: s.processed
            chain := ce.1
            effects := ce.2 ++ s.effects
            accepted := (id, p.hash) :: s.accepted }, .ok)

theorem attest_outcome (s : St) (id : Nat) (w : Winner) : Outcome s id w (attest s id w) := by
  unfold attest
  split
  · refine .unchanged _ ?_; decide
  · rename_i m hm
    split
    · refine .unchanged _ ?_; decide
    · exact .errorHandled
    · refine .unchanged _ ?_; decide
    · rename_i p
      split
      · refine .unchanged _ ?_; decide
      · rename_i hr0
        split
        · exact .rejected p _ rfl (.inl rfl)
        · rename_i hr1
          split
          · refine .unchanged _ ?_; decide
          · rename_i hpr
            split
            · exact .rejected p _ rfl (.inr rfl)
            · rename_i hv
              split
              · refine .unchanged _ ?_; decide
              · rename_i ce hs
                refine .accepted m p ce hm rfl ?_ ?_ hv hs
                · simpa using hr1
                · simpa using hpr

theorem setActive_none_or (c : Chain) (cid : Nat) :
    setActive c cid = none ∨ ∃ c', setActive c cid = some c' := by
  cases h : setActive c cid with
  | none => exact .inl rfl
  | some c' => exact .inr ⟨c', rfl⟩

/-- every effect of a successful attestation is tagged with the message, one per kind -/
theorem applySuccess_effects (c : Chain) (m : QMsg) (p : TxProof) (ce : Chain × List Effect)
    (h : applySuccess c m p = some ce) :
    (∀ e ∈ ce.2, e.msg = m.id) ∧ (ce.2.map Effect.key).Nodup := by
  unfold applySuccess at h
  split at h
  · split at h <;> (injection h with h; subst h; simp [Effect.msg, Effect.key])
  · injection h with h; subst h; simp
  · split at h
    · cases h
    · split at h
      · cases h
      · injection h with h; subst h; simp [Effect.msg, Effect.key]
  · split at h
    · cases h
    · injection h with h; subst h; simp [Effect.msg, Effect.key]
  · split at h
    · cases h
    · split at h
      · split at h
        · cases h
        · split at h
          · cases h
          · injection h with h; subst h; simp [Effect.msg, Effect.key]
      · split at h
        · cases h
        · injection h with h; subst h; simp [Effect.msg, Effect.key]

/-! ### invariant over histories -/

structure Inv (s : St) : Prop where
  idBound : ∀ m ∈ s.queue, m.id ≤ s.nextId
  accBound : ∀ a ∈ s.accepted, a.1 ≤ s.nextId
  accGone : ∀ a ∈ s.accepted, a.1 ∉ s.queue.map (·.id)
  accIds : (s.accepted.map (·.1)).Nodup
  accTxs : (s.accepted.map (·.2)).Nodup
  accProcessed : ∀ a ∈ s.accepted, a.2 ∈ s.processed
  fxOwner : ∀ e ∈ s.effects, e.msg ∈ s.accepted.map (·.1)
  fxOnce : (s.effects.map Effect.key).Nodup

theorem inv_init : Inv {} :=
  ⟨by simp, by simp, by simp, by simp, by simp, by simp, by simp, by simp⟩

theorem key_fst (e : Effect) : e.key.1 = e.msg := by cases e <;> rfl

theorem map_id_sublist {a b : List QMsg} (h : a.Sublist b) :
    (a.map (·.id)).Sublist (b.map (·.id)) := List.Sublist.map _ h

/-- shrinking the queue preserves the invariant -/
theorem inv_shrink (s : St) (q : List QMsg) (hq : q.Sublist s.queue) (hi : Inv s) :
    Inv { s with queue := q } :=
  ⟨fun m hm => hi.idBound m (hq.subset hm), hi.accBound,
   fun a ha hm => hi.accGone a ha ((map_id_sublist hq).subset hm),
   hi.accIds, hi.accTxs, hi.accProcessed, hi.fxOwner, hi.fxOnce⟩

theorem update_ids (q : List QMsg) (m : QMsg) :
    (q.map fun x => if x.id == m.id then m else x).map (·.id) = q.map (·.id) := by
  induction q with
  | nil => rfl
  | cons x q ih =>
    simp only [List.map_cons, List.cons.injEq]
    refine ⟨?_, ih⟩
    by_cases h : x.id = m.id
    · simp [h]
    · simp [h]

theorem attest_inv (s : St) (id : Nat) (w : Winner) (hi : Inv s) : Inv (attest s id w).1 := by
  have ho := attest_outcome s id w
  generalize attest s id w = r at ho
  cases ho with
  | unchanged r hr => exact hi
  | errorHandled => exact inv_shrink s _ (removeMsg_sublist _ _) hi
  | rejected p r hw hr =>
    have h1 := inv_shrink s _ (removeMsg_sublist s.queue id) hi
    exact ⟨h1.idBound, h1.accBound, h1.accGone, h1.accIds, h1.accTxs,
      fun a ha => List.mem_cons_of_mem _ (hi.accProcessed a ha), h1.fxOwner, h1.fxOnce⟩
  | accepted m p ce hm hw hrc hproc hv hs =>
    obtain ⟨hmq, hmid⟩ := findMsg_some hm
    have hsub : (removeMsg (if isUv m.action then removeOlderUv s.queue id else s.queue) id).Sublist s.queue := by
      refine List.Sublist.trans (removeMsg_sublist _ _) ?_
      split
      · exact removeOlderUv_sublist _ _
      · exact List.Sublist.refl _
    have hidq : id ∈ s.queue.map (·.id) := List.mem_map.2 ⟨m, hmq, hmid⟩
    have hidacc : id ∉ s.accepted.map (·.1) := by
      intro h
      rw [List.mem_map] at h
      obtain ⟨a, ha, e⟩ := h
      exact hi.accGone a ha (by rw [e]; exact hidq)
    have hfx := applySuccess_effects _ _ _ _ hs
    have hnp : p.hash ∉ s.processed := by
      intro h
      have : s.processed.contains p.hash = true := by simpa using h
      rw [this] at hproc
      cases hproc
    refine ⟨?_, ?_, ?_, ?_, ?_, ?_, ?_, ?_⟩
    · intro x hx
      exact hi.idBound x (hsub.subset hx)
    · intro a ha
      simp only [List.mem_cons] at ha
      rcases ha with rfl | ha
      · have := hi.idBound m hmq
        simp only
        omega
      · exact hi.accBound a ha
    · intro a ha
      simp only [List.mem_cons] at ha
      rcases ha with rfl | ha
      · exact not_mem_removeMsg _ _
      · intro hx
        exact hi.accGone a ha ((map_id_sublist hsub).subset hx)
    · simp only [List.map_cons, List.nodup_cons]
      exact ⟨hidacc, hi.accIds⟩
    · simp only [List.map_cons, List.nodup_cons]
      refine ⟨?_, hi.accTxs⟩
      intro h
      rw [List.mem_map] at h
      obtain ⟨a, ha, e⟩ := h
      exact hnp (by rw [← e]; exact hi.accProcessed a ha)
    · intro a ha
      simp only [List.mem_cons] at ha ⊢
      rcases ha with rfl | ha
      · exact .inl rfl
      · exact .inr (hi.accProcessed a ha)
    · intro e he
      simp only [List.mem_append] at he
      simp only [List.map_cons, List.mem_cons]
      rcases he with he | he
      · exact .inl ((hfx.1 e he).trans hmid)
      · exact .inr (hi.fxOwner e he)
    · simp only [List.map_append]
      rw [List.nodup_append]
      refine ⟨hfx.2, hi.fxOnce, ?_⟩
      intro k hk k' hk' e
      rw [List.mem_map] at hk hk'
      obtain ⟨e1, he1, rfl⟩ := hk
      obtain ⟨e2, he2, rfl⟩ := hk'
      have h1 : e1.msg = id := (hfx.1 e1 he1).trans hmid
      have h2 := hi.fxOwner e2 he2
      have : e1.msg = e2.msg := by rw [← key_fst, ← key_fst, e]
      exact hidacc (by rw [← h1, this]; exact h2)

theorem step_inv (s : St) (op : Op) (hi : Inv s) : Inv (step s op) := by
  cases op with
  | enqueue a vs sigs =>
    simp only [step]
    refine ⟨?_, ?_, ?_, hi.accIds, hi.accTxs, hi.accProcessed, hi.fxOwner, hi.fxOnce⟩
    · intro m hm
      simp only [List.mem_append, List.mem_singleton] at hm
      rcases hm with hm | rfl
      · have := hi.idBound m hm
        show m.id ≤ s.nextId + 1
        omega
      · exact Nat.le_refl _
    · intro a ha
      have := hi.accBound a ha
      show a.1 ≤ s.nextId + 1
      omega
    · intro a ha hm
      simp only [List.map_append, List.map_cons, List.map_nil, List.mem_append, List.mem_singleton] at hm
      rcases hm with hm | hm
      · exact hi.accGone a ha hm
      · have := hi.accBound a ha
        omega
  | update m =>
    simp only [step]
    split
    · rename_i hh
      have hm : ∃ x ∈ s.queue, x.id = m.id := by
        unfold hasId at hh
        simpa using hh
      refine ⟨?_, hi.accBound, ?_, hi.accIds, hi.accTxs, hi.accProcessed, hi.fxOwner, hi.fxOnce⟩
      · intro x hx
        simp only [List.mem_map] at hx
        obtain ⟨y, hy, rfl⟩ := hx
        split
        · obtain ⟨z, hz, e⟩ := hm
          rw [← e]
          exact hi.idBound z hz
        · exact hi.idBound y hy
      · intro a ha
        simp only [update_ids]
        exact hi.accGone a ha
    · exact hi
  | remove id => exact inv_shrink s _ (removeMsg_sublist _ _) hi
  | setChain c =>
    exact ⟨hi.idBound, hi.accBound, hi.accGone, hi.accIds, hi.accTxs, hi.accProcessed, hi.fxOwner, hi.fxOnce⟩
  | attest id w => exact attest_inv s id w hi
  | attestEv id snap evs => exact attest_inv s id (winnerOf snap evs) hi

theorem run_inv : ∀ (ops : List Op) (s : St), Inv s → Inv (run s ops)
  | [], _, hi => hi
  | op :: ops, s, hi => run_inv ops (step s op) (step_inv s op hi)

/-! ### typing of the consensus tuple -/

/-- ranges of the Go values inside a valset and the collected signatures -/
structure ConsWf (vs : GoValset) (sd : List SignData) : Prop where
  nvals : vs.validators.length < W256
  npows : vs.powers.length < W256
  pows : ∀ p ∈ vs.powers, p < U64
  vid : vs.valsetId < U64
  sigs : ∀ s ∈ sd, s.v < W256 ∧ s.r < W256 ∧ s.s < W256

theorem lookupSig_mem (sd : List SignData) (key : Bytes) :
    ∀ s, lookupSig sd key = some s → s ∈ sd := by
  unfold lookupSig
  suffices h : ∀ (l : List SignData) (acc : Option SignData) (s : SignData),
      l.foldl (fun acc s => if s.ext == key then some s else acc) acc = some s → s ∈ l ∨ acc = some s by
    intro s hs
    rcases h sd none s hs with h | h
    · exact h
    · cases h
  intro l
  induction l with
  | nil => intro acc s h; exact .inr h
  | cons x l ih =>
    intro acc s h
    simp only [List.foldl_cons] at h
    rcases ih _ s h with h1 | h1
    · exact .inl (List.mem_cons_of_mem _ h1)
    · split at h1
      · injection h1 with h1
        exact .inl (by rw [h1]; exact List.mem_cons_self)
      · exact .inr h1

theorem sigV_typed (sd : List SignData) (key : Bytes)
    (h : ∀ s ∈ sd, s.v < W256 ∧ s.r < W256 ∧ s.s < W256) :
    hasType (.tuple [.uint256, .uint256, .uint256]) (sigV (lookupSig sd key)) = true := by
  cases hl : lookupSig sd key with
  | none => simp [sigV, hasType, hasTypes]; decide
  | some s =>
    have := h s (lookupSig_mem sd key s hl)
    simp [sigV, hasType, hasTypes, this.1, this.2.1, this.2.2]

theorem consensus_typed (vs : GoValset) (sd : List SignData) (h : ConsWf vs sd) :
    hasType consensusTy (consensusV vs sd) = true := by
  have h1 := hasType_addresses (vs.validators.map hexToAddress) (all_map_hexToAddress _)
    (by simpa using h.nvals)
  have h2 := hasType_uints (vs.powers.map castI64) (all_map_castI64 _ h.pows) (by simpa using h.npows)
  have h3 : (vs.validators.map fun v => sigV (lookupSig sd v)).all
      (hasType (.tuple [.uint256, .uint256, .uint256])) = true := by
    rw [List.all_map, List.all_eq_true]
    intro v _
    exact sigV_typed sd v h.sigs
  simp only [consensusTy, consensusV, compassValsetV, valsetTy, hasType, hasTypes, h1, h2, h3,
    Bool.and_true, Bool.true_and, List.length_map, decide_eq_true_eq, Bool.and_eq_true]
  exact ⟨castI64_lt h.vid, h.nvals⟩

theorem consWf_take (vs : GoValset) (sd : List SignData) (h : ConsWf vs sd) (i : Nat) :
    ConsWf vs (sd.take i) :=
  ⟨h.nvals, h.npows, h.pows, h.vid, fun s hs => h.sigs s (List.mem_of_mem_take hs)⟩

/-! ### evidence of several validators -/

theorem firstIdx_getD (l : List ProofV) (a d : ProofV) (h : a ∈ l) : l.getD (firstIdx l a) d = a := by
  induction l with
  | nil => cases h
  | cons x xs ih =>
    unfold firstIdx
    split
    · rename_i hx
      simp [hx]
    · rename_i hx
      have : a ∈ xs := by
        rcases List.mem_cons.1 h with h | h
        · exact absurd h.symm hx
        · exact h
      simpa using ih this

theorem firstIdx_inj (l : List ProofV) (a b : ProofV) (ha : a ∈ l) (hb : b ∈ l)
    (h : firstIdx l a = firstIdx l b) : a = b := by
  rw [← firstIdx_getD l a (ProofV.other 0) ha, ← firstIdx_getD l b (ProofV.other 0) hb, h]

theorem mem_hashes : ∀ (evs : List Libcons.Evidence) (h : Nat), h ∈ Libcons.hashes evs → ∃ e ∈ evs, e.2 = h
  | [], h, hm => by simp [Libcons.hashes] at hm
  | e :: es, h, hm => by
    simp only [Libcons.hashes, List.mem_cons] at hm
    rcases hm with rfl | hm
    · exact ⟨e, List.mem_cons_self, rfl⟩
    · obtain ⟨e', he', h'⟩ := mem_hashes es h (List.mem_filter.1 hm).1
      exact ⟨e', List.mem_cons_of_mem _ he', h'⟩

/-- the validators whose evidence is byte-identical to `P` -/
def groupFor (evs : List EvidenceV) (P : ProofV) : List Nat :=
  (evs.filter fun e => decide (e.2 = P)).map (·.1)

theorem group_eq (evs : List EvidenceV) (P : ProofV) (hP : P ∈ evs.map (·.2)) :
    Libcons.groupOf (toLibcons evs) (firstIdx (evs.map (·.2)) P) = groupFor evs P := by
  unfold Libcons.groupOf toLibcons groupFor
  rw [List.filter_map, List.map_map]
  have : (evs.filter ((fun e : Libcons.Evidence => e.2 == firstIdx (evs.map (·.2)) P) ∘
      fun e : EvidenceV => (e.1, firstIdx (evs.map (·.2)) e.2))) = evs.filter fun e => decide (e.2 = P) := by
    apply List.filter_congr
    intro e he
    have hm : e.2 ∈ evs.map (·.2) := List.mem_map.2 ⟨e, he, rfl⟩
    simp only [Function.comp]
    by_cases hc : e.2 = P
    · simp [hc]
    · have : firstIdx (evs.map (·.2)) e.2 ≠ firstIdx (evs.map (·.2)) P :=
        fun h => hc (firstIdx_inj _ _ _ hm hP h)
      simp [hc, this]
  rw [this]
  rfl

/-- what `VerifyEvidence` guarantees about its winner -/
theorem winnerOf_spec (snap : Libcons.Snapshot) (evs : List EvidenceV) (h : winnerOf snap evs ≠ .none) :
    ∃ P, P ∈ evs.map (·.2) ∧ winnerOf snap evs = P.toWinner ∧
      (Libcons.tally snap (groupFor evs P)).consensus = true := by
  unfold winnerOf at h
  split at h
  · exact absurd rfl h
  · rename_i ws hv
    split at h
    · exact absurd rfl h
    · rename_i hd tl
      have hw : hd ∈ Libcons.winners snap (toLibcons evs) := by
        unfold Libcons.verifyEvidence at hv
        split at hv
        · cases hv
        · split at hv
          · cases hv
          · injection hv with hv
            rw [hv]
            exact List.mem_cons_self
      have hc := Libcons.mem_winners hw
      obtain ⟨e, he, heq⟩ := mem_hashes _ _ (List.mem_filter.1 hw).1
      unfold toLibcons at he
      rw [List.mem_map] at he
      obtain ⟨e0, he0, rfl⟩ := he
      have heq : firstIdx (evs.map (·.2)) e0.2 = hd := heq
      have hm : e0.2 ∈ evs.map (·.2) := List.mem_map.2 ⟨e0, he0, rfl⟩
      have hwin : winnerOf snap evs = ((evs.map (·.2)).getD hd (ProofV.other 0)).toWinner := by
        unfold winnerOf
        rw [hv]
      refine ⟨e0.2, hm, ?_, ?_⟩
      · rw [hwin, ← heq, firstIdx_getD _ _ _ hm]
      · rw [← group_eq evs e0.2 hm, heq]
        exact hc

/-! ### the processed set only grows -/

theorem attest_processed_mono (s : St) (id : Nat) (w : Winner) (h : Nat) (hh : h ∈ s.processed) :
    h ∈ (attest s id w).1.processed := by
  have ho := attest_outcome s id w
  generalize attest s id w = r at ho
  cases ho with
  | unchanged r hr => exact hh
  | errorHandled => exact hh
  | rejected p r hw hr => exact List.mem_cons_of_mem _ hh
  | accepted m p ce hm hw hrc hproc hv hs => exact List.mem_cons_of_mem _ hh

theorem step_processed_mono (s : St) (op : Op) (h : Nat) (hh : h ∈ s.processed) :
    h ∈ (step s op).processed := by
  cases op with
  | enqueue a vs sigs => exact hh
  | update m =>
    simp only [step]
    split
    · exact hh
    · exact hh
  | remove id => exact hh
  | setChain c => exact hh
  | attest id w => exact attest_processed_mono s id w h hh
  | attestEv id snap evs => exact attest_processed_mono s id (winnerOf snap evs) h hh

theorem run_processed_mono : ∀ (ops : List Op) (s : St) (h : Nat), h ∈ s.processed →
    h ∈ (run s ops).processed
  | [], _, _, hh => hh
  | op :: ops, s, h, hh => run_processed_mono ops (step s op) h (step_processed_mono s op h hh)

theorem upData_up (bc ctor : Bytes) (cid : Nat) : upData (.up bc ctor cid) = bc ++ ctor := rfl

end Lemmas

/-! ## Property theorems (C07) -/

/-- **accept_implies_exact_calldata.** C07, first sentence: whenever the router accepts evidence for
message `id` (result `ok`, the only result that applies success effects), the winner is a
transaction proof whose call data equals the compass encoding of THAT stored message — action
arguments, message id, deadline, fees, relayer, and the consensus tuple built from the selected
valset and a NON-EMPTY prefix of the collected signatures (for a compass upload: bytecode followed
by the constructor input). -/
theorem accept_implies_exact_calldata (s : St) (id : Nat) (w : Winner)
    (h : (attest s id w).2 = .ok) :
    ∃ m p, findMsg s.queue id = some m ∧ w = .tx p ∧ ExactFor m p.data := by
  have ho := attest_outcome s id w
  generalize attest s id w = r at ho h
  cases ho with
  | unchanged r hr => exact absurd h hr.1
  | errorHandled => cases h
  | rejected p r hw hr => rcases hr with rfl | rfl <;> cases h
  | accepted m p ce hm hw hrc hproc hv hs => exact ⟨m, p, hm, hw, verify_ok_exact m p.data hv⟩

/-- **verify_ok_iff_exact.** `VerifyAgainstTX` succeeds exactly for the call data of the message
under one of the non-empty signature prefixes (both directions; late signatures are tolerated,
nothing else is). -/
theorem verify_ok_iff_exact (m : QMsg) (data : Bytes) :
    verifyAgainstTx m data = .ok ↔ ExactFor m data :=
  ⟨verify_ok_exact m data, exact_verify_ok m data⟩

/-- **exact_calldata_binds_values.** … "equals the bridge-contract encoding of that message": if
the accepted call data is ALSO the encoding of some well-typed argument list `vals'` under some
consensus tuple `c'` (same method), then `vals'` are exactly the message's delivered values and
`c'` is the consensus built from a non-empty signature prefix.  (Injectivity of the encoder:
`Abi.calldata_injective`.)  So no other target, payload, fee, fee payer, id, deadline, relayer,
valset or estimate can hide behind an accepted transaction. -/
theorem exact_calldata_binds_values (m : QMsg) (data : Bytes) (d : Bytes × List Ty × List V)
    (hd : m.action.delivered = some d) (hex : ExactFor m data)
    (hcw : ConsWf m.valset m.sigs)
    (hty : ∀ c, hasType consensusTy c = true → hasTypeArgs (consensusTy :: d.2.1) (c :: d.2.2) = true)
    (c' : V) (vals' : List V) (ht' : hasTypeArgs (consensusTy :: d.2.1) (c' :: vals') = true)
    (hdata : data = calldata d.1 d.2.1 vals' c') :
    vals' = d.2.2 ∧ ∃ i, 1 ≤ i ∧ i ≤ m.sigs.length ∧ c' = consensusV m.valset (m.sigs.take i) := by
  rcases hex with ⟨hu, -⟩ | ⟨-, d0, i, hd0, h1, h2, h3⟩
  · cases ha : m.action <;> simp [ha, isUp, Action.delivered] at hu hd
  · rw [hd] at hd0
    injection hd0 with hd0
    subst hd0
    have htm := hty _ (consensus_typed m.valset (m.sigs.take i) (consWf_take _ _ hcw i))
    rw [h3] at hdata
    unfold calldata at hdata
    have := calldata_injective _ _ _ _ htm ht' hdata
    injection this with hc hv
    exact ⟨hv.symm, i, h1, h2, hc.symm⟩

/-- the typing side condition of `exact_calldata_binds_values` holds for logic calls with
well-typed fields (with or without fees: `feesOrDefault`). -/
theorem slc_delivered_typed (f : SLCFields) (hf : SLC.wf f = true) (c : V)
    (hc : hasType consensusTy c = true) :
    hasTypeArgs (consensusTy :: SLC.deliveredTys) (c :: SLC.deliveredVals f) = true := by
  simp only [SLC.wf, Bool.and_eq_true, decide_eq_true_eq] at hf
  obtain ⟨⟨⟨⟨⟨⟨⟨h1, h2⟩, h3⟩, h4⟩, h5⟩, h6⟩, h7⟩, h8⟩ := hf
  have hf := fees_lt _ h3
  rw [hasTypeArgs_cons, hc]
  simp [hasTypeArgs, SLC.deliveredTys, SLC.deliveredVals, callTy, feeTy, callV, feeV, hasType, hasTypes,
    h1, h2, h4, h5, h7, h8, hf.1, hf.2.1, hf.2.2]

/-- the same side condition for update-valset, user contract deployment and compass handover -/
theorem uv_delivered_typed (f : UVFields) (hf : UV.wf f = true) (c : V)
    (hc : hasType consensusTy c = true) :
    hasTypeArgs (consensusTy :: UV.deliveredTys) (c :: UV.deliveredVals f) = true := by
  simp only [UV.wf, Bool.and_eq_true, decide_eq_true_eq] at hf
  obtain ⟨⟨⟨⟨⟨⟨⟨h1, h2⟩, h3⟩, h4⟩, h5⟩, -⟩, h7⟩, h8⟩ := hf
  have := U64_lt_W256
  rw [hasTypeArgs_cons, hc]
  simp only [hasTypeArgs, UV.deliveredTys, UV.deliveredVals, UV.valsetV, valsetTy, hasType, hasTypes,
    hasType_addresses _ h1 h2, hasType_uints _ h3 h4, Bool.and_true, Bool.true_and, decide_eq_true_eq,
    Bool.and_eq_true]
  exact ⟨h5, h7, by omega⟩

theorem usc_delivered_typed (f : USCFields) (hf : USC.wf f = true) (c : V)
    (hc : hasType consensusTy c = true) :
    hasTypeArgs (consensusTy :: USC.deliveredTys) (c :: USC.deliveredVals f) = true := by
  simp only [USC.wf, Bool.and_eq_true, decide_eq_true_eq] at hf
  obtain ⟨⟨⟨⟨⟨⟨⟨h1, h2⟩, h3⟩, h4⟩, h5⟩, h6⟩, h7⟩, h8⟩ := hf
  have hf := fees_lt _ h3
  rw [hasTypeArgs_cons, hc]
  simp [hasTypeArgs, USC.deliveredTys, USC.deliveredVals, feeTy, feeV, hasType, hasTypes,
    h1, h2, h4, h5, h7, h8, hf.1, hf.2.1, hf.2.2]

theorem ch_delivered_typed (f : CHFields) (hf : CH.wf f = true) (c : V)
    (hc : hasType consensusTy c = true) :
    hasTypeArgs (consensusTy :: CH.deliveredTys) (c :: CH.deliveredVals f) = true := by
  simp only [CH.wf, Bool.and_eq_true, decide_eq_true_eq] at hf
  obtain ⟨⟨⟨⟨h1, h2⟩, h3⟩, h4⟩, h5⟩ := hf
  have := U64_lt_W256
  rw [hasTypeArgs_cons, hc, CH.deliveredTys, CH.deliveredVals, Bool.true_and, hasTypeArgs_cons,
    hasType_calls _ h1 h2]
  simp only [hasTypeArgs, hasType, hasTypes, Bool.and_true, Bool.true_and, decide_eq_true_eq,
    Bool.and_eq_true]
  exact ⟨h3, by omega, h4⟩

/-- **accept_implies_success_receipt.** C07, "… and its receipt reports success": acceptance
requires a decodable receipt with status 1. -/
theorem accept_implies_success_receipt (s : St) (id : Nat) (w : Winner)
    (h : (attest s id w).2 = .ok) : ∃ p, w = .tx p ∧ p.receipt = some 1 := by
  have ho := attest_outcome s id w
  generalize attest s id w = r at ho h
  cases ho with
  | unchanged r hr => exact absurd h hr.1
  | errorHandled => cases h
  | rejected p r hw hr => rcases hr with rfl | rfl <;> cases h
  | accepted m p ce hm hw hrc hproc hv hs => exact ⟨p, hw, hrc⟩

/-- **effects_only_on_accept.** C07, "any other transaction, or a failed receipt, never produces
the message's success effects": every outcome other than `ok` leaves the effect log, the keeper
state read by the attesters (snapshots live on the chain, deployments, active contract, user
deployments) and the acceptance log untouched. -/
theorem effects_only_on_accept (s : St) (id : Nat) (w : Winner) (h : (attest s id w).2 ≠ .ok) :
    (attest s id w).1.effects = s.effects ∧ (attest s id w).1.chain = s.chain ∧
    (attest s id w).1.accepted = s.accepted := by
  have ho := attest_outcome s id w
  generalize attest s id w = r at ho h
  cases ho with
  | unchanged r hr => exact ⟨rfl, rfl, rfl⟩
  | errorHandled => exact ⟨rfl, rfl, rfl⟩
  | rejected p r hw hr => exact ⟨rfl, rfl, rfl⟩
  | accepted m p ce hm hw hrc hproc hv hs => exact absurd rfl h

/-- **rejections_by_cause.** The individual causes named by the property: no winner, an error
proof, a missing or failed receipt, a transaction that does not verify, and a transaction that
was used before — none of them is accepted. -/
theorem rejections_by_cause (s : St) (id : Nat) (m : QMsg) (hm : findMsg s.queue id = some m) :
    (attest s id .none).2 = .noop ∧
    (attest s id .errorProof).2 = .errorHandled ∧
    (∀ p, p.receipt = none → (attest s id (.tx p)).2 = .receiptErr) ∧
    (∀ p st, p.receipt = some st → st ≠ 1 → (attest s id (.tx p)).2 = .txFailed) ∧
    (∀ p, p.receipt = some 1 → p.hash ∈ s.processed → (attest s id (.tx p)).2 = .alreadyProcessed) ∧
    (∀ p, p.receipt = some 1 → p.hash ∉ s.processed → verifyAgainstTx m p.data = .notVerified →
        (attest s id (.tx p)).2 = .notVerified) := by
  refine ⟨?_, ?_, ?_, ?_, ?_, ?_⟩
  · simp [attest, hm]
  · simp [attest, hm]
  · intro p hp
    simp [attest, hm, hp]
  · intro p st hp hst
    simp [attest, hm, hp, hst]
  · intro p hp hh
    simp [attest, hm, hp, hh]
  · intro p hp hh hv
    simp [attest, hm, hp, hh, hv]

/-- **corrupted_calldata_rejected.** Every single- or multi-field corruption of otherwise valid
call data is rejected: if `data` is not the encoding of `m` for any non-empty signature prefix,
verification does not succeed — and by `exact_calldata_binds_values` the encoding of any argument
list that differs in at least one value is such a `data`. -/
theorem corrupted_calldata_rejected (m : QMsg) (data : Bytes) (h : ¬ ExactFor m data) :
    verifyAgainstTx m data ≠ .ok := fun hv => h (verify_ok_exact m data hv)

/-- **empty_prefix_never_tried.** "a prefix of the collected signatures": the Go loop runs
`for i := len(sigs); i > 0; i--`; without signatures nothing verifies. -/
theorem empty_prefix_never_tried (m : QMsg) (data : Bytes) (hu : isUp m.action = false)
    (hs : m.sigs = []) : verifyAgainstTx m data ≠ .ok := by
  intro hv
  rcases verify_ok_exact m data hv with ⟨hu', -⟩ | ⟨-, d, i, -, h1, h2, -⟩
  · rw [hu] at hu'; cases hu'
  · rw [hs] at h2
    simp at h2
    omega

/-- **receipt_is_part_of_the_evidence_identity.** The evidence of the validators is grouped by the
bytes of the WHOLE proof — transaction and receipt (`BytesToHash` = serialized tx ++ serialized
receipt).  If the vote yields the transaction proof `p`, then the validators whose evidence is
byte-identical to `p` (same transaction, same receipt status, same logs, same everything) hold at
least 2/3 of the snapshot's shares.  Evidence with the same transaction but another receipt does
not count towards it. -/
theorem receipt_is_part_of_the_evidence_identity (snap : Libcons.Snapshot) (evs : List EvidenceV)
    (p : TxProof) (h : winnerOf snap evs = .tx p) :
    (Libcons.tally snap (groupFor evs (.tx p))).consensus = true ∧ ProofV.tx p ∈ evs.map (·.2) := by
  obtain ⟨P, hP, hw, hc⟩ := winnerOf_spec snap evs (by rw [h]; intro h'; cases h')
  rw [h] at hw
  cases P with
  | tx q =>
    simp only [ProofV.toWinner, Winner.tx.injEq] at hw
    subst hw
    exact ⟨hc, hP⟩
  | errorProof _ => simp [ProofV.toWinner] at hw
  | other _ => simp [ProofV.toWinner] at hw

/-- **effects_need_quorum_on_success_receipt.** C07 with disagreeing validators: success effects
are produced (result `ok`) only if some transaction proof `p` with a SUCCESS receipt is reported
byte-identically by validators holding 2/3 of the shares, and its call data is the encoding of the
message.  A success receipt reported by a minority — first in the list or not — next to a majority
reporting a failed (or any other) receipt for the same transaction never produces them. -/
theorem effects_need_quorum_on_success_receipt (s : St) (id : Nat) (snap : Libcons.Snapshot)
    (evs : List EvidenceV) (h : (attestEv s id snap evs).2 = .ok) :
    ∃ m p, findMsg s.queue id = some m ∧ p.receipt = some 1 ∧ ExactFor m p.data ∧
      ProofV.tx p ∈ evs.map (·.2) ∧ (Libcons.tally snap (groupFor evs (.tx p))).consensus = true := by
  unfold attestEv at h
  obtain ⟨m, p, hm, hw, hex⟩ := accept_implies_exact_calldata s id _ h
  obtain ⟨p', hw', hr⟩ := accept_implies_success_receipt s id _ h
  rw [hw] at hw'
  injection hw' with hw'
  subst hw'
  obtain ⟨hc, hmem⟩ := receipt_is_part_of_the_evidence_identity snap evs p hw
  exact ⟨m, p, hm, hr, hex, hmem, hc⟩

/-- **disagreeing_receipts_no_effects.** Contrapositive, in the shape of the monitor: when no
success-receipt proof is backed by a 2/3 group of byte-identical evidence, nothing is accepted. -/
theorem disagreeing_receipts_no_effects (s : St) (id : Nat) (snap : Libcons.Snapshot)
    (evs : List EvidenceV)
    (h : ∀ p : TxProof, p.receipt = some 1 → (Libcons.tally snap (groupFor evs (.tx p))).consensus = false) :
    (attestEv s id snap evs).2 ≠ .ok := by
  intro hok
  obtain ⟨m, p, -, hr, -, -, hc⟩ := effects_need_quorum_on_success_receipt s id snap evs hok
  rw [h p hr] at hc
  cases hc

/-- **tx_single_use.** C07, "the same remote transaction is never accepted for a second message":
over every history of enqueue / update / remove / keeper activity / attestation attempts, the
transaction hashes of all acceptances are pairwise different, and every accepted transaction is in
the processed set. -/
theorem tx_single_use (ops : List Op) :
    ((run {} ops).accepted.map (·.2)).Nodup ∧
    ∀ a ∈ (run {} ops).accepted, a.2 ∈ (run {} ops).processed := by
  have := run_inv ops {} inv_init
  exact ⟨this.accTxs, this.accProcessed⟩

/-- **processed_tx_rejected.** … and in any state a transaction that is already in the processed
set is never accepted, whatever the message. -/
theorem processed_tx_rejected (s : St) (id : Nat) (p : TxProof) (h : p.hash ∈ s.processed) :
    (attest s id (.tx p)).2 ≠ .ok := by
  intro hok
  have ho := attest_outcome s id (.tx p)
  generalize attest s id (.tx p) = r at ho hok
  cases ho with
  | unchanged r hr => exact hr.1 hok
  | errorHandled => cases hok
  | rejected p r hw hr => rcases hr with rfl | rfl <;> cases hok
  | accepted m p' ce hm hw hrc hproc hv hs =>
    injection hw with hw
    subst hw
    have : s.processed.contains p.hash = true := by simpa using h
    rw [this] at hproc
    cases hproc

/-- **marks_transaction.** accepted, failed-receipt and not-verified outcomes all commit the
transaction to the processed set (so it can never be presented again). -/
theorem marks_transaction (s : St) (id : Nat) (p : TxProof)
    (h : (attest s id (.tx p)).2 = .ok ∨ (attest s id (.tx p)).2 = .txFailed ∨
         (attest s id (.tx p)).2 = .notVerified) :
    p.hash ∈ (attest s id (.tx p)).1.processed := by
  have ho := attest_outcome s id (.tx p)
  generalize attest s id (.tx p) = r at ho h
  cases ho with
  | unchanged r hr =>
    rcases h with h | h | h
    · exact absurd h hr.1
    · exact absurd h hr.2.1
    · exact absurd h hr.2.2
  | errorHandled => rcases h with h | h | h <;> cases h
  | rejected p' r hw hr =>
    injection hw with hw
    subst hw
    simp [commitReject]
  | accepted m p' ce hm hw hrc hproc hv hs =>
    injection hw with hw
    subst hw
    simp

/-- **effects_at_most_once.** C07, "each message's success effects are applied at most once": over
every history, each message id is accepted at most once, an accepted message is gone from the
queue for good (ids are never reissued, C05), every success effect belongs to an accepted message,
and there is at most one effect of each kind per message. -/
theorem effects_at_most_once (ops : List Op) :
    ((run {} ops).accepted.map (·.1)).Nodup ∧
    (∀ a ∈ (run {} ops).accepted, a.1 ∉ (run {} ops).queue.map (·.id)) ∧
    (∀ e ∈ (run {} ops).effects, e.msg ∈ (run {} ops).accepted.map (·.1)) ∧
    ((run {} ops).effects.map Effect.key).Nodup := by
  have := run_inv ops {} inv_init
  exact ⟨this.accIds, this.accGone, this.fxOwner, this.fxOnce⟩

/-- **accepted_message_leaves_queue.** One step: after `ok` the message is no longer stored, so a
second attestation attempt for the same id finds nothing. -/
theorem accepted_message_leaves_queue (s : St) (id : Nat) (w w' : Winner)
    (h : (attest s id w).2 = .ok) :
    (attest (attest s id w).1 id w').2 = .unknownMsg := by
  have ho := attest_outcome s id w
  generalize attest s id w = r at ho h
  cases ho with
  | unchanged r hr => exact absurd h hr.1
  | errorHandled => cases h
  | rejected p r hw hr => rcases hr with rfl | rfl <;> cases h
  | accepted m p ce hm hw hrc hproc hv hs =>
    have hnone : findMsg (removeMsg (if isUv m.action then removeOlderUv s.queue id else s.queue) id) id = none := by
      unfold findMsg
      rw [List.find?_eq_none]
      intro x hx
      have := not_mem_removeMsg (if isUv m.action then removeOlderUv s.queue id else s.queue) id
      intro hxid
      exact this (List.mem_map.2 ⟨x, hx, by simpa using hxid⟩)
    simp only [attest, hnone]

/-- **early_evidence_is_processed.** Evidence for a fee-paying message whose fees were never set
(no gas estimate elected yet) is processed like any other evidence: verification compares the call
data against the encoding with the DEFAULT fees (`feesOrDefault`, the values that were signed) and
the result is one of the ordinary outcomes.  (Before /repo commit cab3e325 `VerifyAgainstTX`
dereferenced the nil `Fees` here and the consensus end blocker panicked; regression witness on the
field level: `SignBytes.slc_prefix_nil_fees_undefined`.) -/
theorem early_evidence_is_processed (m : QMsg) (f : SLCFields) (data : Bytes)
    (ha : m.action = .slc f) (hf : f.fees = none) :
    (verifyAgainstTx m data = .ok ↔
      ∃ i, 1 ≤ i ∧ i ≤ m.sigs.length ∧
        data = calldata selSubmitLogicCallD SLC.deliveredTys
          [callV (f.contract, f.payload), feeV defaultFees f.sender, .word f.id, .word f.deadline, .word f.relayer]
          (consensusV m.valset (m.sigs.take i))) := by
  rw [verify_ok_iff_exact]
  unfold ExactFor
  simp only [ha, isUp, Bool.false_eq_true, false_and, false_or, true_and, Action.delivered,
    Option.some.injEq, SLC.deliveredVals, hf, feesOrDefault]
  constructor
  · rintro ⟨d, i, rfl, h1, h2, h3⟩
    exact ⟨i, h1, h2, h3⟩
  · rintro ⟨i, h1, h2, h3⟩
    exact ⟨_, i, rfl, h1, h2, h3⟩

/-- **processed_tx_rejected_any_encoding.** "The same remote transaction": the used-transaction set
is keyed by the transaction HASH, so the serialization the evidence bytes use (`TxProof.enc`:
canonical, or the EIP-4844 network form with any blob sidecar), the receipt attached to it and
everything else in the proof are irrelevant: whatever proof `q` carries a transaction whose hash is
in the set is never accepted, for any message. -/
theorem processed_tx_rejected_any_encoding (s : St) (id : Nat) (p q : TxProof) (hq : q.hash = p.hash)
    (h : p.hash ∈ s.processed) : (attest s id (.tx q)).2 ≠ .ok :=
  processed_tx_rejected s id q (by rw [hq]; exact h)

/-- **used_tx_never_accepted_again.** C07, "the same remote transaction is never accepted for a
second message", as a statement about histories: once a transaction was accepted (`a` is in the
acceptance log after `ops`), then after ANY further history `ops'` a proof carrying a transaction
with that hash — in the same or another encoding, with the same or another receipt, for the same
or another message — is not accepted. -/
theorem used_tx_never_accepted_again (ops ops' : List Op) (a : Nat × Nat)
    (ha : a ∈ (run {} ops).accepted) (id : Nat) (q : TxProof) (hq : q.hash = a.2) :
    (attest (run (run {} ops) ops') id (.tx q)).2 ≠ .ok := by
  have h1 : a.2 ∈ (run {} ops).processed := (run_inv ops {} inv_init).accProcessed a ha
  have h2 := run_processed_mono ops' _ _ h1
  exact processed_tx_rejected _ id q (by rw [hq]; exact h2)

/-- **committed_tx_never_accepted_again.** The same for every COMMITTED outcome (accepted, failed
receipt, not verified): the transaction of the winning proof `p` is spent; after any further
history no proof `q` of the same transaction (any encoding / receipt) is accepted. -/
theorem committed_tx_never_accepted_again (s : St) (id : Nat) (p q : TxProof) (hq : q.hash = p.hash)
    (h : (attest s id (.tx p)).2 = .ok ∨ (attest s id (.tx p)).2 = .txFailed ∨
         (attest s id (.tx p)).2 = .notVerified)
    (ops' : List Op) (id' : Nat) :
    (attest (run (attest s id (.tx p)).1 ops') id' (.tx q)).2 ≠ .ok := by
  have h1 := marks_transaction s id p h
  have h2 := run_processed_mono ops' _ _ h1
  exact processed_tx_rejected _ id' q (by rw [hq]; exact h2)

/-- **used_tx_never_wins_again.** … and in terms of the vote: if evidence for a later message is
accepted, the winning proof's transaction is none of the transactions accepted before. -/
theorem used_tx_never_wins_again (ops ops' : List Op) (id : Nat) (snap : Libcons.Snapshot)
    (evs : List EvidenceV) (h : (attestEv (run (run {} ops) ops') id snap evs).2 = .ok) :
    ∃ p, winnerOf snap evs = .tx p ∧ p.hash ∉ (run {} ops).accepted.map (·.2) := by
  unfold attestEv at h
  obtain ⟨p, hw, -⟩ := accept_implies_success_receipt _ id _ h
  refine ⟨p, hw, ?_⟩
  intro hm
  rw [List.mem_map] at hm
  obtain ⟨a, ha, e⟩ := hm
  rw [hw] at h
  exact used_tx_never_accepted_again ops ops' a ha id p e.symm h

/-- **up_accept_iff_bytecode_then_ctor.** C07 first sentence for a compass upload: the call data is
accepted iff it EQUALS the bytecode followed by the constructor input — the whole of it. -/
theorem up_accept_iff_bytecode_then_ctor (m : QMsg) (bc ctor : Bytes) (cid : Nat)
    (ha : m.action = .up bc ctor cid) (data : Bytes) :
    verifyAgainstTx m data = .ok ↔ data = bc ++ ctor := by
  unfold verifyAgainstTx
  simp only [ha, isUp, ↓reduceIte, upData_up]
  constructor
  · intro h
    split at h
    · assumption
    · cases h
  · intro h
    simp [h]

/-- **up_trailing_bytes_rejected.** Nothing may follow the expected call data: a deployment
transaction whose input is the message's encoding followed by at least one more byte (e.g. other
constructor arguments appended to the bare bytecode of a message WITHOUT constructor input) does
not verify. -/
theorem up_trailing_bytes_rejected (m : QMsg) (bc ctor : Bytes) (cid : Nat)
    (ha : m.action = .up bc ctor cid) (extra : Bytes) (he : extra ≠ []) :
    verifyAgainstTx m (bc ++ ctor ++ extra) = .notVerified := by
  have hne : verifyAgainstTx m (bc ++ ctor ++ extra) ≠ .ok := by
    intro h
    have := (up_accept_iff_bytecode_then_ctor m bc ctor cid ha _).1 h
    have hl := congrArg List.length this
    simp only [List.length_append] at hl
    have : extra.length = 0 := by omega
    exact he (List.eq_nil_of_length_eq_zero this)
  cases h : verifyAgainstTx m (bc ++ ctor ++ extra) with
  | ok => exact absurd h hne
  | notVerified => rfl

/-- **up_bare_bytecode_nothing_follows.** The boundary shape: a message without constructor input
is delivered by the bare bytecode only. -/
theorem up_bare_bytecode_nothing_follows (m : QMsg) (bc : Bytes) (cid : Nat)
    (ha : m.action = .up bc [] cid) (data : Bytes) :
    verifyAgainstTx m data = .ok ↔ data = bc := by
  rw [up_accept_iff_bytecode_then_ctor m bc [] cid ha data, List.append_nil]

/-- **up_proper_prefix_rejected.** … and nothing may be missing: a proper prefix of the expected
call data (the bare bytecode of a message WITH constructor input, a truncated argument block) does
not verify. -/
theorem up_proper_prefix_rejected (m : QMsg) (bc ctor : Bytes) (cid : Nat)
    (ha : m.action = .up bc ctor cid) (data rest : Bytes) (hd : data ++ rest = bc ++ ctor)
    (hr : rest ≠ []) : verifyAgainstTx m data = .notVerified := by
  have hne : verifyAgainstTx m data ≠ .ok := by
    intro h
    have h1 := (up_accept_iff_bytecode_then_ctor m bc ctor cid ha _).1 h
    rw [← h1] at hd
    have hl := congrArg List.length hd
    simp only [List.length_append] at hl
    have : rest.length = 0 := by omega
    exact hr (List.eq_nil_of_length_eq_zero this)
  cases h : verifyAgainstTx m data with
  | ok => exact absurd h hne
  | notVerified => rfl

/-- **up_other_calldata_no_effects.** Router level: for a stored compass upload, evidence whose
winning transaction carries anything but `bytecode ++ constructor input` is not accepted, hence
(`effects_only_on_accept`) no contract is recorded or activated, no snapshot goes live and no
handover is scheduled. -/
theorem up_other_calldata_no_effects (s : St) (id : Nat) (m : QMsg) (bc ctor : Bytes) (cid : Nat)
    (hm : findMsg s.queue id = some m) (ha : m.action = .up bc ctor cid) (p : TxProof)
    (hd : p.data ≠ bc ++ ctor) :
    (attest s id (.tx p)).2 ≠ .ok ∧ (attest s id (.tx p)).1.effects = s.effects ∧
    (attest s id (.tx p)).1.chain = s.chain := by
  have hne : (attest s id (.tx p)).2 ≠ .ok := by
    intro h
    obtain ⟨m', p', hm', hw, hex⟩ := accept_implies_exact_calldata s id _ h
    rw [hm] at hm'
    injection hm' with hm'
    subst hm'
    injection hw with hw
    subst hw
    exact hd ((up_accept_iff_bytecode_then_ctor m bc ctor cid ha _).1 (exact_verify_ok m _ hex))
  have := effects_only_on_accept s id (.tx p) hne
  exact ⟨hne, this.1, this.2.1⟩

/-! ## non-vacuity -/

def exVs : GoValset := { validators := [[48, 120, 97, 97]], powers := [4294967296], valsetId := 3 }
def exSigs : List SignData := [{ ext := [48, 120, 97, 97], v := 27, r := 11, s := 12 }, { ext := [48, 120, 98, 98], v := 28, r := 13, s := 14 }]
def exF : SLCFields :=
  { contract := 0x11, payload := [1, 2, 3], fees := some { relayer := 5, community := 6, security := 7 },
    sender := 0x22, id := 9, turnstone := 5, deadline := 1700000000, relayer := 0x33 }
def exM : QMsg := { id := 9, action := .slc exF, valset := exVs, sigs := exSigs }
/-- call data a relayer built when only the first signature was known -/
def exData : Bytes :=
  calldata selSubmitLogicCallD SLC.deliveredTys
    [callV (0x11, [1, 2, 3]), feeV { relayer := 5, community := 6, security := 7 } 0x22, .word 9,
     .word 1700000000, .word 0x33] (consensusV exVs (exSigs.take 1))
def exS : St := { queue := [exM], nextId := 9 }
def exP : TxProof := { hash := 77, data := exData, receipt := some 1, deployLog := false }

set_option maxRecDepth 100000 in
example : (attest exS 9 (.tx exP)).2 = .ok := by decide
-- early evidence: the same message before its fees were set is attested against the default fees
def exMNil : QMsg := { exM with action := .slc { exF with fees := none } }
def exDataNil : Bytes :=
  calldata selSubmitLogicCallD SLC.deliveredTys
    [callV (0x11, [1, 2, 3]), feeV defaultFees 0x22, .word 9, .word 1700000000, .word 0x33]
    (consensusV exVs (exSigs.take 2))
set_option maxRecDepth 100000 in
example : (attest { queue := [exMNil], nextId := 9 } 9 (.tx { exP with data := exDataNil })).2 = .ok := by decide
set_option maxRecDepth 100000 in
example : (attest { queue := [exMNil], nextId := 9 } 9 (.tx exP)).2 = .notVerified := by decide
set_option maxRecDepth 100000 in
example : (attest exS 9 (.tx { exP with receipt := some 0 })).2 = .txFailed := by decide
set_option maxRecDepth 100000 in
example : (attest exS 9 (.tx { exP with data := exData ++ [0] })).2 = .notVerified := by decide
set_option maxRecDepth 100000 in
example : (attest (attest exS 9 (.tx exP)).1 9 (.tx exP)).2 = .unknownMsg := by decide
set_option maxRecDepth 100000 in
example : (run {} [.enqueue (.slc { exF with id := 1 }) exVs exSigs, .enqueue (.slc { exF with id := 2 }) exVs exSigs]).queue.map (·.id) = [1, 2] := by
  decide

-- four validators with equal shares: 1 success + 3 failed receipts for the same transaction
def exSnap : Libcons.Snapshot := { vals := [(1, 10), (2, 10), (3, 10), (4, 10)], total := 40 }
def exFail : TxProof := { exP with receipt := some 0 }
set_option maxRecDepth 100000 in
example : (attestEv exS 9 exSnap [(1, .tx exP), (2, .tx exFail), (3, .tx exFail), (4, .tx exFail)]).2 = .txFailed := by
  decide
set_option maxRecDepth 100000 in
example : (attestEv exS 9 exSnap [(1, .tx exP), (2, .tx exP), (3, .tx exFail), (4, .tx exFail)]).2 = .noop := by
  decide
set_option maxRecDepth 100000 in
example : (attestEv exS 9 exSnap [(4, .tx exFail), (1, .tx exP), (2, .tx exP), (3, .tx exP)]).2 = .ok := by
  decide
set_option maxRecDepth 100000 in
example : (attestEv exS 9 exSnap [(1, .tx exP), (2, .tx { exP with variant := 1 }), (3, .tx exP)]).2 = .noop := by
  decide

-- the same transaction (hash 77) reported in the EIP-4844 network form (enc 1) wins for message 9 …
def exPNet : TxProof := { exP with enc := 1 }
def exM2 : QMsg := { exM with id := 10, action := .slc { exF with id := 10 } }
def exS2 : St := { queue := [exM, exM2], nextId := 10 }
set_option maxRecDepth 100000 in
example : (attestEv exS2 9 exSnap [(1, .tx exPNet), (2, .tx exPNet), (3, .tx exPNet)]).2 = .ok := by decide
-- … and is spent: presented again in the canonical encoding (or any other) it is refused
set_option maxRecDepth 100000 in
example : (attestEv (attestEv exS2 9 exSnap [(1, .tx exPNet), (2, .tx exPNet), (3, .tx exPNet)]).1 10 exSnap
    [(1, .tx exP), (2, .tx exP), (3, .tx exP)]).2 = .alreadyProcessed := by decide
set_option maxRecDepth 100000 in
example : (attestEv (attestEv exS2 9 exSnap [(1, .tx exPNet), (2, .tx exPNet), (3, .tx exPNet)]).1 10 exSnap
    [(1, .tx { exP with enc := 2 }), (2, .tx { exP with enc := 2 }), (3, .tx { exP with enc := 2 })]).2
      = .alreadyProcessed := by decide
-- validators that report the same transaction in different encodings do not form one group
set_option maxRecDepth 100000 in
example : (attestEv exS2 9 exSnap [(1, .tx exPNet), (2, .tx exPNet), (3, .tx exP), (4, .tx exP)]).2 = .noop := by
  decide

-- compass upload WITHOUT constructor input: only the bare bytecode is its encoding
def exUp : QMsg := { id := 4, action := .up [0x60, 0x02, 0x11] [] 2, valset := exVs, sigs := [] }
def exUpS : St :=
  { queue := [exUp], nextId := 4,
    chain := { deployments := [(2, .inFlight)], activeContract := 1, hasSnapshot := true, snapshots := [1],
               currentSnapshot := 1 } }
example : (attest exUpS 4 (.tx { exP with data := [0x60, 0x02, 0x11] })).2 = .ok := by decide
example : (attest exUpS 4 (.tx { exP with data := [0x60, 0x02, 0x11, 0xaa, 0xbb] })).2 = .notVerified := by decide
example : (attest exUpS 4 (.tx { exP with data := [0x60, 0x02] })).2 = .notVerified := by decide
-- … and WITH constructor input the bare bytecode is not
def exUpC : QMsg := { exUp with action := .up [0x60, 0x02, 0x11] [0xaa, 0xbb] 2 }
example : (attest { exUpS with queue := [exUpC] } 4 (.tx { exP with data := [0x60, 0x02, 0x11] })).2 = .notVerified := by
  decide
example : (attest { exUpS with queue := [exUpC] } 4 (.tx { exP with data := [0x60, 0x02, 0x11, 0xaa, 0xbb] })).2 = .ok := by
  decide

end Paloma.Attest
